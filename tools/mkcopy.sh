#!/bin/sh
# usage: tools/mkcopy.sh <dir>   — private working copy of /verif (with warm build output) plus a git
# worktree of /repo at <dir>/repo, wired so that <dir>/check builds against that worktree.
set -e
D="$1"
[ -n "$D" ] || { echo "usage: $0 <dir>"; exit 2; }
mkdir -p "$D"
rsync -a --exclude .git --exclude work --exclude replays /verif/ "$D"/
git -C /repo worktree add --detach "$D/repo" HEAD >/dev/null
sed -i "s|path = \"/repo\"|path = \"$D/repo\"|" "$D/harness/Cargo.toml"
echo "$D/repo" > "$D/.verif_repo"
( cd "$D" && git init -q . && git add -A >/dev/null 2>&1 && git commit -qm base >/dev/null 2>&1 || true )
echo "copy ready: $D (repo worktree: $D/repo)"
