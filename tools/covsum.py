#!/usr/bin/env python3
"""Summarise an lcov file for one property: for every source file the property is anchored in (properties.jsonl), lines
instrumented / hit by the harness run, functions never entered, and the uncovered line ranges (merged)."""
import json, sys, re, os
pid, lcov, repo = sys.argv[1:4]
anch = []
for l in open(os.path.join(os.path.dirname(__file__), '..', 'properties.jsonl')):
    p = json.loads(l)
    if p['id'] == pid: anch = p['anchors']['files']
files = {}
cur = None
for l in open(lcov):
    l = l.strip()
    if l.startswith('SF:'):
        cur = files.setdefault(os.path.relpath(l[3:], repo) if l[3:].startswith(repo) else l[3:], dict(lines={}, fns={}))
    elif l.startswith('DA:') and cur is not None:
        n, c = l[3:].split(',')[:2]; cur['lines'][int(n)] = cur['lines'].get(int(n), 0) + int(c)
    elif l.startswith('FNDA:') and cur is not None:
        c, name = l[5:].split(',', 1); cur['fns'][name] = cur['fns'].get(name, 0) + int(c)
def ranges(ns):
    out = []; s = p = None
    for n in sorted(ns):
        if s is None: s = p = n
        elif n <= p + 2: p = n
        else: out.append((s, p)); s = p = n
    if s is not None: out.append((s, p))
    return out
tot = hit = 0
rows = []
for f in anch:
    d = files.get(f)
    if not d: rows.append(f'{f}: not instrumented / not linked'); continue
    L = d['lines']; h = sum(1 for v in L.values() if v > 0); tot += len(L); hit += h
    # skip #[cfg(test)] tail: lines after a `mod tests` marker
    src = open(os.path.join(repo, f), encoding='utf-8', errors='replace').read().split('\n')
    cut = next((i + 1 for i, s in enumerate(src) if re.match(r'\s*#\[cfg\(test\)\]', s)), 10**9)
    miss = [n for n, v in L.items() if v == 0 and n < cut]
    rows.append(f'{f}: {h}/{len(L)} lines hit; uncovered: ' + ' '.join(f'{a}-{b}' if a != b else str(a) for a, b in ranges(miss)[:60]))
print(f'{pid}: anchored files {len(anch)}, lines hit {hit}/{tot} ({100.0*hit/max(tot,1):.1f}%)')
print('\n'.join(rows))
