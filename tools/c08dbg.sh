#!/bin/bash
# usage: tools/c08dbg.sh '<spec in model syntax>' <nsteps>  — compare the snapshot integers of implementation and model after <nsteps> ops
W=$(cd $(dirname $0)/.. && pwd)
SPEC="$1"; N="$2"
HEAD=$(echo "$SPEC" | tr ';' '\n' | grep -E '^(D|L),' | tr '\n' ';')
OPS=$(echo "$SPEC" | tr ';' '\n' | grep -vE '^(D|L),' | head -n $N | tr '\n' ';')
S="${HEAD}${OPS%;}"
echo "spec: $S"
echo "undo dump $S" | $W/lean/.lake/build/bin/icydrv_C08 | tr ' ' '\n' > /tmp/c08dbg_m.txt
# strip the font identities for the harness (it recomputes them)
VERIF_C08_VERBOSE=1 $W/harness/target/debug/harness c08 --seed 1 --tier quick --out /tmp/c08dbg_out --inputs /dev/null --replay "$S" 2>&1 | grep "^model ints" | tail -1 | sed 's/model ints \[//; s/\]//; s/, /\n/g' > /tmp/c08dbg_i.txt
paste /tmp/c08dbg_i.txt /tmp/c08dbg_m.txt | awk '{ if ($1 != $2) print NR": impl="$1" model="$2 }' | head -20
wc -l /tmp/c08dbg_i.txt /tmp/c08dbg_m.txt | head -2
