PROP = dict(
    drivers=['Codec'],
        gens=['codec'],
        lake=['IcyVerif.Props.C18'],
        ns='IcyVerif.C18',
        theorems=['attr_dec_enc', 'attr_enc_dec', 'attr_enc_dec_bold', 'attr_enc_dec_exact', 'attr_dec_expressible',
                  'pinned_unlimited_defect', 'pinned_defect_exact',
                  'cp437_rt', 'atascii_rt', 'typed_rt', 'typed_code', 'typed_rt_list', 'petscii_table_rt'],
        harness='c18',
        design='DESIGN.md §4 C18',
        thorough_exhaustive=True,
        technique='Lean 4 proof by kernel evaluation (decide +kernel) over the COMPLETE finite domains: 256 attribute bytes x 3 '
                  'ice modes, the 16x16xboldxblink grid lifted to every attribute value by a bound lemma, the 256-entry CP437 / '
                  'ATASCII / Viewdata / Mode 7 tables and the 92-pair PETSCII table (list traversal), 63 typed characters x 5 '
                  'converters. Tables, attribute bit constants and codec masks are regenerated from the Rust source on every run; '
                  'the hand-written codec skeleton is tied by an EXHAUSTIVE differential run against the real crate (finite '
                  'domain, so the tie is as strong as the proof)',
        rule='cases (both tiers exhaustive on the property domain): from_u8/as_u8 for 256 bytes x 3 modes; as_u8 for all '
             '(fg 0..15, bg 0..15, blink, bold) x 3 modes plus seeded wide colours / arbitrary flag words; convert_to_unicode '
             'for codes 0..0x2FF and convert_from_unicode for code points 0..0x2FF plus every table entry plus a seeded '
             'surrogate-free sample up to U+10FFFF, for the 5 converters; distinct_nontrivial = distinct (kind, mode/converter, '
             'value) triples',
        modelled='TextAttribute::from_u8, as_u8, is_bold, is_blinking, set_is_blinking, Default; IceMode::from_byte; '
                 'convert_to_unicode / convert_from_unicode of ascii::CP437Converter, atascii::CharConverter, '
                 'petscii::CharConverter (incl. the `as u8` truncation of the lookup key), viewdata::CharConverter, '
                 'mode7::CharConverter (incl. the space special case); reverse HashMaps as last-index-wins lookups',
        not_modelled='the parsers print_char paths of these emulations (C01/C15); font_page argument of convert_from_unicode '
                     '(ignored by all five converters); HashMap internals (insertion order semantics assumed: later insert '
                     'overwrites)',
    )
