PROP = dict(
    drivers=['Undo'],
        gens=['undo'],
        lake=['IcyVerif.Props.C08'],
        ns='IcyVerif.C08',
        theorems=['stack_discipline', 'stack_discipline_fresh', 'api_history_discipline', 'call_steps_good', 'inverse_law', 'new_edit_clears_redo',
                  'begin_atomic_clears_redo', 'atomic_group_folds', 'atomic_group_empty', 'atomic_group_undoable',
                  'inverse_setChar_partial', 'inverse_swapChar_partial', 'inverse_addLayer', 'inverse_removeLayer',
                  'inverse_raiseLayer', 'inverse_lowerLayer', 'inverse_toggleVisibility', 'inverse_moveLayer',
                  'inverse_setLayerSize', 'inverse_resizeBuffer', 'inverse_deleteRow', 'inverse_insertRow', 'inverse_deleteColumn',
                  'inverse_insertColumn', 'inverse_scrollUp', 'inverse_scrollDown', 'inverse_layerChange_wholesale_partial', 'inverse_clearLayer', 'inverse_crop',
                  'inverse_setSelection', 'inverse_selectNothing', 'inverse_deselect'],
        harness='c08',
        design='DESIGN.md §4 C08, Appendix B',
        technique='Lean 4 proof: (1) framework theorem stack_discipline by induction over the history with both stacks '
                  '(invariant: each stack is a chain of records linked to the document classes below/above them; links are '
                  'closed under undo/redo from ANY observationally equal document, so self-mutating records are covered; '
                  'atomic groups compose links, guards nest), fully general over histories incl. interleaved undo/redo; '
                  '(2) the per-record inverse law inverse_<record> at every document (hidden rows, locked/hidden layers, '
                  'out-of-range indices) for the records listed; (3) api_history_discipline: the end-to-end statement for every '
                  'history over 27 public operations whose step lists (Call.steps) are executed by the driver through the very '
                  'function the theorem is about; over an executable model of EditState transcribed from '
                  'src/editor/*.rs and src/layer.rs whose constants and record inventory are regenerated from the source. '
                  'Tie: differential run of the real EditState against the model after every step of seeded and exhaustive '
                  'short histories. Oracle (independent of the model): after EVERY undo/redo step of the history and of the '
                  'appended undo-all/redo-all/undo/new-edit tail the real document must equal the snapshot recorded on the way '
                  'forward, undo/redo must not fail or panic, a new edit must empty the redo stack.',
        rule='cases: exhaustive histories of length 2 (quick) / 3 (thorough) over a 51-op alphabet with boundary parameters on '
             '3 documents; seeded histories of length 1..40 over the 35 modelled operations (model tie + oracle) and over all 80 '
             'public operations incl. fonts/palette/SAUCE/paste (oracle) on documents with 1..3 layers (alpha, offset, hidden, '
             'locked, position-locked, alpha-locked, hidden content, unmaterialised rows); edits that return Err or panic are '
             'dropped from the history (the property quantifies over successful edits) and sent to the model as must-fail '
             'cases; distinct_nontrivial = distinct sanitised (document, history) pairs; failures are minimised (ops, then '
             'document) and keyed <record type of the first deviating undo/redo step>:<kind>:<layer-state features without '
             'which the minimised failure disappears>',
        modelled='EditState stacks: push_undo_action, push_plain_undo, begin_atomic_undo / AtomicUndoGuard drop (nesting), '
                 'UndoState::undo/redo; records AtomicUndo, UndoSetChar, UndoSwapChar, AddLayer, RemoveLayer, RaiseLayer, '
                 'LowerLayer, ToggleLayerVisibility, MoveLayer, SetLayerSize, ResizeBuffer, UndoLayerChange, Crop, DeleteRow, '
                 'InsertRow, DeleteColumn, InsertColumn, UndoScrollWholeLayerUp/Down, ClearLayer, SetSelection, SelectNothing, '
                 'Deselect; operations set_char (+mirror), swap_char, add_new_layer, remove/raise/lower/duplicate/clear_layer, '
                 'toggle_layer_visibility, move_layer, set_layer_size, resize_buffer (both), crop, crop_rect, delete/insert '
                 'row/column, set_selection, clear_selection, deselect, flip_x, flip_y, make_layer_transparent, whole-layer '
                 'scroll_area_up/down; Layer::get_char/set_char/swap_char/from_layer/stamp/set_offset; document state = '
                 'buffer size + per layer size, offset, lock/visibility/alpha flags and every stored cell incl. hidden rows',
        not_modelled='covered by correspondence/oracle only (in the model and tied, no full inverse_ lemma): UndoLayerChange '
                     'beyond inverse_layerChange_wholesale_partial (stamp branch; from_layer snapshots with hidden content — false '
                     'on the pinned tree, see known_findings), UndoSetChar/UndoSwapChar on alpha-locked layers (false, see '
                     'known_findings), mirrored set_char on the centre column (the two records are only correct as a group), '
                     'flip_x/flip_y/make_layer_transparent as operations; covered by the oracle only (not in the model): '
                     'MergeLayerDown/anchor_layer, Paste, AddFloatingLayer, RotateLayer, stamp_layer_down, justify/center/erase/'
                     'partial scroll area operations, selection mask records (AddSelectionToMask, InverseSelection, '
                     'SetSelectionMask), UpdateLayerProperties, ReverseCaretPosition, ReversedUndo, palette/ice/font/SAUCE '
                     'records, layer title/role/mode/colour/default_font_page, sixels, hyperlinks; flip tables (the model '
                     'documents only use characters without a mirror glyph)',
        harness_timeout=3000,
    )
