PROP = dict(
    drivers=['Undo'],
        gens=['undo'],
        lake=['IcyVerif.Props.C08'],
        ns='IcyVerif.C08',
        theorems=['stack_discipline', 'stack_discipline_fresh', 'api_history_discipline', 'call_steps_good', 'inverse_law', 'new_edit_clears_redo',
                  'begin_atomic_clears_redo', 'atomic_group_folds', 'atomic_group_empty', 'atomic_group_undoable',
                  'inverse_setChar', 'inverse_setChar_mirror_centre', 'inverse_swapChar', 'inverse_addLayer', 'inverse_removeLayer',
                  'inverse_raiseLayer', 'inverse_lowerLayer', 'inverse_toggleVisibility', 'inverse_moveLayer',
                  'inverse_setLayerSize', 'inverse_resizeBuffer', 'inverse_deleteRow', 'inverse_insertRow', 'inverse_deleteColumn',
                  'inverse_insertColumn', 'inverse_scrollUp', 'inverse_scrollDown', 'inverse_layerChange', 'inverse_clearLayer', 'inverse_crop',
                  'inverse_setSelection', 'inverse_selectNothing', 'inverse_deselect', 'inverse_setSelectionMask',
                  'inverse_addSelectionToMask', 'inverse_inverseSelection', 'inverse_mergeLayerDown', 'inverse_paste',
                  'inverse_addFloatingLayer', 'inverse_rotateLayer', 'inverse_updateLayerProps', 'inverse_switchToFontPage',
                  'inverse_setFont', 'inverse_addFont', 'inverse_removeFont', 'inverse_changeFontSlot', 'inverse_replaceFontUsage',
                  'inverse_switchPalettte', 'inverse_setSauceData', 'inverse_setIceMode', 'inverse_switchPalette',
                  'inverse_reverseCaret', 'inverse_reversed'],
        harness='c08',
        design='DESIGN.md §4 C08, Appendix B',
        technique='Lean 4 proof: (1) framework theorem stack_discipline by induction over the history with both stacks '
                  '(invariant: each stack is a chain of records linked to the document classes below/above them; links are '
                  'closed under undo/redo from ANY observationally equal document, so self-mutating records are covered; '
                  'atomic groups compose links, guards nest), fully general over histories incl. interleaved undo/redo; '
                  '(2) the per-record inverse law inverse_<record> at every document (hidden rows, locked/hidden/alpha-locked '
                  'layers, out-of-range indices, any font table) for ALL 43 record types of the model; for UndoLayerChange the law is '
                  'proved from closed forms of Layer::from_layer and Layer::stamp (induction over the nested loops) plus a frame '
                  'property (the edit stays inside its snapshot area) proved for each of the 12 operations that build the record; '
                  '(3) api_history_discipline: the end-to-end statement for every history over the 66 operations of Call (every public editing operation except paste_sixel) whose step '
                  'lists (Call.steps) are executed by the driver through the very function the theorem is about; over an '
                  'executable model of EditState transcribed from src/editor/*.rs, src/layer.rs, src/selection_mask.rs, '
                  'src/overlay_mask.rs whose constants, tables and record inventory are regenerated from the source. '
                  'Tie: differential run of the real EditState against the model after every step of seeded and exhaustive '
                  'short histories. Oracle (independent of the model): after EVERY undo/redo step of the history and of the '
                  'appended undo-all/redo-all/undo/new-edit tail the real document must equal the snapshot recorded on the way '
                  'forward, undo/redo must not fail or panic, a new edit must empty the redo stack.',
        rule='cases: exhaustive histories of length 2 (quick) / 3 (thorough) over a reduced alphabet with boundary parameters on '
             'fixed documents; seeded histories of length 1..40 over all public operations (model tie + oracle) on documents with '
             '1..3 layers (alpha, offset incl. negative / partly outside the buffer, hidden, locked, position-locked, alpha-locked, '
             'hidden content, unmaterialised rows, empty layers), all four font modes; edits that return Err or panic are '
             'dropped from the history (the property quantifies over successful edits) and sent to the model as must-fail '
             'cases; histories containing a step outside the model (flips with a font that has mirror pairs, Shape::Lines '
             'selections added to the mask, replace_font_usage of a default font page, paste_sixel) are checked by the oracle '
             'only; distinct_nontrivial = distinct sanitised (document, history) pairs; failures are minimised (ops, then '
             'document) and keyed <record type of the first deviating undo/redo step>:<kind>:<layer-state features without '
             'which the minimised failure disappears>',
        modelled='EditState stacks: push_undo_action, push_plain_undo, begin_atomic_undo / AtomicUndoGuard drop and end() (nesting), '
                 'UndoState::undo/redo; ALL record types of undo_operations.rs except ClearLayerOperation (never constructed): AtomicUndo, '
                 'UndoSetChar, UndoSwapChar, AddLayer, RemoveLayer, RaiseLayer, LowerLayer, MergeLayerDown, ToggleLayerVisibility, '
                 'MoveLayer, SetLayerSize, Paste, AddFloatingLayer, ResizeBuffer, UndoLayerChange, Crop, DeleteRow, InsertRow, '
                 'DeleteColumn, InsertColumn, UndoScrollWholeLayerUp/Down, RotateLayer, ReversedUndo, ReverseCaretPosition, '
                 'ClearLayer, Deselect, SelectNothing, SetSelection, SetSelectionMask, AddSelectionToMask, InverseSelection, '
                 'SwitchPalettte, SetSauceData, SwitchToFontPage, SetFont, AddFont, SwitchPalette, SetIceMode, ReplaceFontUsage, '
                 'RemoveFont, ChangeFontSlot, UpdateLayerProperties; operations set_char (+mirror mode), swap_char, add_new_layer, '
                 'remove/raise/lower/duplicate/clear/merge_down/anchor/rotate/stamp_down layer, toggle_layer_visibility, move_layer, '
                 'set_layer_size, update_layer_properties, paste_clipboard_data, add_floating_layer, resize_buffer (both), crop, '
                 'crop_rect, delete/insert row/column, set_selection, clear_selection, deselect, add_selection_to_mask, '
                 'inverse_selection, erase_selection, erase_row/column (+_to_start/_to_end), flip_x, flip_y, justify_left/right, '
                 'center, justify_line_left/right, center_line, scroll_area_up/down/left/right (whole-layer and partial), '
                 'make_layer_transparent, switch_to_font_page, set_font/set_ansi_font/set_sauce_font, add_font/add_ansi_font, '
                 'replace_font_usage, change_font_slot, remove_font, set_ice_mode, set_palette_mode, switch_to_palette, update_sauce_data, '
                 'undo_caret_position, push_reverse_undo, enumerate_selections, get_clipboard_data + paste; Layer::get_char/set_char/restore_char/swap_char/from_layer/stamp/'
                 'set_offset/from_clipboard_data, SelectionMask/OverlayMask; document state = buffer size, font table (slot -> font '
                 'identity), font/palette/ice mode, palette, SAUCE identity + per layer size, offset, title, role, lock/visibility/'
                 'alpha flags and every stored cell incl. hidden rows',
        not_modelled='in the model and tied, record law proved, but part of the computation of the operation is not interpreted '
                     '(histories that reach it are checked by the oracle only): flip tables of fonts that have mirror pairs '
                     '(flip_x/flip_y are modelled for fonts without such pairs), AddSelectionToMask with Shape::Lines selections, '
                     'replace_font_usage / change_font_slot / remove_font when a layer\'s default_font_page is the replaced page, '
                     'make_solid_color (cells with TRANSPARENT_COLOR) in merge_layer_down; not in the model at all: paste_sixel and '
                     'sixels (Layer::set_char drops a sixel it writes over and no record brings it back — sixels are not in the '
                     'document state the property lists, so this is not reported), hyperlinks, layer mode/colour/transparency, '
                     'preview offsets, the caret attribute changed by set_ice_mode, glyph data of fonts (a font is an identity), '
                     'SAUCE fields (an identity), palette title; the closures given to enumerate_selections are the two of the harness',
        harness_timeout=3000,
    )
