PROP = dict(
    drivers=['Palette', 'PalStream'],
        gens=['palette', 'palcolor', 'palfile', 'palstream', 'xb', 'binfmt'],
        lake=['IcyVerif.Props.C16', 'IcyVerif.Props.C16b'],
        ns='IcyVerif.C16',
        theorems=['insert_resolves', 'insert_stable', 'insert_existing', 'insert_new', 'set_resolves', 'set_stable',
                  'history_stable', 'inserted_index_survives', 'trace_final',
                  'six_bit', 'asVec63_from63_eq', 'from63_whole_triples', 'six_bit_idempotent', 'ega_roundtrip', 'ega_save_idempotent',
                  'export_import', 'unflattened_multiline_injects', 'pinned_gpl_empty_description',
                  'tracked_resolves', 'select_resolves', 'select_resolves_rgb', 'insert_only_stable', 'stream_history_stable',
                  'osc4_changes_exactly', 'sgr_never_redefines', 'csi_t_never_redefines', 'osc_only_redefines', 'tnd_only_inserts',
                  'sgr_256_resolves', 'sgr_rgb_resolves', 'cell_keeps_colour', 'tnd_palette_nodup', 'fill_to_16_stable',
                  'resize_stable', 'import_by_extension', 'color_hex_roundtrip',
                  'file_block_idempotent', 'file_block_six_bit', 'file_decoder_is_from63',
                  'color_eq_ignores_name', 'named_insert_refines', 'named_insert_existing', 'named_insert_new', 'named_insert_resolves',
                  'named_history_refines', 'named_is_default', 'named_colors_equal', 'loaded_palette_insert_existing',
                  'file_palette_roundtrip', 'file_palette_roundtrip_nosauce_partial',
                  'xb_writer_palette_block', 'xb_loader_palette_block', 'xb_palette_any_picture'],
        harness='c16',
        design='DESIGN.md §4 C16',
        technique='Lean 4 proof: index laws of insert_color / set_color / push / get_rgb by induction on the palette list and '
                  'lifted to every operation history by induction on the history; 6-bit codec by kernel evaluation over all 64 '
                  'values per channel lifted to every byte list by functional induction on from_63 (EGA slot variant by '
                  'induction on the slot list, slot table from the source); export->import of the five text formats for '
                  'arbitrary metadata strings by induction on the colour list over a model whose templates, magic lines and '
                  'regex literals are regenerated from src/palette_handling.rs and whose regex matchers are hand-written and '
                  'tied by differential correspondence (exported, mutated, cross-format and random text). CALL SITES: every '
                  'palette-relevant byte sequence of the ANSI parser (SGR incl. 38/48;5;n and 38/48;2;r;g;b, CSI t, OSC 4, RIS/FF, '
                  'printed characters) and the Tundra colour records are decoded into a list of primitive operations on the state '
                  '(palette, caret fg index, caret bg index); the invariant "an index handed out for a colour resolves to that '
                  'colour until an OSC 4 names that very index" is proved for one operation and lifted to every history by '
                  'induction (tracked_resolves), stability of valid indices and growth bounds likewise; that SGR / CSI t / Tundra can '
                  'only insert holds by construction (their decoders produce a type without the redefinition constructor), that OSC '
                  'only redefines entries 0..=255 by induction over the regex matches. The SGR arm table, XTERM_256_PALETTE, '
                  'COLOR_OFFSETS, the caret defaults and the Tundra command codes are regenerated from the source; the text of '
                  'parse_extended_colors, select_24bit_color, the CSI t dispatch, parse_osc, parse_next_number and the CSI digit loop '
                  'is pinned by the translator (a change = broken obligation). The OSC regex is a hand-written matcher tied by the '
                  'correspondence run. Whole-file palette blocks: the C05 whole-file model (Model/BinFormats.lean) is driven for '
                  'XBin/IDF/ADF/Tundra files and its from_63/as_vec_63 are proved idempotent for every byte block and equal to this '
                  'property\'s from63. COLOURS AS STORED: a second model (Model/PaletteNamed.lean) runs insert_color / set_color / push / '
                  'get_rgb / is_default / are_colors_equal on Color { name, r, g, b }, comparing exactly the fields the source compares '
                  '(Gen/PalColor.lean lists the fields of `impl PartialEq for Color` - or of a derived one - and of the search in '
                  'insert_color, regenerated every run); it is proved equal to the RGB model after erasing names for one operation and, by '
                  'induction on the history, for every history (named_history_refines), so every index law holds for palettes whose '
                  'entries carry names (loaded from ICE / GPL files or built through the API) and for named arguments; the proof needs '
                  'both field lists to be [r, g, b] and breaks when a name starts to take part. WHOLE FILES WRITTEN FROM A PICTURE: '
                  'file_palette_roundtrip (all sixteen entries come back, for every representable picture incl. two-font XBin) is a corollary '
                  'of the C05 round-trip theorems; xb_writer_palette_block / xb_loader_palette_block / xb_palette_any_picture are proved by '
                  'case analysis of the model writer / loader for EVERY picture and EVERY file (nothing but the palette decides the block).',
        rule='cases: seeded insert/set/lookup/push histories on palettes of 0..=300 colours (every answer + final palette '
             'compared); from_63 / as_vec_63 / from_ega_data / to_ega_data on all 64 values per channel (thorough: all 64^3 '
             'triples), raw bytes, ragged and short inputs; export of 0..=256 colours x {empty, ASCII, digit-laden, hex-laden, '
             'comment-like, blank, CR, multi-line, non-ASCII} title/author/description/colour names x 5 formats (bytes hashed), '
             'import of every exported file, of mutated files, of each file as every other format, through import_palette by '
             'extension (any letter case, unknown extensions), of invalid UTF-8 and of random text; Color::to_hex/from_hex. '
             'STREAMS through the real ansi::Parser on a real Buffer, compared after EVERY sequence (ok/err, caret fg/bg index, '
             'palette length, RGB both indices resolve to; final palette hashed): fixed witnesses, every xterm colour number '
             'selected twice with an OSC 4 redefinition of the index it was given in between, random streams (1..120 sequences) '
             'from palettes of 0/1/2/15/16/17/40/254..257/300 colours with duplicates and xterm/DOS colours already present, OSC 4 '
             'aimed at the index the implementation just handed out / beyond the end / 255 / 256 / large, several pairs, malformed '
             'specs (one-digit channels, missing index, selector as index, leading `;`, 2^32, other selectors, hyperlinks), '
             'SGR with several selections and attribute-only parameters, truncated and out-of-range 38/48 forms, saturating '
             'parameters, CSI t with 3/4/5 parameters, values above 255 and selectors 2..8, palette growth past 16 and 256, '
             'exhaustive sequences of length 2 over 14 and length 3 over 9 (thorough: 14; length 4 over 10) sequence shapes. '
             'Oracle on the implementation alone: selected index resolves to the requested RGB; nothing but OSC 4 changes a '
             'valid index; OSC 4 changes exactly the named entries; a printed cell holds the caret indices. TUNDRA: hand-built '
             'files (colour records fg/bg/both, index reuse, jumps, truncation, >256 colours) loaded by the real loader: palette, '
             'every stored cell\'s indices; oracle: every cell resolves to the RGB of its record, no colour twice, entry 0 black, '
             'load->save->load shows the same colours. FILES: 16-colour six-bit palettes covering all 64 values in every channel '
             'x {xb, idf, adf} saved and loaded by the real crate, raw palette blocks (values above 63) patched into engine-written '
             'files, load->save->load. NAMED COLOURS (c16n.rs): histories of insert / set / push / lookup / is_default with named and '
             'unnamed colours on palettes with no / some / all entries named (every entry re-inserted unnamed, under its own and '
             'under another name; the same RGB twice under different names; the DOS palette with names), and on palettes LOADED from '
             'exported ICE / GPL / Hex / PAL / TXT files and hand-written ICE / GPL files with names: every answer and the final '
             'colours WITH names compared; oracle on the implementation alone: index laws on (RGB, name) entries, is_default / '
             'are_colors_equal see RGB only, and the whole history answers like the same history with every name stripped. WHOLE '
             'FILES WRITTEN BY THE MODEL TOO (c16f.rs, `palstream savepal`): {xb, adf, idf, tnd} x {1, 2 fonts} x {default, custom low '
             'half, custom high half, custom all, 8 / 15 / 17 / 32 colours} x {six-bit exact, arbitrary 8-bit} x {raw, compressed, '
             'SAUCE}: file length + hash + loaded palette compared with BinFormats.save / fromBytes; oracle: all sixteen entries '
             'read back = saved at 6-bit precision (Tundra: every cell shows the colours it was saved with). Palette files with '
             'repeated neighbouring colours in all five formats. HELPERS: resize / fill_to_16 / is_default / from_slice / get_color / clear; '
             'distinct_nontrivial = distinct replay inputs',
        modelled='Palette::{from, get_rgb, insert_color, insert_color_rgb, set_color, set_color_rgb, push, as_vec, from_63, '
                 'as_vec_63, export_palette, load_palette (Hex, Pal, Gpl, Ice, Txt), import_palette, resize, fill_to_16, '
                 'is_default}, Color::{to_hex, from_hex}, artworx::{from_ega_data, to_ega_data}; str::lines; the regexes '
                 'HEX/PAL/GPL_COLOR/ICE_COLOR/TXT_COLOR and the eight metadata regexes as hand-written matchers over code points '
                 '(\\s = Unicode White_Space); ansi::Parser as far as the palette and the caret colours go: the CSI parameter loop '
                 '(parse_next_number), select_graphic_rendition (all arms, table from the source), parse_extended_colors, '
                 'select_24bit_color and the 3/4-parameter dispatch of CSI t, parse_osc (selector loop, OSC_PALETTE as a '
                 'hand-written matcher, index limit, set_color_rgb; OSC 8 as a no-op on colours), ESC c / FF as colour reset, a '
                 'printed character as a cell write; TundraDraw::load_buffer command loop (colour records, jumps, truncation) as '
                 'palette operations + cell positions, cross-checked at run time against the C05 whole-file model; XBin / IDF / '
                 'ADF / Tundra load and save of whole files through the C05 model (Model/BinFormats.lean), the SAVE side now driven '
                 'from pictures with one and two fonts (`palstream savepal`); Color as stored (name + RGB): `impl PartialEq for Color` '
                 'and the search of insert_color as generated field lists, insert_color / insert_color_rgb / set_color / set_color_rgb '
                 '/ push / get_rgb / is_default / are_colors_equal on named colours (Model/PaletteNamed.lean); the text of Color::new, '
                 'the struct fields, the skeletons of these functions and the palette statements of the XBin / ADF / IDF writers and '
                 'loaders are pinned by the translator (palcolor, palfile)',
        not_modelled='PaletteFormat::Ase (todo!()), set_color_hsl and the f32/f64 Color conversions (floats), get_checksum '
                     '(incremental CRC over appended colours only: an entry redefined by OSC 4 does not change it - not part of '
                     'this property), invalid UTF-8 input (load_palette returns Err before any matcher runs; the driver answers err '
                     'too), \\d on non-ASCII decimal digits (model reads \\d as [0-9] in the palette files and in OSC 4; generator '
                     'avoids them), u32 index overflow in set_color for indices near usize::MAX, an ESC inside an OSC string, '
                     'non-ASCII bytes in escape sequences, every other CSI / escape sequence (they do not touch palette or caret '
                     'colours: C04/C15), negative Tundra jump targets; `#[derive(PartialEq)]` on Palette itself (compares title, '
                     'description, author and the checksum cache too - not used by the anchored code); the ADF / IDF writers and loaders '
                     'outside Representable pictures (the every-picture theorems xb_writer_palette_block / xb_loader_palette_block '
                     'exist for XBin only; ADF / IDF accept one font and exactly 16 colours, so file_palette_roundtrip covers what '
                     'they write except non-six-bit palettes, which the savepal correspondence and oracle cover by cases only); the SAUCE '
                     'stripping of from_bytes for non-representable XBin pictures (xb_palette_any_picture is stated for the body handed to '
                     'the loader)',
        assumptions=['the regex crate matches the five colour patterns, eight metadata patterns and OSC_PALETTE like the '
                     'hand-written matchers (checked only by the correspondence run)',
                     'palettes have fewer than 2^31 colours (insert_resolves, set_resolves, inserted_index_survives, '
                     'select_resolves_rgb; tracked_resolves itself needs no bound)',
                     'the decoders sgrOps / tOps / oscOps / tndOps describe the real parser and loader (checked only by the '
                     'correspondence run; the source text they follow is pinned by the translator)'],
    )
