PROP = dict(
    drivers=['Palette'],
        gens=['palette'],
        lake=['IcyVerif.Props.C16'],
        ns='IcyVerif.C16',
        theorems=['insert_resolves', 'insert_stable', 'insert_existing', 'insert_new', 'set_resolves', 'set_stable',
                  'history_stable', 'inserted_index_survives', 'trace_final',
                  'six_bit', 'asVec63_from63_eq', 'from63_whole_triples', 'six_bit_idempotent', 'ega_roundtrip', 'ega_save_idempotent',
                  'export_import', 'unflattened_multiline_injects', 'pinned_gpl_empty_description'],
        harness='c16',
        design='DESIGN.md §4 C16',
        technique='Lean 4 proof: index laws of insert_color / set_color / push / get_rgb by induction on the palette list and '
                  'lifted to every operation history by induction on the history; 6-bit codec by kernel evaluation over all 64 '
                  'values per channel lifted to every byte list by functional induction on from_63 (EGA slot variant by '
                  'induction on the slot list, slot table from the source); export->import of the five text formats for '
                  'arbitrary metadata strings by induction on the colour list over a model whose templates, magic lines and '
                  'regex literals are regenerated from src/palette_handling.rs and whose regex matchers are hand-written and '
                  'tied by differential correspondence (exported, mutated, cross-format and random text)',
        rule='cases: seeded insert/set/lookup/push histories on palettes of 0..=300 colours (every answer + final palette '
             'compared); from_63 / as_vec_63 / from_ega_data / to_ega_data on all 64 values per channel (thorough: all 64^3 '
             'triples), raw bytes, ragged and short inputs; export of 0..=256 colours x {empty, ASCII, digit-laden, hex-laden, '
             'comment-like, blank, CR, multi-line, non-ASCII} title/author/description/colour names x 5 formats (bytes hashed), '
             'import of every exported file, of mutated files, of each file as every other format and of random text; '
             'distinct_nontrivial = distinct replay inputs',
        modelled='Palette::{from, get_rgb, insert_color, insert_color_rgb, set_color, set_color_rgb, push, as_vec, from_63, '
                 'as_vec_63, export_palette, load_palette (Hex, Pal, Gpl, Ice, Txt)}, artworx::{from_ega_data, to_ega_data}; '
                 'str::lines; the regexes HEX/PAL/GPL_COLOR/ICE_COLOR/TXT_COLOR and the eight metadata regexes as hand-written '
                 'matchers over code points (\\s = Unicode White_Space)',
        not_modelled='PaletteFormat::Ase (todo!()), import_palette (extension dispatch), set_color_hsl (floats), get_checksum, '
                     'resize/fill_to_16, invalid UTF-8 input (load_palette returns Err before any matcher runs; the driver '
                     'answers err too), \\d on non-ASCII decimal digits (model reads \\d as [0-9]; generator avoids them), '
                     'u32 index overflow in set_color for indices near usize::MAX',
        assumptions=['the regex crate matches the five colour patterns and eight metadata patterns like the hand-written '
                     'matchers (checked only by the correspondence run)',
                     'palettes have fewer than 2^31 colours (insert_resolves, set_resolves, inserted_index_survives)'],
    )
