PROP = dict(
    drivers=['Uni', 'Font'],
        gens=['unsafe_sites'],
        lake=['IcyVerif.Props.C10'],
        ns='IcyVerif.C10',
        theorems=['site_parse_hex_macro_sequence_0', 'hex_macro_body_bytes', 'maxMacroLen_synced', 'site_read_data_compressed_0',
                  'all_sites_covered', 'fill_rect_scalar', 'clipboard_cell_scalar', 'clipboard_layer_scalar',
                  'icy_char_scalar', 'lossy_valid_utf8', 'lossy_id_on_valid', 'valid_utf8_decidable',
                  'font_keys_scalar', 'font_basic_keys_scalar', 'font_loops_scalar'],
        harness='c10',
        harness_timeout=1500,
        design='DESIGN.md §4 C10',
        technique='Safe Rust cannot materialise an invalid char/String, so the property reduces to the unchecked conversions. '
                  'The translator inventories every from_u32_unchecked/from_utf8_unchecked/transmute/get_unchecked and every other '
                  'unsafe block outside #[cfg(test)] (Gen/Unsafe.lean, regenerated each run); Lean proves for each listed site that the '
                  'value flowing in is a scalar value for ALL inputs (hex macros: induction over the macro state machine with the '
                  'regenerated HEX_TABLE; XBin tag: all 256 bytes against the regenerated discriminants) and `all_sites_covered` '
                  '(decide) fails on any new/moved/changed site. The nine sites repaired by fix: commits are modelled as the checked '
                  'code that replaced them (char::from_u32 + reject/skip/U+FFFD, from_utf8_lossy as the Utf8Chunks automaton) with '
                  'theorems for all 32-bit values / all byte strings; differential correspondence ties every data-flow model to the '
                  'real crate, and an independent oracle scans every stored cell / title / font name / SAUCE string after each case. '
                  'All cases run in child processes because an invalid char aborts the process in this build profile.',
        rule='cases: DECFRA fill parameter at all scalar-range boundaries + seeded values in 0..2^31; hex-macro bodies (all 256 byte '
             'values, repeats, bad digits, non-ASCII look-alikes); clipboard records (all 16-bit classes, truncated records); IcyDraw '
             'layer chunks with 32-bit/8-bit character fields in first and continuation chunks, titles/font names as arbitrary bytes; '
             'PSF1/PSF2/raw/DCS fonts with 0..2^17 glyphs and header-controlled length; random ANSI streams, IcyDraw chunks, XBin/ADF/'
             'IDF/… files with SAUCE (oracle only); std::str::from_utf8 vs the Lean validator. distinct_nontrivial = distinct case descriptors',
        modelled='fill_rectangular_area (fill char), parse_hex_macro_sequence (whole state machine, observed through DECCKSR), '
                 'Layer::from_clipboard_data (whole function incl. index panics), IcyDraw cell character fields (both decoders), '
                 'read_utf8_encoded_string (from_utf8_lossy), BitFont::from_bytes / glyphs_from_u8_data / calculate_checksum / '
                 'convert_to_u8_data / to_psf2_bytes (shared with C17), XBin compression tag',
        not_modelled='the rest of the ANSI parser and the file loaders (covered by the oracle scan only: safe code cannot create an '
                     'invalid char); PNG/zlib/base64 containers; other crates\' unsafe code',
        assumptions=['Rust type safety: code without `unsafe` cannot produce an invalid char or String (the inventory lists every unsafe block in src/)',
                     'dependencies (png, base64, regex, …) are not inventoried'],
    )
