PROP = dict(
    drivers=['Uni', 'Font', 'UniMacro'],
        gens=['unsafe_sites', 'unimacro'],
        lake=['IcyVerif.Props.C10', 'IcyVerif.Props.C10Macro'],
        ns='IcyVerif.C10',
        theorems=['site_parse_hex_macro_sequence_0', 'hex_macro_body_bytes', 'maxMacroLen_synced', 'site_read_data_compressed_0',
                  'all_sites_covered', 'fill_rect_scalar', 'fill_rect_block_decides', 'icy_char_block_decides', 'clipboard_cell_scalar', 'clipboard_layer_scalar',
                  'icy_char_scalar', 'lossy_valid_utf8', 'lossy_id_on_valid', 'valid_utf8_decidable',
                  'font_keys_scalar', 'font_basic_keys_scalar', 'font_loops_scalar',
                  'dcs_record_scalar', 'macro_table_valid_utf8', 'macro_table_validator', 'text_macro_stored_verbatim',
                  'hex_macro_stored', 'macro_clear', 'macro_table_sites_known'],
        harness='c10',
        harness_timeout=1500,
        design='DESIGN.md §4 C10',
        technique='Safe Rust cannot materialise an invalid char/String, so the property reduces to the unchecked conversions. '
                  'The translator inventories every from_u32_unchecked/from_utf8_unchecked/transmute/get_unchecked and every other '
                  'unsafe block outside #[cfg(test)] (Gen/Unsafe.lean, regenerated each run); Lean proves for each listed site that the '
                  'value flowing in is a scalar value for ALL inputs (hex macros: induction over the macro state machine with the '
                  'regenerated HEX_TABLE; XBin tag: all 256 bytes against the regenerated discriminants) and `all_sites_covered` '
                  '(decide) fails on any new/moved/changed site. The nine sites repaired by fix: commits are modelled as the checked '
                  'code that replaced them (char::from_u32 + reject/skip/U+FFFD, from_utf8_lossy as the Utf8Chunks automaton) with '
                  'theorems for all 32-bit values / all byte strings; differential correspondence ties every data-flow model to the '
                  'real crate, and an independent oracle scans every stored cell / title / font name / SAUCE string after each case. '
                  'All cases run in child processes because an invalid char aborts the process in this build profile. '
                  'Macro bodies (the Strings of Parser::macros) have their own model (Model/UniMacro.lean: DCS recorder, number loop and '
                  'dispatch of execute_dcs, parse_macro, text and hex bodies, RIS) with an invariant proved by induction over ALL histories '
                  '(macro_table_valid_utf8) and exactness theorems (text_macro_stored_verbatim, hex_macro_stored); the translator pins '
                  'parse_macro_sequence / parse_macro / the number loop / the tail of parse_hex_macro_sequence and regenerates an inventory of '
                  'every mention of the field `macros` (macro_table_sites_known); the stored BYTES are observed through the verif_dcs_view hook. '
                  'Every number that flows into a conversion is generated over the complete boundary structure of its space '
                  '(harness/src/unibounds.rs), justified by fill_rect_block_decides / icy_char_block_decides.',
        rule='cases: DECFRA fill parameter and IcyDraw 32-bit character fields (both decoders) over the whole boundary structure of the '
             'parameter space in EVERY run: each scalar-range boundary, shifted by / xor-ed with each constant a hand-written range test uses '
             '(0x800, 0x1000, 0xD800, 0xE000, 0x10000, 0x100000, 0x110000, 0x200000), ±1; 0x11D800/0x11DFFF/0x11E000; powers of two ±1; '
             '2^31-1 / 2^32-1 / the parser maximum 2147483599; first, last and a seeded member of every 0x800-aligned block below 0x200000; '
             'seeded members of every octave above (histogram fill:value:* / icyc:value:*); clipboard records: ALL 65536 16-bit fields in '
             'every run (256 records of 256 cells) + classes, truncated records; hex-macro bodies (all 256 byte values, repeats, bad digits, '
             'look-alikes of every hex digit under `as u8`); macro table histories (family macro): text macros whose last / first character '
             'is every two-byte character, three-/four-byte characters by every final byte, every (lead, second) byte pair and '
             '(second-to-last, last) pair, hex macros whose last / first character is every byte value (plain, closed and trailing repeat '
             'groups), long bodies across every power-of-two byte length up to and beyond the macro space, number-prefix quirks, malformed '
             'introducers, ESC pairs, clears, RIS, seeded histories; the UTF-8 boundary structure (every non-ASCII lead byte x edges of the '
             'second-byte ranges x tails) for titles / font names and for std::str::from_utf8 vs the Lean validator; PSF1/PSF2/raw/DCS fonts '
             'and from_basic/create_8 with glyph counts around both ends of the surrogate block for every loader, up to 2^17 glyphs, '
             'header-controlled length; random ANSI streams, IcyDraw chunks, XBin/ADF/IDF/… files with SAUCE (oracle only). '
             'distinct_nontrivial = distinct case descriptors',
        modelled='fill_rectangular_area (fill char), parse_hex_macro_sequence (whole state machine, observed through DECCKSR), '
                 'the macro table as a store of Strings: RecordDCS/RecordDCSEscape, execute_dcs number loop and dispatch, parse_macro, '
                 'parse_macro_sequence (text macros), the insert of hex macros, RIS — stored bytes observed through verif_dcs_view, '
                 'Layer::from_clipboard_data (whole function incl. index panics), IcyDraw cell character fields (both decoders), '
                 'read_utf8_encoded_string (from_utf8_lossy), BitFont::from_bytes / glyphs_from_u8_data / calculate_checksum / '
                 'convert_to_u8_data / to_psf2_bytes (shared with C17), XBin compression tag',
        not_modelled='macro invocation inside a DCS (ESC [ in RecordDCSEscape) and the execution of replayed macros (C01/C03/C17 models; here: '
                     'oracle scan after replay); the rest of the ANSI parser and the file loaders (covered by the oracle scan only: safe code cannot create an '
                     'invalid char); PNG/zlib/base64 containers; other crates\' unsafe code',
        assumptions=['Rust type safety: code without `unsafe` cannot produce an invalid char or String (the inventory lists every unsafe block in src/)',
                     'dependencies (png, base64, regex, …) are not inventoried'],
    )
