PROP = dict(
    drivers=['Term'],
    gens=[],
    lake=['IcyVerif.Props.C09'],
    ns='IcyVerif.C09',
    theorems=['cursor_in_screen_bytes', 'fixed_grid', 'cursor_in_screen_wrapped', 'cursor_in_screen', 'cursor_in_screen_step', 'screen_not_below_buffer', 'margins_inside_screen', 'size_const', 'size_const_wrapped', 'size_const_bytes', 'cursor_in_initial_screen'],
    harness='c09',
    search=True,
    harness_timeout=1500,
    design='DESIGN.md §4 C09, §3.2 TermGeo',
    technique='Lean 4 proof: invariant (sizes/margins sane, cursor inside the visible screen unless a resize was requested) '
              'preserved by every character of all ten emulations incl. macro replay (induction over the stream, structural '
              'recursion over macro depth), and a second invariant (terminal size constant along every resize-free stream), '
              'over the hand-written TermGeo model; model tied to the code by a per-character differential correspondence of '
              'the geometry digest; oracle on the real code for all ten emulations: cursor inside the screen AS OPENED (the '
              'width/height the terminal was created with, changed only by an explicit resize request — not re-read from '
              'terminal_state), terminal size unchanged, fixed 40x24 grid; failing-input search as in C01 (invariant-triggered '
              'probe suffixes, exhaustive probe family, `@search:` hook)',
    rule='cases: ANSI streams from the ~140-token alphabet of the quantifier (triples after a scrollback-filling prefix; all '
         'pairs in thorough) on a 7x4 screen + seeded grammar-based streams (1..200 tokens, incl. save -> scrollback growth / '
         'drop / reset / margins -> restore triples) for every emulation and screen sizes 1..132 x 1..60 + four corners x '
         'scrollback x own alphabet, all compared with the model as one line (rolling hash of per-character digests + '
         'checkpoints every 32 characters); PROBE FAMILY (oracle only): corner x control prefix x every probe suffix incl. '
         'state captured in one geometry and restored in another; evaluations = characters fed; distinct_nontrivial = '
         'distinct streams compared with the model',
    modelled='ANSI parser control flow (ESC/CSI/DCS/OSC/APS/music framing, macros), caret primitives, limit_caret_pos, '
             'Buffer::print_char, margins, tab stops, buffer height/first visible line, terminal size (reset_terminal keeps '
             'it: size_const) on a terminal buffer; the four wrappers and the five byte-oriented emulations',
    not_modelled='cell contents (row lengths, Line::get_line_length is an oracle argument), palette/fonts/hyperlinks/sixel '
                 'queue (none of them is read by a cursor computation)',
    assumptions=['HPA/HPR executed from inside a macro replay read the same line length as the invoking character (generator '
                 'does not put them into macro bodies)',
                 'a stream "requests a resize" iff CSI 8;h;w t is executed (flag `resized` in the model); executed inside a macro '
                 'replay the request reaches the harness only as a size change at the invoking `z`, which it accepts as one'],
)
