PROP = dict(
    drivers=['IcyDraw'],
        gens=['icy'],
        lake=['IcyVerif.Props.C07'],
        ns='IcyVerif.C07',
        theorems=['cell_rt', 'invisible_cell_rt', 'row_rt', 'no_split', 'quantifier_fits', 'layer_rt', 'flags_rt',
                  'header_rt', 'doc_rt', 'writer_loops_agree', 'short_marker_is_not_an_attribute',
                  'pinned_writer_breaks'],
        harness='c07',
        design='DESIGN.md §4 C07',
        technique='Lean 4 proof (induction over the cells of a row, the rows of a layer and the chunks of a document; '
                  'frame lemma for Layer::set_char) that the reader applied to what the writer emits reproduces every '
                  'listed field and every visible cell, over a byte-level model of the LAYER_n payload, its '
                  'continuation chunks and the ICED header whose constants (flag bits, attribute markers, thresholds, '
                  'chunk budget, keywords, default palette) are regenerated from the source; differential '
                  'correspondence of writer bytes and reader results (incl. the Err outcome of every length check on malformed payloads) '
                  'against the real crate, which is driven through Buffer::to_bytes("icy", lossless) / from_bytes',
        thorough_exhaustive=True,
        rule='cases: EXHAUSTIVE small scope (every layer up to 2x2 in quick / 3x2 in thorough over 4 kinds of cell: short, long, invisible, invisible+attribute bit), hand-made boundary documents (invisible cells with extra bits, full rows, width/height 0, every '
             'short/long threshold, transparent colours, each flag alone, offsets +-50, default page 300, 6 layers + '
             'SAUCE + 300 colours), seeded documents of the quantifier (scaled down in quick, 200x120 layers included), '
             'documents with SHORT_DATA-marked cells (model tie only), mutated layer payloads (incl. non-scalar character fields), cell data '
             'moved whole / cut / damaged / in pieces into LAYER_n~k continuation chunks, continuation chunks of undefined layers and mutated ICED headers fed to the '
             'real loader; thorough adds 1500x160 layers that are split into continuation chunks (model tie only); '
             'distinct_nontrivial = distinct documents saved and loaded',
        modelled='icy_draw.rs to_bytes (ICED header, LAYER_n payload: title, role, spare bytes, mode, colour+alpha, flags, '
                 'transparency, offset, size, default font page, data length, rows of short/long/invisible cells with the '
                 'INVISIBLE_SHORT terminator, 3 MB chunk budget and LAYER_n~k continuation chunks, chunk order and presence '
                 'of SAUCE/PALETTE/FONT_n/END) and load_buffer (every length check with its Err outcome - FileTooShort for title and 41-byte layer header, '
                 'announced data length, cell records of first and continuation chunks alike, invalid character, continuation chunk of an undefined layer - '
                 'in front of every index/slice, '
                 'Layer::set_char incl. lock/alpha behaviour, Line::set_char, flags applied after the cells, keyword '
                 'dispatch); Layer::get_char, get_invisible_line_length',
        not_modelled='PNG container, zTXt/zlib, base64, preview image, keyword format!/parse (parameters: chunks in = chunks '
                     'out; the harness walks the PNG with its own inflate/base64); payload codecs of PALETTE, FONT_n, SAUCE '
                     '(parameters with round-trip hypotheses CodecsOk; C16/C17/C11) - their round trip is checked by the '
                     'oracle on the real code only; image (sixel) layers; negative layer sizes; SAUCE creation date, '
                     'use_ice, font name and buffer size inside the SAUCE record (derived from the buffer on save)',
        assumptions=['layer titles are observed through String::from_utf8_lossy (the loader decodes titles lossily since the C10 repair); lossy decoding is the identity on valid UTF-8 (theorem IcyVerif.C10.lossy_id_on_valid), which WfLayer requires', 'palDec (palEnc p) = ok p; fontDec (fontName f) (fontData f) = ok f; sauceDec of the written SAUCE record '
                     'returns an equivalent record (hypotheses of doc_rt, exercised on the real code by the oracle)',
                     'a visible cell does not carry attribute::SHORT_DATA (declared "for loading & saving only")',
                     'documents have a font in slot 0 (Buffer::new puts it there; get_font_dimensions panics without it)'],
        trusted_extra=['hand-written PNG chunk walker, inflate and base64 in harness/src/c07.rs (independent of the png/base64 crates)'],
    )
