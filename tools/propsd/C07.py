PROP = dict(
    drivers=['IcyDraw'],
        gens=['icy', 'icyfont'],
        lake=['IcyVerif.Props.C07', 'IcyVerif.Props.C07Font'],
        ns='IcyVerif.C07',
        theorems=['cell_rt', 'invisible_cell_rt', 'row_rt', 'no_split', 'quantifier_fits', 'layer_rt', 'flags_rt',
                  'header_rt', 'mode_tables_rt', 'mode_tables_total', 'doc_rt', 'psf2_source_shape', 'font_slot_rt', 'font_size_rt',
                  'font_width_domain_exact', 'font_width_9_refused', 'psf2_codec_ok', 'doc_rt_psf2', 'writer_loops_agree', 'short_marker_is_not_an_attribute',
                  'pinned_writer_breaks'],
        harness='c07',
        design='DESIGN.md §4 C07',
        technique='Lean 4 proof (induction over the cells of a row, the rows of a layer and the chunks of a document; '
                  'frame lemma for Layer::set_char) that the reader applied to what the writer emits reproduces every '
                  'listed field and every visible cell, over a byte-level model of the LAYER_n payload, its '
                  'continuation chunks and the ICED header whose constants (flag bits, attribute markers, thresholds, '
                  'chunk budget, keywords, default palette) are regenerated from the source; differential '
                  'correspondence of writer bytes and reader results (incl. the Err outcome of every length check on malformed payloads) '
                  'against the real crate, which is driven through Buffer::to_bytes("icy", lossless) / from_bytes. '
                  'Header modes: the to_byte / from_byte tables of BufferType, IceMode, PaletteMode, FontMode are regenerated from '
                  'src/buffers.rs (variants, every arm, the `_` arm; any other shape fails the translation) and the round trip is proved '
                  'for every variant over them (mode_tables_rt), from_byte total on all 256 bytes (mode_tables_total); the harness builds '
                  'and observes the enums by variant, never through from_byte / to_byte. Font slots: the FONT_n payload codec is the real '
                  'one (Model/IcyDrawFont.lean = string field + to_psf2_bytes / from_bytes of Model/Font.lean); font_slot_rt / doc_rt_psf2 '
                  'discharge the font hypothesis of doc_rt for every width 1..=8, height 1..=255, complete glyph table, with the size part '
                  'of the observation; font_width_domain_exact proves the width bound exact (any other width: written, then refused); '
                  'psf2_source_shape pins the header fields written / read and which of them become size and glyph row count',
        thorough_exhaustive=True,
        rule='cases: EXHAUSTIVE small scope (every layer up to 2x2 in quick / 3x2 in thorough over 4 kinds of cell: short, long, invisible, invisible+attribute bit), hand-made boundary documents (invisible cells with extra bits, full rows, width/height 0, every '
             'short/long threshold, transparent colours, each flag alone, offsets +-50, default page 300, 6 layers + '
             'SAUCE + 300 colours), seeded documents of the quantifier (scaled down in quick, 200x120 layers included), '
             'documents with SHORT_DATA-marked cells (model tie only), mutated layer payloads (incl. non-scalar character fields), cell data '
             'moved whole / cut / damaged / in pieces into LAYER_n~k continuation chunks, continuation chunks of undefined layers and mutated ICED headers fed to the '
             'real loader; thorough adds 1500x160 layers that are split into continuation chunks (model tie only); '
             'SYSTEMATIC FAMILIES (one field at a time, both tiers): all 240 combinations of the four header modes; buffer sizes at every byte '
             'boundary a renderable size reaches; font slots holding custom fonts of EVERY width 1..=8 x heights {1,2,8,14,16,32} (thorough: 1..=32) and '
             'every height 1..=32, 256 and 512 glyphs, five glyph patterns, in slot 0 and in slots up to 300, UTF-8 names (+ widths 0/9/16/255 outside the '
             'domain, model tie only); the font page of short and long cells and the default font page over 16 page slots (every bit and byte boundary '
             'of the u16); every attribute bit alone and alone missing, short and long; every bit and byte boundary of both colours; 20 character '
             'boundaries; transparency (quick: 45 values, thorough: all 256), every offset -50..=50, colour channels, all 3 x 32 mode/flag combinations, '
             '16 titles incl. 256-byte / 4-byte-character ones, 12 layer sizes up to 200x120; palette sizes 1,2,15,16,17,255,256,257,299,300; SAUCE with '
             'field lengths 0/1/max, all flag combinations, 0..255 comment lines; every byte value 0..=255 of each of the five mode bytes of the ICED '
             'header against the real loader; FONT_n payloads damaged field by field (name length, version, flags, header size, length, charsize, '
             'height, width 0..=17, PSF1 / raw containers, truncation); paste roles (written as Normal; model tie only); the exhaustive small scope '
             'and the cell families run twice - through Layer::set_char and with Layer::lines / properties.offset written directly (the loader uses '
             'set_char / set_offset itself); '
             'distinct_nontrivial = distinct documents saved and loaded',
        modelled='icy_draw.rs to_bytes (ICED header, LAYER_n payload: title, role, spare bytes, mode, colour+alpha, flags, '
                 'transparency, offset, size, default font page, data length, rows of short/long/invisible cells with the '
                 'INVISIBLE_SHORT terminator, 3 MB chunk budget and LAYER_n~k continuation chunks, chunk order and presence '
                 'of SAUCE/PALETTE/FONT_n/END) and load_buffer (every length check with its Err outcome - FileTooShort for title and 41-byte layer header, '
                 'announced data length, cell records of first and continuation chunks alike, invalid character, continuation chunk of an undefined layer - '
                 'in front of every index/slice, '
                 'Layer::set_char incl. lock/alpha behaviour, Line::set_char, flags applied after the cells, keyword '
                 'dispatch); Layer::get_char, get_invisible_line_length; buffers.rs BufferType / IceMode / PaletteMode / FontMode to_byte and '
                 'from_byte (tables regenerated) incl. the u16 / u8 casts of the buffer type and the initial modes of Buffer::new; the FONT_n chunk '
                 'with its payload: write_utf8_encoded_string + BitFont::to_psf2_bytes, read_utf8_encoded_string + BitFont::from_bytes (PSF1 / PSF2 / raw '
                 'sniffing, load_psf2 with every check, size = (width, height), glyphs cut by height) with every Err outcome, observed as name, width, '
                 'height, length, glyph table',
        not_modelled='PNG container, zTXt/zlib, base64, preview image, keyword format!/parse (parameters: chunks in = chunks '
                     'out; the harness walks the PNG with its own inflate/base64); payload codecs of PALETTE and SAUCE '
                     '(parameters with round-trip hypotheses CodecsOk; C16/C11) - their round trip is checked by the '
                     'oracle on the real code only; image (sixel) layers; paste roles (PastePreview / PasteImage are written as Normal: transient '
                     'editor states, tied but outside the oracle); negative layer sizes; SAUCE creation date, '
                     'use_ice, font name and buffer size inside the SAUCE record (derived from the buffer on save); fonts whose width is not 1..=8 '
                     '(a glyph row is one byte; such a font is written and then refused by the reader - font_width_domain_exact) or whose glyph '
                     'table is incomplete (to_psf2_bytes().unwrap() panics)',
        assumptions=['layer titles are observed through String::from_utf8_lossy (the loader decodes titles lossily since the C10 repair); lossy decoding is the identity on valid UTF-8 (theorem IcyVerif.C10.lossy_id_on_valid), which WfLayer requires', 'palDec (palEnc p) = ok p; sauceDec of the written SAUCE record '
                     'returns an equivalent record (hypotheses of doc_rt / doc_rt_psf2, exercised on the real code by the oracle); the font '
                     'hypothesis of doc_rt is discharged by doc_rt_psf2 for slot fonts of width 1..=8, height 1..=255 with a complete glyph table',
                     'a visible cell does not carry attribute::SHORT_DATA (declared "for loading & saving only")',
                     'documents have a font in slot 0 (Buffer::new puts it there; get_font_dimensions panics without it)'],
        trusted_extra=['hand-written PNG chunk walker, inflate and base64 in harness/src/c07.rs (independent of the png/base64 crates)'],
    )
