PROP = dict(
    drivers=['Term'],
    gens=['loops'],
    lake=['IcyVerif.Props.C03'],
    ns='IcyVerif.C03',
    theorems=['all_loops_known', 'loop_inventory_complete', 'parse_number_bounded', 'rep_count_le', 'tab_count_le',
              'ich_count_le', 'il_count_le', 'scroll_count_le', 'scroll_lr_count_le', 'up_scroll_count_le',
              'dch_count_le', 'dl_count_le', 'pushRepeated_len', 'pushRepeated_chars', 'replay_budget', 'macro_expansion_bounded', 'stream_steps_bounded'],
    harness='c03',
    harness_timeout=2400,
    design='DESIGN.md §4 C03',
    level_text='partial: Lean 4 theorems bound every parameter-driven loop count of the ANSI parser model by the screen '
               'size for all parameter values, and a regenerated loop inventory of the source must be covered by the '
               'table the theorems are about; wall-clock time, memory and stack are outside any model and are measured '
               'on the real code by the oracle run (per-token time and row growth, address-space cap, crash-isolated '
               'workers); sixel headers, custom-font payloads and binary file headers are oracle-only',
    technique='Lean 4 proof of clamp bounds over the TermGeo model + translator-regenerated loop inventory (decide) + '
              'differential correspondence of the state after each extreme-parameter command + timing/memory oracle',
    rule='cases: the control-function table (64 CSI finals x 8 intermediates x 0..6 parameters from {0, 1, h, w, 2^16, '
         '10^6, 2^31-1}; all pairs in thorough, sampled in quick) after 5 state prefixes (scrollback, margins, '
         'left/right margins, insert mode) on 4 screen sizes, recursive / mutually recursive / fan-out macros, hex repeat '
         'groups, Avatar repeats, sixel raster/repeat headers, custom-font payloads, binary headers with extreme sizes; '
         'evaluations = sequences run; distinct_nontrivial = distinct sequences',
    modelled='loop counts of REP, CVT/CBT, ICH, DCH, IL, DL, SU/SD, SL/SR, cursor-up scrolling; number parsing; hex macro '
             'repeat expansion; macro replay depth/budget',
    not_modelled='time, memory, stack (oracle only); sixel decode, font loaders, binary loaders (oracle only)',
    assumptions=['thresholds of the oracle: a token slower than 400 ms (debug build), a token adding more than one screenful '
                 '+ its own length of rows, a loader allocating more than 8M cells, or a worker killed by the 6 GB '
                 'address-space cap / 20 s without progress counts as a violation'],
)
