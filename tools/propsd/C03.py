PROP = dict(
    drivers=['Term', 'FontLoad', 'Rect', 'LoaderCost'],
    gens=['loops', 'fontpal', 'crc', 'palette', 'xb', 'loaders', 'loaderloops', 'termresize', 'sixel', 'macroentry'],
    lake=['IcyVerif.Props.C03', 'IcyVerif.Props.C03Loaders', 'IcyVerif.Props.C03Sixel', 'IcyVerif.Props.C03Macro'],
    ns='IcyVerif.C03',
    theorems=['all_loops_known', 'loop_inventory_complete', 'parse_number_bounded', 'rep_count_le', 'tab_count_le',
              'ich_count_le', 'il_count_le', 'scroll_count_le', 'scroll_lr_count_le', 'up_scroll_count_le',
              'dch_count_le', 'dl_count_le', 'pushRepeated_len', 'pushRepeated_chars', 'replay_budget', 'macro_expansion_bounded', 'stream_steps_bounded',
              'font_zero_guard_present', 'font_loader_cost', 'font_loop_diverges_without_guard', 'palette_colours_le_bytes', 'rqcra_count_le', 'rect_count_le',
              'rect_param_bounded', 'resize_clamps_from_source', 'term_size_bounded', 'repeat_counts_absolute', 'resize_clamps_attained',
              'loader_loops_known', 'loader_loop_inventory_complete', 'loader_guards_present', 'loader_cost_refines_c02',
              'xb_loader_cost', 'bin_loader_cost', 'adf_loader_cost', 'idf_loader_cost', 'tnd_loader_cost', 'tdf_loader_cost',
              'icy_guard_present', 'icy_layer_cost_partial', 'icy_rows_unbounded_without_guard', 'loader_cost',
              'sixel_limits_from_source', 'sixel_state_bounded', 'sixel_never_huge', 'sixel_picture_bounded', 'sixel_cost',
              'macro_limits_from_source', 'macro_depth_guard_in_callee', 'macro_depth_uses_known', 'entry_points_known',
              'macro_counter_refines', 'macro_nesting_bounded', 'macro_nesting_bounded_stream', 'macro_nesting_unbounded_without_callee_guard'],
    harness='c03',
    harness_timeout=2400,
    design='DESIGN.md §4 C03',
    level_text='partial: Lean 4 theorems bound every parameter-driven loop count of the ANSI parser model by the screen '
               'size for all parameter values - and the screen itself by the resize command\'s own clamps along EVERY stream '
               '(term_size_bounded), so the bounds are absolute; regenerated loop inventories of the source (terminal code, fonts, '
               'palettes, binary loaders, sixel decoder) must be covered by the tables the theorems are about. Binary art-file loaders '
               '(XBin raw + compressed, BIN, ADF, IDF, Tundra, TheDraw fonts, IcyDraw LAYER chunks) have cost-instrumented models - loop '
               'iterations, rows allocated by Layer::set_char, bytes copied - that provably forget to the C02 loader models and whose '
               'counters are bounded by explicit polynomials in the file length for ALL byte strings and on every outcome; the sixel '
               'decoder (size-limited since two repairs) has a state bound, a picture bound, unreachability of the out-of-range outcome and a '
               'bound on the repeat loop for all payloads. Macro replay - the one native recursion of the parser - is modelled a second time with the code\'s own '
               'accounting (counter macro_depth + one test): FROM the regenerated fact that the test sits in invoke_macro_by_id itself, in front of the counter and '
               'the loop, the counter model is proved equal to the terminal model and the nesting is proved <= MAX_MACRO_DEPTH through BOTH call paths (CSI Pn * z '
               'handler and ESC [ Pn * z inside a DCS string), for all macro tables; with the test in the handler only the model nests as deep as it has frames. Wall-clock time, allocator behaviour and stack are outside any model and are '
               'measured on the real code by the oracle (per-token / per-file time, cells and picture bytes allocated, address-space cap, '
               'crash-isolated workers). PARTIAL: the number of CELLS a loader allocates is rows x a DECLARED width (IcyDraw layer width, '
               'SAUCE width <= 1000; Tundra since the C05 loader repair: any SAUCE width up to 65535): three recorded findings',
    technique='Lean 4 proof of clamp bounds over the TermGeo model + translator-regenerated loop inventories (decide; the '
              'terminal-stream code, src/fonts.rs, src/palette_handling.rs, and - Gen/LoaderLoops - the loading side of every binary format, '
              'tdf_font, sixel_mod, Layer::set_char; for a loop bounded by a RAW parameter the text of the rejecting guard is part of the '
              'fingerprint) + differential correspondence of the state after each extreme-parameter command + timing/memory oracle. Resize: the '
              'clamps of CSI 8;rows;cols t are regenerated (Gen/TermResize; the translator fails when a clamp loses a limit), attained by the '
              'model (resize_clamps_attained, decide) and invariant along every stream (term_size_bounded, from C01\'s run_good). '
              'Font loaders: cost counters in Model/FontLoad bounded by the file length for all byte strings, proved from the regenerated '
              'flag glyphZeroGuard; rectangle commands: loop counts as functions of the parameters and the screen (Model/RectCost). '
              'Loader cost: Model/LoaderCost re-runs every loop of the C02 loader models in a cost monad RC (result x work x rows x extra, '
              'counters kept on ok / err / panic outcomes); _res theorems (simp) prove that forgetting the counters gives back the C02 model; '
              'budgets are proved potential-style (Pot: spent + potential of the continuation <= budget, one bind rule with frame), induction '
              'over run counters / fuel, omega; nonlinear facts (rows x width <= bytes + width) via a linear cell index and one multiplication '
              'lemma. The IcyDraw budgets are proved FROM the regenerated flag icyNoColumnsGuard (without it the row loop provably runs once per '
              'declared row). Sixel: C14\'s Model/Sixel follows the two size-limit repairs; invariant Small (<= MAX rows of <= 4 MAX bytes, '
              '<= MAXC palette entries) preserved by every step, Out.huge unreachable, repeat loop <= MAX per character. Tie: cells allocated '
              '(sum of row lengths) and rows of the real loaders / picture size of the real decoder equal the model\'s for every generated file '
              '(driver loadercost), constants + guard texts regenerated. '
              'Macro nesting: Model/TermMacroDepth (stepK: counter k, fuel = native frames, flag inCallee; the call path is read off the state the caller hands over) '
              'refines step by induction on the levels left (Lemmas/TermMacroDepth, funext on the invoker); Gen/MacroEntry regenerates the placement flag, every line '
              'touching macro_depth / macro_budget and every call site of the bounded functions (23 entry edges) - the translator fails when an edge has no generator '
              'family in harness/src/c03nest.rs; nesting oracle: markers printed per level counted on the real terminal on a 2 GiB-stack thread',
    rule='cases: the control-function table (64 CSI finals x 8 intermediates x 0..6 parameters from {0, 1, h, w, 2^16, '
         '10^6, 2^31-1}; all pairs in thorough, sampled in quick) after 5 state prefixes (scrollback, margins, '
         'left/right margins, insert mode) on 4 screen sizes; a text-area resize CSI 8;rows;cols t with rows, cols from {0,1,25,60,61,132,133,'
         '65536,2^31-1} FOLLOWED BY each of 16 repeat-style commands with an extreme count (also inside a macro); recursive / mutually '
         'recursive / fan-out macros, hex repeat groups, Avatar repeats; macro nesting families (c03nest.rs): cycles of 1..3 macros x 6 hand-over patterns (CSI '
         'handler, in-DCS with the DCS re-opened on every level, alternating, RIP-request fallback in front, mixed) x top-level invocation by CSI / inside a DCS x padding '
         '{0,40,600} x definition {hex, hex repeat group, text macro spliced into a hex definition by an in-DCS invocation} x emulation {ANSI, Avatar, PCBoard, Renegade, '
         'Ctrl-A}, in-DCS recursion WITHOUT re-opening (id saturated at 2147483599, digit-append chain 5 -> 55 -> ...), fan-out 2 through both paths, marker printed by a text '
         'leaf macro, Avatar repeat handing z to a pending CSI 6 *, structured random chains; REP / hex repeat groups / sixel repeat, raster and colour headers reached from a '
         'macro replay (both paths) and from a spliced DCS; sixel payloads: raster attributes, repeat counts (before data and '
         'before every control character), colour registers and cursor positions from {0,1,6,100,4095,4096,4097,65536,10^6,2147483599,'
         '2^31-1,10^11}, the largest legal picture, structured random payloads of <= 64 bytes; custom-font payloads; font '
         'loaders: PSF1 heights {0,1,2,16,255} x modes x data of 0..256 KiB, PSF2 size fields at 14 extremes with 0/64/4096 data '
         'bytes, PSF2 headers with ZERO bytes per glyph and declared glyph counts up to 2^32-1 (file and DCS route; oracle: the glyph count '
         'of an accepted font is backed by the file), large consistent PSF2 files, raw fonts up to 1 MiB; palettes: 24 number spellings '
         'in count lines and channels of all 5 formats, 100 KB lines, thousands of lines; rectangle commands: every combination of '
         'top/left/bottom/right from {0,1,size,size+1,65536,10^6,2147483599}; binary files: XBin widths {1,2,79,80,4095,4096} x heights '
         '{0,1,25,65535} x all four run types x counts {1,2,32,63,64} x truncations, 20000 Full runs, BIN / ADF bodies of 0..100001 bytes '
         'with 7 SAUCE shapes, IDF start rows / right edges at 16-bit extremes x RLE counts {0,1,80,65535}, Tundra position records to rows '
         '{0..65535, 3*10^6, 2^31-1, 2^31, 2^32-1} x columns, thousands of colour records, SAUCE widths; IcyDraw LAYER chunks with 12 '
         'declared sizes (0 x 2^31-1, 2^31 x 2^31-1, 10^6 x 10^6 ...) x 5 cell shapes x continuation chunks; TheDraw bundles whose 94 glyphs '
         'share one long glyph; random tails behind every magic; evaluations = sequences / files run; distinct_nontrivial = distinct inputs',
    modelled='loop counts of REP, CVT/CBT, ICH, DCH, IL, DL, SU/SD, SL/SR, cursor-up scrolling; number parsing; hex macro '
             'repeat expansion; macro replay depth/budget - the nesting depth both as structural fuel (stepD) and as the code\'s counter with the test in the callee (stepK, '
             'Model/TermMacroDepth), for both call paths into invoke_macro_by_id (CSI Pn * z handler, state ReadPossibleMacroInDCS); the call-site inventory of every '
             'bounded loop / recursion (Gen/MacroEntry); the text-area resize clamps and the terminal size along every stream; '
             'BitFont::from_bytes (PSF1/PSF2/raw, glyphs_from_u8_data, calculate_checksum loop bound) with iteration counters; DECRQCRA '
             'guard and loop counts, get_rect_area clamps and the DECFRA/DECERA/DECSERA loop counts; number of colours a palette importer '
             'produces (Model/PalLoad); every loop of the XBin (raw, compressed), BIN, ADF, IDF, Tundra, TheDraw and IcyDraw LAYER / LAYER~k '
             'loaders with counters for iterations, rows allocated by Layer::set_char and bytes copied (Model/LoaderCost, incl. the '
             'Buffer::from_bytes dispatch); the sixel decoder\'s allocation sizes, size guards and repeat loop (Model/Sixel + Lemmas/SixelCost)',
    not_modelled='time, memory, stack (oracle only; the NUMBER of nested replay levels is modelled and proved, the bytes of stack per level are not - the oracle runs every '
                 'nesting case on the real parser and counts the levels); cells allocated = rows x declared width where the width is declared by the file '
                 '(IcyDraw layer width up to 2^31-1: finding file:icy:runaway; SAUCE width up to 1000 - Tundra since its C05 repair up to 65535 - x 65535 rows: findings '
                 'file:icy:huge, file:tnd:huge, file:ans:huge); text-format files on non-terminal buffers (ANSI, PCBoard, Avatar ... through '
                 'parse_with_parser: oracle only - the cursor-row cap MAX_FILE_BUFFER_HEIGHT is regenerated, not modelled); the PNG / zlib / '
                 'base64 layer of .icy; the regex engine behind the palette importers; the tab-stop report DECTABSR (inventory + timing only); '
                 'per-call cost of parse_sixel_data beyond "at most 6 pixels and the rows it appends" (the state bound covers memory)',
    assumptions=['thresholds of the oracle: a token, loader case or rectangle command slower than 3000 ms (debug build, thread CPU time), a token adding more than one screenful '
                 '+ its own length of rows, a loader allocating more than 8M cells, a sixel picture of more than 4 x MAX_SIXEL_SIZE^2 bytes, a macro nesting case printing more level markers than MAX_MACRO_DEPTH x markers per level (x the fan-out sum), an '
                 'accepted font declaring more glyphs than max(512, file length), or a worker killed by the 6 GB '
                 'address-space cap / 20 s (8 s for loader, rectangle and resize cases) without progress counts as a violation',
                 'usize offsets of the loader models are unbounded naturals (files far below 2^64 bytes); the Tundra palette search is counted at its '
                 'worst case (no colour repeated)'],
)
