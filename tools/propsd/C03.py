PROP = dict(
    drivers=['Term', 'FontLoad', 'Rect'],
    gens=['loops', 'fontpal', 'crc', 'palette'],
    lake=['IcyVerif.Props.C03'],
    ns='IcyVerif.C03',
    theorems=['all_loops_known', 'loop_inventory_complete', 'parse_number_bounded', 'rep_count_le', 'tab_count_le',
              'ich_count_le', 'il_count_le', 'scroll_count_le', 'scroll_lr_count_le', 'up_scroll_count_le',
              'dch_count_le', 'dl_count_le', 'pushRepeated_len', 'pushRepeated_chars', 'replay_budget', 'macro_expansion_bounded', 'stream_steps_bounded',
              'font_zero_guard_present', 'font_loader_cost', 'font_loop_diverges_without_guard', 'palette_colours_le_bytes', 'rqcra_count_le', 'rect_count_le',
              'rect_param_bounded'],
    harness='c03',
    harness_timeout=2400,
    design='DESIGN.md §4 C03',
    level_text='partial: Lean 4 theorems bound every parameter-driven loop count of the ANSI parser model by the screen '
               'size for all parameter values, and a regenerated loop inventory of the source must be covered by the '
               'table the theorems are about; wall-clock time, memory and stack are outside any model and are measured '
               'on the real code by the oracle run (per-token time and row growth, address-space cap, crash-isolated '
               'workers); bitmap-font loaders (also behind the custom-font DCS) and the rectangle-area commands have loop-count '
               'theorems of their own; the palette importers yield at most one colour per byte (theorem) - their time is oracle-only, as are sixel headers and binary art-file headers',
    technique='Lean 4 proof of clamp bounds over the TermGeo model + translator-regenerated loop inventory (decide; covers the '
              'terminal-stream code, src/fonts.rs and src/palette_handling.rs; for a loop bounded by a RAW parameter the text of the '
              'rejecting guard is part of the fingerprint) + differential correspondence of the state after each extreme-parameter '
              'command + timing/memory oracle. Font loaders: cost counters in Model/FontLoad (glyph-loop and checksum-loop '
              'iterations) bounded by the file length for all byte strings, proved from the regenerated flag glyphZeroGuard; '
              'rectangle commands: loop counts as functions of the parameters and the screen (Model/RectCost) bounded by the screen '
              'for all parameter lists, tied by the CRC answer of DECRQCRA on a uniformly filled screen and by the number of cells '
              'DECFRA/DECERA/DECSERA change',
    rule='cases: the control-function table (64 CSI finals x 8 intermediates x 0..6 parameters from {0, 1, h, w, 2^16, '
         '10^6, 2^31-1}; all pairs in thorough, sampled in quick) after 5 state prefixes (scrollback, margins, '
         'left/right margins, insert mode) on 4 screen sizes, recursive / mutually recursive / fan-out macros, hex repeat '
         'groups, Avatar repeats, sixel raster/repeat headers, custom-font payloads, binary headers with extreme sizes; font '
         'loaders: PSF1 heights {0,1,2,16,255} x modes x data of 0..256 KiB, PSF2 size fields at 14 extremes with 0/64/4096 data '
         'bytes, large consistent PSF2 files, raw fonts up to 1 MiB, the DCS route; palettes: 24 number spellings in count lines and '
         'channels of all 5 formats, 100 KB lines, thousands of lines; rectangle commands DECRQCRA/DECFRA/DECERA/DECSERA: every '
         'combination of top/left/bottom/right from {0,1,size,size+1,65536,10^6,2147483599} (full product on 80x25, sampled on 7x4, '
         '132x60 and 80x25 with scrollback), wrong parameter counts, non-character fill codes, tab report after w+5 tab stops; '
         'evaluations = sequences run; distinct_nontrivial = distinct sequences',
    modelled='loop counts of REP, CVT/CBT, ICH, DCH, IL, DL, SU/SD, SL/SR, cursor-up scrolling; number parsing; hex macro '
             'repeat expansion; macro replay depth/budget; BitFont::from_bytes (PSF1/PSF2/raw, glyphs_from_u8_data, '
             'calculate_checksum loop bound) with iteration counters; DECRQCRA guard and loop counts, get_rect_area clamps and the '
             'DECFRA/DECERA/DECSERA loop counts; number of colours a palette importer produces (Model/PalLoad)',
    not_modelled='time, memory, stack (oracle only); sixel decode, binary art-file loaders (oracle only); the regex engine behind the '
                 'palette importers (its loops are the crate\'s; the model bounds the number of colours, the oracle measures time); the tab-stop report DECTABSR CSI 2 $ w (loop over the tab stops '
                 'present: inventory + timing only)',
    assumptions=['thresholds of the oracle: a token, loader case or rectangle command slower than 3000 ms (debug build, thread CPU time), a token adding more than one screenful '
                 '+ its own length of rows, a loader allocating more than 8M cells, or a worker killed by the 6 GB '
                 'address-space cap / 20 s without progress counts as a violation'],
)
