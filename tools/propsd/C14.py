PROP = dict(
    drivers=['Sixel', 'SixelQueue'],
        gens=['sixel'],
        lake=['IcyVerif.Props.C14'],
        ns='IcyVerif.C14',
        theorems=['constants_match_source', 'sixel_rect', 'sixel_pad_only', 'sixel_raster_consistent', 'sixel_total_partial', 'sixel_total_bounded_partial', 'sixel_total_false',
                  'sixel_rect_pinned_false',
                  'schedule_independent', 'schedule_independent_pair', 'all_delivered_after_polls',
                  'poll_nonblocking', 'poll_stops_at_unfinished', 'no_loss_no_dup', 'no_loss'],
        harness='c14',
        harness_timeout=3000,
        design='DESIGN.md §4 C14',
        technique='Lean 4 proof over two executable models. (a) the sixel parser of src/sixel_mod.rs as a char-driven machine '
                  'over row LENGTHS with every index / % / i32 cursor operation as an explicit panic outcome: rectangularity, '
                  'consistency with a raster attribute and panic freedom by an invariant over the char list (rows % 4 = 0, '
                  'rows in range, palette non-empty). (b) Buffer::update_sixel_threads as a transition system over '
                  'arrive/finish/poll events: by induction over EVERY event list the layer is the arrival-order placement of '
                  'the popped prefix (schedule independence), poll never joins a running thread, the push log is the ok part '
                  'of an arrival prefix (no loss / no duplication). Differential correspondence against the real crate: '
                  'Sixel::parse_from on payloads, and a real Buffer fed through the ANSI parser with decode threads held at the '
                  'cfg(icy_engine_verif) gate and released in every order.',
        rule='(a) boundary payloads; structured pictures (raster attribute smaller/equal/larger than the data, colour selects and '
             'RGB/HLS definitions, "!" repeats up to 500, "$" overprints, bands of unequal length); token-level and char-level random streams over the sixel '
             'alphabet plus digits, ";", junk, code points > 0x7F; ALL strings up to length 3 (quick) / 5 (thorough) over '
             '~A?-$!#";12. (b) k = 1..4 images x ALL k! completion orders x ALL 2^k placements of a poll after each completion '
             '(quick: 3 geometry sets per k, thorough: 12), '
             'with/without a leading poll, closing polls; plus seeded random interleavings of arrivals, completions and polls '
             '(some decodes never finishing). distinct_nontrivial = distinct payloads decoding to a non-empty image + distinct '
             '(geometry set, event list) scenarios compared poll by poll.',
        modelled='SixelParser::{parse_from, parse_char, parse_sixel_data, translate_sixel_to_pixel, width, height} with '
                 'parse_next_number saturation, Palette length (set_color_rgb/hsl resize), Vec::resize of rows; '
                 'Buffer::update_sixel_threads (front-only pop, is_finished test before join, join error = continue, result? = '
                 'early Err return, shadow removal by Rectangle::contains_rect on Sixel::get_screen_rect, push), execute_dcs push_back',
        not_modelled='PARTIAL: the OS scheduler and the memory ordering of JoinHandle::is_finished/join (the hook serialises real '
                     'thread completions into finish events; a finished thread\'s join returns its result at once); pixel colours '
                     '(palette abstracted to its length), vertical/horizontal scale, the allocator: numbers in the payload that '
                     'request more than 2^26 rows/bytes end the model with the outcome "huge" (finding key=alloc), i32 overflow of '
                     'pixel coordinates in get_screen_rect. The i32 sixel-cursor arithmetic IS modelled and can panic after >= '
                     '357913941 cursor moves (finding key=sixel_mod.rs::translate_sixel_to_pixel:overflow; theorems sixel_total_partial, '
                     'sixel_total_bounded_partial, sixel_total_false).',
        assumptions=['the result of a decode is a function of its payload only (Cfg.res); a thread that has finished reports '
                     'is_finished() = true when polled afterwards (the harness waits for is_finished before it counts a completion)'],
        thorough_exhaustive=True,
    )
