PROP = dict(
    drivers=['Sixel', 'SixelQueue', 'SixelLoad'],
        gens=['sixel'],
        lake=['IcyVerif.Props.C14'],
        ns='IcyVerif.C14',
        theorems=['constants_match_source', 'raster_source_unchanged', 'sixel_rect', 'sixel_pad_only', 'sixel_raster_consistent',
                  'sixel_raster_consistent_at_end', 'sixel_total', 'decode_total', 'sixel_cursor_overflow_is_error',
                  'sixel_rect_pinned_false',
                  'schedule_independent', 'schedule_independent_pair', 'all_delivered_after_polls',
                  'poll_nonblocking', 'poll_stops_at_unfinished', 'no_loss_no_dup', 'no_loss', 'no_loss_at_error',
                  'load_source_unchanged', 'load_one_layer_per_image', 'load_cell_size', 'load_schedule_independent',
                  'load_never_blocks', 'load_no_loss', 'load_text_clear', 'clear_forgets', 'placement_loses_only_covered', 'dcs_handoff'],
        harness='c14',
        harness_timeout=3000,
        design='DESIGN.md §4 C14',
        technique='Lean 4 proof over three executable models. (a) the sixel parser of src/sixel_mod.rs as a char-driven machine '
                  'over row LENGTHS with every index / % operation as an explicit panic outcome and the checked i32 cursor arithmetic '
                  'as a parse error: rectangularity, consistency with a raster attribute and panic freedom (FULL: sixel_total, '
                  'decode_total) by an invariant over the char list (rows % 4 = 0, rows in range, palette non-empty); the picture is '
                  'independent of the scale arguments (decode_img, a simulation argument over every step function); the raster theorem holds for '
                  'an attribute ANYWHERE in the payload (sixel_raster_consistent: hdr = any prefix, also picture data — rows decoded above the '
                  'declared height are cut by the resize of both arms; rows the attribute adds are at least the declared width; positional '
                  'invariant Frozen H k m over the rest of the char list; sixel_raster_consistent_at_end for an attribute closed by the end '
                  'of the payload); the text of the raster arm is pinned (raster_source_unchanged). '
                  '(b) Buffer::update_sixel_threads as a transition system over arrive/finish/poll/clear events: by induction over '
                  'EVERY event list the layer is the arrival-order placement of the popped prefix (schedule independence), poll never '
                  'joins a running thread, the push log is the ok part of an arrival prefix (no loss / no duplication), a poll that returns '
                  'the error of a failing decode has still pushed every good image in front of it and leaves the handles behind it queued '
                  '(no_loss_at_error: any number of finished decodes at one poll, the failing one anywhere), a clear-screen '
                  'forgets everything before it; the covering rule removes nothing but images covered by a LATER image '
                  '(placement_loses_only_covered). (c) the file-loading path parse_with_parser: the join loop under an arbitrary '
                  'completion schedule ends with a result that depends on the arrival order only (load_schedule_independent), and the '
                  'sixel-to-layer loop maps the delivered list one-to-one onto image layers, newest first, cell size = ceiling, for ALL '
                  'lists incl. zero-size images (load_one_layer_per_image, load_cell_size, load_no_loss); the execute_dcs hand-off '
                  '(parameters before q) by dcs_handoff. Differential correspondence against the real crate: '
                  'Sixel::parse_from on payloads; a real Buffer fed through the ANSI parser with decode threads held at the '
                  'cfg(icy_engine_verif) gate and released in every order; Buffer::from_bytes on generated files under every '
                  'stream-parsed extension; single DCS strings on a terminal buffer; the Sixel struct geometry API.',
        rule='(a) boundary payloads; structured pictures (raster attribute smaller/equal/larger than the data, colour selects and '
             'RGB/HLS definitions, "!" repeats up to 500, "$" overprints, bands of unequal length); token-level and char-level random streams over the sixel '
             'alphabet plus digits, ";", junk, code points > 0x7F; ALL strings up to length 3 (quick) / 5 (thorough) over '
             '~A?-$!#";12; LATE raster attributes: a grid of 10 data prefixes x 11 declared heights around the band boundaries x (3 numbers | 4 numbers '
             'with 4 widths) x 7 continuations (3850 payloads, every run) and 2000 (quick) seeded payloads with 1..3 attributes in the middle of a band, '
             'after "-", after "$", at the very end, declaring less / as many / more rows than decoded so far, followed by data inside and beyond the '
             'new height; the oracle finds EVERY raster attribute lexically (reading state only), takes the last one that declares a size and demands '
             'height = declared, width >= declared if the attribute added rows (prefix decoded by the real parser); buckets raster:<place>:<n>-numbers:<cuts|same|adds>. (b) k = 1..4 images x ALL k! completion orders x ALL 2^k placements of a poll after each completion '
             '(quick: 5 geometry sets per k incl. one with panicking decode threads and one with FAILING decodes (Err) at positions 1 and 3, thorough: 13), '
             'with/without a leading poll, closing polls; a clear-screen (ESC[2J, ESC[3J, FF) after each prefix of each completion order; '
             'plus seeded random interleavings of arrivals, completions, polls and clear-screens '
             '(some decodes never finishing); decode threads that PANIC (the gate callback panics inside the thread, so join() is Err) '
             'between images that the same poll must still deliver; batch-at-one-poll family: EVERY assignment of {ok, Err, panic, still running} '
             'to k = 1..4 arrivals x 3 geometries (disjoint, each covering all earlier, one place nobody covered): all non-running decodes complete, then ONE '
             'poll meets the batch (a failing decode at every position), closing polls, the rest completes (1020 scenarios); partial-cover family: an older '
             'image sticking out of the newer one on each side (by a cell / by one pixel), shared borders, identical, inside, disjoint, both arrival and '
             'completion orders, and one image removing several. Poll oracle: after EVERY poll the number of handles that left the queue is read off '
             'sixel_threads; the layer must be the arrival-order placement of exactly those whose decode succeeded (key sixel_lost: a good image that '
             'left the queue is neither shown nor covered by a later one; sixel_dup; sixel_order), a poll without error took all leading finished decodes, '
             'a poll with error stopped at the first failing one; buckets poll:batch>=2:…. (c) hand-made and seeded files under ans/ice/diz/avt/pcb/msg/an1/asc/unknown extensions with 0..=5 sixel '
             'sequences (painted, all-background "?", empty payload, raster attributes declaring 0 / smaller / larger, failing decodes), DCS parameters '
             'before q, positions from CUP / text / CRLF (clustered so that images cover each other), other DCS strings (macro, font, unsupported), '
             'a custom font of another cell size loaded anywhere in the file, clear-screens between sequences, UTF-8 BOM; oracle: image layers = '
             'arrival-order placement computed by the harness, newest first, each a full rectangle of ceil cells, nothing left queued. '
             '1200 (quick) DCS strings on a terminal buffer (decode result, scales, position = caret, caret unmoved); 1500 geometry cases '
             '(get_screen_rect, as_rectangle, contains_rect with shared borders). distinct_nontrivial = distinct payloads decoding to a non-empty '
             'image + distinct (geometry set, event list) scenarios + distinct files yielding at least one image layer.',
        modelled='SixelParser::{parse_from, parse_char, parse_sixel_data, translate_sixel_to_pixel, width, height} with '
                 'parse_next_number saturation, Palette length (set_color_rgb/hsl resize), Vec::resize of rows (growing and CUTTING, raster attributes before and after picture data, 3- and 4-number arms), the checked cursor arithmetic, '
                 'vertical_scale/horizontal_scale (caller arguments, overwritten by a raster attribute); '
                 'Buffer::update_sixel_threads (front-only pop, is_finished test before join, join error = continue, result? = '
                 'early Err return, shadow removal by Rectangle::contains_rect on Sixel::get_screen_rect, push), execute_dcs '
                 '(CTerm:Font prefix, numeric parameters with the leading-";" quirk, !z, q: vertical_scale table regenerated from the source, '
                 'position = caret, push_back), clear_screen / Caret::ff (layers[0].clear + stop_sixel_threads), '
                 'parse_with_parser (join loop with `?`, sixels.pop() conversion loop, (px + font - 1) / font cell sizes, layer number / offset / '
                 'inner sixel position; text of both loops pinned by load_source_unchanged), Sixel::{from_data, new, set_size, get_screen_rect, as_rectangle}',
        not_modelled='PARTIAL: the OS scheduler and the memory ordering of JoinHandle::is_finished/join (the hook serialises real '
                     'thread completions into finish events; a finished thread\'s join returns its result at once; on the file-loading path the real '
                     'schedule is whatever the OS does — the model is run under a random schedule and load_schedule_independent says it does not matter); '
                     'pixel colours (palette abstracted to its length; the unused default background colour P2), the allocator (numbers in the payload beyond '
                     'MAX_SIXEL_SIZE / MAX_SIXEL_COLORS are parse errors since the size-limit repairs; the model outcome "huge" - a request of more than 2^26 '
                     'rows/bytes - is unreachable: C03.sixel_never_huge; former finding key=alloc), i32 overflow of '
                     'pixel coordinates in get_screen_rect and of (pixels + font - 1), f32 rounding in as_rectangle beyond 2^24 pixels; the text between '
                     'the sequences of a file (the caret position of each sequence is an input of the model, predicted by the generator from its own '
                     'CUP / text / CRLF segments), crop_loaded_file and the bold pass (cells of layer 0 only), a decode error aborts the whole load '
                     '(modelled as the outcome err: parse_with_parser propagates update_sixel_threads()? although skip_errors is set).',
        assumptions=['the result of a decode is a function of its payload only (Cfg.res); a thread that has finished reports '
                     'is_finished() = true when polled afterwards (the harness waits for is_finished before it counts a completion)'],
        thorough_exhaustive=True,
    )
