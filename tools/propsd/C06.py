PROP = dict(
    drivers=['XbCompress'],
        gens=['xb'],
        lake=['IcyVerif.Props.C06'],
        ns='IcyVerif.C06',
        theorems=['run_builder_sound', 'real_heuristic_forced', 'compress_transparent', 'compress_image_conforms',
                  'raw_image_decodes', 'compressed_eq_uncompressed', 'refusal_agrees', 'font_page_in_attribute_byte',
                  'distinct_pages_distinct_bytes', 'font_page_preserved', 'loader_reads_same_pairs',
                  'loaded_pictures_identical', 'loaded_font_page', 'pinned_tree_violates'],
        harness='c06',
        design='DESIGN.md §4 C06',
        thorough_exhaustive=True,
        technique='Lean 4 proof by induction over the row: a generic run-builder lemma (for ANY end-of-run decision function '
                  'that fires when forced, the emitted bytes are a list of well-formed runs covering exactly the row) is '
                  'instantiated with the literally transcribed heuristic of compress_backtrack incl. its count_length '
                  'look-ahead; an independent decoder written from doc/FileFormats/x_bin.htm reads such a list back run by '
                  'run, stops exactly at the row end and leaves the tail (SAUCE) alone; file-level corollaries for all '
                  'images, equality with the uncompressed encoding, font-page bit in 512-character mode; a literal model of '
                  'the crate loader (read_data_compressed / read_data_uncompressed / decode_char) is proved to hand the same '
                  'pair sequence to decode_char for both files. Constants '
                  '(compression codes, run limit, flag bits, encode_attr masks, attribute bits) are regenerated from the '
                  'source. Byte-exact differential correspondence of the image data against the real Buffer::to_bytes.',
        rule='cases: whole buffers (ice mode x width x cells(ch,fg,bg,flags,page) x sauce x optimiser path) saved by the real '
             'crate compressed and uncompressed; fixed witnesses (font-page rows, widths 1,2,63..66,127..130,200), exhaustive '
             'small rows packed into buffers, seeded random buffers width 1..=200 x height 1..=30 with small alphabets '
             '(long runs, structurally different attributes sharing one byte) and the full byte range; spec-decoder tie on '
             'the implementation bytes and on corrupted copies; distinct_nontrivial = distinct buffers',
        modelled='compress_backtrack, count_length, encode_attr, TextAttribute::as_u8, analyze_font_usage, the uncompressed '
                 'branch of XBin::to_bytes, Err for characters > 255 and > 2 fonts; spec decoder parseRun/parseRow/parseImage; '
                 'loader: read_data_compressed, read_data_uncompressed, decode_char, TextAttribute::from_u8 (tied on the '
                 'files the writer produced)',
        not_modelled='XBin header/palette/font blocks (parsed by the harness from the spec to locate the image data; an empty '
                     'buffer makes to_bytes panic at fonts[0] there, before any image data - outside the quantifier), SAUCE '
                     'record contents (any tail), ColorOptimizer (its output buffer is observed and used as the writer input), '
                     'Buffer::get_char layer merging (observed), loader behaviour on streams the writer cannot produce (C02), '
                     'size of the loaded buffer (files lower than 25 rows load 25 rows high: C05), what the loader loses in '
                     '512-character mode (fg bit 3, absolute font slot numbers: C05)',
        assumptions=['advance_pos/set_char place pair number i at cell (i mod w, i div w): equal pair sequences give equal '
                     'pictures; checked on the implementation by the oracle (from_bytes of both files, cell by cell)'],
    )
