PROP = dict(
    drivers=['Sauce', 'SauceUni'],
        gens=['sauce', 'codec', 'sauceuni'],
        lake=['IcyVerif.Props.C11', 'IcyVerif.Props.C11Uni'],
        ns='IcyVerif.C11',
        theorems=['extract_total', 'header_len_le', 'from_bytes_split_total', 'write_outcome',
                  'extract_write', 'split_exact', 'load_ignores_sauce', 'set_sauce_defaults', 'loader_width',
                  'carry_texts', 'carry_texts_equal', 'carry_ansi', 'carry_ascii', 'carry_plain', 'carry_bin',
                  'width_round_trip', 'writers_covered',
                  'string_rt', 'string_rt_value', 'string_rt_exact', 'string_rt_equal', 'string_rt_nul',
                  'string_read_total',
                  'cp437_table_facts', 'from_char_exact', 'string_uni_rt', 'string_uni_rt_iff', 'string_uni_rt_nul', 'from_uni_value'],
        harness='c11',
        design='DESIGN.md §4 C11',
        technique='STRINGS: string_uni_rt / string_uni_rt_iff state the field round trip on the Rust Strings the API accepts (lists of code '
                  'points): from -> append_to -> read -> to_string gives the string back IFF it has at most LEN characters, all in the '
                  'regenerated CP437 table (256 entries, Nodup kernel-checked by list traversal), and no trailing blank/NUL; every other '
                  'character becomes `?`, longer strings are cut. '
                  'Lean 4 proof over a byte-level model of SauceString, Buffer::write_sauce_info, SauceData::extract and the '
                  'SAUCE part of Buffer::from_bytes/set_sauce in which every data[a..b], data[i], usize subtraction and '
                  'assert is an explicit panic outcome: extract is total on all byte lists; for ALL contents and ALL '
                  'metadata extract(content ++ EOF ++ write) returns what the SAUCE variant can carry and a header length '
                  'equal to EOF + COMNT block + record, so the content is recovered byte for byte (cursor walk over the '
                  'written record, induction over comment lines and over the read loop). Constants, per-variant '
                  'writer/reader arms and the comment-block arithmetic are regenerated from src/sauce_mod/mod.rs, '
                  'src/buffers.rs, src/formats/*.rs; differential correspondence ties the hand-written skeleton; an '
                  'independent oracle checks the property on the real crate',
        rule='cases: write_sauce_info for all 9 SauceFileType x seeded metadata (CP437 strings of every length incl. trailing '
             'blanks/NULs/over-long, 0..=255(+) comment lines of 0..=64 bytes incl. embedded NULs, all flag combinations, '
             'widths 0..=1002 and u16 wrap, font names) appended to vectors whose contents end in SAUCE/COMNT look-alikes; '
             'Buffer::to_bytes(save_sauce) + from_bytes for ans asc avt pcb bin xb tnd adf idf icy; picture with/without '
             'SAUCE; content + EOF + SAUCE splices; truncated/corrupted tails (suffixes, cut ends, wrong comment counts, '
             'single-byte corruptions, random 128-byte records starting with SAUCE behind arbitrary prefixes); SauceString '
             'read/append/len/eq; SauceString::from / to_string on Rust STRINGS (ASCII, every CP437 character, characters outside '
             'the table up to U+10FFFF, NULs and blanks at every position, exactly LEN / LEN+1 characters, a multi-byte character at the '
             'cut) through from -> append_to -> read -> to_string for the field shapes 35/20/5 blank-padded and 64/22 NUL-padded; '
             'a 2 GiB file. distinct_nontrivial = distinct inputs (metadata cases, files, strings)',
        modelled='SauceString::{read, append_to, from (any Rust String: first-index search in CP437_TO_UNICODE, `?` substitution, cut at LEN characters), len, to_string (bytes -> characters through the table), PartialEq}; Buffer::write_sauce_info (all '
                 'arms, error cases, file_size, u16 casts); SauceData::extract (every index/slice/subtraction/assert as a '
                 'panic site, all error returns, per-type interpretation); Buffer::from_bytes length arithmetic and slice; '
                 'Buffer::set_sauce width/ice/font rule',
        not_modelled='chrono (date parser verdict is a parameter supplied by the harness from the implementation; Utc::now is '
                     'an input); creation_time; the format '
                     'loaders behind from_bytes (picture equality is checked by the oracle run only); get_font(0).unwrap() '
                     '(a buffer without font slot 0); calling SauceString::read twice on the same value',
        assumptions=['NaiveDateTime::parse_from_str only looks at the 8 date bytes (dateOk is a function of them)',
                     'files shorter than 2^63 bytes (usize arithmetic other than subtraction does not overflow)'],
        thorough_exhaustive=True,
    )
