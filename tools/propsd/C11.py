PROP = dict(
    drivers=['Sauce', 'SauceUni', 'SauceLoad'],
        gens=['sauce', 'codec', 'sauceuni', 'xb', 'binfmt'],
        lake=['IcyVerif.Props.C11', 'IcyVerif.Props.C11Uni', 'IcyVerif.Props.C11Load'],
        ns='IcyVerif.C11',
        theorems=['extract_total', 'header_len_le', 'from_bytes_split_total', 'write_outcome',
                  'extract_write', 'split_exact', 'load_ignores_sauce', 'set_sauce_defaults', 'loader_width',
                  'carry_texts', 'carry_texts_equal', 'carry_ansi', 'carry_ascii', 'carry_plain', 'carry_bin',
                  'width_round_trip', 'writers_covered',
                  'string_rt', 'string_rt_value', 'string_rt_exact', 'string_rt_equal', 'string_rt_nul',
                  'string_read_total',
                  'cp437_table_facts', 'from_char_exact', 'string_uni_rt', 'string_uni_rt_iff', 'string_uni_rt_nul', 'from_uni_value',
                  'load_composed', 'load_plain', 'record_xb', 'record_idf', 'record_adf', 'record_bin', 'record_tnd',
                  'loader_table', 'load_ignores_sauce_bin', 'load_ignores_sauce_tnd'],
        harness='c11',
        design='DESIGN.md §4 C11',
        technique='LOADERS: the last sentence of the property composed with the format loaders for xb/bin/adf/idf/tnd: SauceLoad.fromBytes = '
                  'fromBytesSplit (full extract) then BinFormats.loadBody (C05 model; since the merge of the C05 work package BinFormats.fromBytes IS '
                  'this composition: binformats_from_bytes_is_this, the loaders take C11\'s Sauce record as it is); load_composed (for ALL content and ALL '
                  'metadata the loader gets exactly `content` and the carried record), the SAUCE size rule per loader (record_xb/idf '
                  'unconditional, record_adf/bin by induction over the placed cells: set_height(y+1) before every set_char and '
                  'crop_loaded_file overwrite the record heights, record_tnd by a simulation over the Tundra command loop: the record\'s height counts only for a file that places no cell — there it must be the loader\'s default 25, the same kind of hypothesis as record_bin), '
                  'load_ignores_sauce_bin: at loader defaults (width, ice, and for .bin the font NAMED in the record: fontAtDefault) the loaded buffer '
                  'EQUALS the one of the content alone in every field, next to it the kept record (keep: the loader model now stores the '
                  'record\'s texts in the buffer like Buffer::set_sauce does) (load_ignores_sauce_tnd: full since the repair of the TundraDraw arm of write_sauce_info, '
                  'which now stores the height; the format has no size fields, so for a file without cells the record\'s height is a loader setting and is 25 at the defaults). Buffer::from_bytes itself is pinned by the translator (extract sees the whole `bytes`, `len` changes by '
                  'sauce_header_len only, both loader calls get &bytes[..len]) and tied by a probe: the .asc loader draws every byte of '
                  '{0x1A} u 0x21..=0x7E as one cell, so the cells of the loaded buffer ARE the bytes the loader was handed. '
                  'STRINGS: string_uni_rt / string_uni_rt_iff state the field round trip on the Rust Strings the API accepts (lists of code '
                  'points): from -> append_to -> read -> to_string gives the string back IFF it has at most LEN characters, all in the '
                  'regenerated CP437 table (256 entries, Nodup kernel-checked by list traversal), and no trailing blank/NUL; every other '
                  'character becomes `?`, longer strings are cut. '
                  'Lean 4 proof over a byte-level model of SauceString, Buffer::write_sauce_info, SauceData::extract and the '
                  'SAUCE part of Buffer::from_bytes/set_sauce in which every data[a..b], data[i], usize subtraction and '
                  'assert is an explicit panic outcome: extract is total on all byte lists; for ALL contents and ALL '
                  'metadata extract(content ++ EOF ++ write) returns what the SAUCE variant can carry and a header length '
                  'equal to EOF + COMNT block + record, so the content is recovered byte for byte (cursor walk over the '
                  'written record, induction over comment lines and over the read loop). Constants, per-variant '
                  'writer/reader arms and the comment-block arithmetic are regenerated from src/sauce_mod/mod.rs, '
                  'src/buffers.rs, src/formats/*.rs; differential correspondence ties the hand-written skeleton; an '
                  'independent oracle checks the property on the real crate',
        rule='cases: write_sauce_info for all 9 SauceFileType x seeded metadata (CP437 strings of every length incl. trailing '
             'blanks/NULs/over-long, 0..=255(+) comment lines of 0..=64 bytes incl. embedded NULs, all flag combinations, '
             'widths 0..=1002 and u16 wrap, font names) appended to vectors whose contents end in SAUCE/COMNT look-alikes; '
             'Buffer::to_bytes(save_sauce) + from_bytes for ans asc avt pcb bin xb tnd adf idf icy; picture with/without '
             'SAUCE; content + EOF + SAUCE splices; truncated/corrupted tails (suffixes, cut ends, wrong comment counts, '
             'single-byte corruptions, random 128-byte records starting with SAUCE behind arbitrary prefixes); SauceString '
             'read/append/len/eq; SauceString::from / to_string on Rust STRINGS (ASCII, every CP437 character, characters outside '
             'the table up to U+10FFFF, NULs and blanks at every position, exactly LEN / LEN+1 characters, a multi-byte character at the '
             'cut) through from -> append_to -> read -> to_string for the field shapes 35/20/5 blank-padded and 64/22 NUL-padded; '
             'a 2 GiB file; PROBE: printable content (incl. SAUCE/COMNT look-alike ends) + write_sauce_info of all 9 variants x 0, 1, 254, 255 '
             '(thorough: 12 counts) comment lines through Buffer::from_bytes(.asc) and through the ANSI fallback of an unknown extension: '
             'cells of the loaded buffer = content byte for byte (`cut-exact`), `sauce split` vs fromBytesSplit; tails the engine does not write '
             '(EOF missing, no content, count field +-1/0, cut record, broken date / COMNT id, doubled EOF); BINARY FORMATS: the '
             'writer\'s own file for xb bin adf idf tnd x the same comment counts, at loader defaults and elsewhere, + tail variants: '
             'digest of Buffer::from_bytes vs SauceLoad.fromBytes, picture = picture of load_buffer(content, None); splice and '
             'to_bytes/from_bytes cases with the boundary counts for every one of the ten writers; .tnd content without a cell under the SAUCE of buffers of height 25 (same picture) and 0, 1, 1..=200, 24/26/100/1000 (the record\'s height is the loaded height; file also through SauceLoad.fromBytes). '
             'distinct_nontrivial = distinct inputs (metadata cases, files, strings)',
        modelled='SauceString::{read, append_to, from (any Rust String: first-index search in CP437_TO_UNICODE, `?` substitution, cut at LEN characters), len, to_string (bytes -> characters through the table), PartialEq}; Buffer::write_sauce_info (all '
                 'arms, error cases, file_size, u16 casts); SauceData::extract (every index/slice/subtraction/assert as a '
                 'panic site, all error returns, per-type interpretation); Buffer::from_bytes (argument of extract, length arithmetic, slice, both '
                 'loader calls: pinned by the translator and probed through the .asc loader); Buffer::set_sauce width/ice/font rule; '
                 'Buffer::from_bytes composed with the xb/bin/adf/idf/tnd loaders of Model/BinFormats.lean (set_sauce(.., true): size, ice, '
                 'font slot 0 from a font NAMED in the record, the kept record; set_char/set_height/crop_loaded_file placement, Tundra command '
                 'loop incl. the wide-SAUCE start buffer of the repaired loader: tndRuleW)',
        not_modelled='chrono (date parser verdict is a parameter supplied by the harness from the implementation; Utc::now is '
                     'an input); creation_time; the TEXT '
                     'format loaders behind from_bytes (ans asc avt pcb, icy: picture equality is checked by the oracle run only; the .asc loader '
                     'serves as a probe, it is not modelled); get_font(0).unwrap() '
                     '(a buffer without font slot 0); calling SauceString::read twice on the same value',
        assumptions=['NaiveDateTime::parse_from_str only looks at the 8 date bytes (dateOk is a function of them)',
                     'files shorter than 2^63 bytes (usize arithmetic other than subtraction does not overflow)'],
        thorough_exhaustive=True,
    )
