PROP = dict(
    drivers=['Crc'],
        gens=['crc'],
        lake=['IcyVerif.Props.C19'],
        ns='IcyVerif.C19',
        theorems=['crc16_table_entries', 'crc32_table_entries', 'update_crc16_is_bitwise',
                  'update_crc32_is_bitwise', 'get_crc16_eq', 'incremental_crc16', 'get_crc32_eq',
                  'incremental_crc32', 'source_skeleton_unchanged'],
        harness='c19',
        design='DESIGN.md §4 C19',
        technique='Lean 4 proof (induction over byte strings + XOR-linearity of the shift register; '
                  'tables checked entry-by-entry with decide +kernel) over a model whose tables and XOR-chain '
                  'shape are regenerated from src/crc.rs; differential correspondence for the hand-written skeleton',
        rule='cases: seeded byte strings of every length 0..=48, one-hot strings routing a byte through each sliced-table '
             'row, longer strings, two-byte strings, update_crc16 rows (state x all 256 bytes hashed), update_crc32 '
             'samples; distinct_nontrivial = distinct byte strings fed to the one-shot + incremental APIs',
        modelled='get_crc16, update_crc16, get_crc32 (loop skeleton hand-modelled; tables, init value, block size, '
                 'XOR-chain (row, index, shift) triples regenerated), update_slow, update_crc32',
        not_modelled='get_crc16_buggy*, Rust slice bounds (buf[0xf] is in range because len>=16)',
    )
