PROP = dict(
    drivers=['Crc'],
        gens=['crc'],
        lake=['IcyVerif.Props.C19'],
        ns='IcyVerif.C19',
        theorems=['crc16_table_entries', 'crc32_table_entries', 'update_crc16_is_bitwise',
                  'update_crc32_is_bitwise', 'get_crc16_eq', 'incremental_crc16', 'get_crc32_eq',
                  'incremental_crc32', 'source_skeleton_unchanged',
                  # the call sites (the engine's own incremental use of the update functions)
                  'rect_cell_serial', 'rect_cells_spec', 'rect_checksum_eq', 'decrqcra_reply',
                  'font_checksum_eq', 'font_loop_spec', 'font_checksum_covers',
                  'palette_checksum_any_history', 'palette_color_serial', 'palette_checksum_idempotent',
                  'call_sites_skeleton_unchanged'],
        harness='c19',
        design='DESIGN.md §4 C19',
        technique='Lean 4 proof (induction over byte strings + XOR-linearity of the shift register; '
                  'tables checked entry-by-entry with decide +kernel) over a model whose tables and XOR-chain '
                  'shape are regenerated from src/crc.rs; the three call sites (DECRQCRA, font checksum, palette checksum) are '
                  'modelled as the nested feeding loops that exist and proved equal to one fold over the serialised bytes = '
                  'one-shot CRC = bitwise definition (palette: cache invariant "register = fold over colors[..old_checksum]" '
                  'preserved by every operation, so every get_checksum in every history returns the fold over all colours '
                  'present); per-cell / per-colour byte order, loop bounds and initial values regenerated from the call-site '
                  'sources; differential correspondence for the hand-written skeletons through the real parser / loaders',
        rule='cases: seeded byte strings of every length 0..=48, one-hot strings routing a byte through each sliced-table '
             'row, longer strings, two-byte strings, update_crc16 rows (state x all 256 bytes hashed), update_crc32 '
             'samples; call sites: DECRQCRA requests through the real ANSI parser on buffers whose cells come from SGR '
             'sequences and from direct writes (attribute words of every shape incl. invisible, colours 0..15 / 16..255 / '
             '256..300 / RGB-flagged / arbitrary u32, characters above 0xFF; areas full-screen, at and one past the edge, '
             'empty, single cell, wrong parameter counts), fonts built by the real loaders (PSF1 256/512, PSF2 with 0..700 '
             'glyphs and 16-pixel rows, raw, create_8, from_basic; length field above/below the glyph count, glyphs removed, '
             'pairs differing in one byte of one glyph below/above 256), palette histories (every cut of 6 pushes into '
             'get_checksum calls, every history of push/get_checksum up to length 6 from three constructors, every history '
             'up to length 2-3 over 11 operations, seeded histories on 1..300 colours); '
             'distinct_nontrivial = distinct byte strings fed to the one-shot + incremental APIs plus distinct call-site scenarios',
        modelled='get_crc16, update_crc16, get_crc32 (loop skeleton hand-modelled; tables, init value, block size, '
                 'XOR-chain (row, index, shift) triples regenerated), update_slow, update_crc32; '
                 'call sites: Parser::request_checksum_of_rectangular_area (parameter count, area test, row/column loops, '
                 'visibility test, per-cell feeding, reply string) as a function of the cell grid that Buffer::get_char shows; '
                 'BitFont::calculate_checksum (loop 0..length over char::from_u32 + glyph lookup, register from 0) as a function '
                 'of length and the glyph table; Palette::get_checksum with its cache (old_checksum, checksum) and every Palette '
                 'method that writes the colour vector: push, set_color, set_color_rgb, set_color_hsl (as set_color with the '
                 'colour that came out), clear, resize, fill_to_16, insert_color, clone',
        not_modelled='get_crc16_buggy*, Rust slice bounds (buf[0xf] is in range because len>=16); call sites: the CSI '
                     'parameter parser that fills parsed_numbers and the layer compositing inside Buffer::get_char (C13) — the '
                     'model starts from the numbers and the observed grid; the float arithmetic of set_color_hsl; font loaders '
                     '(C17) — the model starts from length and glyph table; BitFont.glyphs / length are public fields, edits '
                     'after construction need an explicit calculate_checksum() by design',
    )
