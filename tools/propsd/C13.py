PROP = dict(
    drivers=['Comp'],
        gens=['comp'],
        lake=['IcyVerif.Props.C13'],
        ns='IcyVerif.C13',
        theorems=['determined_by_visible_covering', 'hidden_irrelevant', 'hidden_removable', 'uncovered_irrelevant',
                  'invisible_alpha_cell_irrelevant', 'invisible_cell_irrelevant', 'opaque_cuts', 'modifier_alpha_flag_irrelevant',
                  'layer_contribution_translates', 'translate', 'insert_empty_alpha', 'edit_hidden',
                  'translate_stack', 'getCharC_eq_getChar'],
        harness='c13',
        design='DESIGN.md §4 C13',
        technique='Lean 4 proof (induction over the layer stack with the loop state (ch_opt, attr_opt, default_font_page, '
                  'transparent_char) generalised; the half-block classifier of make_solid_color is an uninterpreted parameter, '
                  'so the laws hold for every font table) over a literal transcription of impl TextPane for Buffer::get_char; '
                  'constants regenerated from the source; differential correspondence of Buffer::get_char against the model '
                  'at every position of the bounding box + 2; the relational laws additionally evaluated on real Buffers',
        rule='cases: seeded stacks per the quantifier (1..=5 layers, 1..=12 x 1..=8, offsets -4..=6, normal/chars/attributes, '
             'alpha/opaque, visible/hidden, sparse ragged content incl. TRANSPARENT_COLOR half blocks and invisible cells with '
             'arbitrary content, both is_terminal_buffer settings), each compared cell by cell at every position of the bounding '
             'box + 2; small-scope stacks of 1x1 layers (exhaustive up to 3 layers in thorough); i32-edge offsets '
             '(correspondence only); oracle per stack: insert empty alpha layer at every index, edit / remove every hidden '
             'layer, translate the stack, remove a layer (uncovered positions), rewrite invisible cells, replace everything '
             'beneath an opaque layer; distinct_nontrivial = distinct stacks of the quantifier',
        modelled='impl TextPane for Buffer::get_char (all return paths, overlay_layer = None), fn merge, Buffer::make_solid_color, '
                 'impl TextPane for Layer::get_char (ragged rows), AttributedChar::{is_visible,is_transparent,invisible,default}, '
                 'the checked i32 subtraction pos - offset',
        not_modelled='the overlay layer (outside the quantifier; overlay_layer_index is positional); HalfBlock::from is a '
                     'parameter of the model (sampled from the implementation per (font page, char) for the correspondence run)',
        thorough_exhaustive=True,
    )
