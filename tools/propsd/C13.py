PROP = dict(
    drivers=['Comp'],
        gens=['comp'],
        lake=['IcyVerif.Props.C13'],
        ns='IcyVerif.C13',
        theorems=['determined_by_visible_covering', 'hidden_irrelevant', 'hidden_removable', 'uncovered_irrelevant',
                  'invisible_alpha_cell_irrelevant', 'invisible_cell_irrelevant', 'opaque_cuts', 'modifier_alpha_flag_irrelevant',
                  'layer_contribution_translates', 'translate', 'insert_empty_alpha', 'edit_hidden',
                  'translate_stack', 'getCharC_eq_getChar',
                  # "topmost first" (complete case split of the walk; true of the repaired opaque branch)
                  'topmost_first', 'topmost_first_plain', 'topmost_opaque_blank', 'nothing_visible',
                  # the offset state machine of Layer (set_offset / set_preview_offset / get_offset / position lock)
                  'set_offset_places', 'set_offset_shows_at', 'set_offset_locked_ignored', 'preview_shows_at',
                  'layers_independent', 'picture_after_history', 'move_layer_by', 'translate_stack_api',
                  # HalfBlock::from on the regenerated CP437 bitmaps
                  'halfblock_cp437_shapes', 'halfblock_cp437_blocks'],
        harness='c13',
        design='DESIGN.md §4 C13',
        technique='Lean 4 proof (induction over the layer stack with the loop state (ch_opt, attr_opt, default_font_page, '
                  'transparent_char) generalised; the half-block classifier of make_solid_color is a parameter of the laws, '
                  'so they hold for every font table; induction over operation histories for the offset state machine of Layer) '
                  'over a literal transcription of impl TextPane for Buffer::get_char, Layer::{get_offset, get_base_offset, '
                  'set_offset, set_preview_offset} and HalfBlock::from; constants and the glyph bitmaps of the fonts the harness '
                  'installs regenerated from the source tree; differential correspondence of Buffer::get_char against the model '
                  'at every position of the bounding box + 2, of real Layers driven through position-operation histories, of '
                  'make_solid_color on every glyph, of the cell predicates and of Layer::get_char; the relational laws '
                  'additionally evaluated on real Buffers',
        rule='cases: seeded stacks per the quantifier (1..=5 layers, 1..=12 x 1..=8, offsets -4..=6, normal/chars/attributes, '
             'alpha/opaque, visible/hidden, sparse ragged content incl. TRANSPARENT_COLOR half blocks and invisible cells with '
             'arbitrary content, both is_terminal_buffer settings), each compared cell by cell at every position of the bounding '
             'box + 2; small-scope stacks of 1x1 layers (exhaustive up to 3 layers in thorough); i32-edge offsets '
             '(correspondence only); histories of set_offset (same / different position) / set_preview_offset(Some/None) / '
             'position lock / direct offset writes on real Layers: seeded on random stacks, exhaustive up to length 3 (thorough: 4) '
             'over a 9-operation alphabet; make_solid_color over every glyph code of the three installed fonts, an absent font '
             'and absent glyphs; is_visible / is_transparent over every attribute bit; Layer::get_char on ragged layers incl. '
             'positions outside. Oracle per stack: topmost first (the first Normal cell from the top, merged with the '
             'char/attribute cells above it, decides everything but its transparent colours; opaque blank; fall-through), insert '
             'empty alpha layer at every index, edit / remove every hidden layer, translate the stack, remove a layer (uncovered '
             'positions), rewrite invisible cells, replace everything beneath an opaque layer; per history step: the picture '
             'equals that of a stack built from scratch with every layer at the offset the API documents, and the three '
             'getters agree; distinct_nontrivial = distinct stacks / histories of the quantifier',
        modelled='impl TextPane for Buffer::get_char (all return paths, overlay_layer = None), fn merge, Buffer::make_solid_color, '
                 'HalfBlock::from (font lookup, the two count_ones loops, the > width*height/4 threshold; glyph bitmaps of ANSI '
                 'font slots 0, 32, 42 regenerated from data/fonts), impl TextPane for Layer::get_char (ragged rows), '
                 'Layer::{get_offset, get_base_offset, get_preview_offset, set_offset, set_preview_offset} with '
                 'properties.is_position_locked and direct writes of properties.offset, '
                 'AttributedChar::{is_visible,is_transparent,invisible,default}, the checked i32 subtraction pos - offset',
        not_modelled='the overlay layer (outside the quantifier: overlay_layer_index is positional, so inserting a layer moves '
                     'the overlay; kept excluded, overlay_layer = None in every case); fonts other than the three the harness '
                     'installs (the laws are proved for every classifier; the transcription of HalfBlock::from is tied on those '
                     'three); the half-block PAINTER of src/paint/half_block.rs (get_halfblock, optimize_block, flip_colors: '
                     'they produce cells, the compositor never calls them); Layer mutators other than the position API '
                     '(set_char, join, insert_line … belong to C08)',
        thorough_exhaustive=True,
    )
