PROP = dict(
    drivers=['ArtIO'],
        gens=['art'],
        lake=['IcyVerif.Props.C04'],
        ns='IcyVerif.C04',
        theorems=['ansi_rt_partial₃', 'ansi_rt_partial₁', 'sgr_sync_16', 'subst_sound', 'trim_sound', 'csi_roundtrip', 'ansi_prep_core',
                  'showEq_img', 'showEq_blank', 'bom_counterexample'],
        harness='c04',
        design='DESIGN.md §4 C04',
        technique='Lean 4 proof for ALL pictures of the theorems\' shape (ansi_rt_partial₃: every combination of compression, cursor '
                  'forward, repeat sequences, preserved line length and longer-terminal positioning; ansi_rt_partial₁: no compression, exact cells; 16 DOS foreground colours, 8 background '
                  'colours - 16 in iCE mode -, blink / unlimited / iCE mode, SAUCE widths 1..=132, all attribute flags, all screen preparations and control-character modes): a simulation '
                  'relation RelS between the writer\'s AnsiState and the reader\'s caret attribute, preserved by every block of '
                  'get_color (reset, bold, faint, italic, underline, blink, concealed, crossed out, double underline, foreground, '
                  'background: sgr_sync), the reader\'s CSI parameter parser shown inverse to the writer\'s number formatting '
                  '(csi_read), the RLE / CUF / REP substitution shown sound (subst_sound: skipped cells are non-blinking spaces on colour 0 '
                  'away from the margin), the end-of-line trimming shown sound (trim_sound), a general crop lemma, then induction over cells and rows on top of the format-independent screen theory shared with C15 '
                  '(auto-wrap of full-width rows, crop_loaded_file, bold folding). Executable model of the whole StringGenerator '
                  '(get_color, generate_cells incl. trimming, generate incl. RLE / CUF / REP, longer-terminal CSI y H, '
                  'control-character handling, screen_prep / screen_end) tied byte-exactly to the crate over the full option lattice; '
                  'reader model tied on writer output, row-mutated writer output and grammar-generated token streams; independent '
                  'oracle Buffer::to_bytes("ans") -> Buffer::from_bytes on the real code comparing what is DISPLAYED',
        rule='cases: the full lattice of 2^8 boolean save options (compress, cursor forward, repeat sequences, preserve line length, '
             'longer terminal, extended colours, lossless, normalize whitespaces) x 3 screen preparations x 3 control-character '
             'modes x 3 ice modes on 6 small pictures (runs of blanks inside / at the end of rows, bold / blink / concealed / '
             'extended attributes, bright backgrounds, xterm-256 and RGB colours, full-width and width-1 rows) — every point in '
             'thorough, a seeded sixth in quick; seeded pictures of height 1..=6 and 1..=60, width 80 or (with SAUCE) 1..=132, '
             'whole CP437 range minus what the control-character mode cannot encode, palette of 16 + 0..3 extra colours, random '
             'options; reader streams: writer output with rows dropped / duplicated / swapped / joined and tokens spliced in, and '
             'token streams of the ANSI sub-language; oracle per cell: glyph, displayed foreground RGB (where the glyph has '
             'foreground pixels; bold low colour = bright colour), background RGB (where it has background pixels), blink flag; '
             'first failure of each key is minimised (greedy shrinker); distinct_nontrivial = distinct (options, picture)',
        modelled='StringGenerator::get_color (AnsiState), generate_cells (end-of-line trimming), generate (cell loop with RLE / CUF / '
                 'REP substitution, font page fixed 0, longer-terminal positioning, line-break rule incl. the one-blank shortcut), '
                 'CONTROL_CHARS handling, screen_prep / screen_end, push_result with unlimited line length, number formatting; '
                 'ansi::Parser sub-language (SGR incl. 38/48 and palette insertion, CUF, REP, CUP, ED 2/3, ?33h/l, SCP/RCP, 24-bit '
                 'colour, font selection, ESC <ctrl>), Caret::get_attribute (iCE), loader glue (SAUCE size / iCE flag, '
                 'convert_ansi_to_utf8, bold folding, crop); tables (DOS palette, xterm-256 palette, COLOR_OFFSETS, '
                 'CONTROL_CHARS) regenerated from the source',
        not_modelled='output_line_length (CSI s / CR LF / CSI u line splitting), modern_terminal_output (UTF-8; excluded by the '
                     'property), font pages other than 0, sixels, SAUCE record bytes (C11; the harness passes width / height / iCE '
                     'flag), the colour optimiser (C12; the harness hands the model the optimised picture). Under a theorem: all '
                     'combinations of compress / cursor forward / repeat sequences / preserve line length / longer-terminal positioning (up to 999 rows) / extended colours x 3 screen '
                     'preparations x 3 control-character modes x 3 ice modes (16 fg x 8 bg DOS colours, 16 bg in iCE mode), width 80 or '
                     'SAUCE width 1..=132. Correspondence + oracle only (no theorem yet): xterm-256 / RGB colours and backgrounds 8..15 '
                     'outside iCE mode',
        thorough_exhaustive=True,
    )
