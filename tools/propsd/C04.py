PROP = dict(
    drivers=['ArtIO'],
        gens=['art'],
        lake=['IcyVerif.Props.C04X'],
        ns='IcyVerif.C04',
        theorems=['ansi_rt', 'split_invisible', 'chunk_ok', 'push_no_underflow', 'ansi_rt_partial₄', 'sgr_sync_all', 'insert_resolves', 'xterm_lookup_sound', 'subst_sound_all', 'trim_sound_all',
                  'ansi_rt_partial₃', 'ansi_rt_partial₁', 'sgr_sync_16', 'subst_sound', 'trim_sound', 'csi_roundtrip', 'ansi_prep_core',
                  'showEq_img', 'showEq_blank', 'bom_counterexample'],
        harness='c04',
        design='DESIGN.md §4 C04',
        technique='Lean 4 proof for ALL pictures of the theorems\' shape. ansi_rt (FULL statement, the whole of Ansi::to_bytes except UTF-8 output / sixels / uploaded fonts): everything of '
                  'ansi_rt_partial₄ below, plus output_line_length = None or Some(n) for EVERY n, plus skip_lines (rows left out with longer-terminal positioning: the conclusion covers every row that was '
                  'written), plus font pages (any assignment of font slots to cells, every slot mapped by generate_ansi_font_map to an ANSI font page; ESC[0;n SP D switching and the RLE scan that stops at a '
                  'font change are in the writer model), WITHOUT the former hypothesis "the file does not start with EF BB BF" (repaired: to_bytes puts ESC[0m in front of such output; the reset is shown to be '
                  'a no-op for a fresh reader), and with the conclusion that to_bytes RETURNS (no unwrap panic in font_map under FontsOk, no usize underflow in push_result: push_no_underflow). The writer is '
                  'modelled at the level push_result works at: a list of events (extend result / push_result / last_line_break = result.len() / end of scope) that does not depend on the line length, interpreted '
                  'by WSt.step for a given limit (the end-of-row code sets last_line_break from the LOCAL vector\'s length - copied as it is). run_out: for every limit the output is the list of chunks handed to push_result with '
                  'ESC[s CR LF ESC[u in front of SOME of them. chunk_ok: every chunk is a concatenation of whole control sequences / characters (atoms: CSI params final for any numbers, ESC[?33h/l, ESC[0;n SP D, cell '
                  'characters incl. the ESC-prefixed ones, space, CR LF), each of which takes the parser from ground state to ground state and contains no CSI u - so a split never falls inside a sequence or between a character and its CSI n b. '
                  'split_invisible: the ANSI parser is a congruence for SimR (same parser state, last character, rendition, palette, caret, geometry; rows that SHOW the same; saved cursor position unrelated) for every byte except CSI u '
                  '(step_cong, all branches of ansiStep incl. DEL, REP, 24-bit colour); the split sequence read from the ground state restores the caret and only appends empty rows (Caret::lf on a file buffer), so a reader of chunks '
                  'with splits in front of ANY of them stays SimR-related to a reader of the bare chunks; generate leaves nothing pending in result (pend_ansiA), so the bare chunks are exactly the bytes of the events, for which '
                  'the row / cell induction (rows_compF, rows_longerF, genLine_itemsF: the proofs of ansi_rt_partial₄ redone over the event-level writer with font switches and skipped rows) gives the item rows; finish_view turns '
                  'what the final screen shows into the loaded picture. ansi_rt_partial₄: ALL colours a buffer can hold - an arbitrary palette (any size, '
                  'the 16 base colours may be replaced), arbitrary colour indices resolved through it, hence DOS colours, xterm-256 colours (38;5;n / 48;5;n), any '
                  'other RGB value (CSI 1/0;r;g;b t) and bright backgrounds in blink / unlimited mode - x extended colours on / off x every combination of compression, cursor '
                  'forward, repeat sequences, preserved line length and longer-terminal positioning x 3 screen preparations x 3 control-character modes x 3 ice modes, '
                  'SAUCE widths 1..=132, all attribute flags the writer emits; conclusion: per cell the same character, displayed foreground RGB, background RGB and blink, '
                  'each picture seen through its own palette. The simulation relation RelX relates the writer\'s AnsiState to the reader\'s caret attribute AND palette in '
                  'RGB terms (the reader\'s index resolves in the reader\'s palette to the colour the state records; the palette only grows, all facts are monotone in it); '
                  'it is preserved by every block of get_color (sgr_sync_all), the two colour blocks being described by the writer\'s decision (keep / DOS colour / '
                  'xterm index / 24-bit) and the reader\'s matching action (select_graphic_rendition incl. parse_extended_colors, select_24bit_color, '
                  'Palette::insert_color), in either order (SGR groups are read before 24-bit commands). Palette lemmas: insert_resolves (insert_color of the RGB the writer '
                  'emitted resolves to it, old indices stay valid), xterm_lookup_sound (the writer\'s hash lookup into the regenerated XTERM_256_PALETTE returns an index '
                  '0..=255 that holds exactly the colour). ansi_rt_partial₃ / ₁: the DOS palette only, with equal colour INDICES (₁: exact cells without compression). '
                  'Shared: the reader\'s CSI parameter parser shown inverse to the writer\'s number formatting (csi_roundtrip), the RLE / CUF / REP substitution shown sound '
                  '(subst_sound, subst_sound_all: skipped cells are non-blinking spaces on black away from the margin), the end-of-line trimming shown sound (trim_sound, '
                  'trim_sound_all), a general crop lemma, induction over cells and rows on top of the format-independent screen theory shared with C15 (auto-wrap of '
                  'full-width rows, crop_loaded_file, bold folding). Executable model of the whole StringGenerator tied byte-exactly to the crate over the full option '
                  'lattice and over custom base palettes; reader model tied on writer output, row-mutated writer output, grammar-generated token streams and colour-table '
                  'boundary token streams; independent oracle Buffer::to_bytes("ans") -> Buffer::from_bytes on the real code comparing what is DISPLAYED',
        rule='cases: the full lattice of 2^8 boolean save options (compress, cursor forward, repeat sequences, preserve line length, '
             'longer terminal, extended colours, lossless, normalize whitespaces) x 3 screen preparations x 3 control-character '
             'modes x 3 ice modes on 6 small pictures (runs of blanks inside / at the end of rows, bold / blink / concealed / '
             'extended attributes, bright backgrounds, xterm-256 and RGB colours, full-width and width-1 rows) - every point in '
             'thorough, a seeded sixth in quick; COLOUR pictures in all 3 ice modes, with extended colours on and off, under 10 encodings in quick (default, plain, '
             'everything on, seeded) and all 2^6 in thorough: 16x16 swatches using EVERY xterm-256 index as foreground, as background and both at once, a row in which '
             'foreground and background change kind (xterm / DOS / RGB) in the same cell transition, the RGB values one step away from 29 palette colours (24-bit path), '
             'all 16x16 DOS pairs (bright backgrounds in every ice mode), blank runs on extended / bright backgrounds, and CUSTOM BASE PALETTES (slots below 8 permuted / '
             'duplicated, colour 0 not black); seeded pictures of height 1..=6 and 1..=60 (some with untouched rows at the bottom), width 80 or (with SAUCE) 1..=132, '
             'whole CP437 range minus what the control-character mode cannot encode (one picture in twelve includes those characters: writer tie only), palette of '
             '16 + 0..6 extra colours drawn from the ends of the xterm table, near-palette values and random RGB, one picture in four with a custom base palette, one in eight with runs of cells in other FONT PAGES (ANSI fonts 0..41 installed in buffer font slots 1..3, written as CSI 0;n SP D - oracle only, compared by the glyph bitmap of the cell\'s own font), random '
             'options; reader streams: writer output with rows dropped / duplicated / swapped / joined and tokens spliced in, token streams of the ANSI sub-language, '
             'and streams of 38;5;n / 48;5;n / 38;2 / 48;2 / CSI t tokens on the table boundaries (n = 0, 15, 16, 231, 232, 254, 255, 256, truncated groups); '
             'oracle per cell: glyph, displayed foreground RGB (where the glyph has foreground pixels; bold low colour = bright colour), background RGB (where it has '
             'background pixels), blink flag; first failure of each key is minimised (greedy shrinker incl. palette compaction); distinct_nontrivial = distinct '
             '(options, picture)',
        modelled='Ansi::to_bytes as a whole (writeAnsiX): push_result with max_output_line_length (split sequence and its byte positions regenerated from the source), last_line_break bookkeeping incl. the assignment from result.len() at the end of a row, the usize underflow as explicit outcome, skip_lines in generate_cells / generate, generate_ansi_font_map (checksum matching abstracted: the harness hands over slot -> first ANSI page of equal checksum), font_map unwrap panic as explicit outcome, font switching, RLE stop at a font change, the EF BB BF guard; UNDER THE THEOREM ansi_rt all of it. Reader: CSI s / CSI u / CR LF as before. Earlier: StringGenerator::get_color (AnsiState; DOS / xterm-256 / 24-bit colour decision), generate_cells (end-of-line trimming), generate (cell loop with RLE / CUF / '
                 'REP substitution, font page fixed 0, longer-terminal positioning, line-break rule incl. the one-blank shortcut), '
                 'CONTROL_CHARS handling, screen_prep / screen_end, push_result with unlimited line length, number formatting; '
                 'ansi::Parser sub-language (SGR incl. parse_extended_colors 38/48;5;n and 38/48;2;r;g;b with palette insertion, CUF, REP, CUP, ED 2/3, ?33h/l, SCP/RCP, '
                 '24-bit colour CSI t, font selection, ESC <ctrl>), Caret::get_attribute (iCE), Palette::get_rgb / insert_color, loader glue (SAUCE size / iCE flag, '
                 'convert_ansi_to_utf8, bold folding, crop); tables (DOS palette, xterm-256 palette, COLOR_OFFSETS, '
                 'CONTROL_CHARS) regenerated from the source. UNDER A THEOREM (ansi_rt_partial₄): all of the above for every palette and every colour index, all '
                 'combinations of compress / cursor forward / repeat sequences / preserve line length / longer-terminal positioning (up to 999 rows) / extended colours x 3 '
                 'screen preparations x 3 control-character modes x 3 ice modes, width 80 or SAUCE width 1..=132, up to 10^6 rows',
        not_modelled='modern_terminal_output (UTF-8; excluded by the property), fonts in slots >= 100 (encode_as_ansi uploads them with the file; the driver answers "unmodelled"), the font page of the LOADED cells (the reader model\'s cells carry no font page: CSI 0;n SP D is read and '
                     'checked against ANSI_FONTS but not recorded - that the loaded cell has page font_map[page] is covered by the display oracle on the real code, which compares glyph bitmaps), custom fonts that match no ANSI font page (they cannot be carried by the format below slot 100; writer tie only), sixels, SAUCE record bytes '
                     '(C11; the harness passes width / height / iCE flag), the colour optimiser (C12; the harness hands the model the optimised picture). Not under a '
                     'theorem: the overline / invisible attribute bits (never emitted), blinking cells in iCE mode (iCE has '
                     'no blink), colour indices with bit 31 set on the READER side (never produced). The proof of ansi_rt_partial₄ exposed two writer defects on custom base '
                     'palettes (both repaired): SGR 1 after a palette slot below 8 that holds another DOS colour; blanks on colour 0 skipped / trimmed when colour 0 is not black',
        thorough_exhaustive=True,
    )
