PROP = dict(
    drivers=['ArtIO'],
        gens=['art'],
        lake=['IcyVerif.Props.C15'],
        ns='IcyVerif.C15',
        theorems=['pcboard_rt', 'avatar_rt', 'atascii_rt', 'ascii_rt_partial', 'renegade_rt_partial', 'ctrla_rt_partial',
                  'asc_dom_of_printable', 'pcb_dom_of_printable', 'ren_dom_of_printable', 'ctrla_dom_of_printable',
                  'avt_dom_of_printable', 'ata_dom_of_printable', 'bom_counterexample'],
        harness='c15',
        design='DESIGN.md §4 C15',
        technique='Lean 4 proof for ALL pictures (induction over rows and cells): a format-independent screen theory '
                  '(Buffer::print_char / Caret::lf / Layer::set_char / crop_loaded_file as list operations; a put changes '
                  'exactly the cell under the caret, a full-width row wraps instead of CR LF), a generic simulation theorem '
                  '(cell writer vs reader state machine), and per format the simulation relation between the writer\'s '
                  'attribute memory and the parser\'s caret attribute; executable models of the six writers and of the '
                  'non-terminal load path (ASCII/PCBoard/Renegade/Ctrl-A/Avatar/ATASCII parsers in front of the ANSI parser, '
                  'convert_ansi_to_utf8, parse_with_parser, crop_loaded_file) tied to the crate by differential correspondence: '
                  'writer bytes byte-exact, reader on writer output, on row-mutated writer output and on grammar-generated '
                  'token streams; independent oracle Buffer::to_bytes -> Buffer::from_bytes on the real code',
        rule='cases: per format seeded pictures per the quantifier (width 80 / 40, height 1..=40 or 1..=6, rows of length 0, '
             '0..3, w-4..w-1, w-1, w and random, printable CP437 minus the lead-in characters, 16x8 colours, last row not empty), '
             'all 3 screen preparations, lossless and colour-optimised saving; small scope: every row of length 0..=3 and rows '
             'of length w-1 and w (head, filler, two tail cells) over a 3-character x 4-attribute alphabet, as first row before '
             'a fixed row and as last row after a fixed row, x screen preparations (exhaustive in thorough: the oracle on every '
             'case, correspondence lines on every 16th); reader streams: writer output with rows dropped / duplicated / '
             'swapped / joined and tokens spliced in, and streams of closed tokens of each format\'s language (valid and '
             'malformed) incl. the ANSI sub-language; distinct_nontrivial = distinct (format, preparation, lossless, picture)',
        modelled='to_bytes of ascii.rs, pcboard.rs (HEX_TABLE index panic explicit), renegade.rs, ctrla.rs, atascii.rs (u8 '
                 'overflow panic explicit), avatar.rs (run-length look-ahead loop); print_char of the six parsers and of the ANSI '
                 'parser sub-language (SGR incl. 38/48, CUF, REP, CUP, ED 2/3, ?33h/l, SCP/RCP, 24-bit colour, font selection, '
                 'ESC <ctrl>); Buffer::print_char / Caret::lf / ff / cr / del / right, Layer::set_char, Line::set_char, '
                 'limit_caret_pos (non-terminal), Buffer::get_char of a single opaque layer, TextAttribute::from_u8 / as_u8, '
                 'Palette::insert_color, convert_ansi_to_utf8 (strict UTF-8), parse_with_parser (bold folding), crop_loaded_file; '
                 'tables and constants regenerated from the source (tools/gens/art.py)',
        not_modelled='sequences outside the sub-language (cursor up/down/left, erase, insert/delete, margins, DCS/OSC/APS, music, '
                     'macros, sixel: the model flags `stuck`; the correspondence run never feeds them); font pages; the colour '
                     'optimiser (C12; the harness hands the model the optimised picture, oracle-only for lossles_output=false); '
                     'SAUCE writing/parsing (C11; save_sauce=false here); under a theorem: all six formats, all three screen '
                     'preparations, lossless saving; ASCII / Renegade / Ctrl-A theorems are _partial: they assume the file does '
                     'not start with EF BB BF (known finding <fmt>:utf8-bom-prefix)',
        thorough_exhaustive=True,
    )
