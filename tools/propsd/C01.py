PROP = dict(
    drivers=['Term'],
    gens=[],
    lake=['IcyVerif.Props.C01'],
    ns='IcyVerif.C01',
    theorems=['no_panic_bytes_partial', 'petscii_reverse_no_overflow', 'no_panic_wrapped_partial', 'no_panic_partial', 'overflow_guard_needs_2_30_rows', 'errors_recoverable', 'reachable_good'],
    harness='c01',
    harness_timeout=1500,
    design='DESIGN.md §4 C01, §3.2 TermGeo',
    technique='Lean 4 proof: every Rust panic the TermGeo model can exhibit (clamp min>max, negative index as usize, i32 '
              'overflow of cursor/row arithmetic) is excluded for every stream by the state invariant (induction over the '
              'stream and over macro nesting); model tied to all ten parsers by a per-character differential correspondence (geometry digest after every character); '
              'oracle (panic / abort / hang per character, crash-isolated workers) on the real code for all emulations',
    rule='cases: seeded grammar-based streams (complete CSI final x intermediate table, 0..6 parameters incl. 2^16, 10^6, '
         '2^31-1 and 11-digit values, DCS macros/hex macros/sixel/font payloads, OSC palette/hyperlinks, APS, ANSI music, '
         'emulation-specific lead-ins, raw bytes) for all 13 emulation configurations, screens 1..132 x 1..60; '
         'evaluations = characters fed; distinct_nontrivial = distinct streams; every stream is additionally compared '
         'with the model; exhaustive streams of length <= 2 (quick; 3 thorough) over each byte-oriented emulation\'s control alphabet',
    modelled='all ten emulations: Avatar / PCBoard / Ctrl-A / Renegade wrappers in front of the ANSI parser (Model/TermWrap, '
             'no_panic_wrapped_partial), ASCII / ATASCII / PETSCII / Viewdata / Mode 7 (Model/TermOther, no_panic_bytes_partial); '
             'ANSI parser control flow (ESC/CSI/DCS/OSC/APS/music framing, macro definition incl. hex macros, macro '
             'invocation with depth and expansion limits), caret primitives, limit_caret_pos, Buffer::print_char, margins, '
             'tab stops on a terminal buffer',
    not_modelled='what external actions do (OSC palette regex + hyperlink list, custom font load, sixel decode thread, '
                 'music note list, SGR attribute bits: crash-isolated oracle only); RIP/IGS (C20); cell contents and '
                 'colours of every emulation (the models carry geometry and parser state only)',
    assumptions=['the model raises `overflow` conservatively when cursor/row arithmetic could leave i32; '
                 'theorem overflow_guard_needs_2_30_rows shows this needs a scrollback above 2^30 rows'],
)
