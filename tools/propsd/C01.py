PROP = dict(
    drivers=['Term', 'Rows'],
    gens=['rows'],
    lake=['IcyVerif.Props.C01', 'IcyVerif.Props.C01Rows'],
    ns='IcyVerif.C01',
    theorems=['no_panic_bytes_partial', 'petscii_reverse_no_overflow', 'no_panic_wrapped_partial', 'no_panic_partial', 'overflow_guard_needs_2_30_rows', 'errors_recoverable', 'reachable_good', 'music_fields_in_range', 'music_arith_safe', 'note_index_in_table',
              'rows_total', 'rows_total_from', 'rows_total_wrapped', 'rows_total_bytes', 'call_sites_provide', 'bw_reachable',
              'set_char_total', 'scroll_left_total', 'scroll_right_total', 'scroll_up_down_total', 'insert_line_total',
              'remove_line_total', 'erase_character_total', 'del_ins_total', 'print_char_total', 'line_feed_total',
              'clear_and_fill_total', 'row_sites_known', 'row_sites_complete',
              'rows_refine_term', 'rows_refine_wrapped', 'rows_shape_page', 'fill_count_irrelevant'],
    harness='c01',
    search=True,
    harness_timeout=1500,
    design='DESIGN.md §4 C01, §3.2 TermGeo',
    technique='Lean 4 proof: every Rust panic the TermGeo model can exhibit (clamp min>max, negative index as usize in print / ECH / '
              'IL / DL, i32 overflow of cursor/row arithmetic and of the music arithmetic) is excluded for every stream by the '
              'state invariant (induction over the stream and over macro nesting); model tied to all ten parsers by a '
              'per-character differential correspondence (geometry digest + PlayMusic payload after every character); '
              'oracle (panic / abort / hang per character, crash-isolated workers) on the real code for all emulations; '
              'failing-input search: the proved invariant GoodSt is evaluated on the real terminal after every character and '
              'the first prefix that leaves it is extended with every probe suffix (probe.rs), plus the same from '
              'correspondence mismatches (`--replay @search:<file>`, hook `search=True`, notes/check_search.patch). '
              'ROW TABLE (Props/C01Rows): a second model, Model/Rows*.lean, carries the shape of layer 0 (number of rows, every '
              'row\'s chars.len(), layer size) next to TermGeo and transcribes every function that indexes / inserts / removes in '
              '`Layer.lines` or a row with each Rust panic as an explicit outcome; rows_total* prove for ALL initial row tables and '
              'all streams that no content operation panics (induction over the stream and the macro nesting, invariant GoodSt + '
              'buffer width in 1..=132 + layer width constant), per-operation theorems state each precondition, call_sites_provide '
              'derives them from GoodSt, rows_refine_* show the joint step is Term.step; tied by a second per-character '
              'correspondence (digest of the row table after every character of every case) and by tools/gens/rows.py (guards '
              'pinned, 96 panic-capable lines inventoried: row_sites_known)',
    rule='cases: seeded grammar-based streams (complete CSI final x intermediate table + a table of well-formed private / '
         'intermediate sequences, 0..6 parameters incl. 2^16, 10^6, 2^31-1 and 11-digit values, DCS macros/hex macros/sixel/font '
         'payloads, OSC palette/hyperlinks, APS, ANSI music, save -> geometry change -> restore triples, emulation-specific '
         'lead-ins, raw bytes) for all 13 emulation configurations, screens 1..132 x 1..60; exhaustive streams of length <= 2 '
         '(quick; 3 thorough) over each byte-oriented emulation\'s control alphabet; four corners of a 7x4 screen (40x24 pages) '
         'with and without scrollback x every control of the emulation\'s own alphabet (ANSI: ~480 tokens), every SGR number, '
         'loadable fonts — all compared with the model; PROBE FAMILY (oracle only): the same corner x control prefixes '
         '(<= 1 token quick, <= 2 tokens thorough for the non-ANSI emulations) x every probe suffix (~130 ANSI + own alphabet: '
         'ECH ICH DCH IL DL insert/no-wrap print REP SU SD SL SR EL ED tabs HPA HPR CUx max-parameter loops rectangles checksum '
         'reports save/restore across scrollback drop/growth/reset LF IND RI NEL margins resets hyperlinks macros); '
         'evaluations = characters fed; distinct_nontrivial = distinct streams compared with the model; '
         'every case is fed a second time for the row-table correspondence (`rows …` requests); ROW-TABLE FAMILY '
         '(harness/src/rowsfam.rs, buckets `rows:*`): 700 (quick) / 6000 (thorough) streams of shape tokens (clear, line feeds, '
         'short rows, cursor below the last row, insert-mode prints / ICH / ECH beyond the layer width, resize smaller and '
         'larger, top/bottom and left/right margins, scrollback, IL growth) followed by content commands with boundary '
         'parameters (ECH ICH DCH IL DL ED EL SU SD SL SR REP insert-mode print BS DEL LF RI IND NEL CUU CUD RIS DECFRA DECERA '
         'DECSERA CSI ~ prints at the edge with and without wrap, the same from plain and hex macros; ATASCII / PETSCII / '
         'Viewdata / Mode 7 / Avatar / Ctrl-A row operations), plus the systematic product of 13 fixed shapes x 3 cursor '
         'positions x 96 content commands on a 5x3 screen',
    modelled='all ten emulations: Avatar / PCBoard / Ctrl-A / Renegade wrappers in front of the ANSI parser (Model/TermWrap, '
             'no_panic_wrapped_partial), ASCII / ATASCII / PETSCII / Viewdata / Mode 7 (Model/TermOther, no_panic_bytes_partial); '
             'ANSI parser control flow (ESC/CSI/DCS/OSC/APS framing, macro definition incl. hex macros, macro '
             'invocation with depth and expansion limits), caret primitives, limit_caret_pos, Buffer::print_char, margins, '
             'tab stops on a terminal buffer; the places where content operations index with the cursor or a margin '
             '(ECH column, IL / DL / PETSCII ESC D,I / ATASCII 9C,9D row and bottom margin, insert-mode print row and column) as '
             'explicit panics shown unreachable; the ANSI music machine of sound.rs completely (seven states with payloads, '
             'octave / length / tempo incl. the u16 truncation, action list, dropped-note and repeated-pause quirks; '
             'music_fields_in_range, music_arith_safe, note_index_in_table), tied through the payload of every PlayMusic action; '
             'THE ROW TABLE of layer 0 for all ten emulations (Model/Rows, RowsAnsi, RowsOther): Line::create / with_capacity / '
             'set_char / insert_char, Layer::get_char / set_char / remove_line / insert_line / clear, Caret::lf / ff / bs / del / ins / '
             'erase_charcter and the scroll checks of up / down / index / reverse_index / next_line, Buffer::print_char (insert '
             'mode, line feed at the edge) / scroll_up / scroll_down / scroll_left / scroll_right / clear_screen / '
             'clear_buffer_down / clear_buffer_up / clear_line(_end/_start) / remove_terminal_line / insert_terminal_line, '
             'get_rect_area + DECFRA / DECERA / DECSERA, REP, ICH / DCH / IL / DL counts, PETSCII update_shift_mode, ATASCII / '
             'PETSCII line operations, Viewdata / Mode 7 print + fill_to_eol (with the parser flags that decide whether it '
             'runs), Avatar repeat, Ctrl-A clears — through macro replay too',
    not_modelled='what OSC execution does (palette regex + hyperlink list: its Ok/Err is an oracle input; panic-capable sites there: '
                 '`first().unwrap()` guarded by i == 3, regex groups 2-4 are not optional, hyperlink length arithmetic needs '
                 'rows x width > 2^31 cells), custom font load (oracle input; C10/C17), sixel decode thread (C14), SGR '
                 'attribute bits and colours (Ok/Err of SGR is modelled), the VALUES of cells (the row-table model carries how many '
                 'cells each row has, not what they hold; Line::get_line_length for HPA/HPR is an oracle value observed before each '
                 'top-level character — the generator keeps HPA/HPR out of macro bodies; the number of cells a Viewdata / Mode 7 '
                 'fill_to_eol visits is universally quantified and proved irrelevant on the 40x24 page, fill_count_irrelevant), '
                 'layers other than layer 0 (sixel layers are only added by the front end), a locked / hidden / alpha-locked '
                 'layer 0 (never the case for a terminal buffer), current_escape_sequence (error text), RIP/IGS '
                 '(C20). Modelled arms the quick generator still does not reach: InvalidBuffer / `None` arms behind is_empty '
                 'checks (unreachable), OriginMode::WithinMargins (never set), macro budget exhaustion (C03 reaches it)',
    assumptions=['the model raises `overflow` conservatively when cursor/row arithmetic could leave i32; '
                 'theorem overflow_guard_needs_2_30_rows shows this needs a scrollback above 2^30 rows',
                 'the negIndex conditions of ECH / IL / DL are conservative (they do not know whether the addressed row exists); '
                 'they only differ from the code in states with a negative cursor coordinate or margin, which are unreachable',
                 'a text-area resize executed inside a macro replay shows to the harness only as a size change at the invoking `z`',
                 'row table: the number of rows and every row length stay below 2^31 (the code casts `len() as i32`; 2^31 cells of '
                 'one row are > 32 GB) and allocations succeed; the model uses unbounded naturals there'],
)
