PROP = dict(
    drivers=['Term'],
    gens=[],
    lake=['IcyVerif.Props.C01'],
    ns='IcyVerif.C01',
    theorems=['no_panic_bytes_partial', 'petscii_reverse_no_overflow', 'no_panic_wrapped_partial', 'no_panic_partial', 'overflow_guard_needs_2_30_rows', 'errors_recoverable', 'reachable_good'],
    harness='c01',
    harness_timeout=1500,
    design='DESIGN.md §4 C01, §3.2 TermGeo',
    technique='Lean 4 proof: every Rust panic the TermGeo model can exhibit (clamp min>max, negative index as usize, i32 '
              'overflow of cursor/row arithmetic) is excluded for every stream by the state invariant (induction over the '
              'stream and over macro nesting); model tied to the ANSI parser by a per-character differential correspondence; '
              'oracle (panic / abort / hang per character, crash-isolated workers) on the real code for all emulations',
    rule='cases: seeded grammar-based streams (complete CSI final x intermediate table, 0..6 parameters incl. 2^16, 10^6, '
         '2^31-1 and 11-digit values, DCS macros/hex macros/sixel/font payloads, OSC palette/hyperlinks, APS, ANSI music, '
         'emulation-specific lead-ins, raw bytes) for all 13 emulation configurations, screens 1..132 x 1..60; '
         'evaluations = characters fed; distinct_nontrivial = distinct streams; ANSI streams are additionally compared '
         'with the model (one line per stream)',
    modelled='ANSI parser control flow (ESC/CSI/DCS/OSC/APS/music framing, macro definition incl. hex macros, macro '
             'invocation with depth and expansion limits), caret primitives, limit_caret_pos, Buffer::print_char, margins, '
             'tab stops on a terminal buffer',
    not_modelled='what external actions do (OSC palette regex + hyperlink list, custom font load, sixel decode thread, '
                 'music note list, SGR attribute bits); RIP/IGS (C20); PETSCII, ATASCII, '
                 'Viewdata, Mode 7, ASCII: oracle only (exploration-supported, no theorem)',
    assumptions=['the model raises `overflow` conservatively when cursor/row arithmetic could leave i32; '
                 'theorem overflow_guard_needs_2_30_rows shows this needs a scrollback above 2^30 rows'],
)
