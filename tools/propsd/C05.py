PROP = dict(
    drivers=['BinFormats', 'BinLayers'],
        gens=['xb', 'binfmt', 'comp'],
        lake=['IcyVerif.Props.C05'],
        ns='IcyVerif.C05',
        theorems=['xb_rt', 'bin_rt', 'adf_rt', 'idf_rt', 'tnd_rt', 'rt_nosauce_partial', 'tail_guard_of_signature', 'tail_cut_when_guard_fails',
                  'samePicture_checks', 'resave_stable_partial', 'resave_bin_partial', 'resave_adf_partial', 'resave_xb_partial',
                  'resave_idf_partial', 'resave_tnd_partial', 'xb_loader_range', 'sauce_texts_rt', 'sauce_title_equal', 'bin_font_by_name_rt', 'layers_rt', 'layers_picture', 'layers_single',
                  'tnd_wide_holds', 'fake_sauce_violates', 'resave_bin_height0_violates', 'resave_tnd_height0_violates'],
        harness='c05',
        design='DESIGN.md §4 C05',
        thorough_exhaustive=True,
        technique='Lean 4 proof, per format, that load (save pic) shows the same picture for EVERY representable picture: '
                  'sequential set_char/advance_pos placement into an empty layer by induction over rows and over the cells of a row; '
                  'attribute byte as_u8/from_u8 (and XBin 512-character mode) by 256-entry tables (decide) lifted to all cells; 6-bit '
                  'palette codec and the EGA register table of ADF by a generic "set then get" lemma; the SAUCE trailer through the C11 '
                  'theorems (extract after write_sauce_info returns exactly what the variant carries, for every content and all '
                  'metadata); XBin image data through the C06 theorem loader_reads_same_pairs; iCE Draw run-length coding by induction '
                  'over the row; Tundra by a joint writer/loader invariant by induction over the cell stream. RE-SAVE STABILITY for every '
                  'accepted byte string: the RANGE of each loader is characterised (an invariant of the cells a layer can hold, kept by '
                  'set_char / placement / crop / the Tundra command loop by induction over the byte stream; palette and font blocks; the '
                  'SAUCE data extract returns) and shown to lie in the domain of the save->load theorems; where a writer refuses a loaded '
                  'picture (BIN odd / >510 wide, IDF >200 rows) that is proved as the other half. Buffers with several layers: the '
                  'writers read get_char only (translator guard), the composited picture (C13 model) is a picture like any other. '
                  'Constants, tables (CRC row, font checksums and names, SAUCE fonts, palettes, default font) are regenerated from the '
                  'source. Byte-exact differential correspondence of the writers (also of RE-SAVED files), cell-exact of the loaders, on '
                  'engine-written, mutated and foreign files.',
        rule='cases: whole pictures (format x ice mode x width x height x SAUCE x compression x palette x font table x SAUCE data x cells) '
             'saved and loaded by the real crate; fixed witnesses (heights 1..40, characters 0..7, bold on bright colours, two-font XBin, '
             'Tundra palettes / widths 1000 and 1001, picture content that reads as SAUCE); exhaustive small pictures over a 4-cell alphabet; '
             'seeded random pictures; buffers with 1..3 layers (offsets, alpha channel, hidden, Chars/Attributes layers); 1-3 mutations of '
             'every engine-written file; FOREIGN files (every header field free, XBin runs of all kinds, iCE Draw repeat records, Tundra '
             'position/colour commands, foreign SAUCE trailers with comments and font names) loaded, re-saved, loaded; guess_font_name on all '
             '58 built-in fonts (+ one byte altered), from_sauce_name on all names and near misses; distinct_nontrivial = distinct pictures',
        modelled='XBin/Bin/Artworx/IceDraw/TundraDraw to_bytes and load_buffer; Buffer::from_bytes with SauceData::extract and '
                 'Buffer::write_sauce_info INCLUDING title/author/group/comments/display flags of the buffer (C11 model); '
                 'Buffer::set_sauce (resize, ice, BitFont::from_sauce_name on the regenerated table of the 16 SAUCE fonts with their glyphs, '
                 'the stored record); guess_font_name (CRC-32 checksum table of the 58 built-in fonts, the localized unknown-font name); '
                 'Layer::set_char/set_height, Line::set_char, crop_loaded_file; Buffer::get_char of a one-layer buffer and — through C13\'s '
                 'compositor model — of a layer stack; Palette::from_63/as_vec_63/fill_to_16/is_default/insert_color_rgb/get_rgb, '
                 'from_ega_data/to_ega_data, TextAttribute::as_u8/from_u8, analyze_font_usage, BitFont::is_default by name; XBin image '
                 'data, encode_attr, decode_char reused from C06',
        not_modelled='chrono date parsing (stand-in dateOk: 8 digits, real month/day; mutations leave the date field alone), '
                     'ColorOptimizer (lossless options only), characters above 255 beyond the Err they cause, the half-block classifier of '
                     'make_solid_color (layered cases use no transparent colours; C13 owns it), pictures of more than 60000 cells or 4000 '
                     'rows in the cell digest (sizes are still compared; the model\'s row access is linear in the row number), XBin streams '
                     'cut right after a Char/Attr/Full run header (skipped)',
        assumptions=['chrono accepts every date string dateOk accepts (the dates the engine writes are such strings; exercised on every run)',
                     'Err and panic of a loader are both "rejected" for this property (C02 turns the panics into Err)'],
    )
