PROP = dict(
    drivers=['BinFormats'],
        gens=['xb', 'binfmt'],
        lake=['IcyVerif.Props.C05'],
        ns='IcyVerif.C05',
        theorems=['xb_rt', 'bin_rt', 'adf_rt', 'idf_rt', 'tnd_rt_partial', 'rt_nosauce_partial', 'samePicture_checks',
                  'resave_stable_partial', 'tnd_wide_violates', 'fake_sauce_violates'],
        harness='c05',
        design='DESIGN.md §4 C05',
        thorough_exhaustive=True,
        technique='Lean 4 proof, per format, that load (save pic) shows the same picture for EVERY representable picture: '
                  'sequential set_char/advance_pos placement into an empty layer by induction over rows and over the cells of a row; '
                  'attribute byte as_u8/from_u8 (and XBin 512-character mode) by 256-entry tables (decide) lifted to all cells; 6-bit '
                  'palette codec and the EGA register table of ADF by a generic "set then get" lemma; SAUCE record written by '
                  'write_sauce_info found by extract with header length 129; XBin image data through the C06 theorem '
                  'loader_reads_same_pairs; iCE Draw run-length coding by induction over the row with the writer\'s three cases (plain '
                  'pair, 01 00 repeat, fake repeat); Tundra by a joint writer/loader invariant (the loader\'s running colour indices denote '
                  'the colours of the writer\'s running attribute; palettes only grow) by induction over the cell stream. Constants '
                  '(header sizes and bytes, command codes, limits, EGA offsets, DOS/EGA palettes, default font, SAUCE layout) are '
                  'regenerated from the source. Byte-exact differential correspondence of the writers, cell-exact of the loaders, on '
                  'engine-written and mutated files.',
        rule='cases: whole pictures (format x ice mode x width x height x SAUCE x compression x palette x font table x cells) saved and loaded '
             'by the real crate; fixed witnesses (heights 1,3,10,24,25,26,40; characters 0..7 incl. the IDF escape pair; bold on bright colours; '
             'two-font XBin; Tundra palettes with duplicates / non-black colour 0 / widths 1000 and 1001; picture content that reads as SAUCE), '
             'exhaustive small pictures over a 4-cell alphabet, seeded random pictures (mostly inside, partly outside the representable '
             'domain), 1-3 mutations of every engine-written file (byte/bit changes, truncation, cut, insert, swap, SAUCE removal); '
             'distinct_nontrivial = distinct pictures',
        modelled='XBin/Bin/Artworx/IceDraw/TundraDraw to_bytes and load_buffer, Buffer::from_bytes (SauceData::extract as far as it decides '
                 'the data length, size and ice flag; Buffer::set_sauce(resize)), write_sauce_info for a buffer without SAUCE data, '
                 'Layer::set_char/set_height, Line::set_char, crop_loaded_file, Buffer::get_char of a one-layer buffer, Palette::from_63/'
                 'as_vec_63/fill_to_16/is_default/insert_color_rgb/get_rgb, from_ega_data/to_ega_data, TextAttribute::as_u8/from_u8 (all three '
                 'modes), analyze_font_usage, BitFont::is_default by name; XBin image data, encode_attr, decode_char reused from C06',
        not_modelled='chrono date parsing (stand-in dateOk: 8 digits, real month/day; mutations leave the date field alone), '
                     'BitFont::from_sauce_name (the harness never names a font like a SAUCE font), guess_font_name beyond the default font '
                     '(only visible in the SAUCE record of a re-saved file), SAUCE comments/title/author/group contents, ColorOptimizer '
                     '(lossless options only), buffers with several layers, characters above 255 beyond the Err they cause, XBin streams '
                     'cut right after a Char/Attr/Full run header (C02 changes that site from panic to accept: skipped), pictures of more '
                     'than 60000 cells in the cell digest (sizes are still compared)',
        assumptions=['chrono accepts every date string dateOk accepts (the dates the engine writes are such strings; exercised on every run)',
                     'Err and panic of a loader are both "rejected" for this property (C02 turns the panics into Err)'],
    )
