PROP = dict(
    drivers=['Loaders', 'FontLoad', 'TextLoad'],
    gens=['xb', 'loaders', 'fontpal', 'palette', 'textload', 'sixel'],
    lake=['IcyVerif.Props.C02', 'IcyVerif.Props.C02Text'],
    ns='IcyVerif.C02',
    theorems=['xb_total', 'bin_total', 'adf_total', 'idf_total', 'tnd_total', 'tdf_total', 'clipboard_total',
              'clipboard_total_checked', 'icy_chunk_total', 'icy_chunk_total_checked', 'icy_chunk_sites', 'dispatch_total',
              'dispatch_len_le', 'sauce_length_total', 'from_bytes_total', 'glyph_guard_present', 'bitfont_total',
              'bitfont_needs_zero_guard', 'palette_import_total', 'palette_import_ext_total', 'palette_number_overflow_is_err', 'palette_conversions_pinned',
              'loader_sites_known', 'loader_sites_complete',
              'text_row_clamps_present', 'file_stream_no_panic', 'file_stream_wrapped_no_panic', 'file_stream_bytes_no_panic',
              'file_stream_reachable', 'hyperlink_length_no_overflow', 'text_parse_total', 'text_finish_total', 'text_loader_total',
              'text_extensions_covered', 'text_row_sites_known', 'crop_constant_pinned', 'bitfont_size_nonzero', 'dl_closed_form_is_the_loop',
              'shadow_loop_pinned', 'shadow_loop_total', 'shadow_loop_invariant', 'sixel_join_total', 'sixel_poll_total'],
    harness='c02',
    harness_timeout=3000,
    design='DESIGN.md §4 C02',
    technique='Lean 4 proof: one executable model per binary loader over byte cursors with explicit failure (Model/Bytes: '
              'every Rust data[o], data[a..b], try_into().unwrap(), usize subtraction and debug-profile i32 overflow is an '
              'operation that can return panic <fn>; while-loops are structural recursion on fuel and running out of fuel is a '
              'panic too). For ALL byte lists the model never returns panic: weakest-precondition lemmas per primitive, '
              'induction over run counters / fuel with offset and position invariants, omega for the bounds. Constants (magic '
              'numbers, header sizes, flag bits, limits, the extension table of FORMATS) and VARIANT FLAGS (which of two known '
              'spellings a site owned by another property has in this tree) are regenerated from the source; the translator also '
              'refuses to run if a length guard the proofs rely on has disappeared from the source. Differential correspondence '
              'ok(dims)|err|panic:<fn> of the real loaders against the models, and an oracle (no panic / abort / hang, crash-'
              'isolated child processes with a 4 GiB address-space cap) over every loader named by the property. Bitmap fonts '
              '(Model/FontLoad) and palette importers (Model/PalLoad, on top of the C16 matchers) are models of the same kind; for '
              'them the translator additionally regenerates a SITE INVENTORY (every line of the loader functions holding an index, '
              'slice, unwrap, allocation from a number, arithmetic, cast, todo!) that must be covered by the table of sites the '
              'model accounts for (loader_sites_known), the variant flag glyphZeroGuard from which bitfont_total is proved, the '
              'flag palConversionsChecked, and the Unicode class behind the regex crate\'s \\d. TEXT FORMATS (ans ice diz pcb avt asc msg an1-9 '
              'seq ata + the ANSI fallback): Model/TermFile (+Wrap, +Other) is the terminal model of C01 re-done for a FILE buffer '
              '(is_terminal_buffer = false: row clamp 0..=MAX_FILE_BUFFER_HEIGHT-1 instead of a screen, lf / print_char grow the row table, '
              'get_last_editable_line reads it) with the ROW TABLE (chars.len() of every row of layer 0) as state and every plain i32 '
              '+1 / * on a cursor row as an explicit check (no conservative guard); Model/TextLoad is Buffer::from_bytes -> load_buffer '
              '-> parse_with_parser (BOM / UTF-8, errors skipped, sixel join via the C14 model, crop_loaded_file) and the seq / atascii byte '
              'loops. text_loader_total: for ALL byte strings, extensions, oracle values, sixel results: never a panic — by the state '
              'invariant FGood (induction over the text and over macro nesting). The translator (gens/textload.py) regenerates the row bound, '
              'the VARIANT FLAGS limitRowClamped / lfClamped (the proofs go through `= true`, so a tree without the clamps breaks them), the '
              'loader table, the BOM prefix, and an inventory of every plain +1 / -1 / * on a cursor row in the functions a file load reaches '
              '(text_row_sites_known). The SHADOW-REMOVAL LOOP of Buffer::update_sixel_threads (runs at the end of every text-format load) is an explicit state '
              'machine over (vec, i, sixel_count) in Model/SixelShadow: vec[i] / vec.remove(i) beyond the end and sixel_count -= 1 at 0 are panic outcomes, '
              'fuel exhaustion is divergence; shadow_loop_total proves by induction over the vector (invariant vec = pre ++ suf, i = |pre|, count = |vec|) that it '
              'ends normally for EVERY list of images and computes the C14 list function, sixel_join_total lifts that to the whole join; the source lines of the '
              'loop are regenerated (Gen/Sixel.src_update_sixel_threads) and compared with the transcribed shape (shadow_loop_pinned).',
    rule='cases: files written by the engine\'s own writers for 11 small buffers x 14 formats x (SAUCE, compression) variants; every '
         'truncation of the small ones and boundary/sampled truncations of the 4 KiB ones (all in thorough); single- and multi-byte '
         'corruptions; every header field set to 0,1,0x7f,0x80,0xff,0xffff,0xffffffff,all-ones,sign bit; hand-made XBin/BIN/ADF/IDF/'
         'Tundra files with every command/run type cut at every tail length; random bytes with and without magic under all 24 '
         'recognised extensions + unknown ones + upper case; 128-byte tails starting with SAUCE (wild and well-formed, with COMNT '
         'blocks of right and wrong size) alone and behind content; bitmap fonts: PSF1 charsize byte 0..255 x mode bit x data lengths '
         '{0,1,cs-1,cs,256cs,512cs-1,512cs,512cs+1}, PSF1 mode byte 0..255 x heights {0,1,16,255}, height 0 in front of data, PSF2 with '
         'every header field at 14 extremes on 5 consistent bases (+ data length made consistent), field pairs, every truncation, '
         'raw fonts of every length k*256 and k*256+-1 (k<=33) with and without a sniffed magic, random bytes, the same bytes behind '
         'the CTerm:Font DCS of the ANSI parser (slots 0,1,42,43,300,99999); TDF bundles; palettes in 5 formats: every truncation of '
         'the engine\'s export, corruptions, 24 number spellings (0 .. 10^32, negative, empty, non-numeric, Arabic-Indic digits) in every '
         'numeric position (version / count lines, each channel), hex fields of every width, missing / damaged magic lines, BOM, CRLF, '
         'Unicode blanks and digits, non-UTF-8 and cut multi-byte sequences, overlong lines, many lines, random token soup, every '
         'extension incl. unknown and none; clipboard layers '
         'incl. width*height overflow; IcyDraw chunk payloads (real ones re-packed into a minimal PNG, truncated/corrupted/reordered, '
         'synthetic ones with field extremes, continuation chunks for unseen layers). TEXT LOADERS: every engine-written / truncated / '
         'corrupted text file above now goes through the text model (whole-file result ok bw bh lw lh rows rowsHash layers{offset size} | err, '
         'and - for texts up to 3000 characters - the per-character digest of a REPLICA of load_buffer stepped by the harness: cursor, sizes, '
         'margins, modes, tab stops, row count, row lengths of the caret / first / last row per character and of all rows every 32 characters, '
         'queued sixels, closed hyperlinks + their lengths); seeded grammar streams of C01 plus file-specific tokens (far rows up to 2^31, '
         'hyperlinks across rows, IL DL ICH DCH ECH ED EL SU SD SL SR, rectangles, insert mode, sixels + clear screen, REP) character by '
         'character on FILE buffers for ansi (4 music / BS configurations), avatar, pcboard, ctrla, renegade, ascii, atascii, petscii on sizes '
         '1x1 .. 1000x300 incl. height 0 and 65535, created 80x25 and resized (stale tab stops) or with the 40x25 / 40x24 rows kept; exhaustive '
         'pairs (triples in thorough) over the control alphabets of atascii petscii ascii avatar ctrla; whole files under all 18 text extensions + '
         'unknown ones + upper case with SAUCE widths 1 / 80 / 132 / 1000 / 1001 / 0 / 4096 / 65535 and heights 0..300, BOM + UTF-8 (also damaged), '
         'trailing empty rows, sixel sequences; the inputs that crashed the pinned tree. distinct_nontrivial = distinct case strings. '
         'Request lines longer than 1500 characters are sub-sampled (1/4 quick, 1/16 thorough) for the model run only. '
         'SIXEL COVER RELATIONS: text files with 0..=5 sixel images where the last is a cover and each earlier one is covered or not (every subset = every '
         'pattern of removed indices) x {strictly inside, identical / touching the border} x {elsewhere, sticking out right, sticking out below}, chains (a cover '
         'covered later), repeats, clear-screen between images, empty pictures - all under .ans, the stale-index shapes + a rotating sample under each of the other 19 text '
         'extensions (everything in thorough); bucket result:sixel-join:queued=<n>,layers=<m>. SOLVER-STYLE (joint-guard) families: PSF2 headers that SOLVE '
         'length*charsize + headersize == file length for 13 length x 15 charsize extremes (sign bit, i32::MAX, 2^k) x 5 file lengths with height / width solved for the '
         'glyph-shape guard, each violating at most ONE guard (equation +-1, shape, sign of length, sign of charsize), also behind the CTerm:Font DCS; XBin flags x '
         'font height x file length at every block boundary (palette end, first / second font end, +-1) and width x height x data amount; IDF x1 / x2 / y1 / RLE count '
         'solved so that the last cell lands on row 65535 / 65536, x2 < x1, RLE header cut by the font block at every byte, length guard x version; ADF version x '
         'length at every block boundary; Tundra jump y x jump x x SAUCE width x what follows; TDF block_size raised so that the first offset guard passes while the '
         'second sits at EOF (+-0..4, with and without a terminating 0); IcyDraw LAYER_n title length x chunk length x role x declared data length x size around each length guard.',
    modelled='Buffer::from_bytes (extension match incl. case folding and ANSI fallback, len -= sauce_header_len, &bytes[..len]), the '
             'length/size part of SauceData::extract (both spellings of len-1 and of the comment-block check), Buffer::set_sauce '
             'resize + width clamp, XBin::load_buffer + read_data_compressed + read_data_uncompressed + advance_pos, Bin::load_buffer, '
             'Artworx::load_buffer, IceDraw::load_buffer + advance_pos (RLE), TundraDraw::load_buffer + to_u32 + advance_pos, '
             'crop_loaded_file for these loaders, Layer::set_char geometry (bounds, locked/invisible, line growth), IcyDraw '
             'load_buffer chunk dispatch (END, ICED, PALETTE, SAUCE, FONT_n incl. usize parse, LAYER_n, LAYER_n~k incl. the regex '
             'LAYER_(\\d+)~(\\d+) as a hand-written matcher) + read_utf8_encoded_string + both cell decoders, '
             'TheDrawFont::from_tdf_bytes, Layer::from_clipboard_data, BitFont::from_bytes + load_psf1 + load_psf2 (incl. its i64/u64 '
             'consistency arithmetic) + load_plain_font + glyphs_from_u8_data (loop on fuel, exhaustion = divergence) + the loop bound of '
             'calculate_checksum, Palette::load_palette for Hex/Pal/Gpl/Ice/Txt (String::from_utf8, str::lines, the five colour regexes as '
             'matchers - \\d as Unicode Nd, parse::<u32>()? and from_str_radix(_,16)? as explicit Err, as u8) + import_palette extension '
             'dispatch; TEXT LOADERS: load_buffer of ansi / pcboard / avatar / ascii / ctrla / renegade / seq / atascii (initial size, set_sauce '
             'resize incl. the tab stops it leaves stale, parser configuration), convert_ansi_to_utf8 (BOM + from_utf8 on the C10 UTF-8 model), '
             'parse_with_parser (lines.clear, character loop with skip_errors, sixel join loop + image layers through the C14 models, '
             'crop_loaded_file incl. the maximum over the image layers; the bold pass has no geometry), Buffer::update_sixel_threads as the join loop calls it INCLUDING the index '
             'arithmetic of its shadow-removal loop (vec[i], vec.remove(i), sixel_count -= 1, termination), and on a FILE buffer: limit_caret_pos, '
             'Caret::lf / ff / bs / del / ins / erase_charcter / left / right / up / down / index / reverse_index / next_line, Buffer::print_char '
             '(insert mode, layer height growth, wrap at the layer width), scroll_up/down/left/right, clear_screen, clear_buffer_down/up, clear_line*, '
             'insert/remove_terminal_line, get_rect_area + the three rectangle commands, Layer::set_char / insert_line, Line::set_char / insert_char as '
             'effects on the row table; the whole control flow of the ANSI parser (as in C01) incl. parse_osc with the hyperlink stack and its length '
             'arithmetic, execute_dcs queueing sixel decodes; Avatar / PCBoard / Ctrl-A / Renegade / ASCII / ATASCII / PETSCII (incl. update_shift_mode) on a file buffer',
    not_modelled='ORACLE ONLY (no model, the harness only checks no panic/abort/hang): the .icy PNG/zlib/base64 container (png, '
                 'base64 crates; whole-file .icy inputs), in the text loaders: cell CONTENTS (colours, attributes, glyphs; Line::get_line_length for HPA / HPR is an '
                 'oracle value observed before each top-level character), what OSC 4 / CTerm:Font / font selection do beyond Ok / Err (oracle value), the '
                 'sixel decoder itself (C14 model; payload numbers of 5+ digits are oracle-only), ANSI music states (off in every loader: the theorems '
                 'assume musicOpt = 0; the per-character correspondence also runs the three music-on configurations), `n - 1` on parsed numbers '
                 '(>= 0 by parse_next_number), Viewdata / Mode 7 on a file buffer (no file format runs them), the glyph CONTENT of bitmap fonts (HashMap insertion, CRC value: '
                 'C17; the C02 font model keeps size, declared length, glyph count and loop counters; in the XBin/ADF/IDF models the font '
                 'block is only a bounds-checked slice of exactly height*256 bytes), base64 / slot parsing of the CTerm:Font DCS (C17; '
                 'the harness encodes the payload itself), '
                 'SauceData::extract beyond its length arithmetic (strings, chrono date parser = oracle parameter dateOk, C11), '
                 'palette METADATA (title / author / description / colour names: C16) and the regex crate itself (the matchers are '
                 'hand-written, tied by correspondence; palette cases longer than 8000 bytes are oracle-only because the matchers are '
                 'quadratic on one overlong line), Glyph::from_clipbard_data (a glyph, not a font; panics below 4 bytes - not in the '
                 'property\'s list), guess_font_name, Palette::from_63 / from_ega_data (read '
                 'inside a slice whose bounds are modelled). NOT EXPRESSED: memory and time (the model does not count allocation; '
                 'a layer/buffer of declared size w x h costs w*h cells when written to - see the icyc:abort finding); usize '
                 'overflow (offsets < len + 2^33); files of 2 GiB and more for BIN/ADF/Tundra (i32 row counter, stated as a '
                 'hypothesis of those three theorems); PaletteFormat::Ase is todo!() but is never selected by content or extension; '
                 'Role::PastePreview/PasteImage arms of the continuation decoder are todo!() but unreachable (the loader only '
                 'creates Normal and Image layers - reflected in the model, where role is 0 or 1); Buffer::from_bytes with a file '
                 'name WITHOUT extension panics on extension().unwrap(): the property quantifies over extensions, the harness '
                 'always supplies one (observation, not a finding).',
    assumptions=['text loaders: font 0 has a non-zero width and height when sixel layers are created (hypothesis of text_finish_total / '
                 'text_loader_total; BitFont loaders reject zero sizes: PSF2 charsize check, glyphZeroGuard); lines.len() < 2^31 (at most 65535 rows '
                 'after the clamps); the oracle value of HPA / HPR executed inside a macro replay is the one observed before the invoking character',
                 'bytes are read mod 256; usize arithmetic is unbounded Nat (no overflow below 2^64 since offsets <= len + 2^33)',
                 'BitFont::create_8/from_basic on a slice of exactly height*256 bytes (height >= 1) and guess_font_name do not panic '
                 '(owned by C10/C17; exercised by the oracle on every XBin/ADF/IDF case)',
                 'dateOk (result of chrono NaiveDateTime::parse_from_str inside SauceData::extract) and the outcome of '
                 'BitFont::from_bytes / Palette::load_palette / SauceData::extract on FONT_n / PALETTE / SAUCE chunk payloads are '
                 'parameters of the IcyDraw chunk model supplied by the harness and universally quantified in icy_chunk_total '
                 '(bitfont_total and palette_import_total now discharge the first two for the stand-alone loaders)',
                 'HashMap::insert / Vec::push / String::from_utf8 / regex matching allocate in proportion to the data, not to a number '
                 'in it (pinned by loader_sites_known: no with_capacity / reserve / vec![..; n] in the loader functions)'],
)
