PROP = dict(
    drivers=['Rip', 'Bgi', 'Igs'],
        gens=['rip', 'bgi', 'igs'],
        lake=['IcyVerif.Props.C20'],
        ns='IcyVerif.C20',
        theorems=['rip_table_wellformed', 'base36_bounded', 'rip_step_total', 'rip_lex_total',
                  'put_pixel_in_bounds', 'put_pixel_keeps_canvas', 'bar_rect_cost', 'bar_rect_cost_in_window',
                  'bar_no_panic', 'fill_span_cost', 'line_cost', 'canvas_complete',
                  'igs_lex_total_partial', 'igs_next_action_total_partial', 'igs_loop_counter_safe', 'igs_lex_total',
                  'igs_loop_delay_zero', 'igs_loop_terminates'],
        harness='c20',
        harness_timeout=7200,
        design='DESIGN.md §4 C20',
        technique='PARTIAL BY DESIGN.  Lean 4 proofs (invariant + induction over the character list; decide on the '
                  'regenerated command table; omega for the i32 range side conditions) about executable models of the '
                  'parts that are logic: the RIP lexer interpreting the command table regenerated from commands.rs/mod.rs, '
                  'the BGI core (put_pixel, get_pixel, bar/bar_rect clipping and fill loops with an explicit cost, '
                  'line with fill_x/fill_y, viewport, palette, styles) with checked i32 arithmetic (line: unbounded Int), the IGS lexer and loop stepping arithmetic; '
                  'differential correspondence of all three with the real crate (per-character lexer digests incl. the '
                  're-serialised command under construction; canvas hash + state after API call sequences incl. i32 '
                  'extremes).  Everything else (arcs, ellipses, Beziers, flood fill, stroked fonts, buttons, icons, '
                  'IGS painting, ANSI fallback) is exploration-supported, no theorem: the same streams are fed to the real '
                  'code char by char in a worker process with the oracle ok/err/panic:<site>, per-character time limit, '
                  'hang watchdog, picture size == width*height*4.',
        rule='cases: every RIP command (level 0, 1, 9; table read from the source, widths probed on the real parser) and '
             'every IGS command x every parameter string over {0,1,Z} (IGS: Z = 99999) of length 0..=6 (thorough 0..=8) on a '
             'fresh state and after a state-setting prelude (viewport, write mode, fill pattern, line style, font, saved '
             'image, button style / fill attributes, colours, resolution); sampled longer strings up to 12 (thorough 24: '
             'constant strings, single-position variations, random); random multi-command streams with well-formed, '
             'truncated, over-long and arbitrary parameter characters, continuation lines, text variables, unknown '
             'commands, plain text, ESC[..! queries, IGS loops and chained commands; BGI API sequences with random and '
             'extreme i32 arguments.  distinct_nontrivial = distinct (final digest, digest hash) / (observation) lines.',
        modelled='RIP: Parser::print_char state machine (Default/GotRipStart/ReadCommand(level)/ReadParams/SkipEOL/EndRip), '
                 'parse_parameter, start_command/push_command, parse_base_36, generic Command::parse and to_rip_string over the '
                 'regenerated table (letter, level, parse arms = parameter widths, format pieces), rip_counter, suspend_text; '
                 'BGI: put_pixel, get_pixel, bar, bar_rect (solid + pattern rows), line / fill_x / fill_y (coordinates within +-4000: '
                 'unbounded Int arithmetic), Rectangle::contains/intersect, set_viewport, '
                 'clear_viewport, set_color/bk/fill color, set_fill_style, set_write_mode, set_line_style/thickness/pattern, '
                 'set_user_fill_pattern, fill pattern lookup, set_palette, set_palette_color, graph_defaults, screen.len(); '
                 'IGS: Parser::print_char, get_next_action, parse_next_number, Loop::new / next_step stepping (from, to, step, '
                 'delay, % parameters.len())',
        not_modelled='exploration-supported, no theorem: what a RIP command does when run beyond the BGI core above - '
                     'rectangle, draw_line (the Bresenham used by arcs and buttons), circle, ellipse, arc, pie slice, sector (f64 trigonometry), Bezier, polygons, '
                     'flood fill, out_text / stroked fonts (font.rs, character.rs), get/put image, copy region, buttons, mouse '
                     'fields, icons and file queries (file I/O; the harness uses an empty directory), text window; the IGS '
                     'DrawExecutor (paint.rs: lines, circles, ellipses, fills, polygons, text, blits, resolution, pens); loop '
                     'parameter value arithmetic; the ANSI fallback parser (C01); characters above U+00FF; wall-clock and memory',
        assumptions=['terminal_state.cleared_screen is never set by the engine (the RIP model takes it as false)',
                     'the class of the ANSI fallback state (Default / CSI with first number / other) is an input of the RIP '
                     'lexer model, supplied by the harness and universally quantified in the theorems',
                     'streams are fed as chars U+0000..U+00FF (one per byte), as the crate\'s own tests do'],
        trusted_extra=['hook commit (cfg icy_engine_verif): Parser::verif_digest (rip, igs), Bgi::verif_state expose private '
                       'lexer/viewport state for observation only'],
    )
