PROP = dict(
    drivers=['Rip', 'Bgi', 'Igs', 'Ripc', 'Igsx', 'Ript'],
        gens=['rip', 'bgi', 'igs', 'bgix', 'riprun', 'igspaint', 'riptext'],
        lake=['IcyVerif.Props.C20', 'IcyVerif.Props.C20Canvas', 'IcyVerif.Props.C20Igs', 'IcyVerif.Props.C20IgsCost', 'IcyVerif.Props.C20Text', 'IcyVerif.Props.C20IgsTotal'],
        ns='IcyVerif.C20',
        theorems=['rip_table_wellformed', 'base36_bounded', 'rip_step_total', 'rip_lex_total',
                  'put_pixel_in_bounds', 'put_pixel_keeps_canvas', 'bar_rect_cost', 'bar_rect_cost_in_window',
                  'bar_no_panic', 'fill_span_cost', 'line_cost', 'canvas_complete',
                  'igs_lex_total_partial', 'igs_next_action_total_partial', 'igs_loop_counter_safe', 'igs_lex_total',
                  'igs_loop_delay_zero', 'igs_loop_terminates', 'igs_loop_terminates_nonneg', 'igs_numbers_nonneg',
                  # RIP canvas (Props/C20Canvas.lean)
                  'picture_complete', 'picture_complete_rip', 'flood_fill_terminates', 'flood_fill_bound_value',
                  'find_line_in_range', 'flood_fill_keeps_canvas', 'rip_stream_picture_complete',
                  'bgi_line_total', 'rip_command_total', 'rip_run_kinds',
                  # IGS DrawExecutor (Props/C20Igs.lean)
                  'igs_arg_table', 'igs_arg_count_validated', 'igs_poly_validation', 'igs_exec_keeps_invariant',
                  'igs_picture_complete', 'igs_stream_picture_complete', 'igs_set_pixel_total', 'igs_fill_rect_total',
                  'picture_fold_eq', 'igs_draw_line_terminates_partial', 'igs_poly_lines_total',
                  'igs_flood_fill_terminates', 'igs_blit_screen_total',
                  # IGS executor-level totality (Props/C20IgsTotal.lean)
                  'igs_aux_initial', 'igs_exec_keeps_aux', 'igs_exec_total_partial',
                  # cost of the IGS block operations (Props/C20IgsCost.lean)
                  'igs_blit_screen_cost', 'igs_grab_screen_cost', 'igs_fill_rect_cost',
                  # RIP text path (Props/C20Text.lean)
                  'rip_text_size_in_tables', 'rip_text_total'],
        harness='c20',
        harness_timeout=7200,
        design='DESIGN.md §4 C20',
        technique='Lean 4 proofs (invariants + induction over character lists, fuel / measure arguments for the loops, decide on '
                  'regenerated tables, omega for the i32 / i64 range side conditions) about executable models of: the RIP lexer '
                  'interpreting the command table regenerated from commands.rs/mod.rs; the BGI core (put_pixel, get_pixel, bar, line '
                  'with fill_x/fill_y, viewport, palette with colours, styles); RIP flood fill as the worklist / scan-line algorithm of '
                  'the code (termination by the measure 3 x uncovered pixels + stack size, step bound by the canvas size, every '
                  'screen / span-list index in range); rectangle, polygon, poly-line; `run` of 17 RIP commands (bodies checked by the '
                  'translator) on top of the lexer model; get_picture_data (RIP and IGS); the IGS lexer with loop stepping AND loop '
                  'parameter arithmetic; the integer part of the IGS DrawExecutor (execute_command with the regenerated argument-count '
                  'table and the poly rule, all painting primitives with checked i32/i64 arithmetic, Bresenham termination, flood fill '
                  'termination, the executor invariant kept by every command); the COST of the IGS block operations as functions of the model '
                  '(every loop of fill_rect and the three blits repeated with round / pixel-access counters, erasure + closed form '
                  'rows x columns <= width x height proved for fill_rect, blit_screen_to_screen, blit_screen_to_memory); the integer part '
                  'of the RIP text path (set_text_style with FontType::from / Direction::from / the size clamp, every lookup of '
                  'SCALE_UP / SCALE_DOWN / FONTS / characters[code]: no index panic for every font number, size and text).  '
                  'Differential correspondence of all of it with the '
                  'real crate: per-character lexer digests, canvas hash + state after BGI API sequences incl. flood-fill scenes, '
                  'whole RIP / IGS streams with canvas hash, get_picture_data length + hash and outcome letters (kinds ripc / igsx), pixel accesses '
                  'per stream / per command against the hook counter VERIF_PIXEL_OPS (kind igsc), the text style after |Y and the '
                  'panic-freedom of the text commands in that style (kind ript).  '
                  'Everything else (arcs, ellipses, Beziers of RIP in f64, RIP filled polygon, stroked fonts, buttons, icons, IGS text '
                  'output, ANSI fallback) is exploration-supported, no theorem: the same streams are fed to the real code char by char '
                  'in a worker process with the oracle ok/err/panic:<site>, per-character time limit, hang watchdog, picture size == '
                  'width*height*4.',
        rule='cases: every RIP command (level 0, 1, 9; table read from the source, widths probed on the real parser) and '
             'every IGS command x every parameter string over {0,1,Z} (IGS: Z = 99999) of length 0..=6 (thorough 0..=8) on a '
             'fresh state and after a state-setting prelude; sampled longer strings up to 12 (thorough 24); random multi-command '
             'streams with well-formed, truncated, over-long and arbitrary parameter characters, continuation lines, text variables, '
             'unknown commands, plain text, ESC[..! queries, IGS loops and chained commands; BGI API sequences with random and '
             'extreme i32 arguments; flood-fill scenes (default / moved / oversize / tiny / empty viewports, obstacles, seeds on every '
             'edge and corner of viewport and window, repeated fills); ripc streams (modelled RIP commands with exact / cut / over-long '
             '/ polluted parameter lists, palettes of 0..=16 entries, colour numbers beyond the palette, polygon lists around the '
             'announced count); igsx streams (every execute_command arm, parameter lists of every length around the declared one, pen '
             '/ colour / pattern / line-type numbers at and beyond their tables, poly lists around points*2+1 with the border on, '
             'blits inside and outside screen and saved block, resolution changes, loops with x / y / +n / -n / !n parameters); IGS '
             'two-command sequences over the lexer state graph (every prefix of 10 first commands + 12 ways of abandoning it, one '
             'representative per distinct abstract lexer state in quick, x every command kind incl. 4 loops, chained and on a new line); '
             'IGS block commands (GrabScreen modes 0..3, FilledRectangle, Box) x every pair of extents from {1, 320, 3000, 20000} '
             '(thorough: 8 values up to 99999) x 4 source / destination spots x 3 preludes (kinds igsc + igsx; oracle: pixel '
             'accesses of one command <= 2 x width x height); RIP |Y with every font number 0..=12, 35, 255, 256, 257, 266, 267, 1295 x '
             'every size 0..=36 and ZZ x directions, followed by |@, |T and a button label (kind ript).  '
             'distinct_nontrivial = distinct (final digest, digest hash) / (observation) lines.',
        modelled='RIP: Parser::print_char state machine, parse_parameter, start_command/push_command, parse_base_36, generic '
                 'Command::parse and to_rip_string over the regenerated table, rip_counter, suspend_text; Command::run of ViewPort, '
                 'EraseView, Color, SetPalette, OnePalette, WriteMode, Move, Pixel, Line, Rectangle, Bar, Polygon, PolyLine, Fill, '
                 'LineStyle, FillStyle, FillPattern; Parser::get_picture_data; '
                 'BGI: put_pixel, get_pixel, bar, bar_rect, line / fill_x / fill_y (coordinates within +-4000: unbounded Int '
                 'arithmetic), rectangle, draw_poly, draw_poly_line, flood_fill / find_line / already_drawn (as repaired), '
                 'Rectangle::contains/intersect, set_viewport, clear_viewport, colours, styles, patterns, set_palette / '
                 'set_palette_color with the EGA / DOS colour tables, Palette::get_rgb / set_color, graph_defaults; '
                 'IGS: Parser::print_char, get_next_action, parse_next_number, Loop::new / next_step (stepping, step-0 guard as '
                 'repaired, parameter arithmetic); DrawExecutor::execute_command (all 31 arms), set_pixel, get_pixel, fill_pixel, '
                 'draw_line, fill_rect, draw_poly, draw_polyline, fill_poly, round_rect, draw_poly_maker, fill_ellipse, draw_ellipse, '
                 'draw_circle, flood_fill, blit_screen_to_screen / _to_memory / memory_to_screen, set_resolution, clear, '
                 'get_picture_data (all as repaired, incl. round_rect scaling in i64); executor-level totality: execute_command neither panics nor stalls for 27 of the 31 arms + the default arm under Good / Aux / ParamsOk (igs_exec_total_partial), Aux kept by every arm (igs_exec_keeps_aux); cost (loop rounds, pixel accesses) of fill_rect, blit_screen_to_screen, '
                 'blit_screen_to_memory, blit_memory_to_screen and of the commands made of them (FilledRectangle, Box without border, '
                 'GrabScreen); RIP text path, integer part: FontStyle::run / Bgi::set_text_style, FontType::from, Direction::from, '
                 'FontType::get_font, the SCALE_UP / SCALE_DOWN lookups and divisions of font.rs / character.rs, the characters[code] guards',
        not_modelled='exploration-supported, no theorem: RIP circle, ellipse, arc, pie slice, sector (f64 trigonometry), Bezier, '
                     'filled polygon (integer scan conversion: not done), draw_line (the Bresenham used by arcs and buttons), '
                     'what the strokes of out_text / stroked fonts draw and the f32 glyph widths (the table lookups are modelled), get/put image, copy region, buttons, mouse fields, icons and '
                     'file queries (file I/O; the harness uses an empty directory), text window, ResetWindows; IGS write_text (f32 '
                     'glyph scaling) and the effects of commands on the text buffer / caret; the ANSI fallback parser (C01); '
                     'characters above U+00FF; wall-clock and memory.  IGS execute_command arms RoundedRectangles, Circle, Ellipse, PolyFill have NO totality theorem (their panic / stall outcomes are in the model, excluded only by correspondence + oracle incl. the ParamsOk edge family; they keep the conditional igs_exec_keeps_invariant / igs_exec_keeps_aux); WriteText is the model outcome `unmodelled`.  No coordinate-independent cost bound exists for IGS draw_line '
                     'and the ellipse loops (the code walks unclipped lines: linear in the coordinate values), see '
                     'igs_draw_line_terminates_partial.  The cost function of blit_memory_to_screen is in the model and tied by the igsc '
                     'correspondence, but its bound (rounds <= (width + 1) x (height + 1) for a destination on the screen) has no theorem yet; '
                     'Box with the border on, rounded rectangles, polygons and flood fill have no cost function (igsc reports nocount).',
        assumptions=['terminal_state.cleared_screen is never set by the engine (the RIP model takes it as false)',
                     'hypotheses StreamState / DrawState / ParamsOk of the BGI and RIP command theorems (viewport fields two base-36 '
                     'digits, 8-row user pattern, 13 fill styles, 640x350 screen) are checked on the real state after every rip / ripc stream '
                     '(oracle keys assumption:StreamState, assumption:DrawState)',
                     'the class of the ANSI fallback state (Default / CSI with first number / other) is an input of the RIP '
                     'lexer model, supplied by the harness and universally quantified in the theorems',
                     'streams are fed as chars U+0000..U+00FF (one per byte), as the crate\'s own tests do'],
        trusted_extra=['hook commit (cfg icy_engine_verif): Parser::verif_digest (rip, igs), Bgi::verif_state expose private '
                       'lexer/viewport state for observation only', 'hook commit (cfg icy_engine_verif): igs VERIF_PIXEL_OPS counts set_pixel / get_pixel calls'],
    )
