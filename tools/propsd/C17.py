PROP = dict(
    drivers=['Font', 'Tdf'],
        gens=['unsafe_sites'],
        lake=['IcyVerif.Props.C17'],
        ns='IcyVerif.C17',
        theorems=['psf2_rt', 'raw_rt_partial', 'raw_magic_counterexample', 'basic_rt', 'dcs_rt_partial',
                  'icy_font_chunk_rt', 'tdf_rt', 'tdf_bundle_rt', 'tdf_oversize_rejected'],
        harness='c17',
        harness_timeout=1500,
        design='DESIGN.md §4 C17',
        technique='Lean 4 proofs (induction over glyph tables / rows / font lists) that decode∘encode is the identity, over '
                  'executable models of src/fonts.rs (to_psf2_bytes, from_bytes with PSF1/PSF2/raw sniffing, convert_to_u8_data, '
                  'glyphs_from_u8_data, create_8/from_basic, the CTerm:Font DCS payload with base64/decimal formatting as an abstract '
                  'inverse pair) and src/tdf_font/mod.rs (add_font_data/as_tdf_bytes/create_font_bundle, from_tdf_bytes with all its '
                  'error and panic outcomes). Well-formedness hypotheses are decidable; every excluded point is executed on the '
                  'implementation. Differential correspondence (bytes hashed) ties writers and readers to the models on in-domain, '
                  'boundary and damaged inputs; the oracle runs every round trip on the real crate including the XBin/ADF/IDF/IcyDraw '
                  'containers (whose byte layouts are C05/C07 models).',
        rule='cases: 256-glyph fonts of EVERY height 1..=32 (filler and random glyph bytes, all-0/all-1/byte-pattern rows), 512-glyph '
             'fonts, every built-in font page 0..=42 and every SAUCE font, each through PSF2, raw, create_8, the DCS sequence via the '
             'real ANSI parser, XBin (compressed and not), ADF, IDF, IcyDraw; malformed PSF1/PSF2/raw/DCS inputs for the decoder '
             'correspondence; TheDraw fonts of all three types with 0..=94 glyphs of 1..=30 x 1..=12, names 0..=12 bytes incl. non-ASCII, '
             'maximal fonts, oversize fonts, excluded points (NUL in name, 13-byte name, spacing 41/-1, 0 byte in data, odd colour data, '
             'size > 255), bundles of 1..=34 fonts, damaged TDF files. distinct_nontrivial = distinct fonts',
        modelled='BitFont::{to_psf2_bytes, from_bytes, load_psf1, load_psf2, load_plain_font, convert_to_u8_data, calculate_checksum, '
                 'create_8, from_basic, encode_as_ansi}, glyphs_from_u8_data, Parser::load_custom_font (payload level), IcyDraw '
                 'read/write_utf8_encoded_string; TheDrawFont::{as_tdf_bytes, add_font_data, create_font_bundle, from_tdf_bytes}',
        not_modelled='XBin/ADF/IDF/IcyDraw container layouts (C05/C07; covered here by the oracle run only); DCS framing in the ANSI '
                     'parser (exercised by the oracle); crate base64 and integer formatting (abstract in the theorems, real in the run); '
                     'TheDrawFont::render; font name guessing (guess_font_name) — names are not part of the property',
        assumptions=['base64 STANDARD: decode(encode(x)) = x; format!("{n}") parses back to n and contains no colon (CodecLaws)',
                     'TheDrawFont::char_table is private: decoded glyph sizes/data are read through the add-only hook '
                     'TheDrawFont::verif_glyph (cfg icy_engine_verif)'],
    )
