PROP = dict(
    drivers=['Font', 'Tdf', 'FontBox', 'FontDcs'],
        gens=['unsafe_sites', 'xb', 'binfmt', 'icy', 'fontdcs', 'fontslot'],
        lake=['IcyVerif.Props.C17', 'IcyVerif.Props.C17Dcs', 'IcyVerif.Props.C17Psf', 'IcyVerif.Props.C17Tdf', 'IcyVerif.Props.C17Page'],
        ns='IcyVerif.C17',
        theorems=['psf2_rt', 'raw_rt_exact', 'raw_rt_partial', 'raw_magic_counterexample', 'raw_psf2_witnesses', 'raw_512_reads_as_double_height', 'basic_rt',
                  'clip_rt', 'dcs_rt_exact', 'dcs_rt_partial', 'icy_font_chunk_rt',
                  'font_block_position', 'xb_font_rt', 'xb_font_rt_nosauce_partial', 'xb_named_default_embedded', 'adf_font_rt', 'idf_font_rt',
                  'adf_idf_font_rt_nosauce_partial', 'icy_font_rt',
                  'tdf_rt', 'tdf_bundle_rt', 'tdf_oversize_rejected',
                  'dcs_source_constants', 'dcs_stream_exact', 'dcs_stream_rt', 'dcs_streams_back_to_back', 'dcs_unterminated_untouched',
                  'dcs_interrupted_untouched', 'dcs_cut_then_complete_untouched',
                  'psf1_load_exact', 'psf1_charsize_zero', 'psf1_to_psf2_rt', 'psf2_load_exact', 'psf2_flags_ignored',
                  'psf2_headersize_rt', 'psf2_unicode_table_rejected', 'toPsf2_is_psf2File', 'psf1_unicode_table_read_as_glyphs',
                  'psf2_wide_font_quirk',
                  'tdf_rt_iff', 'wfTdf_iff', 'tdf_plain_rt', 'tdf_color_rt', 'has_char_table', 'tdf_presence_rt', 'tdf_outside_witnesses',
                  'embedded_font_is_the_font_of_the_page', 'adf_idf_font_rt_page', 'adf_slot0_height_repaired',
                  'icy_every_slot_has_a_chunk'],
        harness='c17',
        harness_timeout=1500,
        design='DESIGN.md §4 C17',
        technique='Lean 4 proofs (induction over glyph tables / rows / font lists / byte strings) that decode∘encode is the identity, over '
                  'executable models of src/fonts.rs (to_psf2_bytes, from_bytes with PSF1/PSF2/raw sniffing, convert_to_u8_data, '
                  'glyphs_from_u8_data, create_8/from_basic, get_clipboard_data/from_clipbard_data, the CTerm:Font DCS payload with an '
                  'EXECUTABLE base64 and decimal codec whose laws are proved: decode(encode x) = x for every byte string, '
                  'parse(format n) = n for every usize) and src/tdf_font/mod.rs (add_font_data/as_tdf_bytes/create_font_bundle, '
                  'from_tdf_bytes with all its error and panic outcomes). Raw and DCS round trips are proved as an IFF under the exact '
                  'decidable guard rawGuard (PSF1 magic: never; PSF2 magic: only the overlay header; else always), with kernel-checked '
                  'witnesses on both sides. Containers: on top of the byte-exact C05 (XBin/ADF/IDF) and C07 (IcyDraw) models — position '
                  'of every font block for EVERY picture the writers accept (font_block_position), XBin font round trip as a corollary '
                  'of C05 xb_rt (one or two fonts, every palette/flag/picture of its domain), ADF/IDF font round trips re-proved from '
                  'C05 loader lemmas WITHOUT the clause about font names, IcyDraw FONT_n slots as a corollary of C07 doc_rt with the real '
                  'PSF2 codec. Well-formedness hypotheses are decidable; every excluded point is executed on the implementation. '
                  'DCS FRAMING on the stream: Model/FontDcs.lean is ansi::Parser::print_char restricted to Default / ReadEscapeSequence / '
                  'RecordDCS / RecordDCSEscape / ReadPossibleMacroInDCS with macro replay (depth, budget), execute_dcs (font branch, macro '
                  'definitions text+hex, sixel hand-off) and the buffer font table; dcs_stream_exact / dcs_stream_rt are stated on the '
                  'characters encode_as_ansi emits, for EVERY parser in state Default (any macros / left-over strings / fonts), behind any '
                  'ESC-free text, several uploads back to back (induction over the list), and for unterminated / interrupted / swallowed '
                  'sequences (a recorded string containing ESC is never accepted: base64 and usize parser lemmas). PSF1/PSF2: the '
                  'loader\'s decision and result for every value of every header field (psf2_load_exact), flags ignored, header size as '
                  'offset, unicode table rejected (PSF2) / read as glyphs (PSF1). TheDraw: tdf_rt_iff — the round trip holds IFF WfTdf '
                  '(converse by analysing what the reader returns on what the writer wrote, without well-formedness), has_char for every '
                  'character code incl. its off-by-one panic at 127. XBin: the embedding decision after fix 6fc5ca0 (is_default compares '
                  'glyph bytes) — xb_font_rt is full strength. '
                  'WHICH FONT GOES WHERE (Props/C17Page.lean): embedded_font_is_the_font_of_the_page — for every picture the XBin/ADF/IDF writers '
                  'accept, block i of the file holds the glyph bytes of the font in the slot of the i-th font PAGE IN USE (analyze_font_usage), '
                  'not of slot i; adf_idf_font_rt_page (FULL) — ADF/IDF pictures whose cells are on ANY page k: the file is byte for byte '
                  'the file of the page-0 picture toPage0 (nothing the writers read depends on the page number: as_u8, IDF run lengths, 8-bit '
                  'test — proved by induction over rows and the run-length coder), so the font of slot k comes back as slot 0 whatever slot 0 '
                  'holds, of whatever size (the writers test the size of the font they embed since the two repairs; fixed: '
                  'adf/idf_font_height_of_slot0, kernel-checked former counterexample adf_slot0_height_repaired); icy_every_slot_has_a_chunk — the '
                  'IcyDraw writer emits FONT_k for every slot, no condition on the font (built-in default in slot 5 included). '
                  'tools/gens/fontslot.py pins the 16 source sites of the indirection. '
        'Differential correspondence (bytes hashed) ties writers and readers to the models on in-domain, boundary and damaged '
                  'inputs, including whole container files (length, hash, font block offsets, loaded fonts) and IcyDraw chunk sequences '
                  '(own PNG/zTXt/inflate/base64 reader).',
        rule='cases: 256-glyph fonts of EVERY height 1..=32 (filler and random glyph bytes, all-0/all-1/byte-pattern rows), 512-glyph '
             'fonts of every height, every built-in font page 0..=42 and every SAUCE font, each through PSF2 (also via a file and '
             'BitFont::load), raw, create_8, the clipboard glyph encoding, the DCS sequence via the real ANSI parser (slot numbers over '
             'the whole usize range, all three base64 padding shapes), raw data starting with PSF1/PSF2 magic incl. the overlay header '
             'and its near misses; CONTAINERS: XBin x {default, custom} palette x {no, one, two (512-character mode)} custom fonts x '
             'heights {1,8,14,16,19,32} x compressed/raw x SAUCE/none, built-in pages 0/26/42(+2 random; all in thorough) and every '
             'SAUCE font next to a custom palette and as first/second font, pages other than 0/1, a font named like the default; '
             'ADF and IDF x palette x SAUCE x (IDF) run-length coding x glyph patterns / built-in pages / SAUCE fonts / default-named '
             'font; IcyDraw documents with 1..5 font slots (256 and 512 glyphs, heights 1..=32, built-in fonts, UTF-8 names) x palette '
             'x SAUCE x 1..3 layers; glyph patterns all 0x00, all 0xFF, glyph index, byte position (a shift by k glyphs or k bytes '
             'shows); font-block offsets checked against the format layout and the model; malformed PSF1/PSF2/raw/DCS inputs for the '
             'decoder correspondence; TheDraw fonts of all three types with 0..=94 glyphs of 1..=30 x 1..=12, names 0..=12 bytes incl. '
             'non-ASCII, maximal fonts, glyph data ending 1 below / at / 1 above the 16-bit limit, oversize fonts, excluded points (NUL '
             'in name, 13-byte name, spacing 41/-1, 0 byte in data, odd colour data, size > 255), bundles of 1..=34 fonts (also via a '
             'file and TheDrawFont::load), damaged TDF files incl. every header field in turn and glyph offsets at the block/file '
             'boundary; broken-clause fonts (one clause of WfTdf violated: must NOT come back), has_char for codes 0/32/33/../126/127/128/255; '
             'PSF1 files with every mode bit 0..7/254/255 x exact / missing / surplus glyphs x unicode-table tails, PSF2 files with header '
             'sizes 0/12/16/32/33/40/64/1000 x flags 0/1/0xFFFFFFFF x tails; XBin fonts NAMED like the default with other glyphs / other '
             'heights / one bit flipped (first, last, random bit) / the default glyphs under another name; DCS STREAMS through the real '
             'parser (hook verif_dcs_view): families seq (1..5 uploads + text), cut, swallow, foreign ESC x, macro-assembled payloads, 150 '
             '(thorough 1800) random unit streams (font sequences whole / cut / damaged, ESC P, ESC \\, text and hex macro definitions, '
             'invocations well- and malformed, RIS, sixel and other DCS, bare ESC), 108 boundary streams (every state x every critical '
             'character); streams are cut where they would leave the modelled states (counted). distinct_nontrivial = distinct fonts / '
             'container cases / streams; '
             'WHICH FONT GOES WHERE (harness/src/fontslot.rs): XBin / ADF / IDF pictures with ALL cells on one page k in {1,3,42,300,+1 random; '
             'thorough 12 values up to 65536} x slot 0 = {built-in default, another built-in page, custom 8x16, default glyphs with one bit '
             'flipped under the default name} (never referenced) x slot k = {two custom patterns, the built-in default, a built-in page, a '
             'font named like the default} x palette x SAUCE x compression; XBin heights (slot 0, slot k) in {(16,8),(8,16),(14,19),(32,1),(16,32)}; '
             'XBin 512-character pictures on page pairs (0,3),(1,4),(2,5),(3,300),+1 x heights x opts with OTHER fonts in the unused slots 0/1; '
             'ADF / IDF {8x16, not 8x16} over (slot 0, slot k): in the domain iff the font of page k is 8x16; no font in slot 0 at all '
             '(writer outcome vs model only); IcyDraw documents with every injective placement of {built-in default, other built-in page, '
             'custom} over slots {0,1,5,300} with slot 0 filled (18), every third (thorough: all 24) placement of four kinds incl. default '
             'glyphs renamed / default name with other glyphs, the default font in all four slots — oracle: exactly the saved slots exist '
             'after loading and each holds its font',
        modelled='BitFont::{to_psf2_bytes, from_bytes, load_psf1, load_psf2, load_plain_font, convert_to_u8_data, calculate_checksum, '
                 'create_8, from_basic, encode_as_ansi, get_clipboard_data}, Glyph::from_clipbard_data, glyphs_from_u8_data, '
                 'Parser::load_custom_font (payload level, with executable base64 STANDARD and usize formatting/parsing), IcyDraw '
                 'read/write_utf8_encoded_string and the FONT_n chunk inside C07\'s document model; the font blocks of XBin/ADF/IDF '
                 'files inside C05\'s writer/loader models (position, embedding decision, 512-character mode); '
                 'TheDrawFont::{as_tdf_bytes, add_font_data, create_font_bundle, from_tdf_bytes, has_char, get_font_height}; '
                 'ansi::Parser::print_char in the states Default, ReadEscapeSequence, RecordDCS, RecordDCSEscape, ReadPossibleMacroInDCS; '
                 'invoke_macro_by_id (depth 8, budget 65536); execute_dcs, parse_macro, parse_macro_sequence, parse_hex_macro_sequence '
                 '(C01\'s definitions reused), load_custom_font on the recorded string; Buffer::set_font / get_font; BitFont::is_default '
                 '(repaired) as the XBin embedding decision; the page -> slot indirection of the XBin / ADF / IDF writers (analyze_font_usage, '
                 'get_font(fonts.first()), get_font(fonts[1]), the 8x16 test on that font) and loaders (block -> slot 0 / 1) for pictures on '
                 'any page; the FONT_k loop of the IcyDraw writer over every slot',
        not_modelled='XBin LOADER half for pictures on pages other than [0] / [0,1] (C05\'s xb_roundtrip is stated for those; writer half '
                     'embedded_font_is_the_font_of_the_page holds for all pages; the rest is correspondence + oracle); buffers without a font in slot 0 '
                     '(get_font_dimensions / write_sauce_info panic: modelled as .panic, compared, not a domain of any theorem); every parser state other than the five DCS-related ones (CSI and its sub-states, OSC, APS, ANSI music): one absorbing '
                     'state `out`, entered only by ESC [ / ESC ] / ESC _ in ReadEscapeSequence — streams are cut there; caret, layers and '
                     'terminal state (irrelevant for fonts); the sixel decode thread a `q` DCS spawns; crates base64 / '
                     'png / flate2 themselves (the model has its own base64; PNG container and zTXt compression are parameters of C07\'s '
                     'model, read back in the harness by an independent inflater); BitFont::load / TheDrawFont::load file I/O (oracle '
                     'only); TheDrawFont::render / FontGlyph::render / transform_outline (drawing, not an encoding); font name guessing '
                     '(guess_font_name) — names are compared only for IcyDraw, which stores them; Buffer::set_sauce applying a SAUCE '
                     'font name (overwritten by the embedded font in every format here)',
        assumptions=['the executable base64 / decimal codec of Model/Base64.lean behaves like crate base64 STANDARD and std {} / '
                     'parse::<usize> (its laws are PROVED; the equality with the crates is checked by the correspondence run on every '
                     'DCS case)',
                     'C05 (Model/BinFormats.lean) and C07 (Model/IcyDraw.lean) model the container writers/loaders (their own checks; '
                     're-tied here on every container case: file length+hash, block offsets, loaded fonts, chunk keywords, FONT_n payloads)',
                     'TheDrawFont::char_table is private: decoded glyph sizes/data are read through the add-only hook '
                     'TheDrawFont::verif_glyph (cfg icy_engine_verif)',
                     'ansi::Parser::state / parsed_numbers / macros are pub(crate): the stream correspondence reads them through the add-only hook '
                     'Parser::verif_dcs_view (cfg icy_engine_verif); C01\'s Model/TermGeo.lean definitions takeNums / hexMacro / macroSet / macroGet / '
                     'pushDigit are reused as they are (C01\'s own check ties them; re-tied here by every macro definition / invocation in a stream)',
                     'TheDraw font names are Rust Strings: tdf_rt_iff carries validUtf8 name as a typing hypothesis'],
    )
