PROP = dict(
    drivers=['Font', 'Tdf', 'FontBox'],
        gens=['unsafe_sites', 'xb', 'binfmt', 'icy'],
        lake=['IcyVerif.Props.C17'],
        ns='IcyVerif.C17',
        theorems=['psf2_rt', 'raw_rt_exact', 'raw_rt_partial', 'raw_magic_counterexample', 'raw_psf2_witnesses', 'raw_512_reads_as_double_height', 'basic_rt',
                  'clip_rt', 'dcs_rt_exact', 'dcs_rt_partial', 'icy_font_chunk_rt',
                  'font_block_position', 'xb_font_rt_partial', 'xb_named_default_violates', 'adf_font_rt', 'idf_font_rt',
                  'adf_idf_font_rt_nosauce_partial', 'icy_font_rt',
                  'tdf_rt', 'tdf_bundle_rt', 'tdf_oversize_rejected'],
        harness='c17',
        harness_timeout=1500,
        design='DESIGN.md §4 C17',
        technique='Lean 4 proofs (induction over glyph tables / rows / font lists / byte strings) that decode∘encode is the identity, over '
                  'executable models of src/fonts.rs (to_psf2_bytes, from_bytes with PSF1/PSF2/raw sniffing, convert_to_u8_data, '
                  'glyphs_from_u8_data, create_8/from_basic, get_clipboard_data/from_clipbard_data, the CTerm:Font DCS payload with an '
                  'EXECUTABLE base64 and decimal codec whose laws are proved: decode(encode x) = x for every byte string, '
                  'parse(format n) = n for every usize) and src/tdf_font/mod.rs (add_font_data/as_tdf_bytes/create_font_bundle, '
                  'from_tdf_bytes with all its error and panic outcomes). Raw and DCS round trips are proved as an IFF under the exact '
                  'decidable guard rawGuard (PSF1 magic: never; PSF2 magic: only the overlay header; else always), with kernel-checked '
                  'witnesses on both sides. Containers: on top of the byte-exact C05 (XBin/ADF/IDF) and C07 (IcyDraw) models — position '
                  'of every font block for EVERY picture the writers accept (font_block_position), XBin font round trip as a corollary '
                  'of C05 xb_rt (one or two fonts, every palette/flag/picture of its domain), ADF/IDF font round trips re-proved from '
                  'C05 loader lemmas WITHOUT the clause about font names, IcyDraw FONT_n slots as a corollary of C07 doc_rt with the real '
                  'PSF2 codec. Well-formedness hypotheses are decidable; every excluded point is executed on the implementation. '
                  'Differential correspondence (bytes hashed) ties writers and readers to the models on in-domain, boundary and damaged '
                  'inputs, including whole container files (length, hash, font block offsets, loaded fonts) and IcyDraw chunk sequences '
                  '(own PNG/zTXt/inflate/base64 reader).',
        rule='cases: 256-glyph fonts of EVERY height 1..=32 (filler and random glyph bytes, all-0/all-1/byte-pattern rows), 512-glyph '
             'fonts of every height, every built-in font page 0..=42 and every SAUCE font, each through PSF2 (also via a file and '
             'BitFont::load), raw, create_8, the clipboard glyph encoding, the DCS sequence via the real ANSI parser (slot numbers over '
             'the whole usize range, all three base64 padding shapes), raw data starting with PSF1/PSF2 magic incl. the overlay header '
             'and its near misses; CONTAINERS: XBin x {default, custom} palette x {no, one, two (512-character mode)} custom fonts x '
             'heights {1,8,14,16,19,32} x compressed/raw x SAUCE/none, built-in pages 0/26/42(+2 random; all in thorough) and every '
             'SAUCE font next to a custom palette and as first/second font, pages other than 0/1, a font named like the default; '
             'ADF and IDF x palette x SAUCE x (IDF) run-length coding x glyph patterns / built-in pages / SAUCE fonts / default-named '
             'font; IcyDraw documents with 1..5 font slots (256 and 512 glyphs, heights 1..=32, built-in fonts, UTF-8 names) x palette '
             'x SAUCE x 1..3 layers; glyph patterns all 0x00, all 0xFF, glyph index, byte position (a shift by k glyphs or k bytes '
             'shows); font-block offsets checked against the format layout and the model; malformed PSF1/PSF2/raw/DCS inputs for the '
             'decoder correspondence; TheDraw fonts of all three types with 0..=94 glyphs of 1..=30 x 1..=12, names 0..=12 bytes incl. '
             'non-ASCII, maximal fonts, glyph data ending 1 below / at / 1 above the 16-bit limit, oversize fonts, excluded points (NUL '
             'in name, 13-byte name, spacing 41/-1, 0 byte in data, odd colour data, size > 255), bundles of 1..=34 fonts (also via a '
             'file and TheDrawFont::load), damaged TDF files incl. every header field in turn and glyph offsets at the block/file '
             'boundary. distinct_nontrivial = distinct fonts / container cases',
        modelled='BitFont::{to_psf2_bytes, from_bytes, load_psf1, load_psf2, load_plain_font, convert_to_u8_data, calculate_checksum, '
                 'create_8, from_basic, encode_as_ansi, get_clipboard_data}, Glyph::from_clipbard_data, glyphs_from_u8_data, '
                 'Parser::load_custom_font (payload level, with executable base64 STANDARD and usize formatting/parsing), IcyDraw '
                 'read/write_utf8_encoded_string and the FONT_n chunk inside C07\'s document model; the font blocks of XBin/ADF/IDF '
                 'files inside C05\'s writer/loader models (position, embedding decision, 512-character mode); '
                 'TheDrawFont::{as_tdf_bytes, add_font_data, create_font_bundle, from_tdf_bytes}',
        not_modelled='DCS framing in the ANSI parser (ESC P … ESC \\; exercised by the oracle through the real parser); crates base64 / '
                     'png / flate2 themselves (the model has its own base64; PNG container and zTXt compression are parameters of C07\'s '
                     'model, read back in the harness by an independent inflater); BitFont::load / TheDrawFont::load file I/O (oracle '
                     'only); TheDrawFont::render / FontGlyph::render / transform_outline (drawing, not an encoding); font name guessing '
                     '(guess_font_name) — names are compared only for IcyDraw, which stores them; Buffer::set_sauce applying a SAUCE '
                     'font name (overwritten by the embedded font in every format here)',
        assumptions=['the executable base64 / decimal codec of Model/Base64.lean behaves like crate base64 STANDARD and std {} / '
                     'parse::<usize> (its laws are PROVED; the equality with the crates is checked by the correspondence run on every '
                     'DCS case)',
                     'C05 (Model/BinFormats.lean) and C07 (Model/IcyDraw.lean) model the container writers/loaders (their own checks; '
                     're-tied here on every container case: file length+hash, block offsets, loaded fonts, chunk keywords, FONT_n payloads)',
                     'TheDrawFont::char_table is private: decoded glyph sizes/data are read through the add-only hook '
                     'TheDrawFont::verif_glyph (cfg icy_engine_verif)'],
    )
