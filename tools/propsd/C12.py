PROP = dict(
    drivers=['ColorOpt'],
        gens=['comp', 'fonts'],
        lake=['IcyVerif.Props.C12'],
        ns='IcyVerif.C12',
        theorems=['blank_fg_irrelevant', 'solid_bg_irrelevant', 'blank_char_irrelevant', 'block_shape_is_full',
                  'optimize_cell_preserves_render', 'optimize_preserves_row', 'optimize_preserves_rows',
                  'optimize_preserves_size', 'flat_clone_same_cells', 'flat_view_id',
                  'optimize_preserves_picture_partial', 'invisible_composite_is_invisible_cell',
                  'invisible_cell_renders_as_default', 'optimize_preserves_picture_partial_fonts',
                  'same_blocks_same_bytes', 'builtin_fonts_ok', 'builtin_font_ok',
                  'transparent_unresolved_changes_picture', 'invisible_font_page_changes_picture',
                  'space_not_blank_changes_picture', 'stray_bits_changes_picture'],
        harness='c12',
        design='DESIGN.md §4 C12',
        technique='Lean 4 proof (induction over the row / the rows with the carried attribute generalised; blank glyphs render '
                  'without their foreground, full glyphs without their background; Buffer::get_char of the flat clone '
                  'characterised through the C13 compositing model) over models of ColorOptimizer::optimize, get_shape, '
                  'flat_clone(false) and render_to_rgba; the font condition FontOk is discharged for every built-in font by '
                  'decide +kernel on per-glyph summaries regenerated from data/fonts; differential correspondence of the '
                  'optimised cells and of both rendered images (FNV of the RGBA bytes) against the model; the property itself '
                  '(byte-equal images, same size, both normalize_whitespaces settings) evaluated on real Buffers',
        rule='cases: font summaries of all 60 built-in fonts vs the compiled crate; seeded documents per the quantifier (1..=4 '
             'layers, alpha/offset/hidden/modes, buffer 1..=6 x 1..=3, 1..=3 font slots filled with random built-in fonts, '
             'cells over 0..=255 with extra weight on 0/32/255/219, palette / bright / out-of-range / RGB colours, bold, '
             'custom palette entries, both is_terminal_buffer), each with both normalize_whitespaces settings; a second '
             'family with TRANSPARENT_COLOR cells and non-zero default font pages (where the two recorded findings live); '
             'a sweep of the full glyph range of every built-in font (oracle; some also tied); documents naming a '
             'missing font page / glyph (correspondence only); distinct_nontrivial = distinct documents',
        modelled='ColorOptimizer::optimize (both unwrap()s explicit), get_shape, generate_shape_map (as font lookup), '
                 'Buffer::flat_clone(false) via the C13 model of Buffer::get_char, Buffer::render_to_rgba for the buffer '
                 'rectangle (bold fold, 128 >> cx bit test incl. its shift-overflow and index panics, min of font sizes, '
                 'unwritten pixels, byte layout), Palette::get_rgb as a parameter',
        not_modelled='sixels (render_to_rgba second loop; flat_clone drops them - outside the quantifier), overlay layer, '
                     'fonts wider than 8 pixels beyond the explicit panic',
        thorough_exhaustive=False,
    )
