PROP = dict(
    drivers=['ColorOpt'],
        gens=['comp', 'fonts', 'coloropt', 'unsafe_sites', 'crc', 'xb', 'binfmt'],
        lake=['IcyVerif.Props.C12', 'IcyVerif.Props.C12Fonts', 'IcyVerif.Props.C12Sixel', 'IcyVerif.Props.C12Src', 'IcyVerif.Props.C12Writers'],
        ns='IcyVerif.C12',
        theorems=['blank_fg_irrelevant', 'solid_bg_irrelevant', 'blank_char_irrelevant', 'block_shape_is_full',
                  'optimize_cell_preserves_render', 'optimize_preserves_row', 'optimize_preserves_rows',
                  'optimize_preserves_size', 'flat_clone_same_cells', 'flat_store_id',
                  'invisible_composite_is_invisible_cell', 'flat_store_renders_same', 'flat_clone_preserves_picture',
                  'optimize_preserves_document', 'optimize_preserves_document_builtin', 'optimize_defined_iff',
                  'same_blocks_same_bytes', 'builtin_fonts_ok', 'builtin_font_ok',
                  'space_not_blank_changes_picture', 'stray_bits_changes_picture',
                  # Props/C12Fonts.lean: fonts of any width, fonts out of the loaders, exactness
                  'wide_font_never_block', 'wide_font_ok', 'eight_wide_font_ok', 'narrow_font_ok',
                  'loaded_font_rows_len', 'loaded_font_ok', 'loaded_psf1_raw_font_ok_iff', 'embedded_font_ok_iff',
                  'space_not_blank_changes_cell', 'eight_wide_font_exact',
                  # Props/C12Sixel.lean: the second loop of render_to_rgba
                  'render_full_without_sixels', 'optimised_full_render_is_text_picture', 'optimize_preserves_full_render',
                  'full_render_preserved_iff', 'offscreen_sixel_invisible', 'sixel_changes_picture',
                  # Props/C12Src.lean
                  'source_skeleton_unchanged',
                  # Props/C12Writers.lean: the optimiser inside the format writers
                  'default_save_is_lossless_save_of_optimised', 'default_save_preserves_picture', 'optPic_renders_same',
                  'binary_default_save', 'xb_default_save', 'bin_adf_idf_tnd_default_save',
                  'representable_optPic', 'binary_default_save_of_representable'],
        harness='c12',
        design='DESIGN.md §4 C12',
        technique='Lean 4 proof (induction over the row / the rows with the carried attribute generalised; blank glyphs render '
                  'without their foreground, full glyphs without their background; Buffer::get_char of the flat clone — an ALPHA '
                  'layer after the two C12 repairs of flat_clone — characterised through the C13 compositing model: '
                  'optimize_preserves_document is the FULL whole-document statement, optimize_defined_iff says exactly when the '
                  'optimiser returns) over models of ColorOptimizer::optimize, get_shape, flat_clone(false) and both loops of '
                  'render_to_rgba; the font condition FontOk is discharged for every built-in font by decide +kernel on per-glyph '
                  'summaries regenerated from data/fonts, and characterised for fonts of any width and for fonts out of the '
                  'loaders (C17 model of src/fonts.rs): eight_wide_font_exact is an iff; the optimiser inside the writers as a '
                  'composition theorem instantiated with the C05 round-trip theorems; source fingerprints of every modelled '
                  'body; differential correspondence of the optimised cells and of all rendered images (FNV of the RGBA '
                  'bytes) against the model; the property itself (byte-equal images, same size / layer count / ice mode, both '
                  'normalize_whitespaces settings) evaluated on real Buffers, and through every format writer',
        rule='cases: font summaries of all 60 built-in fonts vs the compiled crate; seeded documents per the quantifier (1..=4 '
             'layers, alpha/offset/hidden/modes, buffer 1..=6 x 1..=3, 1..=3 font slots filled with random built-in fonts, '
             'cells over 0..=255 with extra weight on 0/32/255/219, palette / bright / out-of-range / RGB colours, bold, '
             'custom palette entries, both is_terminal_buffer, all three ice modes), each with both normalize_whitespaces '
             'settings; a second family with TRANSPARENT_COLOR cells and non-zero default font pages (the two repaired sites '
             'of flat_clone; their witnesses are replayed first on every run); a sweep of the full glyph range of every '
             'built-in font; documents with 1..=3 sixels (inside / partly outside / empty / short data: second loop of '
             'render_to_rgba, `coloropt sdoc`); fonts built as PSF2 FILES of width 4/6/8/9/12 and loaded with '
             'BitFont::from_bytes (clean = property claimed by loaded_font_ok, stray padding bits / non-blank space = converse '
             'witnesses, correspondence only); documents naming a missing font page / glyph (correspondence only); the '
             'writer family (c12w.rs): all 14 writers of the FORMATS table x {lossless save of the flat clone, default save '
             'with both normalize settings}, reload, render on the original rectangle — judged when the lossless file '
             'reproduces the original picture — plus byte identity of to_bytes(default) and '
             'optimize(buf).to_bytes(lossless); distinct_nontrivial = distinct documents',
        modelled='ColorOptimizer::optimize (both unwrap()s explicit), get_shape, generate_shape_map (as font lookup), '
                 'Buffer::flat_clone(false) AFTER the two C12 repairs (alpha flat layer; invisible composited cell stored as a '
                 'default blank on its font page) via the C13 model of Buffer::get_char, Buffer::render_to_rgba: first loop for '
                 'the buffer rectangle (bold fold, 128 >> cx bit test incl. its shift-overflow and index panics, min of font '
                 'sizes, unwritten pixels, byte layout) and second loop (sixels of every layer incl. hidden ones, no '
                 'horizontal clipping, skipped rows above the picture do not advance the source line, usize overflow panic on '
                 'a negative pixel column, short picture_data panic, i32 overflow guards), Palette::get_rgb as a parameter, '
                 'fonts of any width (FontOk: wide fonts never Block, 8-pixel fonts exact, narrow fonts need clear padding '
                 'bits), fonts out of BitFont::from_bytes / from_basic (C17 model), the optimiser call site in '
                 'Buffer::to_bytes (toBytes; exactly one call site, pinned), source text of every modelled body pinned',
        not_modelled='the overlay layer (outside the quantifier); sixels with negative width/height; the text formats\' '
                     'writers and loaders (ANSI, PCBoard, Avatar, ASCII, Ctrl-A, Renegade, ATASCII) and IcyDraw inside C12 — '
                     'for them the composition "default file reloads to the original picture whenever the lossless file '
                     'does" is an oracle on the real crate, not a theorem; the Seq (PETSCII) writer is unimplemented in the '
                     'crate; custom fonts with a non-blank space or stray padding bits are outside the property\'s quantifier '
                     '(built-in fonts) and are characterised, not claimed',
        thorough_exhaustive=False,
    )
