#!/bin/bash
# usage: tools/coverage.sh [quick|thorough] <ID>...   — line coverage of /repo/src reached by the correspondence/oracle run of each
# property (harness rebuilt with -C instrument-coverage on the nightly toolchain, which ships llvm-profdata / llvm-cov).
# Writes work/cov/<ID>.json (per anchored file: lines instrumented / hit; per function never entered) and prints a summary.
# This is a generator-quality measurement for the tie (DESIGN §9.6); it decides nothing.
set -e
cd "$(dirname "$0")/.."
ROOT=$(pwd); TIER=${1:-quick}; shift || true
REPO=$( [ -f .verif_repo ] && cat .verif_repo || echo /repo )
BIN=$HOME/.rustup/toolchains/nightly-x86_64-unknown-linux-gnu/lib/rustlib/x86_64-unknown-linux-gnu/bin
TD=$ROOT/work/target-cov; mkdir -p $ROOT/work/cov
( cd harness && CARGO_NET_OFFLINE=true CARGO_TARGET_DIR=$TD LLVM_PROFILE_FILE=$ROOT/work/cov/build-%p.profraw \
  RUSTFLAGS="-C instrument-coverage -C llvm-args=-runtime-counter-relocation --cfg icy_engine_verif" cargo +nightly build --offline --quiet -j8 2>/dev/null )
rm -f $ROOT/work/cov/build-*.profraw
for ID in "$@"; do
  H=$(python3 -c "import sys; sys.path.insert(0,'tools'); from props import PROPS; print(PROPS['$ID']['harness'])")
  W=$ROOT/work/cov/run_$ID; rm -rf $W; mkdir -p $W
  INP=$ROOT/work/$ID/inputs.txt; [ -f $INP ] || { : > $W/inputs.txt; INP=$W/inputs.txt; }
  LLVM_PROFILE_FILE=$W/p-%p%c.profraw timeout 3000 $TD/debug/harness $H --seed ${VERIF_SEED:-1} --tier $TIER --out $W --inputs $INP >/dev/null 2>&1 || true
  $BIN/llvm-profdata merge -sparse $W/*.profraw -o $W/m.profdata 2>/dev/null
  $BIN/llvm-cov export -format=lcov -instr-profile=$W/m.profdata $TD/debug/harness --ignore-filename-regex='(\.cargo|rustc|harness/src)' > $W/lcov.info 2>/dev/null
  python3 tools/covsum.py $ID $W/lcov.info $REPO > $ROOT/work/cov/$ID.txt
  head -40 $ROOT/work/cov/$ID.txt
  rm -f $W/*.profraw $W/ops.txt $W/impl.txt
done
