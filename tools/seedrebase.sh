#!/bin/bash
# usage: tools/seedrebase.sh <ID>_<N> <check-id>   — /repo working tree holds the hand-rebased seeded change:
# save it as the seed's patch, run the check against /repo, record the result, undo the change
S="$1"; C="$2"; D=/verif/seeded/$S
git -C /repo diff > $D/patch.diff
[ -s $D/patch.diff ] || { echo "no change in /repo"; exit 1; }
out=$(cd /verif && ./check $C quick 2>&1)
git -C /repo checkout -- .
line=$(echo "$out" | grep -E "^VIOLATION" | head -1); first=$(echo "$out" | head -1)
[ -n "$line" ] && cp $(echo "$line" | sed -E 's/.*replay=([^ ]+).*/\1/') $D/replay_$C.json 2>/dev/null
python3 - "$D" "$C: ${line:-no VIOLATION} || $first (patch rebased by hand onto the repaired code; run in /repo with the change applied, undone afterwards)" <<'PY'
import json,sys
p=sys.argv[1]+'/meta.json'; m=json.load(open(p)); m['checks']=[sys.argv[2]]; json.dump(m,open(p,'w'),indent=1); print(sys.argv[2][:300])
PY
