#!/usr/bin/env python3
"""usage: tools/termbisect.py <c01|c09|c03> <line-no in work/<PROP>/ops.txt>
Finds the first character of a TermGeo correspondence line on which model and implementation diverge (replays growing
prefixes through the harness and the property's driver; needs a finished `./check <PROP> quick`)."""
import sys, subprocess, os
prop, ln = sys.argv[1], int(sys.argv[2])
W=os.path.dirname(os.path.dirname(os.path.abspath(__file__)))
REPO=open(W+'/.verif_repo').read().strip() if os.path.exists(W+'/.verif_repo') else '/repo'
op = open(f'{W}/work/{prop.upper()}/ops.txt').read().split('\n')[ln-1].split()
if op[1]=='run': emu='ansi'+op[2]; w,h,items=op[4],op[5],op[6]
else: emu=op[2]; w,h,items=op[3],op[4],op[5]
chars=[int(i.split(':')[0]) for i in items.split(',')]
def run(n):
    s=''.join(chr(c) for c in chars[:n]).encode('utf-8').hex() or '-'
    out=f'{W}/work/bis'; os.makedirs(out,exist_ok=True)
    open(out+'/inputs.txt','w').write('')
    env=dict(os.environ, VERIF_REPO=REPO, VERIF_WORK=out, VERIF_NO_PROBE='1')
    subprocess.run([W+'/harness/target/debug/harness',prop.lower(),'--seed','1','--tier','quick','--out',out,'--inputs',out+'/inputs.txt','--replay',f'{emu}_{w}_{h}_{s}'],env=env,cwd=W,capture_output=True)
    m=subprocess.run([W+f'/lean/.lake/build/bin/icydrv_{prop.upper()}'],stdin=open(out+'/ops.txt'),capture_output=True,text=True).stdout.strip().split('\n')
    i=open(out+'/impl.txt').read().strip().split('\n')
    return m==i, m, i
lo,hi=0,len(chars)
assert not run(hi)[0], 'no mismatch on full stream'
while hi-lo>1:
    mid=(lo+hi)//2
    if run(mid)[0]: lo=mid
    else: hi=mid
ok,m,i=run(hi)
print('first diverging char index', hi-1, 'char', chars[hi-1], repr(''.join(chr(c) for c in chars[max(0,hi-25):hi])))
print('model', m[-1][:200]); print('impl ', i[-1][:200])
