#!/bin/bash
# usage: tools/seedrecheck.sh <seed dir name, e.g. C06_5> [check-id ...]  — re-run the named checks (default: the seed's own property)
# against the seeded change in the private copy /tmp/w_me (never /repo itself) and append the outcome to seeded/<seed>/meta.json
S="$1"; shift; ID=${S%%_*}; CHECKS="${@:-$ID}"
D=/verif/seeded/$S
for c in $CHECKS; do
  out=$(/verif/tools/tryseed.sh $D/patch.diff $c 2>&1 | grep -v "^Preparing")
  echo "$S vs $c: $out" | cut -c1-600
  rp=$(echo "$out" | grep -E "^VIOLATION" | head -1 | sed -E 's/.*replay=([^ ]+).*/\1/')
  [ -n "$rp" ] && [ -f "$rp" ] && cp "$rp" $D/replay_$c.json
  python3 - "$D" "$c" "$out" <<'PY'
import json,sys,subprocess
d,c,out=sys.argv[1:4]
m=json.load(open(d+'/meta.json'))
head=subprocess.run(['git','-C','/verif','rev-parse','--short','HEAD'],capture_output=True,text=True).stdout.strip()
viol=[l for l in out.split('\n') if l.startswith('VIOLATION')]
m.setdefault('rechecks',[]).append({'verif_commit_or_later':head,'check':c,'violation':viol[0] if viol else 'no VIOLATION','summary':out.split('\n')[0][:300]})
json.dump(m,open(d+'/meta.json','w'),indent=1)
PY
done
