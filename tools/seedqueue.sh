#!/bin/bash
# processes IDs appended to /verif/work/seedqueue.txt, one at a time
Q=/verif/work/seedqueue.txt; touch $Q; done_n=0
while true; do
  n=$(wc -l < $Q)
  if [ $n -gt $done_n ]; then
    done_n=$((done_n+1)); id=$(sed -n "${done_n}p" $Q)
    [ "$id" = "STOP" ] && exit 0
    # a line is "<ID>" or "<ID> <offset>"
    set -- $id; SEED_OFFSET=${2:-0} /verif/tools/seedeval.sh $1 > /verif/work/seed_$1_${2:-0}.txt 2>&1
  else sleep 20; fi
done
