#!/bin/bash
# usage: tools/tryseed.sh <patch.diff> <ID> [tier]  — run ./check <ID> against a patched private worktree (never /repo itself)
P=$(readlink -f "$1"); ID="$2"; T=${3:-quick}
R=${TRYDIR:-/tmp/w_me}
# one user of the private copy at a time
exec 9>/tmp/.tryseed.$(basename $R).lock; flock 9
if [ ! -d $R ]; then /verif/tools/mkcopy.sh $R >/dev/null; fi
rsync -a --exclude .git --exclude work --exclude replays --exclude repo --exclude .verif_repo --exclude harness/Cargo.toml --exclude harness/target --exclude lean/.lake /verif/ $R/
git -C $R/repo checkout -q --detach $(git -C /repo rev-parse HEAD) 2>/dev/null; git -C $R/repo checkout -q -- .
( cd $R/repo && git apply "$P" ) || { echo "patch does not apply"; exit 2; }
( cd $R && ./check $ID $T 2>&1 | grep -E "^(C[0-9]+ |VIOLATION|BROKEN)" | cut -c1-400 )
git -C $R/repo checkout -q -- .
