#!/bin/sh
# usage: tools/integrate.sh /tmp/w_cNN   — copy an agent's new files into /verif, list its repo commits
set -e
D="$1"
cd "$D"
git status --short | grep -v -E ' (harness/src/main.rs|lean/Main.lean|lean/IcyVerif.lean|MANIFEST.json|known_findings.txt|HANDOFF.md|evidence/|work/|replays/|harness/Cargo.lock|repo/?$|.verif_repo)' | while read st f; do
  case "$f" in
    */) mkdir -p "/verif/$f"; cp -r "$D/$f." "/verif/$f" ; echo "copied dir $f";;
    *) mkdir -p "/verif/$(dirname "$f")"; cp "$D/$f" "/verif/$f"; echo "copied $f ($st)";;
  esac
done
echo "--- known_findings.txt lines:"; cat "$D/known_findings.txt" 2>/dev/null || true
echo "--- repo commits:"; git -C "$D/repo" log --oneline --reverse cdb5b60..HEAD
