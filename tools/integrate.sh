#!/bin/sh
# usage: tools/integrate.sh /tmp/w_cNN   — copy an agent's new/changed files into /verif (relative to the copy's base commit,
# whether or not the agent committed inside the copy); generated files, findings, evidence and work dirs are left out
set -e
D="$1"
cd "$D"
BASE=$(git rev-list --max-parents=0 HEAD | tail -1)
{ git diff --name-status "$BASE" HEAD; git status --short | sed -E 's/^ ?([A-Z?]+) +/\1\t/'; } | awk -F'\t' '{print $1"\t"$NF}' | sort -u -k2,2 |
 grep -v -P '\t(harness/src/main.rs|lean/Main.lean|lean/IcyVerif.lean|lean/lakefile.toml|lean/DrvMain/.*|MANIFEST.json|known_findings.txt|HANDOFF.md|evidence/.*|work/.*|replays/.*|harness/Cargo.lock|harness/Cargo.toml|repo/?|.verif_repo)$' | while IFS="$(printf '\t')" read st f; do
  case "$st" in D*) echo "DELETED in copy (not removed here): $f"; continue;; esac
  case "$f" in
    */) mkdir -p "/verif/$f"; cp -r "$D/$f." "/verif/$f" ; echo "copied dir $f";;
    *) [ -e "$D/$f" ] || continue; mkdir -p "/verif/$(dirname "$f")"; cp "$D/$f" "/verif/$f"; echo "copied $f ($st)";;
  esac
done
