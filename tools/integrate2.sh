#!/bin/bash
# usage: tools/integrate2.sh /tmp/w_cNN BASE   — cherry-pick the agent's repo commits (BASE..HEAD) into /repo and append its
# known_findings lines (shas rewritten) to /verif/known_findings.txt
set -e
D="$1"; BASE="$2"
MAP=""
for c in $(git -C "$D/repo" rev-list --reverse "$BASE"..HEAD); do
  old=$(git -C "$D/repo" rev-parse --short "$c")
  if git -C /repo cherry-pick "$c" >/dev/null 2>&1; then
    new=$(git -C /repo rev-parse --short HEAD)
    echo "picked $old -> $new  $(git -C /repo log -1 --format=%s)"
    MAP="$MAP -e s/$old/$new/g"
  else
    echo "CONFLICT cherry-picking $old: $(git -C "$D/repo" log -1 --format=%s $c)"; git -C /repo status --short | head; exit 1
  fi
done
if [ -n "$WITH_KF" ] && [ -f "$D/known_findings.txt" ]; then   # default: use tools/kfmerge.py per property instead
  grep -E "^(fixed|finding):" "$D/known_findings.txt" | sed $MAP -e 's/^//' > /tmp/_kf_new.txt || true
  # only lines not already present
  while IFS= read -r line; do grep -qxF "$line" /verif/known_findings.txt || echo "$line" >> /verif/known_findings.txt; done < /tmp/_kf_new.txt
  echo "appended $(wc -l < /tmp/_kf_new.txt) finding lines (minus duplicates)"
fi
