#!/bin/sh
# run every registered quick (or $1=thorough) check sequentially, print one line each
T=${1:-quick}
cd "$(dirname "$0")/.."
# the umbrella module imports every file: catches name collisions between lemma files of different properties (setup builds it)
( cd lean && lake build IcyVerif >/dev/null 2>&1 ) || echo "BROKEN umbrella build: cd lean && lake build IcyVerif"
for id in $(python3 -c "
import json;print(' '.join(c['property_id'] for c in json.load(open('MANIFEST.json'))['checks']))"); do
  out=$(./check $id $T 2>&1); rc=$?
  echo "$id rc=$rc $(echo "$out" | head -1 | cut -c1-160)"
  echo "$out" | grep -E "^(VIOLATION|BROKEN)" | cut -c1-300
done
