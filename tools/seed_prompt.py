import json,sys
pid=sys.argv[1]
rnd=sys.argv[2] if len(sys.argv)>2 else ''
import re,os
prev=[]
if rnd:
    for l in open('/verif/notes/SEEDS.md'):
        m=re.match(r'\| (%s_\d+) \| (.*?) \| (.*?) \|'%pid,l)
        if m: prev.append('  - '+m.group(2)+' ['+m.group(3)+']')
for l in open('/verif/properties.jsonl'):
    p=json.loads(l)
    if p['id']==pid: break
wt=f'/tmp/seed_{pid}'
prevtxt=('\n\nALREADY USED in an earlier round (do NOT repeat these or close variants; go for different code sites, different sentences of the property, and different triggering conditions — prefer the parts of the anchored code these did not touch):\n'+'\n'.join(prev)) if prev else ''
print(f'''You are testing how well a verification suite (which you cannot see) detects regressions in the Rust crate `icy_engine` (an engine for ANSI/BBS art and terminal emulation). Your job: craft realistic, subtle BUGS — source changes that break ONE stated behavioural property of the crate while the crate still compiles and its existing test suite still passes — and demonstrate each with a small test.

You work ONLY in your own scratch git worktree of the repository: `{wt}` (already created for you; it is a detached checkout of the current repository head). Do not read or write anything under /verif, and do not touch /repo itself. No network is available; `cargo` works offline (use `CARGO_NET_OFFLINE=true cargo ... --offline`).

THE PROPERTY (id {pid}) — "{p['title']}":
{p['statement']}

Scope of the "for all": {p['quantifier']['text']}

Code the property is anchored in: {", ".join(p['anchors']['files'])}

WHAT TO PRODUCE: THREE different changes (mutations), each as a separate unified diff against the worktree head, each of which
  1. compiles (`cargo build --offline`),
  2. leaves the existing test suite passing exactly as before — run `cd {wt} && CARGO_NET_OFFLINE=true cargo test --offline 2>&1 | grep -E "^test result|FAILED" ` BEFORE any change to learn the baseline (some `parsers::rip` / `parsers::igs` tests fail already; that set must not grow) and again with each change applied,
  3. violates the property above in a way that needs something SPECIFIC to manifest — a particular multi-step sequence of operations, an unusual but in-scope input, a boundary value, a particular interleaving/order, or two cooperating code sites that each look fine alone. Do NOT make changes that ordinary use or any casual test would expose at once (e.g. breaking the common path for every input), and do not make changes unrelated to the property. Realistic = the kind of slip a maintainer could make in a refactor or "optimisation": an off-by-one on a boundary, a dropped clamp on one path, a swapped pair of fields in one arm, state not reset in one transition, a comparison that ignores one field, a changed constant in one table entry, an early return that skips bookkeeping.
  4. comes with a demonstration: a small Rust test file `demo_N.rs` (to be dropped into `{wt}/tests/` as an integration test using only the crate's public API, `use icy_engine::...;`) containing one `#[test]` that PASSES on the unmodified worktree and FAILS (assertion failure, panic, or timeout you detect yourself) with mutation N applied. Verify both directions yourself by actually running it (`cargo test --offline --test demo_N`).
Make the three mutations genuinely different from each other (different code sites and different triggering conditions), all squarely within the property's scope as worded above.{prevtxt}

DELIVERABLE LAYOUT (create it): `{wt}/SEEDS/` containing for N = 1, 2, 3: `mutation_N.diff` (output of `git diff` for that mutation alone, relative to the worktree head; must apply with `git apply` on a clean checkout), `demo_N.rs`, and one `README.md` describing for each N: which sentence of the property it breaks, the exact triggering condition, why the existing tests do not notice, and the commands you ran with their observed results (baseline test summary, with-mutation test summary, demo pass/fail both ways). Leave the worktree itself CLEAN at the end (`git checkout -- . && git clean -fd tests/` but keep `SEEDS/`). Your final message: a 10-line summary of the three mutations (files touched, trigger, one line each).''')
