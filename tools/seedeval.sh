#!/bin/bash
# usage: tools/seedeval.sh <ID> [check-ids...]   — confirm and evaluate the seeded mutations in /tmp/seed_<ID>/SEEDS
# 1. in the seed worktree: demo fails with the change / passes without, stable baseline tests still pass
# 2. in a private copy of /verif (/tmp/seedrun, wired to its own worktree of /repo): apply the change, run ./check
# 3. store under /verif/seeded/<ID>_<N>/
ID="$1"; shift; CHECKS="${@:-$ID}"
OFF=${SEED_OFFSET:-0}   # round 2 of a property: SEED_OFFSET=3 stores mutations 1..3 as <ID>_4..<ID>_6
W=/tmp/seed_$ID; S=$W/SEEDS
R=/tmp/seedrun
if [ ! -d $R ]; then /verif/tools/mkcopy.sh $R >/dev/null; fi
rsync -a --exclude .git --exclude work --exclude replays --exclude repo --exclude .verif_repo --exclude harness/Cargo.toml --exclude harness/target --exclude lean/.lake /verif/ $R/
git -C $R/repo checkout -q --detach $(git -C /repo rev-parse HEAD) 2>/dev/null
for N in 1 2 3; do
  [ -f $S/mutation_$N.diff ] || continue
  M=$((N+OFF)); D=/verif/seeded/${ID}_$M; mkdir -p $D
  cp $S/README.md $D/README.md 2>/dev/null
  cp $S/mutation_$N.diff $D/patch.diff; cp $S/demo_$N.rs $D/demo.rs
  # --- 1. confirm in the seed worktree
  cd $W && git checkout -q -- . && git clean -fdq tests/ 2>/dev/null
  mkdir -p tests && cp $S/demo_$N.rs tests/seed_demo_$N.rs
  clean=$(CARGO_NET_OFFLINE=true timeout 900 cargo test --offline --test seed_demo_$N 2>&1 | grep -E "^test result" | head -1)
  if git apply $S/mutation_$N.diff 2>/dev/null; then applied=yes; else applied=no; fi
  mutated=$(CARGO_NET_OFFLINE=true timeout 900 cargo test --offline --test seed_demo_$N 2>&1 | grep -a -E "^test result|error: could not compile|timed out|signal: 6, SIGABRT" | head -1)
  base=$(python3 /verif/tools/baseline.py $W 2>&1 | head -1)
  git checkout -q -- . ; rm -f tests/seed_demo_$N.rs
  # --- 2. run the checks against the change
  res=""
  if (cd $R/repo && git apply $D/patch.diff 2>/dev/null); then
    for c in $CHECKS; do
      out=$(cd $R && ./check $c quick 2>&1)
      line=$(echo "$out" | grep -E "^VIOLATION" | head -1)
      first=$(echo "$out" | head -1)
      res="$res$c: ${line:-no VIOLATION} || $first
"
      [ -n "$line" ] && cp $(echo "$line" | sed -E 's/.*replay=([^ ]+).*/\1/') $D/replay_$c.json 2>/dev/null
    done
    (cd $R/repo && git checkout -q -- .)
  else res="patch does not apply to /repo HEAD"; fi
  python3 - "$D" "$ID" "$M" "$applied" "$clean" "$mutated" "$base" "$res" <<'PY'
import json,sys
d,pid,n,applied,clean,mut,base,res=sys.argv[1:9]
json.dump({'property':pid,'mutation':int(n),'patch_applies':applied,'demo_on_clean_tree':clean,'demo_with_change':mut,
 'baseline_with_change':base,'checks':res.strip().split('\n'),
 'ran':['cargo test --offline --test seed_demo_N (clean, then with patch) in a scratch worktree','tools/baseline.py <worktree> with patch',
        './check <ID> quick in a private copy of /verif wired to a worktree with the patch applied']},open(d+'/meta.json','w'),indent=1)
print(pid,n,'| clean:',clean,'| mutated:',mut,'|',base,'|',res.strip().replace('\n',' ;; ')[:400])
PY
done
