#!/usr/bin/env python3
"""usage: tools/kfmerge.py <copy dir> <PID> [sed-map old=new ...] — take the known_findings.txt lines of property PID from an agent's
private copy (replacing /verif's lines of that property in place; commit shas rewritten by the old=new pairs)."""
import sys,re
copy,pid=sys.argv[1:3]
maps=[a.split('=') for a in sys.argv[3:]]
pat=re.compile(r'^(finding|fixed): property=%s\s'%pid)
new=[l for l in open(copy+'/known_findings.txt',encoding='utf-8') if pat.match(l)]
for o,n in maps: new=[l.replace(o,n) for l in new]
old=open('/verif/known_findings.txt',encoding='utf-8').read().split('\n')
out=[];done=False
for l in old:
    if pat.match(l):
        if not done: out.extend(x.rstrip('\n') for x in new); done=True
    else: out.append(l)
if not done: out=[x for x in out if x!='' or True]; out.extend(x.rstrip('\n') for x in new)
open('/verif/known_findings.txt','w',encoding='utf-8').write('\n'.join(out))
print(pid,'lines:',len(new))
