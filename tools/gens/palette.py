"""Gen/Palette.lean: constants of the palette code (src/palette_handling.rs, src/formats/artworx.rs): EGA slot table and
EGA base palette, the shifts of the 6-bit codec, the literal text of every export template, the magic lines / comment
characters / regex literals of the importers.  The regex *sources* are emitted too and compared with the patterns the
hand-written matchers of Model/Palette.lean implement; a changed pattern is an ExtractError, not a silent mismatch."""
import re, json
from extract import src, nums, lean_list, HEADER, ExtractError

# pattern text the hand-written matchers implement (after the `fix:` commits)
EXPECTED_REGEX = {
    'HEX_REGEX': r'([0-9a-fA-F]{2})([0-9a-fA-F]{2})([0-9a-fA-F]{2})',
    'PAL_REGEX': r'(\d+)\s+(\d+)\s+(\d+)',
    'GPL_COLOR_REGEX': r'(\d+)\s+(\d+)\s+(\d+)\s*(.*)',
    'TXT_COLOR_REGEX': r'([0-9a-fA-F]{2})([0-9a-fA-F]{2})([0-9a-fA-F]{2})([0-9a-fA-F]{2})',
    'ICE_COLOR_REGEX': r'([0-9a-fA-F]{2})([0-9a-fA-F]{2})([0-9a-fA-F]{2})',
}
# metadata regexes: `\s*<literal>\s*(.*)\s*`; the literal goes into the model
META_REGEX = ['GPL_NAME_REGEX', 'GPL_DESCRIPTION_REGEX', 'TXT_NAME_REGEX', 'TXT_DESCRIPTION_REGEX', 'ICE_PALETTE_NAME_REGEX',
              'ICE_AUTHOR_REGEX', 'ICE_DESCRIPTION_REGEX', 'ICE_COLOR_NAME_REGEX']

# placeholder kinds expected in each export template, in order of appearance per format arm
EXPECTED_TEMPLATES = {
    'Hex': [['x02', 'x02', 'x02']],
    'Pal': [[], [], ['d'], ['d', 'd', 'd']],
    'Gpl': [[], ['d'], ['d'], ['d'], ['d'], ['w3', 'w3', 'w3', 'd']],
    'Ice': [[], ['d'], ['d'], ['d'], ['d'], ['d'], ['x02', 'x02', 'x02']],
    'Txt': [[], ['d'], ['d'], ['d'], ['d'], ['x02', 'x02', 'x02']],
}
TEMPLATE_NAMES = {
    'Hex': ['hexColor'],
    'Pal': ['palMagic', 'palVersion', 'palCount', 'palColor'],
    'Gpl': ['gplMagic', 'gplName', 'gplAuthor', 'gplDescription', 'gplCount', 'gplColor'],
    'Ice': ['iceMagic', 'iceName', 'iceAuthor', 'iceDescription', 'iceCount', 'iceColorName', 'iceColor'],
    'Txt': ['txtMagic', 'txtName', 'txtAuthor', 'txtDescription', 'txtCount', 'txtColor'],
}


def unescape(lit):
    """Rust string literal body -> text"""
    out, i = [], 0
    while i < len(lit):
        c = lit[i]
        if c == '\\':
            n = lit[i + 1]
            if n == 'n':
                out.append('\n')
            elif n == 'r':
                out.append('\r')
            elif n == 't':
                out.append('\t')
            elif n in '\\"\'':
                out.append(n)
            elif n == '0':
                out.append('\0')
            else:
                raise ExtractError(f'unsupported escape \\{n} in string literal')
            i += 2
        else:
            out.append(c)
            i += 1
    return ''.join(out)


def split_template(t):
    """format string -> (literal segments, placeholder kinds); `{{`/`}}` are not used by this file"""
    segs, kinds, cur, i = [], [], '', 0
    while i < len(t):
        if t[i] == '{':
            j = t.index('}', i)
            spec = t[i + 1:j]
            if spec == '' or re.fullmatch(r'[a-z_]+', spec):
                kinds.append('d')
            elif spec == ':02x':
                kinds.append('x02')
            elif spec == ':3':
                kinds.append('w3')
            else:
                raise ExtractError(f'placeholder {{{spec}}} not understood')
            segs.append(cur)
            cur = ''
            i = j + 1
        else:
            cur += t[i]
            i += 1
    segs.append(cur)
    return segs, kinds


def cps(s):
    return '[' + ', '.join(str(ord(c)) for c in s) + ']'


def gen_palette():
    out = [HEADER, 'namespace IcyVerif.Gen.Palette\n']
    ph = src('src/palette_handling.rs')
    aw = src('src/formats/artworx.rs')
    # ---- EGA
    m = re.search(r'static EGA_COLOR_OFFSETS: \[usize; (\d+)\] = \[(.*?)\];', aw, re.S)
    if not m:
        raise ExtractError('EGA_COLOR_OFFSETS not found')
    offs = nums(m.group(2))
    if len(offs) != int(m.group(1)):
        raise ExtractError('EGA_COLOR_OFFSETS length')
    out.append(lean_list('egaOffsets', offs))
    m = re.search(r'pub const EGA_PALETTE: \[Color; (\d+)\] = \[(.*?)\n\];', ph, re.S)
    if not m:
        raise ExtractError('EGA_PALETTE not found')
    cols = re.findall(r'Color \{\s*name: None,\s*r: (\w+),\s*g: (\w+),\s*b: (\w+),\s*\}', m.group(2))
    if len(cols) != int(m.group(1)):
        raise ExtractError(f'EGA_PALETTE: declared {m.group(1)}, parsed {len(cols)}')
    flat = []
    for c in cols:
        flat += [int(x, 0) for x in c]
    out.append(lean_list('egaPaletteFlat', flat))
    fe = re.search(r'pub fn from_ega_data\(pal: &\[u8\]\) -> Palette \{(.*?)\n\}', aw, re.S)
    te = re.search(r'pub fn to_ega_data\(palette: &Palette\) -> Vec<u8> \{(.*?)\n\}', aw, re.S)
    if not fe or not te:
        raise ExtractError('from_ega_data / to_ega_data not found')
    m = re.search(r'Color::new\(r << (\d+) \| r >> (\d+), g << (\d+) \| g >> (\d+), b << (\d+) \| b >> (\d+)\)', fe.group(1))
    m2 = re.search(r'res\.push\(r >> (\d+)\);\s*res\.push\(g >> (\d+)\);\s*res\.push\(b >> (\d+)\);', te.group(1))
    m3 = re.search(r'for i in 0\.\.(\d+) \{', te.group(1))
    if not (m and m2 and m3):
        raise ExtractError('EGA codec skeleton changed')
    out.append('def egaUp : List (Nat × Nat) := [' + ', '.join(f'({m.group(2 * k + 1)}, {m.group(2 * k + 2)})' for k in range(3)) + ']\n')
    out.append('def egaDown : List Nat := [' + ', '.join(m2.group(k) for k in (1, 2, 3)) + ']\n')
    out.append(f'def egaCount : Nat := {m3.group(1)}\n')
    # ---- 6-bit
    f63 = re.search(r'pub fn from_63\(pal: &\[u8\]\) -> Self \{(.*?)\n    \}', ph, re.S)
    a63 = re.search(r'pub fn as_vec_63\(&self\) -> Vec<u8> \{(.*?)\n    \}', ph, re.S)
    if not f63 or not a63:
        raise ExtractError('from_63 / as_vec_63 not found')
    m = re.search(r'r: r << (\d+) \| r >> (\d+),\s*g: g << (\d+) \| g >> (\d+),\s*b: b << (\d+) \| b >> (\d+),', f63.group(1))
    m2 = re.search(r'res\.push\(col\.r >> (\d+)\);\s*res\.push\(col\.g >> (\d+)\);\s*res\.push\(col\.b >> (\d+)\);', a63.group(1))
    if not (m and m2):
        raise ExtractError('6-bit codec skeleton changed')
    out.append('def sixUp : List (Nat × Nat) := [' + ', '.join(f'({m.group(2 * k + 1)}, {m.group(2 * k + 2)})' for k in range(3)) + ']\n')
    out.append('def sixDown : List Nat := [' + ', '.join(m2.group(k) for k in (1, 2, 3)) + ']\n')
    # ---- export templates
    a = ph.find('fn export_lines(')
    if a < 0:
        a = ph.find('pub fn export_palette(')
    b = ph.find('/// Create a new empty palette', a)
    if a < 0 or b < 0:
        raise ExtractError('export function not found')
    body = ph[a:b]
    arms = re.split(r'PaletteFormat::(\w+) => ', body)
    seen = {}
    for k in range(1, len(arms) - 1, 2):
        seen[arms[k]] = arms[k + 1]
    for fmt, kinds_expected in EXPECTED_TEMPLATES.items():
        if fmt not in seen:
            raise ExtractError(f'export arm {fmt} not found')
        lits = [unescape(x) for x in re.findall(r'"((?:[^"\\]|\\.)*)"', seen[fmt])]
        if len(lits) != len(kinds_expected):
            raise ExtractError(f'export arm {fmt}: {len(lits)} string literals, expected {len(kinds_expected)}: {lits}')
        for name, lit, ke in zip(TEMPLATE_NAMES[fmt], lits, kinds_expected):
            segs, kinds = split_template(lit)
            if kinds != ke:
                raise ExtractError(f'export template {name} = {lit!r}: placeholders {kinds}, expected {ke}')
            out.append(f'/-- `{json.dumps(lit)[1:-1]}` -/\ndef {name}Segs : List (List Nat) := [' + ', '.join(cps(s) for s in segs) + ']\n')
    # line-break flattening of metadata in export_palette (absent on the pinned tree -> empty list = nothing replaced)
    m = re.search(r"let one_line = \|s: &str\| s\.replace\(\[((?:'(?:\\.|[^'])',? ?)+)\], \"((?:[^\"\\]|\\.)*)\"\);", ph)
    if m:
        frm = [unescape(x) for x in re.findall(r"'((?:\\.|[^'])+)'", m.group(1))]
        out.append('def oneLineFrom : List Nat := [' + ', '.join(str(ord(c)) for c in frm) + ']\n')
        out.append(f'def oneLineTo : List Nat := {cps(unescape(m.group(2)))}\n')
        wrapper = ph[ph.find('pub fn export_palette('):a]
        for need in ['one_line(&self.title)', 'one_line(&self.author)', 'one_line(&self.description)', 'c.name.as_deref().map(one_line)']:
            if need not in wrapper:
                raise ExtractError(f'export_palette no longer applies {need}')
    else:
        out.append('def oneLineFrom : List Nat := []\ndef oneLineTo : List Nat := []\n')
    # ---- importers
    regs = dict(re.findall(r'static ref (\w+): Regex = Regex::new\(r"(.*?)"\)\.unwrap\(\);', ph))
    for name, pat in EXPECTED_REGEX.items():
        if regs.get(name) != pat:
            raise ExtractError(f'{name} is {regs.get(name)!r}; the hand-written matcher implements {pat!r}')
        out.append(f'def re_{name} : String := {json.dumps(pat)}\n')
    for name in META_REGEX:
        pat = regs.get(name)
        m = re.fullmatch(r'\\s\*([^\\()\[\]*+?.|{}^$]+)\\s\*\(\.\*\)\\s\*', pat or '')
        if not m:
            raise ExtractError(f'{name} is {pat!r}; expected \\s*<literal>\\s*(.*)\\s*')
        lname = 'lit' + ''.join(p.capitalize() for p in name[:-6].lower().split('_'))
        out.append(f'/-- literal of `{name}` -/\ndef {lname} : List Nat := {cps(m.group(1))}\n')
    load = ph[ph.find('pub fn load_palette('):ph.find('pub fn import_palette(')]
    larms = re.split(r'PaletteFormat::(\w+) => ', load)
    lseen = {larms[k]: larms[k + 1] for k in range(1, len(larms) - 1, 2)}
    for fmt, nm in [('Pal', 'pal'), ('Gpl', 'gpl'), ('Ice', 'ice')]:
        m = re.search(r'0 => \{\s*if line != "((?:[^"\\]|\\.)*)" \{', lseen.get(fmt, ''))
        if not m:
            raise ExtractError(f'magic line check of {fmt} not found')
        out.append(f'def {nm}MagicLine : List Nat := {cps(unescape(m.group(1)))}\n')
    m = re.search(r'\n\s*(\d+(?: \| \d+)*) => \{\s*// Ignore', lseen.get('Pal', ''))
    if not m:
        raise ExtractError('ignored header lines of Pal not found')
    out.append('def palIgnoredLines : List Nat := [' + ', '.join(x.strip() for x in m.group(1).split('|')) + ']\n')
    for fmt, nm in [('Gpl', 'gpl'), ('Ice', 'ice'), ('Txt', 'txt')]:
        m = re.search(r"if line\.starts_with\('(.)'\)", lseen.get(fmt, ''))
        if not m:
            raise ExtractError(f'comment test of {fmt} not found')
        out.append(f'def {nm}Comment : Nat := {ord(m.group(1))}\n')
    if 'for line in data.lines()' not in lseen.get('Txt', '') or lseen.get('Txt', '').find('enumerate') >= 0:
        raise ExtractError('Txt importer: expected a plain `for line in data.lines()` loop')
    # ---- import_palette: extension -> format
    imp = ph[ph.find('pub fn import_palette('):ph.find('pub fn export_palette(')]
    arms_i = re.findall(r'"(\w+)" => Palette::load_palette\(&PaletteFormat::(\w+), bytes\),', imp)
    fmt_num = {'Hex': 0, 'Pal': 1, 'Gpl': 2, 'Ice': 3, 'Txt': 4}
    if not arms_i or any(f not in fmt_num for _, f in arms_i) or 'ext.to_ascii_lowercase()' not in imp \
            or not re.search(r'_ => Err\(anyhow::anyhow!\("Unsupported file extension', imp):
        raise ExtractError('import_palette: extension dispatch not understood')
    out.append('/-- `import_palette`: (lower-case extension, format: 0 Hex, 1 Pal, 2 Gpl, 3 Ice, 4 Txt) -/\n')
    out.append('def importExts : List (List Nat × Nat) := [' + ', '.join(f'({cps(e)}, {fmt_num[f]})' for e, f in arms_i) + ']\n')
    out.append('end IcyVerif.Gen.Palette\n')
    return 'Palette.lean', ''.join(out)


GENERATORS = {'palette': gen_palette}
