"""C11, Unicode layer of SauceString (Model/SauceUni.lean): pins the text of `SauceString::from` and of `Display::fmt`
(`to_string`) and checks that the table they use is `ascii::CP437_TO_UNICODE` — the table `gens/codec.py` regenerates as
Gen/Codec.lean: cp437.  Emits Gen/SauceUni.lean with the substitution byte."""
import re
from extract import src, HEADER, ExtractError


def squash(t):
    t = re.sub(r'//[^\n]*', '', t)
    t = re.sub(r'#\[allow\([^\]]*\)\]', '', t)
    return re.sub(r'\s+', ' ', t).strip()


def fn_body(text, sig):
    a = text.find(sig)
    if a < 0:
        raise ExtractError(f'{sig!r} not found')
    i = text.index('{', a)
    depth, j = 0, i
    while j < len(text):
        if text[j] == '{':
            depth += 1
        elif text[j] == '}':
            depth -= 1
            if depth == 0:
                return text[a:j + 1]
        j += 1
    raise ExtractError(f'{sig!r}: unbalanced braces')


EXPECTED_FROM = '''
pub fn from(str: impl Into<String>) -> Self {
    let mut data = Vec::new();
    for ch in str.into().chars() {
        if data.len() >= LEN {
            break;
        }
        let mut found = false;
        for i in 0..CP437_TO_UNICODE.len() {
            if ch == CP437_TO_UNICODE[i] {
                data.push(i as u8);
                found = true;
                break;
            }
        }
        if !found {
            data.push(b'?');
        }
    }
    SauceString(data)
}'''

EXPECTED_FMT = '''
fn fmt(&self, f: &mut std::fmt::Formatter<'_>) -> std::fmt::Result {
    let mut str = String::new();
    let len = self.len();
    for i in 0..len {
        let b = self.0[i];
        str.push(CP437_TO_UNICODE[b as usize]);
    }
    write!(f, "{str}")
}'''


def gen_sauceuni():
    s = src('src/sauce_mod/mod.rs')
    if not re.search(r'use crate::\{ascii::CP437_TO_UNICODE,', s):
        raise ExtractError('sauce_mod no longer takes CP437_TO_UNICODE from crate::ascii')
    if 'pub use ascii' not in src('src/parsers/mod.rs') and 'pub mod ascii' not in src('src/parsers/mod.rs'):
        raise ExtractError('parsers::ascii not found')
    if squash(fn_body(s, 'pub fn from(str: impl Into<String>) -> Self')) != squash(EXPECTED_FROM):
        raise ExtractError('SauceString::from is no longer the text Model/SauceUni.lean follows')
    disp = s[s.index('std::fmt::Display for SauceString<LEN, EMPTY>'):]
    if squash(fn_body(disp, 'fn fmt(&self')) != squash(EXPECTED_FMT):
        raise ExtractError('SauceString Display::fmt (to_string) is no longer the text Model/SauceUni.lean follows')
    out = [HEADER, 'namespace IcyVerif.Gen.SauceUni\n', f"def substitute : Nat := {ord('?')}\n", 'end IcyVerif.Gen.SauceUni\n']
    return 'SauceUni.lean', ''.join(out)


GENERATORS = {'sauceuni': gen_sauceuni}
