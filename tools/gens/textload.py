"""Gen/TextLoad.lean: what the text-format loaders (ans/ice/diz, pcb, avt, asc, msg, an1-9, seq, ata and the ANSI
fallback for unknown extensions) contribute to `Model/TermFile.lean` / `Model/TextLoad.lean`:

* the row bound of a file buffer (`MAX_FILE_BUFFER_HEIGHT`, `limit_caret_pos` non-terminal branch, `Caret::lf`) as
  a constant plus VARIANT FLAGS (`limitRowClamped`, `lfClamped`) — the no-overflow theorems are proved from the
  flags being `true` and from the constant being small, so a tree without the clamps breaks the obligation;
* per loader module: initial buffer size, parser, whether it runs `parse_with_parser` (row table cleared, errors
  skipped, sixel join, `crop_loaded_file`) or its own byte loop (seq, atascii), `bs_is_ctrl_char`;
* the shape of `convert_ansi_to_utf8` (BOM test) and of `parse_with_parser` / `crop_loaded_file`;
* an inventory of the plain `+ 1` / `- 1` / `*` sites on cursor rows in the functions a file load reaches
  (`y + 1` overflow candidates), each of which the model must account for (`Model/TermFile.lean: rowArithSites`).

The translator REFUSES to run when a pattern the model transcribes has changed shape."""
import re
from extract import src, HEADER, ExtractError


def _need(cond, msg):
    if not cond:
        raise ExtractError('textload: ' + msg)


def _fn(s, header_re, what):
    """text of a fn item starting at header_re (brace matching)"""
    m = re.search(header_re, s)
    _need(m, f'{what} not found')
    i = s.index('{', m.end() - 1) if s[m.end() - 1] != '{' else m.end() - 1
    depth, j = 0, i
    while j < len(s):
        if s[j] == '{':
            depth += 1
        elif s[j] == '}':
            depth -= 1
            if depth == 0:
                return s[m.start():j + 1]
        j += 1
    raise ExtractError(f'textload: {what}: unbalanced braces')


def _int_expr(e):
    e = e.strip()
    table = {'u16::MAX as i32': 65535, 'i32::MAX': 2147483647, 'u16::MAX': 65535, 'i16::MAX as i32': 32767}
    if e in table:
        return table[e]
    e2 = e.replace('_', '')
    _need(re.fullmatch(r'\d+|\d+ *<< *\d+', e2) is not None, f'constant expression not understood: {e}')
    if '<<' in e2:
        a, b = e2.split('<<')
        return int(a) << int(b)
    return int(e2)


# (module, struct of the parser) the model knows; `None` for the loaders with their own loop
PARSERS = {'ansi': 'ansi', 'pcboard': 'pcboard', 'avatar': 'avatar', 'ascii': 'ascii', 'ctrla': 'ctrla', 'renegade': 'renegade',
           'seq': 'petscii', 'atascii': 'atascii'}


def gen_textload():
    out = [HEADER, 'namespace IcyVerif.Gen.TextLoad\n']

    def d(name, val, ty='Nat'):
        out.append(f'def {name} : {ty} := {val}\n')

    def flag(name, val):
        d(name, 'true' if val else 'false', 'Bool')

    # ---------------------------------------------------------------- row bound of a file buffer
    ts = src('src/terminal_state.rs')
    lim = _fn(ts, r'pub fn limit_caret_pos\(&self, buf: &Buffer, caret: &mut Caret\) \{', 'limit_caret_pos')
    m = re.search(r'if buf\.is_terminal_buffer \{(.*?)\} else \{(.*?)\}\s*caret\.pos\.x = caret\.pos\.x\.clamp\(0, \(self\.get_width\(\) - 1\)\.max\(0\)\);', lim, re.S)
    _need(m, 'limit_caret_pos: UpperLeftCorner branch not recognised')
    nonterm = re.sub(r'//[^\n]*', '', m.group(2)).strip()
    cm = re.fullmatch(r'caret\.pos\.y = caret\.pos\.y\.clamp\(0, (\w+) - 1\);', nonterm)
    if cm:
        cname = cm.group(1)
        k = re.search(r'pub const ' + cname + r': i32 = ([^;]+);', ts)
        _need(k, f'constant {cname} not found in terminal_state.rs')
        d('maxFileRows', _int_expr(k.group(1)), 'Int')
        flag('limitRowClamped', True)
    else:
        _need(nonterm == 'caret.pos.y = caret.pos.y.max(0);', f'limit_caret_pos: non-terminal branch not recognised: {nonterm}')
        d('maxFileRows', 2147483648, 'Int')     # `.max(0)` only: any i32 row
        flag('limitRowClamped', False)
    _need('crate::OriginMode::WithinMargins' in lim, 'limit_caret_pos: origin mode arms changed')

    pm = src('src/parsers/mod.rs')
    lf = _fn(pm, r'pub fn lf\(&mut self, buf: &mut Buffer, current_layer: usize\) \{', 'Caret::lf')
    lf_nc = re.sub(r'//[^\n]*', '', lf)
    head = re.search(r'self\.pos\.x = 0;\s*self\.pos\.y \+= 1;\s*(if !buf\.is_terminal_buffer \{\s*buf\.terminal_state\.limit_caret_pos\(buf, self\);\s*\}\s*)?while self\.pos\.y >= buf\.layers\[current_layer\]\.lines\.len\(\) as i32 \{', lf_nc)
    _need(head, 'Caret::lf: head (x = 0; y += 1; [clamp]; while y >= lines.len()) not recognised')
    flag('lfClamped', head.group(1) is not None)
    _need(re.search(r'lines\.insert\(len, Line::with_capacity\(buffer_width\)\);\s*\}\s*if !buf\.is_terminal_buffer \{\s*return;\s*\}', lf_nc),
          'Caret::lf: row growth / early return for file buffers not recognised')

    # ---------------------------------------------------------------- print_char on a file buffer
    pc = _fn(pm, r'pub fn print_char\(&mut self, layer: usize, caret: &mut Caret, ch: AttributedChar\) \{', 'Buffer::print_char')
    for pat, what in [
        (r'let buffer_width = self\.layers\[layer\]\.get_width\(\);', 'buffer_width = layer width'),
        (r'if layer\.lines\.len\(\) < caret\.pos\.y as usize \+ 1 \{\s*layer\.lines\.resize\(caret\.pos\.y as usize \+ 1, Line::with_capacity\(buffer_width\)\);', 'insert-mode row growth'),
        (r'layer\.lines\[caret\.pos\.y as usize\]\.insert_char\(caret\.pos\.x, AttributedChar::default\(\)\);', 'insert-mode insert_char'),
        (r'if caret\.pos\.y \+ 1 > self\.layers\[layer\]\.get_height\(\) \{\s*self\.layers\[layer\]\.set_height\(caret\.pos\.y \+ 1\);', 'layer height growth'),
        (r'if self\.is_terminal_buffer && caret\.pos\.y \+ 1 > self\.get_height\(\) \{', 'buffer height growth only for terminals'),
        (r'self\.layers\[layer\]\.set_char\(caret\.pos, ch\);\s*caret\.pos\.x \+= 1;', 'set_char + x += 1'),
        (r'>= if self\.is_terminal_buffer \{\s*self\.terminal_state\.get_width\(\)\s*\} else \{\s*buffer_width\s*\}', 'wrap column'),
        (r'if let crate::AutoWrapMode::AutoWrap = self\.terminal_state\.auto_wrap_mode \{\s*caret\.lf\(self, layer\);\s*\} else \{\s*caret\.pos\.x -= 1;', 'autowrap'),
    ]:
        _need(re.search(pat, pc), f'Buffer::print_char: {what} not recognised')

    # getters that differ for file buffers
    bs = src('src/buffers.rs')
    fvl = _fn(bs, r'pub fn get_first_visible_line\(&self\) -> i32 \{', 'get_first_visible_line')
    _need(re.search(r'if self\.is_terminal_buffer \{.*?\} else \{\s*0\s*\}', fvl, re.S), 'get_first_visible_line: file buffers no longer start at row 0')
    lel = _fn(bs, r'pub fn get_last_editable_line\(&self\) -> i32 \{', 'get_last_editable_line')
    _need('max(self.layers[0].lines.len() as i32, self.get_height().saturating_sub(1))' in lel, 'get_last_editable_line: file-buffer arm changed')
    ns = _fn(bs, r'pub fn needs_scrolling\(&self\) -> bool \{', 'needs_scrolling')
    _need('self.is_terminal_buffer && self.terminal_state.get_margins_top_bottom().is_some()' in ns, 'needs_scrolling changed')
    for g in ['get_first_editable_line', 'get_first_editable_column', 'get_last_editable_column']:
        f = _fn(bs, r'pub fn ' + g + r'\(&self\) -> i32 \{', g)
        _need('if self.is_terminal_buffer {' in f, f'{g}: margins are no longer ignored on file buffers')
    _need('self.get_width().saturating_sub(1)' in _fn(bs, r'pub fn get_last_editable_column\(&self\) -> i32 \{', 'x'), 'get_last_editable_column changed')
    glc = _fn(bs, r'fn get_line_count\(&self\) -> i32 \{', 'Buffer::get_line_count')
    _need('self.layers.iter().map(|l| l.lines.len()).max()' in glc, 'Buffer::get_line_count is no longer the maximum over the layers')
    ff = _fn(pm, r'pub fn ff\(&mut self, buf: &mut Buffer, current_layer: usize\) \{', 'Caret::ff')
    _need(re.search(r'buf\.reset_terminal\(\);\s*buf\.layers\[current_layer\]\.clear\(\);\s*buf\.stop_sixel_threads\(\);\s*if buf\.is_terminal_buffer \{', re.sub(r'//[^\n]*', '', ff)),
          'Caret::ff changed')
    cs = _fn(pm, r'pub fn clear_screen\(&mut self, layer: usize, caret: &mut Caret\) \{', 'clear_screen')
    _need(re.search(r'caret\.pos = Position::default\(\);.*?layer\.clear\(\);\s*self\.stop_sixel_threads\(\);\s*if self\.is_terminal_buffer \{', cs, re.S), 'clear_screen changed')

    # ---------------------------------------------------------------- parse_with_parser / crop_loaded_file / convert_ansi_to_utf8
    fm = src('src/formats/mod.rs')
    pw = _fn(fm, r'pub fn parse_with_parser\(result: &mut Buffer, interpreter: &mut dyn BufferParser, text: &str, skip_errors: bool\) -> EngineResult<\(\)> \{', 'parse_with_parser')
    _need(re.search(r'result\.layers\[0\]\.lines\.clear\(\);\s*let mut caret = Caret::default\(\);', pw), 'parse_with_parser: start changed')
    _need(re.search(r'for ch in text\.chars\(\) \{\s*let res = interpreter\.print_char\(result, 0, &mut caret, ch\);\s*if !skip_errors && res\.is_err\(\) \{\s*res\?;\s*\}\s*\}', pw),
          'parse_with_parser: character loop changed')
    _need(re.search(r'while !result\.sixel_threads\.is_empty\(\) \{\s*thread::sleep\(Duration::from_millis\(\d+\)\);\s*result\.update_sixel_threads\(\)\?;\s*\}', pw),
          'parse_with_parser: sixel join loop changed')
    _need(re.search(r'crop_loaded_file\(result\);\s*for y in 0\.\.result\.get_height\(\) \{', pw), 'parse_with_parser: crop / bold pass changed')
    _need('let mut layer = Layer::new(' in pw and 'result.layers.push(layer);' in pw, 'parse_with_parser: sixel layers changed')
    cr = _fn(fm, r'pub\(crate\) fn crop_loaded_file\(result: &mut Buffer\) \{', 'crop_loaded_file')
    cm2 = re.search(r'while result\.layers\[0\]\.lines\.len\(\) > (\d+) && result\.layers\[0\]\.lines\.last\(\)\.unwrap\(\)\.chars\.is_empty\(\) \{\s*result\.layers\[0\]\.lines\.pop\(\);\s*\}\s*'
                    r'let height = result\.get_line_count\(\);\s*result\.layers\[0\]\.set_height\(height\);\s*result\.set_height\(height\);', cr)
    _need(cm2, 'crop_loaded_file changed')
    d('cropKeepRows', int(cm2.group(1)))
    cv = _fn(fm, r'pub fn convert_ansi_to_utf8\(data: &\[u8\]\) -> \(String, bool\) \{', 'convert_ansi_to_utf8')
    bm = re.search(r'if data\.starts_with\(&\[((?:0x[0-9A-Fa-f]{2},? ?)+)\]\) \{\s*if let Ok\(result\) = String::from_utf8\(data\.to_vec\(\)\) \{\s*return \(result, true\);', cv)
    _need(bm, 'convert_ansi_to_utf8: BOM test not recognised (a repaired test needs a new variant in Model/TextLoad.lean)')
    out.append('/-- the byte prefix that makes `convert_ansi_to_utf8` try `String::from_utf8` on the whole data -/\n')
    out.append('def bomPrefix : List Nat := [' + ', '.join(str(int(x, 16)) for x in re.findall(r'0x([0-9A-Fa-f]{2})', bm.group(1))) + ']\n')
    _need(re.search(r'for ch in data \{\s*let ch = \*ch as char;\s*result\.push\(ch\);', cv), 'convert_ansi_to_utf8: byte-to-char fallback changed')
    flag('bomIsStripped', False)   # the BOM character itself is fed to the parser (U+FEFF)

    # ---------------------------------------------------------------- the loaders
    rows = []
    for mod, parser in PARSERS.items():
        s = src(f'src/formats/{mod}.rs')
        lb = _fn(s, r'fn load_buffer\(&self, file_name: &Path, data: &\[u8\], sauce_opt: Option<crate::SauceData>\) -> [\w:<>.]+ \{', f'{mod}: load_buffer')
        m = re.search(r'Buffer::new\(\((\d+), (\d+)\)\)', lb)
        _need(m, f'{mod}: Buffer::new size not found')
        w, h = int(m.group(1)), int(m.group(2))
        _need('result.is_terminal_buffer = false;' in lb, f'{mod}: is_terminal_buffer = false not found')
        _need('result.set_sauce(sauce_opt, true);' in lb, f'{mod}: set_sauce(sauce_opt, true) not found')
        uses_pwp = 'parse_with_parser(' in lb
        if uses_pwp:
            _need(re.search(r'parse_with_parser\(&mut result, &mut (?:parser|parsers::' + parser + r'::Parser::default\(\)), &text, true\)\?;', lb),
                  f'{mod}: parse_with_parser call (skip_errors = true) not recognised')
            _need('let (text, is_unicode) = crate::convert_ansi_to_utf8(data);' in lb, f'{mod}: convert_ansi_to_utf8 not used')
            if mod == 'ansi':
                _need(re.search(r'let mut parser = parsers::ansi::Parser::default\(\);\s*parser\.bs_is_ctrl_char = false;', lb), 'ansi: parser setup changed')
        else:
            _need(re.search(r'let mut p = ' + parser + r'::Parser::default\(\);', lb), f'{mod}: parser construction not recognised')
            _need(re.search(r'for ch in data \{\s*let _ = p\.print_char\(&mut result, 0, &mut caret, \*ch as char\);\s*\}\s*Ok\(result\)', lb),
                  f'{mod}: byte loop not recognised')
            _need('lines.clear()' not in lb, f'{mod}: row table is now cleared')
        prefill = bool(re.search(r'for y in 0\.\.result\.get_height\(\) \{\s*for x in 0\.\.result\.get_width\(\) \{.*?result\.layers\[0\]\.set_char\(\(x, y\), ch\);', lb, re.S))
        rows.append((mod, parser, w, h, uses_pwp, prefill))
    out.append('/-- (loader module, parser, initial width, initial height, runs parse_with_parser, fills the screen before parsing) -/\n')
    out.append('def textLoaders : List (String × String × Nat × Nat × Bool × Bool) := [' +
               ', '.join(f'("{m}", "{p}", {w}, {h}, {"true" if u else "false"}, {"true" if f else "false"})' for m, p, w, h, u, f in rows) + ']\n')
    # wrappers use `ansi::Parser::default()` (music off, bs_is_ctrl_char false)
    ap = src('src/parsers/ansi/mod.rs')
    dflt = _fn(ap, r'impl Default for Parser \{', 'ansi::Parser::default')
    _need('ansi_music: MusicOption::Off' in dflt and 'bs_is_ctrl_char: false' in dflt, 'ansi::Parser::default changed')

    # ---------------------------------------------------------------- row arithmetic sites (plain + / - / * on a cursor row) in code a file load reaches
    sites = []

    def scan(path, text, fname):
        for ln in re.sub(r'//[^\n]*', '', text).split('\n'):
            t = ln.strip()
            if re.search(r'\bpos\.y (\+=|-=) 1\b|\bpos\.y [+\-] 1\b|\bcp\.y - p\.position\.y\) \*', t):
                sites.append((f'{path}::{fname}', t))

    for fname in ['lf', 'index', 'reverse_index', 'next_line', 'check_scrolling_on_caret_down']:
        scan('parsers/mod.rs', _fn(pm, r'(?:pub )?fn ' + fname + r'\(&mut self, buf: &mut Buffer, current_layer: usize(?:, force: bool)?\) \{', fname), fname)
    scan('parsers/mod.rs', pc, 'print_char')
    scan('parsers/ansi/mod.rs', ap, 'print_char')
    scan('parsers/ansi/osc.rs', src('src/parsers/ansi/osc.rs'), 'handle_osc_hyperlinks')
    scan('parsers/avatar/mod.rs', src('src/parsers/avatar/mod.rs'), 'print_char')
    for p in ['pcboard', 'ctrla', 'renegade', 'ascii', 'atascii', 'petscii']:
        scan(f'parsers/{p}/mod.rs', src(f'src/parsers/{p}/mod.rs'), 'print_char')
    out.append('/-- every line with a plain `+ 1` / `- 1` / `*` on a cursor row in the functions a file load reaches: (function, line) -/\n')
    out.append('def rowArithSites : List (String × String) := [\n' + ',\n'.join('  ("' + a + '", "' + b.replace('\\', '\\\\').replace('"', '\\"') + '")' for a, b in sites) + ']\n')
    out.append('end IcyVerif.Gen.TextLoad\n')
    return 'TextLoad.lean', ''.join(out)


GENERATORS = {'textload': gen_textload}
