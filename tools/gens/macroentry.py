"""Gen/MacroEntry.lean: WHERE the bounds of the recursive / repeating parts of the terminal code are enforced, and
through which call paths those parts are reached (C03: "a bound enforced at ONE of several entry points").

* `maxMacroDepth`, `maxMacroExpansion`: the two limits of macro replay as found in src/parsers/ansi/mod.rs.
* `depthGuardInCallee`: the nesting test `if self.macro_depth >= MAX_MACRO_DEPTH { …; return; }` sits in
  `invoke_macro_by_id` ITSELF, in front of `self.macro_depth += 1` and of the replay loop - so that every caller (the
  `CSI Pn * z` handler AND state `ReadPossibleMacroInDCS`) passes it.  Props/C03Macro.lean proves the nesting bound FROM
  this flag (`macro_depth_guard_in_callee`); a test moved into one of the callers makes the flag false.
* `depthUses`: every line of the ANSI parser that mentions `macro_depth` or `macro_budget` (file::fn::text) - a test added,
  moved or dropped anywhere changes the list, and Props/C03Macro.lean lists the ones the model accounts for.
* `entryEdges`: every call site (`callee <- file::fn[state arm]`) of the functions behind which a bounded loop or a
  recursion sits: macro replay (`invoke_macro_by_id`, `invoke_macro`), the recursion edges `print_char -> print_char` of the ANSI
  parser and of the parsers wrapping it, hex macro definitions (`execute_dcs`, `parse_macro`, `parse_hex_macro_sequence`,
  `push_repeated`), the sixel decoder (`Sixel::parse_from`, `parse_sixel_data`) and the DCS string handler.  A new caller
  is a new entry point: it has to be added to the table in Props/C03Macro.lean AND needs a generator family in
  harness/src/c03nest.rs - the translator fails when an edge is not named there (`ENTRY_FAMILIES`)."""
import re, json, os, hashlib
from extract import src, HEADER, ExtractError

ANSI = ['src/parsers/ansi/mod.rs', 'src/parsers/ansi/ansi_commands.rs', 'src/parsers/ansi/dcs.rs', 'src/parsers/ansi/osc.rs']
WRAPPERS = ['src/parsers/avatar/mod.rs', 'src/parsers/pcboard/mod.rs', 'src/parsers/renegade/mod.rs', 'src/parsers/ctrla/mod.rs']
OTHER = ['src/sixel_mod.rs']

# callee name -> regex of a call (definitions `fn name(` are skipped)
CALLEES = [
    ('invoke_macro_by_id', r'\bself\.invoke_macro_by_id\('),
    ('invoke_macro', r'\bself\.invoke_macro\('),
    ('print_char', r'\b(?:self|self\.ansi_parser|self\.ascii_parser)\.print_char\((?=buf, current_layer)'),
    ('execute_dcs', r'\bself\.execute_dcs\('),
    ('parse_macro', r'\bself\.parse_macro\('),
    ('parse_macro_sequence', r'\bself\.parse_macro_sequence\('),
    ('parse_hex_macro_sequence', r'\bself\.parse_hex_macro_sequence\('),
    ('push_repeated', r'(?<!fn )\bpush_repeated\('),
    ('Sixel::parse_from', r'\bSixel::parse_from\('),
    ('parse_sixel_data', r'\bself\.parse_sixel_data\('),
]


def strip_tests(text):
    i = text.find('#[cfg(test)]\nmod tests {')
    return text if i < 0 else text[:i]


def clean(text):
    text = strip_tests(text)
    text = re.sub(r'//[^\n]*', '', text)
    return re.sub(r'"(?:[^"\\\n]|\\.)*"', '""', text)


def fn_body(text, sig):
    a = text.find(sig)
    if a < 0:
        raise ExtractError(f'{sig!r} not found')
    i = text.index('{', a)
    depth, j = 0, i
    while j < len(text):
        if text[j] == '{':
            depth += 1
        elif text[j] == '}':
            depth -= 1
            if depth == 0:
                return text[a:j + 1]
        j += 1
    raise ExtractError(f'{sig!r}: unbalanced braces')


def fid(s):
    return int(hashlib.sha1(s.encode()).hexdigest()[:12], 16)


def gen_macroentry():
    mod = src('src/parsers/ansi/mod.rs')
    md = re.search(r'const MAX_MACRO_DEPTH: usize = (\d+);', mod)
    me = re.search(r'const MAX_MACRO_EXPANSION: usize = 1 << (\d+);', mod)
    if not (md and me):
        raise ExtractError('MAX_MACRO_DEPTH / MAX_MACRO_EXPANSION not found in src/parsers/ansi/mod.rs')
    # --- the callee: order of lookup / nesting test / budget reset / counter / replay loop ---
    body = re.sub(r'\s+', ' ', clean(fn_body(mod, 'fn invoke_macro_by_id(')))
    p_guard = re.search(r'if self\.macro_depth >= MAX_MACRO_DEPTH \{[^{}]*\breturn;\s*\}', body)
    p_inc = body.find('self.macro_depth += 1;')
    p_loop = body.find('for ch in m.chars()')
    p_dec = body.find('self.macro_depth -= 1;')
    p_call = body.find('self.print_char(buf, current_layer, caret, ch)')
    if min(p_inc, p_loop, p_dec, p_call) < 0 or not (p_inc < p_loop < p_call < p_dec):
        raise ExtractError('invoke_macro_by_id: no longer `macro_depth += 1; for ch in m.chars() { … print_char … } macro_depth -= 1` - '
                           'the depth accounting of Model/TermMacroDepth.lean (counter k) follows that shape')
    if not re.search(r'if self\.macro_budget == 0 \{ break; \} self\.macro_budget -= 1;', body[p_loop:p_call]):
        raise ExtractError('invoke_macro_by_id: the replay loop no longer charges the expansion budget per character')
    guard_in_callee = bool(p_guard) and p_guard.start() < p_inc
    # --- every mention of the two counters ---
    uses = []
    edges = []
    for f in ANSI + WRAPPERS + OTHER:
        text = clean(src(f))
        fns = [(m.start(), m.group(1)) for m in re.finditer(r'\bfn\s+([A-Za-z0-9_]+)', text)]
        arms = [(m.start(), m.group(1)) for m in re.finditer(r'^ {12}EngineState::([A-Za-z0-9_]+)', text, re.M)] if f.endswith('ansi/mod.rs') else []

        def where(pos):
            fn = '?'
            for p, n in fns:
                if p < pos:
                    fn = n
            w = f'{f[4:]}::{fn}'
            if fn == 'print_char' and arms:
                a = None
                for p, n in arms:
                    if p < pos:
                        a = n
                if a:
                    w += f'[{a}]'
            return w
        if f in ANSI:
            for m in re.finditer(r'^[^\n]*\bself\.(?:macro_depth|macro_budget)\b[^\n]*$', text, re.M):
                line = re.sub(r'\s+', ' ', m.group(0)).strip()
                uses.append(f'{where(m.start())}::{line}')
        for name, rx in CALLEES:
            for m in re.finditer(rx, text):
                e = f'{name} <- {where(m.start())}'
                k = sum(1 for x in edges if x == e or x.startswith(e + ' #'))
                edges.append(e + (f' #{k + 1}' if k else ''))
    if not any(e.startswith('invoke_macro_by_id <- ') for e in edges):
        raise ExtractError('no call site of invoke_macro_by_id found')
    # --- every entry point has a generator family in the harness ---
    here = os.path.dirname(os.path.abspath(__file__))
    hp = os.path.join(here, '..', '..', 'harness', 'src', 'c03nest.rs')
    try:
        with open(hp, encoding='utf-8') as fh:
            htext = fh.read()
    except OSError:
        raise ExtractError('harness/src/c03nest.rs (generator families per entry point) not found')
    missing = [e for e in edges if json.dumps(e) not in htext]
    if missing:
        raise ExtractError('entry points without a generator family in harness/src/c03nest.rs (ENTRY_FAMILIES): ' + '; '.join(missing))
    out = [HEADER, 'namespace IcyVerif.Gen.MacroEntry\n']
    out.append(f'def maxMacroDepth : Nat := {md.group(1)}\ndef maxMacroExpansion : Nat := {1 << int(me.group(1))}\n')
    out.append('/-- the nesting test of macro replay sits in `invoke_macro_by_id` itself, in front of the counter and the loop -/\n')
    out.append(f'def depthGuardInCallee : Bool := {"true" if guard_in_callee else "false"}\n')
    for nm, items in (('depthUses', uses), ('entryEdges', edges)):
        out.append(f'def {nm} : List String := [\n' + ',\n'.join('  ' + json.dumps(i) for i in items) + '\n]\n')
        out.append(f'def {nm[:-1]}Ids : List Nat := [' + ', '.join(str(fid(i)) for i in items) + ']\n')
    out.append('end IcyVerif.Gen.MacroEntry\n')
    return 'MacroEntry.lean', ''.join(out)


GENERATORS = {'macroentry': gen_macroentry}
