"""Gen/ColorOptSrc.lean: the source text C12's hand-written model was written from, comments stripped and white space
normalised, so that an edit of one of these bodies breaks the obligation `source_skeleton_unchanged` (Props/C12.lean):
`ColorOptimizer::optimize`, `generate_shape_map`, `get_shape`, the two branches of `Buffer::flat_clone`, the two loops of
`Buffer::render_to_rgba`, the optimiser call site in `Buffer::to_bytes`.  The translator itself FAILS when
  * `flat_clone(false)` loses one of the two repaired lines (alpha channel of the flat layer; invisible composited cell
    stored as a default blank on its font page) or starts to copy sixels,
  * the colour optimiser gets a second call site (the model of part (c) knows exactly one: `Buffer::to_bytes`),
  * the FORMATS table changes (the writer oracle of c12.rs iterates over exactly these extensions)."""
import re, json
from extract import src, HEADER, ExtractError


def _strip(text):
    text = re.sub(r'//[^\n]*', '', text)
    return re.sub(r'\s+', ' ', text).strip()


def _method(text, sig_re, what, indent='    '):
    m = re.search(r'\n' + indent + sig_re + r'[^{]*\{\n(.*?)\n' + indent + r'\}\n', text, re.S)
    if not m:
        raise ExtractError(f'{what} not found')
    return m.group(1)


def gen_coloropt():
    buf = src('src/buffers.rs')
    co = src('src/formats/color_optimization.rs')
    fm = src('src/formats/mod.rs')

    # --- flat_clone
    fc = _strip(_method(buf, r'pub fn flat_clone\(&self, deep_layers: bool\) -> Buffer', 'Buffer::flat_clone'))
    m = re.search(r'^(.*?)if deep_layers \{(.*?)\} else \{(.*)\} frame\.clear_font_table\(\);(.*)$', fc)
    if not m:
        raise ExtractError('flat_clone: if deep_layers / else / clear_font_table shape changed')
    head, deep, flat, tail = (x.strip() for x in m.groups())
    if 'frame.layers[0].properties.has_alpha_channel = true;' not in flat:
        raise ExtractError('flat_clone(false): the flat layer no longer gets an alpha channel (C12 repair 1 — a composited '
                           'cell with an unresolved TRANSPARENT_COLOR would be resolved against a default cell again)')
    if not re.search(r'let mut ch = self\.get_char\(\(x, y\)\); if !ch\.is_visible\(\) \{ ch = AttributedChar::default\(\)'
                     r'\.with_font_page\(ch\.get_font_page\(\)\); \} frame\.layers\[0\]\.set_char\(\(x, y\), ch\);', flat):
        raise ExtractError('flat_clone(false): an invisible composited cell is no longer stored as a default blank on its '
                           'font page (C12 repair 2)')
    if 'sixel' in flat.lower() or 'sixel' in tail.lower():
        raise ExtractError('flat_clone(false) mentions sixels: the model says the flat clone has none')

    # --- optimiser
    opt = _strip(_method(co, r'pub fn optimize\(&self, buffer: &Buffer\) -> Buffer', 'ColorOptimizer::optimize'))
    shape_map = _strip(_method(co, r'fn generate_shape_map\(buf: &Buffer\) -> HashMap<usize, HashMap<char, GlyphShape>>',
                               'generate_shape_map', indent=''))
    get_shape = _strip(_method(co, r'fn get_shape\(font: &BitFont, glyph: &Glyph\) -> GlyphShape', 'get_shape', indent=''))

    # --- render_to_rgba: text loop / sixel loop
    rr = _strip(_method(buf, r'pub fn render_to_rgba\(&self, rect: Rectangle\) -> \(Size, Vec<u8>\)', 'Buffer::render_to_rgba'))
    m = re.search(r'^(.*?)(for layer in &self\.layers \{ for sixel in &layer\.sixels \{.*\} \}) \(Size::new\(px_width, px_height\), pixels\)$', rr)
    if not m:
        raise ExtractError('render_to_rgba: text loop / sixel loop / result shape changed')
    text_loop, sixel_loop = m.group(1).strip(), m.group(2).strip()

    # --- the call site
    tb = _strip(_method(buf, r'pub fn to_bytes\(&self, extension: &str, options: &SaveOptions\) -> EngineResult<Vec<u8>>', 'Buffer::to_bytes'))
    sites = 0
    import os
    from extract import REPO
    for root, _dirs, files in os.walk(os.path.join(REPO, 'src')):
        for f in files:
            if not f.endswith('.rs'):
                continue
            p = os.path.join(root, f)
            if p.endswith(os.path.join('formats', 'color_optimization.rs')):
                continue
            t = re.sub(r'//[^\n]*', '', open(p, encoding='utf-8').read())
            sites += len(re.findall(r'ColorOptimizer::new\(', t))
    if sites != 1:
        raise ExtractError(f'colour optimiser call sites outside color_optimization.rs: {sites} (the model knows exactly one, Buffer::to_bytes)')
    if not re.search(r'if options\.lossles_output \{ return fmt\.to_bytes\(self, options\); \} let optimizer = crate::ColorOptimizer::new\(self, options\); '
                     r'return fmt\.to_bytes\(&optimizer\.optimize\(self\), options\);', tb):
        raise ExtractError('Buffer::to_bytes: optimiser call site shape changed')

    # --- FORMATS
    m = re.search(r'pub static ref FORMATS: \[Box<dyn OutputFormat>; (\d+)\] = \[(.*?)\];', fm, re.S)
    if not m:
        raise ExtractError('FORMATS table not found')
    entries = re.findall(r'Box::<([A-Za-z0-9_:]+)>::default\(\)', m.group(2))
    if len(entries) != int(m.group(1)):
        raise ExtractError('FORMATS table: entries not parsed')
    names = [e.split('::')[-1] for e in entries]

    out = [HEADER, 'namespace IcyVerif.Gen.ColorOptSrc\n']
    for n, t in [('src_optimize', opt), ('src_generate_shape_map', shape_map), ('src_get_shape', get_shape),
                 ('src_flat_clone_head', head), ('src_flat_clone_deep', deep), ('src_flat_clone_flat', flat), ('src_flat_clone_tail', tail),
                 ('src_render_text_loop', text_loop), ('src_render_sixel_loop', sixel_loop), ('src_to_bytes', tb)]:
        out.append(f'def {n} : String := {json.dumps(t, ensure_ascii=False)}\n')
    out.append(f'/-- `ColorOptimizer::new(` outside color_optimization.rs (comments stripped) -/\ndef optimizerCallSites : Nat := {sites}\n')
    out.append('/-- the `FORMATS` table of src/formats/mod.rs, in order -/\n')
    out.append('def formatWriters : List String := [' + ', '.join(json.dumps(n) for n in names) + ']\n')
    out.append('end IcyVerif.Gen.ColorOptSrc\n')
    return 'ColorOptSrc.lean', ''.join(out)


GENERATORS = {'coloropt': gen_coloropt}
