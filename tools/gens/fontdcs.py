"""Gen/FontDcs.lean (C17): what `Model/FontDcs.lean` takes from the source of the DCS font-loading path.

* the prefix literal of the font DCS — three places must agree: `execute_dcs` (`starts_with`), `load_custom_font`
  (`start_index`) in src/parsers/ansi/dcs.rs and the writer `BitFont::encode_as_ansi` in src/fonts.rs, whose format string
  also gives the framing bytes (`ESC P` … `ESC \\`) and the `:` between slot and data;
* both sides use `general_purpose::STANDARD`;
* the macro limits (depth, expansion budget);
* the arms of `Parser::print_char` the model follows (Default/ESC, ESC P, RecordDCS, RecordDCSEscape,
  ReadPossibleMacroInDCS) and `invoke_macro_by_id`, `load_custom_font`, the head of `execute_dcs` are PINNED: if their text
  changes the translator fails (the proof would be about other code)."""
import re
from extract import src, lean_list, HEADER, ExtractError


def squash(t):
    t = re.sub(r'//[^\n]*', '', t)
    return re.sub(r'\s+', ' ', t).strip()


def fn_body(text, sig):
    a = text.find(sig)
    if a < 0:
        raise ExtractError(f'{sig!r} not found')
    i = text.index('{', a)
    depth, j = 0, i
    while j < len(text):
        if text[j] == '{':
            depth += 1
        elif text[j] == '}':
            depth -= 1
            if depth == 0:
                return text[a:j + 1]
        j += 1
    raise ExtractError(f'{sig!r}: unbalanced braces')


def arm(text, head):
    """the match arm of print_char starting with `head` (brace counting)"""
    return fn_body(text, head)


def pinned(name, got, want):
    if squash(got) != squash(want):
        raise ExtractError(f'{name} is no longer the text Model/FontDcs.lean follows')


EXPECTED_RECORD = '''
EngineState::RecordDCS => {
    match ch {
        '\\x1B' => {
            self.state = EngineState::RecordDCSEscape;
        }
        _ => {
            self.parse_string.push(ch);
        }
    }
    return Ok(CallbackAction::NoUpdate);
}'''

EXPECTED_RECORD_ESC = '''
EngineState::RecordDCSEscape => {
    if ch == '\\\\' {
        self.state = EngineState::Default;
        return self.execute_dcs(buf, caret);
    }
    if ch == '[' {
        self.state = EngineState::ReadPossibleMacroInDCS(1);
        self.macro_dcs.clear();
        return Ok(CallbackAction::NoUpdate);
    }
    self.parse_string.push('\\x1b');
    self.parse_string.push(ch);
    self.state = EngineState::RecordDCS;
    return Ok(CallbackAction::NoUpdate);
}'''

EXPECTED_MACRO_IN_DCS = '''
EngineState::ReadPossibleMacroInDCS(i) => {
    self.macro_dcs.push(ch);
    if ch.is_ascii_digit() {
        if *i != 1 {
            self.state = EngineState::Default;
            return Err(ParserError::UnsupportedDCSSequence(format!("Error in macro inside dcs, expected number got '{ch}'")).into());
        }
        let d = match self.parsed_numbers.pop() {
            Some(number) => number,
            _ => 0,
        };
        self.parsed_numbers.push(parse_next_number(d, ch as u8));
        return Ok(CallbackAction::NoUpdate);
    }
    if ch == '[' {
        if *i != 0 {
            self.state = EngineState::Default;
            return Err(ParserError::UnsupportedDCSSequence(format!("Error in macro inside dcs, expected '[' got '{ch}'")).into());
        }
        self.state = EngineState::ReadPossibleMacroInDCS(1);
        return Ok(CallbackAction::NoUpdate);
    }
    if ch == '*' {
        if *i != 1 {
            self.state = EngineState::Default;
            return Err(ParserError::UnsupportedDCSSequence(format!("Error in macro inside dcs, expected '*' got '{ch}'")).into());
        }
        self.state = EngineState::ReadPossibleMacroInDCS(2);
        return Ok(CallbackAction::NoUpdate);
    }
    if ch == 'z' {
        if *i != 2 {
            self.state = EngineState::Default;
            return Err(ParserError::UnsupportedDCSSequence(format!("Error in macro inside dcs, expected 'z' got '{ch}'")).into());
        }
        if self.parsed_numbers.len() != 1 {
            self.state = EngineState::Default;
            return Err(ParserError::UnsupportedDCSSequence(format!("Macro hasn't one number defined got '{}'", self.parsed_numbers.len())).into());
        }
        self.state = EngineState::RecordDCS;
        self.invoke_macro_by_id(buf, current_layer, caret, *self.parsed_numbers.first().unwrap());
        return Ok(CallbackAction::NoUpdate);
    }
    self.parse_string.push('\\x1b');
    self.parse_string.push('[');
    self.parse_string.push_str(&self.macro_dcs);
    self.state = EngineState::RecordDCS;
    return Ok(CallbackAction::NoUpdate);
}'''

EXPECTED_ESC_P = '''
'P' => {
    self.state = EngineState::RecordDCS;
    self.parse_string.clear();
    self.parsed_numbers.clear();
    Ok(CallbackAction::NoUpdate)
}'''

EXPECTED_DEFAULT_ESC = '''
'\\x1B' => {
    self.current_escape_sequence.clear();
    self.current_escape_sequence.push_str("<ESC>");
    self.state = EngineState::Default;
    self.state = EngineState::ReadEscapeSequence;
    return Ok(CallbackAction::NoUpdate);
}'''

EXPECTED_INVOKE = '''
fn invoke_macro_by_id(&mut self, buf: &mut Buffer, current_layer: usize, caret: &mut Caret, id: i32) {
    let m = if let Some(m) = self.macros.get(&(id as usize)) {
        m.clone()
    } else {
        return;
    };
    if self.macro_depth >= MAX_MACRO_DEPTH {
        log::error!("Macro nesting too deep, macro {} not invoked", id);
        return;
    }
    if self.macro_depth == 0 {
        self.macro_budget = MAX_MACRO_EXPANSION;
    }
    self.macro_depth += 1;
    for ch in m.chars() {
        if self.macro_budget == 0 {
            break;
        }
        self.macro_budget -= 1;
        if let Err(err) = self.print_char(buf, current_layer, caret, ch) {
            log::error!("Error during macro invocation: {}", err);
        }
    }
    self.macro_depth -= 1;
}'''

EXPECTED_LOAD = '''
fn load_custom_font(&mut self, buf: &mut Buffer) -> EngineResult<CallbackAction> {
    let start_index = "CTerm:Font:".len();
    if let Some(idx) = self.parse_string[start_index..].find(':') {
        let idx = idx + start_index;

        if let Ok(num) = self.parse_string[start_index..idx].parse::<usize>() {
            if let Ok(font_data) = general_purpose::STANDARD.decode(self.parse_string[idx + 1..].as_bytes()) {
                match BitFont::from_bytes(format!("custom font {num}"), &font_data) {
                    Ok(font) => {
                        log::info!("loaded custom font {num}", num = num);
                        buf.set_font(num, font);
                        return Ok(CallbackAction::NoUpdate);
                    }
                    Err(err) => {
                        return Err(ParserError::UnsupportedDCSSequence(format!("Can't load bit font from dcs: {err}")).into());
                    }
                }
            }
            return Err(ParserError::UnsupportedDCSSequence(format!("Can't decode base64 in dcs: {}", self.parse_string)).into());
        }
    }

    Err(ParserError::UnsupportedDCSSequence(format!("invalid custom font in dcs: {}", self.parse_string)).into())
}'''

EXPECTED_ENCODE = '''
pub fn encode_as_ansi(&self, font_slot: usize) -> String {
    let font_data = self.convert_to_u8_data();
    let data = general_purpose::STANDARD.encode(font_data);
    format!("\\x1BPCTerm:Font:{font_slot}:{data}\\x1B\\\\")
}'''

EXPECTED_SET_FONT = '''
pub fn set_font(&mut self, font_number: usize, font: BitFont) {
    self.font_table.insert(font_number, font);
    self.is_font_table_dirty = true;
}'''


def gen_fontdcs():
    dcs = src('src/parsers/ansi/dcs.rs')
    mod = src('src/parsers/ansi/mod.rs')
    fonts = src('src/fonts.rs')
    bufs = src('src/buffers.rs')
    m1 = re.search(r'if self\.parse_string\.starts_with\("([^"]+)"\) \{\s*return self\.load_custom_font\(buf\);\s*\}', dcs)
    m2 = re.search(r'let start_index = "([^"]+)"\.len\(\);', dcs)
    m3 = re.search(r'format!\("\\x1BP([^{]+)\{font_slot\}(.)\{data\}\\x1B\\\\"\)', fonts)
    if not (m1 and m2 and m3):
        raise ExtractError('font DCS prefix: execute_dcs / load_custom_font / encode_as_ansi pattern not found')
    if not (m1.group(1) == m2.group(1) == m3.group(1)):
        raise ExtractError('font DCS prefix differs between execute_dcs, load_custom_font and encode_as_ansi')
    # the font branch must be the FIRST thing execute_dcs does (before the numbers are parsed)
    ex = fn_body(dcs, 'pub(super) fn execute_dcs(')
    if not squash(ex).startswith(squash('pub(super) fn execute_dcs(&mut self, buf: &mut Buffer, caret: &Caret) -> EngineResult<CallbackAction> { '
                                        'if self.parse_string.starts_with("CTerm:Font:") { return self.load_custom_font(buf); } '
                                        'let mut i = 0; self.parsed_numbers.clear();')):
        raise ExtractError('execute_dcs no longer starts with the font branch')
    pinned('load_custom_font', fn_body(dcs, 'fn load_custom_font('), EXPECTED_LOAD)
    pinned('BitFont::encode_as_ansi', fn_body(fonts, 'pub fn encode_as_ansi('), EXPECTED_ENCODE)
    pinned('Buffer::set_font', fn_body(bufs, 'pub fn set_font(&mut self, font_number: usize'), EXPECTED_SET_FONT)
    pinned('print_char: RecordDCS', arm(mod, 'EngineState::RecordDCS => {'), EXPECTED_RECORD)
    pinned('print_char: RecordDCSEscape', arm(mod, 'EngineState::RecordDCSEscape => {'), EXPECTED_RECORD_ESC)
    pinned('print_char: ReadPossibleMacroInDCS', arm(mod, 'EngineState::ReadPossibleMacroInDCS(i) => {'), EXPECTED_MACRO_IN_DCS)
    esc = arm(mod, 'EngineState::ReadEscapeSequence => {')
    pinned("print_char: ESC P", arm(esc, "'P' => {"), EXPECTED_ESC_P)
    # order and shape of the other arms of ReadEscapeSequence the model distinguishes
    heads = re.findall(r"^ {24}((?:'[^']+'|FF|BEL|BS)(?:\.\.='[^']+')?(?: \| (?:'[^']+'|FF|BEL|BS))*|_) => ", esc, re.M)
    want = ["'['", "']'", "'7'", "'8'", "'c'", "'D'", "'M'", "'E'", "'P'", "'H'", "'_'", "'0'..='~'",
            "FF | BEL | BS | '\\x09' | '\\x7F' | '\\x1B' | '\\n' | '\\r'", '_']
    if heads != want:
        raise ExtractError(f'print_char: the arms of ReadEscapeSequence changed: {heads}')
    if "'c' => {" not in esc or 'self.macros.clear();' not in squash(arm(esc, "'c' => {")):
        raise ExtractError('print_char: ESC c no longer clears the macros')
    dflt = arm(mod, 'EngineState::Default => match ch {')
    pinned('print_char: Default, ESC', arm(dflt, "'\\x1B' => {"), EXPECTED_DEFAULT_ESC)
    pinned('invoke_macro_by_id', fn_body(mod, 'fn invoke_macro_by_id('), EXPECTED_INVOKE)
    md = re.search(r'const MAX_MACRO_DEPTH: usize = (\d+);', mod)
    me = re.search(r'const MAX_MACRO_EXPANSION: usize = 1 << (\d+);', mod)
    if not (md and me):
        raise ExtractError('macro limits not found')
    out = [HEADER, 'namespace IcyVerif.Gen.FontDcs\n']
    out.append(lean_list('dcsPrefix', [ord(c) for c in m1.group(1)]))
    out.append(f'def slotSeparator : Nat := {ord(m3.group(2))}\n')
    out.append('def frameStart : List Nat := [27, 80]\ndef frameEnd : List Nat := [27, 92]\n')
    out.append(f'def maxMacroDepth : Nat := {md.group(1)}\ndef maxMacroExpansion : Nat := {1 << int(me.group(1))}\n')
    out.append('end IcyVerif.Gen.FontDcs\n')
    return 'FontDcs.lean', ''.join(out)


GENERATORS = {'fontdcs': gen_fontdcs}
