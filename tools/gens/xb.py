"""Gen/Xb.lean: XBin constants (src/formats/xbinary.rs) and the attribute bits the XBin attribute byte uses
(src/text_attribute.rs): header size, flag bits, the four compression codes, the run limit of the writer and of its
look-ahead, the masks of encode_attr, default/invisible cell fields."""
import re
from extract import src, HEADER, ExtractError


def _int(t):
    t = t.replace('_', '')
    if t.startswith('0b'):
        return int(t[2:], 2)
    if t.startswith('0x'):
        return int(t[2:], 16)
    return int(t)


def _fn(s, name):
    m = re.search(r'\nfn ' + name + r'\((.*?)\n\}\n', s, re.S)
    if not m:
        raise ExtractError(f'fn {name} not found')
    return m.group(1)


def gen_xb():
    s = src('src/formats/xbinary.rs')
    out = [HEADER, 'namespace IcyVerif.Gen.Xb\n']

    def const(rust, lean):
        m = re.search(r'const ' + rust + r': \w+ = ([^;]+);', s)
        if not m:
            raise ExtractError(f'{rust} not found')
        e = m.group(1).strip()
        mm = re.fullmatch(r'(\d+) \* (\d+)', e)
        v = int(mm.group(1)) * int(mm.group(2)) if mm else _int(e)
        out.append(f'def {lean} : Nat := {v}\n')

    const('XBIN_HEADER_SIZE', 'headerSize')
    const('XBIN_PALETTE_LENGTH', 'paletteLength')
    const('FLAG_PALETTE', 'flagPalette')
    const('FLAG_FONT', 'flagFont')
    const('FLAG_COMPRESS', 'flagCompress')
    const('FLAG_NON_BLINK_MODE', 'flagNonBlink')
    const('FLAG_512CHAR_MODE', 'flag512')
    m = re.search(r'enum Compression \{(.*?)\}', s, re.S)
    if not m:
        raise ExtractError('enum Compression not found')
    comp = dict((k, _int(v)) for k, v in re.findall(r'(\w+) = (0b[01_]+)', m.group(1)))
    if sorted(comp) != ['Attr', 'Char', 'Full', 'Off']:
        raise ExtractError(f'enum Compression variants {sorted(comp)}')
    for k, lean in [('Off', 'compOff'), ('Char', 'compChar'), ('Attr', 'compAttr'), ('Full', 'compFull')]:
        out.append(f'def {lean} : Nat := {comp[k]}\n')
    # run limits: `if run_count >= N` in the writer loop and in its look-ahead
    for fn, lean in [('compress_backtrack', 'runLimit'), ('count_length', 'lookaheadRunLimit')]:
        body = _fn(s, fn)
        ms = re.findall(r'if run_count >= (\d+) \{', body)
        if len(ms) != 1:
            raise ExtractError(f'{fn}: expected one `if run_count >= N`, found {len(ms)}')
        out.append(f'def {lean} : Nat := {int(ms[0])}\n')
    # encode_attr: (as_u8 & KEEP) | if page == fonts[1] { BIT } else { 0 }
    body = _fn(s, 'encode_attr')
    m = re.search(r'as_u8\(buf\.ice_mode\) & (0b[01_]+)\) \| if ch\.attribute\.font_page == fonts\[1\] \{ (0b[01_]+) \} else \{ 0 \}', body)
    if not m or 'fonts.len() == 2' not in body:
        raise ExtractError('encode_attr shape changed')
    out.append(f'def encKeepMask : Nat := {_int(m.group(1))}\n')
    out.append(f'def encPageBit : Nat := {_int(m.group(2))}\n')
    # reader: type mask / counter mask of the repeat-counter byte
    body = _fn(s, 'read_data_compressed')
    m1 = re.search(r'xbin_compression & (0b[01_]+)\)', body)
    m2 = re.search(r'\(xbin_compression & (0b[01_]+)\) \+ 1', body)
    if not (m1 and m2):
        raise ExtractError('read_data_compressed masks not found')
    out.append(f'def readTypeMask : Nat := {_int(m1.group(1))}\n')
    out.append(f'def readCountMask : Nat := {_int(m2.group(1))}\n')
    # attribute bits
    t = src('src/text_attribute.rs')
    for rust, lean in [('BOLD', 'attrBold'), ('BLINK', 'attrBlink'), ('INVISIBLE', 'attrInvisible')]:
        m = re.search(r'pub const ' + rust + r': u16 = (0b[01_]+);', t)
        if not m:
            raise ExtractError(f'attribute::{rust} not found')
        out.append(f'def {lean} : Nat := {_int(m.group(1))}\n')
    m = re.search(r'impl Default for TextAttribute \{.*?foreground_color: (\d+),\s*background_color: (\d+),\s*attr: attribute::NONE,\s*font_page: (\d+),', t, re.S)
    if not m:
        raise ExtractError('TextAttribute::default shape changed')
    out.append(f'def defaultFg : Nat := {int(m.group(1))}\ndef defaultBg : Nat := {int(m.group(2))}\ndef defaultPage : Nat := {int(m.group(3))}\n')
    a = src('src/attributed_char.rs')
    m = re.search(r"impl Default for AttributedChar \{.*?ch: '(.)',", a, re.S)
    m2 = re.search(r"pub fn invisible\(\) -> Self \{\s*AttributedChar \{\s*ch: '(.)',", a, re.S)
    if not (m and m2):
        raise ExtractError('AttributedChar::default/invisible shape changed')
    out.append(f'def defaultCh : Nat := {ord(m.group(1))}\ndef invisibleCh : Nat := {ord(m2.group(1))}\n')
    out.append('end IcyVerif.Gen.Xb\n')
    return 'Xb.lean', ''.join(out)


GENERATORS = {'xb': gen_xb}
