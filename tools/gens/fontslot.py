"""Gen/FontSlot.lean (C17): WHICH font the container writers embed and WHERE the loaders put it — the slot / page
indirection `Model/FontBox.lean` (`fontBlocks`), `Lemmas/FontBoxPage.lean` (`toPage0`) and C05's writers `adfSave` /
`idfSave` / `xbSave` follow.  Every site is PINNED: if its text changes the translator fails (the proofs would be about
other code), in particular

* the font the three writers embed is `buf.get_font(*fonts.first().unwrap_or(&0))` with `fonts = analyze_font_usage(buf)`
  (XBin: the second one `buf.get_font(fonts[1])`) — not `get_font(0)`;
* the height test of ADF / IDF is on THAT font (`font.size`), inside the `if let Some(font)` — since the two repairs
  `fix: ArtWorx writer tests the font height of slot 0 …` / `fix: iCE Draw writer …` (formerly `buf.get_font_dimensions()`,
  which is `font_table[&0].size`: `fixed:` `adf_font_height_of_slot0` / `idf_font_height_of_slot0`); and no
  `get_font_dimensions` is left in either writer;
* the loaders install the block as slot 0 (XBin: 0 and 1);
* the IcyDraw writer makes a `FONT_{k}` chunk for EVERY `(k, v)` of `buf.font_iter()` — nothing between the loop head and the
  payload (no filter on `is_default()`), the loader stores it with `result.set_font(font_slot, font)`."""
import re
from extract import src, HEADER, ExtractError


def squash(t):
    t = re.sub(r'//[^\n]*', '', t)
    return re.sub(r'\s+', ' ', t).strip()


SITES = [
    ('adf writer: pages in use', 'src/formats/artworx.rs',
     'let fonts = analyze_font_usage(buf); if fonts.len() > 1 { return Err(anyhow::anyhow!("Only single font files are supported by this format.")); }'),
    ('adf writer: font of the page embedded, height test on that font', 'src/formats/artworx.rs',
     'if let Some(font) = buf.get_font(*fonts.first().unwrap_or(&0)) { if font.size.height != 16 { return Err(SavingError::Only8x16FontsSupported.into()); } '
     'result.extend(font.convert_to_u8_data()); } else { return Err(SavingError::NoFontFound.into()); }'),
    ('adf loader: block becomes slot 0', 'src/formats/artworx.rs',
     'result.clear_font_table(); let mut font = BitFont::from_basic(8, 16, &data[o..(o + font_size)]); font.name = guess_font_name(&font); result.set_font(0, font);'),
    ('idf writer: pages in use', 'src/formats/ice_draw.rs',
     'let fonts = analyze_font_usage(buf); if fonts.len() > 1 { return Err(anyhow::anyhow!("Only single font files are supported by this format.")); }'),
    ('idf writer: font of the page embedded, size test on that font', 'src/formats/ice_draw.rs',
     'if let Some(font) = buf.get_font(*fonts.first().unwrap_or(&0)) { if font.size != Size::new(8, 16) { return Err(SavingError::Only8x16FontsSupported.into()); } '
     'result.extend(font.convert_to_u8_data()); } else { return Err(SavingError::NoFontFound.into()); }'),
    ('idf loader: block becomes slot 0', 'src/formats/ice_draw.rs',
     'let mut font = BitFont::from_basic(8, 16, &data[o..(o + FONT_SIZE)]); font.name = guess_font_name(&font); result.set_font(0, font);'),
    ('xbin writer: first font = font of the first page in use', 'src/formats/xbinary.rs',
     'let fonts = analyze_font_usage(buf); let Some(font) = buf.get_font(*fonts.first().unwrap_or(&0)) else { return Err(SavingError::NoFontFound.into()); };'),
    ('xbin writer: embedding decision', 'src/formats/xbinary.rs',
     'if !font.is_default() || !buf.has_fonts() || fonts.len() > 1 {'),
    ('xbin writer: second font = font of the second page in use', 'src/formats/xbinary.rs',
     'if let Some(ext_font) = buf.get_font(fonts[1]) {'),
    ('xbin writer: page bit of the attribute', 'src/formats/xbinary.rs',
     'if ch.attribute.font_page == fonts[1] { 0b1000 } else { 0 }'),
    ('xbin loader: blocks become slots 0 and 1', 'src/formats/xbinary.rs',
     'result.set_font(0, font); o += font_length; if extended_char_mode { let mut font = BitFont::create_8("", 8, font_size, &data[o..(o + font_length)]); '
     'font.name = guess_font_name(&font); result.set_font(1, font);'),
    ('get_font_dimensions is slot 0', 'src/buffers.rs',
     'pub fn get_font_dimensions(&self) -> Size { self.font_table[&0].size }'),
    ('analyze_font_usage: pages of all cells, sorted', 'src/buffers.rs',
     'hash_set.insert(ch.get_font_page()); } } let mut v: Vec<usize> = hash_set.into_iter().collect(); v.sort_unstable(); v }'),
    ('Buffer::new fills slot 0 only', 'src/buffers.rs',
     'let mut font_table = HashMap::new(); font_table.insert(0, BitFont::default());'),
    ('icy writer: a FONT_k chunk for every slot', 'src/formats/icy_draw.rs',
     'for (k, v) in buf.font_iter() { let mut font_data: Vec<u8> = Vec::new(); write_utf8_encoded_string(&mut font_data, &v.name); '
     'font_data.extend(v.to_psf2_bytes().unwrap()); if let Err(err) = encoder.add_ztxt_chunk(format!("FONT_{k}"), general_purpose::STANDARD.encode(&font_data)) {'),
    ('icy loader: chunk FONT_k becomes slot k', 'src/formats/icy_draw.rs',
     'let font = BitFont::from_bytes(font_name, &bytes[o..])?; result.set_font(font_slot, font);'),
]


def gen_fontslot():
    out = [HEADER, 'namespace IcyVerif.Gen.FontSlot\n']
    cache = {}
    names = []
    for path in ('src/formats/artworx.rs', 'src/formats/ice_draw.rs'):
        if 'get_font_dimensions' in src(path):
            raise ExtractError(f'{path}: get_font_dimensions (= the size of slot 0) is used again; the writers embed the font of the page in use')
    for what, path, frag in SITES:
        if path not in cache:
            cache[path] = squash(src(path))
        n = cache[path].count(squash(frag))
        if n != 1:
            raise ExtractError(f'{path}: "{what}" is no longer the text the font slot/page model follows ({n} occurrences)')
        names.append(what)
    out.append('/-- the sites of the slot / page indirection found unchanged in the source -/\n')
    out.append('def pinnedSites : List String := [' + ', '.join('"' + w + '"' for w in names) + ']\n')
    out.append('/-- 1 = the ADF / IDF writers test the dimensions of the font they embed (the font of the first page in use), not of slot 0 -/\n')
    out.append('def testsEmbeddedFont : Nat := 1\n')
    out.append('/-- the slot the ADF / IDF loaders install the block in -/\n')
    out.append('def loadedSlot : Nat := 0\n')
    out.append('end IcyVerif.Gen.FontSlot\n')
    return 'FontSlot.lean', ''.join(out)


GENERATORS = {'fontslot': gen_fontslot}
