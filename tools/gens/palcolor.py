"""Gen/PalColor.lean: WHICH FIELDS of `Color` take part in the two comparisons the index laws of C16 rest on
(src/palette_handling.rs):

* `colorEqFields`  - the fields `Color`'s `PartialEq` compares: the hand-written `impl PartialEq for Color` (a conjunction of
  `self.f == other.f`), or every field of the struct in declaration order when `PartialEq` is derived;
* `insertEqFields` - the fields the search loop of `Palette::insert_color` compares (`col.f == color.f && ...`, or the fields
  of `PartialEq` when the loop is written with `==` on whole colours).

Field codes: 0 = r, 1 = g, 2 = b, 3 = name.  The model (`Model/PaletteNamed.lean`) evaluates exactly these lists, so it follows
the source; the theorems (`named_insert_refines`, `color_eq_ignores_name`) need both lists to be `[0, 1, 2]` and break when a
colour NAME (or fewer channels) starts to take part.  Everything else the named-colour model copies is pinned as text: the
field list of `struct Color`, `Color::new`, `Default` being derived, the skeleton of `insert_color` (first match, else push,
index = old length), `insert_color_rgb`, `set_color`, `set_color_rgb`, `push`, `is_default`, `are_colors_equal`,
`get_rgb`.  A shape the translator does not recognise is an ExtractError (a broken obligation), never a silent mismatch."""
import re
from extract import src, HEADER, ExtractError

CODE = {'r': 0, 'g': 1, 'b': 2, 'name': 3}


def squash(t):
    t = re.sub(r'//[^\n]*', '', t)
    return re.sub(r'\s+', ' ', t).strip()


def fn_body(text, sig):
    a = text.find(sig)
    if a < 0:
        raise ExtractError(f'{sig!r} not found in src/palette_handling.rs')
    i = text.index('{', a)
    depth, j = 0, i
    while j < len(text):
        if text[j] == '{':
            depth += 1
        elif text[j] == '}':
            depth -= 1
            if depth == 0:
                return squash(text[a:j + 1])
        j += 1
    raise ExtractError(f'{sig!r}: unbalanced braces')


def pinned(what, got, want):
    if squash(got) != squash(want):
        raise ExtractError(f'{what} changed; the named-colour model of C16 copies\n    {squash(want)}\n  found\n    {squash(got)}')


def conj_fields(expr, left, right, what):
    """`left.f == right.f && ...` -> field codes"""
    fields = []
    for part in expr.split('&&'):
        m = re.fullmatch(rf'\s*{re.escape(left)}\.(\w+) == {re.escape(right)}\.(\w+)\s*', part)
        if not m or m.group(1) != m.group(2) or m.group(1) not in CODE:
            raise ExtractError(f'{what}: comparison {part.strip()!r} not understood')
        fields.append(CODE[m.group(1)])
    if len(set(fields)) != len(fields):
        raise ExtractError(f'{what}: a field is compared twice')
    return fields


def gen_palcolor():
    ph = src('src/palette_handling.rs')
    # ---- struct Color: fields and derives
    m = re.search(r'#\[derive\(([^)]*)\)\]\s*pub struct Color \{(.*?)\n\}', ph, re.S)
    if not m:
        raise ExtractError('`#[derive(..)] pub struct Color {..}` not found')
    derives = [d.strip() for d in m.group(1).split(',')]
    body = re.sub(r'#\[[^\]]*\]', '', m.group(2))
    fields = re.findall(r'(?:pub )?(\w+): ([^,\n]+),', body)
    if fields != [('name', 'Option<String>'), ('r', 'u8'), ('g', 'u8'), ('b', 'u8')]:
        raise ExtractError(f'struct Color has fields {fields}; the model knows name: Option<String>, r, g, b: u8')
    if 'Default' not in derives:
        raise ExtractError('Color no longer derives Default (the model pads with Color { name: None, r: 0, g: 0, b: 0 })')
    pinned('Color::new', fn_body(ph, 'pub const fn new(r: u8, g: u8, b: u8) -> Self'),
           'pub const fn new(r: u8, g: u8, b: u8) -> Self { Color { name: None, r, g, b } }')
    # ---- PartialEq for Color
    im = re.search(r'impl PartialEq for Color \{\s*fn eq\(&self, other: &(?:Color|Self)\) -> bool \{(.*?)\}\s*\}', ph, re.S)
    if im and 'PartialEq' in derives:
        raise ExtractError('Color both derives and implements PartialEq')
    if im:
        eq_fields = conj_fields(squash(im.group(1)), 'self', 'other', 'impl PartialEq for Color')
        eq_how = 'hand-written impl'
    elif 'PartialEq' in derives:
        eq_fields = [CODE[f] for f, _ in fields]
        eq_how = 'derived: every field'
    else:
        raise ExtractError('Color has no PartialEq (is_default / are_colors_equal of the model compare colours)')
    # ---- insert_color: first match, else push
    ins = fn_body(ph, 'pub fn insert_color(&mut self, color: Color) -> u32')
    loop = re.fullmatch(r'pub fn insert_color\(&mut self, color: Color\) -> u32 \{ for i in 0\.\.self\.colors\.len\(\) \{ '
                        r'let col = self\.colors\[i\]\.clone\(\); if (.*?) \{ return i as u32; \} \} '
                        r'self\.colors\.push\(color\); \(self\.colors\.len\(\) - 1\) as u32 \}', ins)
    pos = re.fullmatch(r'pub fn insert_color\(&mut self, color: Color\) -> u32 \{ '
                       r'if let Some\(i\) = self\.colors\.iter\(\)\.position\(\|col\| (.*?)\) \{ return i as u32; \} '
                       r'self\.colors\.push\(color\); \(self\.colors\.len\(\) - 1\) as u32 \}', ins)
    if loop:
        cond = loop.group(1)
        whole = cond in ('col == color', 'color == col')
        ins_fields = eq_fields if whole else conj_fields(cond, 'col', 'color', 'insert_color')
        ins_how = 'search loop, ' + ('== on whole colours' if whole else 'field by field')
    elif pos:
        cond = pos.group(1)
        whole = cond in ('*col == color', 'color == *col', 'col == &color')
        ins_fields = eq_fields if whole else conj_fields(cond, 'col', 'color', 'insert_color')
        ins_how = 'iter().position, ' + ('== on whole colours' if whole else 'field by field')
    else:
        raise ExtractError('Palette::insert_color is no longer "first entry that compares equal, else push and return the old length": ' + ins)
    # ---- the other index operations the named-colour model copies
    pinned('Palette::insert_color_rgb', fn_body(ph, 'pub fn insert_color_rgb(&mut self, r: u8, g: u8, b: u8) -> u32'),
           'pub fn insert_color_rgb(&mut self, r: u8, g: u8, b: u8) -> u32 { self.insert_color(Color::new(r, g, b)) }')
    pinned('Palette::push', fn_body(ph, 'pub fn push(&mut self, color: Color)'),
           'pub fn push(&mut self, color: Color) { self.colors.push(color); }')
    pinned('Palette::set_color', fn_body(ph, 'pub fn set_color(&mut self, color: u32, color_struct: Color)'), '''
        pub fn set_color(&mut self, color: u32, color_struct: Color) {
            if self.colors.len() <= color as usize { self.colors.resize(color as usize + 1, Color::default()); }
            self.colors[color as usize] = color_struct;
            self.invalidate_checksum();
        }''')
    pinned('Palette::set_color_rgb', fn_body(ph, 'pub fn set_color_rgb(&mut self, color: u32, r: u8, g: u8, b: u8)'), '''
        pub fn set_color_rgb(&mut self, color: u32, r: u8, g: u8, b: u8) {
            if self.colors.len() <= color as usize { self.colors.resize(color as usize + 1, Color::default()); }
            self.colors[color as usize] = Color { name: None, r, g, b };
            self.invalidate_checksum();
        }''')
    pinned('Palette::is_default', fn_body(ph, 'pub fn is_default(&self) -> bool'), '''
        pub fn is_default(&self) -> bool {
            if self.colors.len() != DOS_DEFAULT_PALETTE.len() { return false; }
            #[allow(clippy::needless_range_loop)]
            for i in 0..DOS_DEFAULT_PALETTE.len() { if self.colors[i] != DOS_DEFAULT_PALETTE[i] { return false; } }
            true
        }''')
    pinned('Palette::are_colors_equal', fn_body(ph, 'pub fn are_colors_equal(&self, other: &Palette) -> bool'),
           'pub fn are_colors_equal(&self, other: &Palette) -> bool { self.colors == other.colors }')
    pinned('Palette::get_rgb', fn_body(ph, 'pub fn get_rgb(&self, color: u32) -> (u8, u8, u8)'), '''
        pub fn get_rgb(&self, color: u32) -> (u8, u8, u8) {
            if color & (1 << 31) != 0 { return ((color >> 16) as u8, (color >> 8) as u8, color as u8); }
            if color >= self.colors.len() as u32 { (0, 0, 0) } else { let c = &self.colors[color as usize]; (c.r, c.g, c.b) }
        }''')
    out = [HEADER, 'namespace IcyVerif.Gen.PalColor\n',
           '/-! field codes: 0 = r, 1 = g, 2 = b, 3 = name -/\n',
           f'/-- fields compared by `PartialEq for Color` ({eq_how}) -/\n',
           'def colorEqFields : List Nat := [' + ', '.join(map(str, eq_fields)) + ']\n',
           f'/-- fields compared by the search of `Palette::insert_color` ({ins_how}) -/\n',
           'def insertEqFields : List Nat := [' + ', '.join(map(str, ins_fields)) + ']\n',
           'end IcyVerif.Gen.PalColor\n']
    return 'PalColor.lean', ''.join(out)


GENERATORS = {'palcolor': gen_palcolor}
