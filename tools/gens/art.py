"""Gen/Art.lean: constants and tables used by the art reader / writer models (C15, C04):
attribute bit constants, ctrl-A FG / BG letters, PCBoard HEX_TABLE, ANSI COLOR_OFFSETS, DOS_DEFAULT_PALETTE,
XTERM_256_PALETTE, the ANSI writer's CONTROL_CHARS, the ATASCII writer's escaped bytes, Avatar command bytes,
ANSI_FONTS, the size of the buffer each loader starts from, SaveOptions::new() defaults."""
import re, json
from extract import src, HEADER, ExtractError, lean_list


def _int(t):
    t = t.strip().replace('_', '')
    if t.startswith('0b'):
        return int(t[2:], 2)
    if t.startswith('0x'):
        return int(t[2:], 16)
    return int(t)


def _bytes_lit(t):
    """Rust byte-string literal body -> list of byte values (handles \\xNN, \\r, \\n, \\\\)"""
    out = []
    i = 0
    while i < len(t):
        c = t[i]
        if c == '\\':
            n = t[i + 1]
            if n == 'x':
                out.append(int(t[i + 2:i + 4], 16))
                i += 4
                continue
            out.append({'r': 13, 'n': 10, 't': 9, '\\': 92, '0': 0, "'": 39, '"': 34}[n])
            i += 2
            continue
        out.append(ord(c))
        i += 1
    return out


def _colors(block):
    cols = re.findall(r'r:\s*(0x[0-9A-Fa-f]+|\d+),\s*g:\s*(0x[0-9A-Fa-f]+|\d+),\s*b:\s*(0x[0-9A-Fa-f]+|\d+)', block)
    return [(_int(r), _int(g), _int(b)) for r, g, b in cols]


def gen_art():
    ta = src('src/text_attribute.rs')
    pal = src('src/palette_handling.rs')
    ctrla = src('src/parsers/ctrla/mod.rs')
    pcb = src('src/formats/pcboard.rs')
    consts = src('src/parsers/ansi/constants.rs')
    ansi_w = src('src/formats/ansi.rs')
    ata_w = src('src/formats/atascii.rs')
    avt_p = src('src/parsers/avatar/mod.rs')
    avt_w = src('src/formats/avatar.rs')
    fonts = src('src/fonts.rs')
    fm = src('src/formats/mod.rs')

    out = [HEADER, 'namespace IcyVerif.Gen.Art\n']
    for name in ['BOLD', 'FAINT', 'ITALIC', 'BLINK', 'UNDERLINE', 'DOUBLE_UNDERLINE', 'CONCEAL', 'CROSSED_OUT', 'DOUBLE_HEIGHT',
                 'OVERLINE', 'INVISIBLE']:
        m = re.search(r'pub const ' + name + r': u16 = (0b[01_]+|0x[0-9A-Fa-f_]+|\d+);', ta)
        if not m:
            raise ExtractError(f'attribute::{name} not found')
        out.append(f'def bit{name.title().replace("_", "")} : Nat := {_int(m.group(1))}\n')
    m = re.search(r'impl Default for TextAttribute \{.*?Self \{(.*?)\}', ta, re.S)
    if not m:
        raise ExtractError('Default for TextAttribute not found')
    d = m.group(1)
    dfg = int(re.search(r'foreground_color: (\d+)', d).group(1))
    dbg = int(re.search(r'background_color: (\d+)', d).group(1))
    out.append(f'def defaultFg : Nat := {dfg}\n')
    out.append(f'def defaultBg : Nat := {dbg}\n')

    m = re.search(r'pub const FG: &\[u8\] = b"([^"]*)";', ctrla)
    m2 = re.search(r'pub const BG: &\[u8\] = b"([^"]*)";', ctrla)
    if not (m and m2):
        raise ExtractError('ctrl-A FG/BG not found')
    out.append(lean_list('ctrlaFg', _bytes_lit(m.group(1))))
    out.append(lean_list('ctrlaBg', _bytes_lit(m2.group(1))))
    m = re.search(r'HEX_TABLE: &\[u8; 16\] = b"([^"]*)";', pcb)
    if not m:
        raise ExtractError('HEX_TABLE not found')
    out.append(lean_list('hexTable', _bytes_lit(m.group(1))))
    m = re.search(r'COLOR_OFFSETS: \[u8; 8\] = \[([^\]]*)\];', consts)
    if not m:
        raise ExtractError('COLOR_OFFSETS not found')
    out.append(lean_list('colorOffsets', [int(x) for x in m.group(1).split(',') if x.strip()]))

    m = re.search(r'pub const DOS_DEFAULT_PALETTE: \[Color; 16\] = \[(.*?)\n\];', pal, re.S)
    if not m:
        raise ExtractError('DOS_DEFAULT_PALETTE not found')
    dos = _colors(m.group(1))
    m = re.search(r'pub const XTERM_256_PALETTE: \[\(&str, Color\); 256\] = \[(.*?)\n\];', pal, re.S)
    if not m:
        raise ExtractError('XTERM_256_PALETTE not found')
    xterm = _colors(m.group(1))
    if len(dos) != 16 or len(xterm) != 256:
        raise ExtractError(f'palette sizes {len(dos)} {len(xterm)}')
    out.append(lean_list('dosPalette', [f'({r}, {g}, {b})' for r, g, b in dos], ty='(Nat × Nat × Nat)'))
    out.append(lean_list('xtermPalette', [f'({r}, {g}, {b})' for r, g, b in xterm], ty='(Nat × Nat × Nat)', chunk=64))

    m = re.search(r'const CONTROL_CHARS: &\'static str = "([^"]*)";', ansi_w)
    if not m:
        raise ExtractError('CONTROL_CHARS not found')
    out.append(lean_list('ansiControlChars', _bytes_lit(m.group(1))))

    m = re.search(r'// escape control chars\s*if (.*?) \{', ata_w, re.S)
    if not m:
        raise ExtractError('atascii escape test not found')
    esc = [int(x, 16) for x in re.findall(r"ch == b'\\x([0-9A-Fa-f]{2})'", m.group(1))]
    out.append(lean_list('atasciiEscaped', esc))
    m = re.search(r"result\.push\((\d+)\);\s*\}\s*pos\.x = 0;", ata_w)
    if not m:
        raise ExtractError('atascii eol byte not found')
    out.append(f'def atasciiEol : Nat := {int(m.group(1))}\n')

    for nm, rx, text in [('avtCmd', r"const AVT_CMD: char = '\\x([0-9A-Fa-f]{2})';", avt_p),
                         ('avtClr', r"const AVT_CLR: char = '\\x([0-9A-Fa-f]{2})';", avt_p),
                         ('avtRep', r"const AVT_REP: char = '\\x([0-9A-Fa-f]{2})';", avt_p)]:
        m = re.search(rx, text)
        if not m:
            raise ExtractError(nm + ' not found')
        out.append(f'def {nm} : Nat := {int(m.group(1), 16)}\n')
    m = re.search(r'const AVT_CMD: u8 = (\d+);', avt_w)
    m2 = re.search(r'const AVT_CLR: u8 = (\d+);', avt_w)
    if not (m and m2):
        raise ExtractError('avatar writer constants not found')
    out.append(f'def avtCmdW : Nat := {int(m.group(1))}\n')
    out.append(f'def avtClrW : Nat := {int(m2.group(1))}\n')
    m = re.search(r'while pos\.x \+ (\d+) < buf\.get_width\(\)', avt_w)
    m2 = re.search(r'if repeat_count < (\d+) &&', avt_w)
    if not (m and m2):
        raise ExtractError('avatar run-length thresholds not found')
    out.append(f'def avtLookAhead : Nat := {int(m.group(1))}\n')
    out.append(f'def avtRepeatMin : Nat := {int(m2.group(1))}\n')

    m = re.search(r'pub const ANSI_FONTS: usize = (\d+);', fonts)
    if not m:
        raise ExtractError('ANSI_FONTS not found')
    out.append(f'def ansiFonts : Nat := {int(m.group(1))}\n')

    # the ANSI writer's line splitting (push_result): the bytes written before / after `last_line_break` is taken, and the
    # test that triggers it; the font switch `ESC [ 0 ; n SP D`; the first font slot whose font is sent with the file;
    # the guard against output that starts with the UTF-8 indicator
    m = re.search(r'fn push_result\(&mut self, result: &mut Vec<u8>\) \{\s*if self\.output\.len\(\) \+ result\.len\(\) - self\.last_line_break > '
                  r'self\.max_output_line_length \{(.*?)\}\s*self\.output\.append\(result\);\s*result\.clear\(\);\s*\}', ansi_w, re.S)
    if not m:
        raise ExtractError('push_result: line-length test / shape not found')
    pre, post, seen_llb = [], [], False
    for st in [t.strip() for t in m.group(1).split(';') if t.strip()]:
        m1 = re.fullmatch(r'self\.output\.extend_from_slice\(b"([^"]*)"\)', st)
        m2 = re.fullmatch(r'self\.output\.push\((\d+)\)', st)
        if m1:
            (post if seen_llb else pre).extend(_bytes_lit(m1.group(1)))
        elif m2:
            (post if seen_llb else pre).append(int(m2.group(1)))
        elif st == 'self.last_line_break = self.output.len()' and not seen_llb:
            seen_llb = True
        else:
            raise ExtractError('push_result: unexpected statement ' + st)
    if not seen_llb:
        raise ExtractError('push_result: last_line_break assignment not found')
    out.append(lean_list('ansiSplitPre', pre))
    out.append(lean_list('ansiSplitPost', post))
    if not re.search(r'let max_output_line_length = options\.output_line_length\.unwrap_or\(usize::MAX\);', ansi_w):
        raise ExtractError('max_output_line_length default not found')
    if len(re.findall(r'self\.last_line_break = result\.len\(\);', ansi_w)) != 2:
        raise ExtractError('generate: last_line_break = result.len() sites changed')
    m = re.search(r'if cur_font_page != cell\.font_page && !self\.options\.modern_terminal_output \{\s*cur_font_page = cell\.font_page;\s*'
                  r'result\.extend_from_slice\(b"([^"]*)"\);\s*result\.extend_from_slice\(cur_font_page\.to_string\(\)\.as_bytes\(\)\);\s*'
                  r'result\.extend_from_slice\(b"([^"]*)"\);\s*self\.push_result\(&mut result\);', ansi_w)
    if not m:
        raise ExtractError('generate: font switch not found')
    out.append(lean_list('ansiFontSeqHead', _bytes_lit(m.group(1))))
    out.append(lean_list('ansiFontSeqTail', _bytes_lit(m.group(2))))
    m = re.search(r'for font_slot in used_fonts \{\s*if font_slot >= (\d+) \{', ansi_w)
    if not m:
        raise ExtractError('generate: font upload threshold not found')
    out.append(f'def ansiFontUploadMin : Nat := {int(m.group(1))}\n')
    m = re.search(r'if !options\.modern_terminal_output && result\.starts_with\(&\[([^\]]*)\]\) \{[^}]*?result\.splice\(0\.\.0, \*b"([^"]*)"\);', ansi_w, re.S)
    if not m:
        raise ExtractError('to_bytes: guard against a leading UTF-8 indicator not found')
    out.append(lean_list('ansiBomBytes', [_int(x) for x in m.group(1).split(',') if x.strip()]))
    out.append(lean_list('ansiBomGuard', _bytes_lit(m.group(2))))
    m = re.search(r'if data\.starts_with\(&\[([^\]]*)\]\) \{\s*if let Ok\(result\) = String::from_utf8\(data\.to_vec\(\)\)', fm)
    if not m:
        raise ExtractError('convert_ansi_to_utf8: BOM test not found')
    out.append(lean_list('loaderBomBytes', [_int(x) for x in m.group(1).split(',') if x.strip()]))
    m = re.search(r'if let Some\(skip_lines\) = &self\.options\.skip_lines \{\s*if skip_lines\.contains\(&\(y as usize\)\) \{\s*result\.push\(line\);\s*continue;', ansi_w)
    m2 = re.search(r'if let Some\(skip_lines\) = &self\.options\.skip_lines \{\s*if skip_lines\.contains\(&y\) \{\s*continue;', ansi_w)
    if not (m and m2):
        raise ExtractError('skip_lines handling in generate_cells / generate not found')

    # load sizes: Buffer::new((w, h)) in each load_buffer
    for nm, path in [('Ansi', 'src/formats/ansi.rs'), ('Ascii', 'src/formats/ascii.rs'), ('Pcb', 'src/formats/pcboard.rs'),
                     ('Avatar', 'src/formats/avatar.rs'), ('Ctrla', 'src/formats/ctrla.rs'), ('Renegade', 'src/formats/renegade.rs'),
                     ('Atascii', 'src/formats/atascii.rs')]:
        t = src(path)
        m = re.search(r'fn load_buffer.*?Buffer::new\(\((\d+), (\d+)\)\)', t, re.S)
        if not m:
            raise ExtractError(f'load size of {nm} not found')
        out.append(f'def loadW{nm} : Nat := {int(m.group(1))}\n')
        out.append(f'def loadH{nm} : Nat := {int(m.group(2))}\n')

    # SaveOptions::new() defaults (fingerprint; the harness passes every option explicitly)
    m = re.search(r'pub const fn new\(\) -> Self \{\s*SaveOptions \{(.*?)\}\s*\}', fm, re.S)
    if not m:
        raise ExtractError('SaveOptions::new not found')
    son = json.dumps(re.sub(r'\s+', ' ', m.group(1)).strip())
    out.append(f'def src_save_options_new : String := {son}\n')

    # fingerprints of the writer / parser skeletons (drift shows up as a changed generated file)
    def flat(t):
        return re.sub(r'\s+', ' ', t).strip()
    for nm, path, rx in [
        ('pcboard_to_bytes', 'src/formats/pcboard.rs', r'fn to_bytes\(.*?\n    \}\n'),
        ('renegade_to_bytes', 'src/formats/renegade.rs', r'fn to_bytes\(.*?\n    \}\n'),
        ('ctrla_to_bytes', 'src/formats/ctrla.rs', r'fn to_bytes\(.*?\n    \}\n'),
        ('ascii_to_bytes', 'src/formats/ascii.rs', r'fn to_bytes\(.*?\n    \}\n'),
        ('atascii_to_bytes', 'src/formats/atascii.rs', r'fn to_bytes\(.*?\n    \}\n'),
        ('avatar_to_bytes', 'src/formats/avatar.rs', r'fn to_bytes\(.*?\n    \}\n'),
        ('ansi_get_color', 'src/formats/ansi.rs', r'fn get_color\(.*?\n    \}\n'),
        ('ansi_generate_cells', 'src/formats/ansi.rs', r'fn generate_cells<.*?\n    \}\n'),
        ('ansi_generate', 'src/formats/ansi.rs', r'pub fn generate<.*?\n    \}\n'),
        ('ansi_push_result', 'src/formats/ansi.rs', r'fn push_result\(.*?\n    \}\n'),
        ('ansi_font_map', 'src/formats/ansi.rs', r'fn generate_ansi_font_map\(.*?\n    \}\n'),
        ('ansi_to_bytes', 'src/formats/ansi.rs', r'fn to_bytes\(&self, buf: &crate::Buffer.*?\n    \}\n'),
        ('ansi_font_selection', 'src/parsers/ansi/ansi_commands.rs', r'pub\(crate\) fn font_selection\(.*?\n    \}\n'),
        ('ansi_save_cursor', 'src/parsers/ansi/ansi_commands.rs', r'pub\(crate\) fn save_cursor_position\(.*?\n    \}\n'),
        ('ansi_restore_cursor', 'src/parsers/ansi/ansi_commands.rs', r'pub\(crate\) fn restore_cursor_position\(.*?\n    \}\n'),
        ('convert_ansi_to_utf8', 'src/formats/mod.rs', r'pub fn convert_ansi_to_utf8\(.*?\n\}\n'),
        ('parse_with_parser', 'src/formats/mod.rs', r'pub fn parse_with_parser\(.*?\n\}\n'),
        ('crop_loaded_file', 'src/formats/mod.rs', r'pub\(crate\) fn crop_loaded_file\(.*?\n\}\n'),
        ('print_char', 'src/parsers/mod.rs', r'pub fn print_char\(&mut self, layer.*?\n    \}\n'),
        ('caret_lf', 'src/parsers/mod.rs', r'pub fn lf\(.*?\n    \}\n'),
        ('sgr', 'src/parsers/ansi/ansi_commands.rs', r'pub\(crate\) fn select_graphic_rendition\(.*?\n    \}\n'),
    ]:
        m = re.search(rx, src(path), re.S)
        if not m:
            raise ExtractError(f'skeleton {nm} not found')
        out.append(f'def src_{nm} : String := {json.dumps(flat(m.group(0)))}\n')
    out.append('end IcyVerif.Gen.Art\n')
    return 'Art.lean', ''.join(out)


GENERATORS = {'art': gen_art}
