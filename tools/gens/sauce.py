"""Gen/Sauce.lean: SAUCE constants (lengths, IDs, flag bits, file-type codes), the per-variant arms of the
writer (`Buffer::write_sauce_info`) and of the reader (`SauceData::extract`), the comment-block arithmetic and
the width rule of `Buffer::set_sauce` — copied from src/sauce_mod/mod.rs, src/buffers.rs, src/formats/*.rs"""
import re
from extract import src, HEADER, ExtractError


def _int(t):
    t = t.replace('_', '').strip()
    if t.startswith("b'") and t.endswith("'") and len(t) == 4:
        return ord(t[2])
    if t.startswith('0b'):
        return int(t[2:], 2)
    if t.startswith('0x'):
        return int(t[2:], 16)
    return int(t)


def _need(m, what):
    if not m:
        raise ExtractError(f'SAUCE: {what} not found (source shape changed)')
    return m


def _strip_comments(s):
    return re.sub(r'//[^\n]*', '', s)


def _block(s, start):
    """text between the `{` at/after `start` and its matching `}`; returns (body, end index)"""
    i = s.index('{', start)
    depth = 0
    for j in range(i, len(s)):
        if s[j] == '{':
            depth += 1
        elif s[j] == '}':
            depth -= 1
            if depth == 0:
                return s[i + 1:j], j + 1
    raise ExtractError('SAUCE: unbalanced braces')


def _arms(body, pat):
    """split a match body into (pattern text, arm body) for arms `pat => { … }`"""
    out = []
    pos = 0
    rx = re.compile(r'((?:' + pat + r')(?:\s*\|\s*(?:' + pat + r'))*)\s*=>\s*\{')
    while True:
        m = rx.search(body, pos)
        if not m:
            break
        b, end = _block(body, m.end() - 1)
        out.append((m.group(1), b))
        pos = end
    return out


def _b(x):
    return 'true' if x else 'false'


def gen_sauce():
    s = _strip_comments(src('src/sauce_mod/mod.rs'))
    out = [HEADER, 'namespace IcyVerif.Gen.Sauce\n']

    def const(name):
        m = _need(re.search(r'const ' + name + r': \w+ = ([^;]+);', s), name)
        return _int(m.group(1))

    def ident(name):
        m = _need(re.search(r'const ' + name + r': \[u8; (\d+)\] = \*b"([^"]*)";', s), name)
        if int(m.group(1)) != len(m.group(2)):
            raise ExtractError(f'SAUCE: {name} length')
        return [ord(c) for c in m.group(2)]

    out.append(f'def sauceLen : Nat := {const("SAUCE_LEN")}\n')
    out.append(f'def sauceId : List Nat := {ident("SAUCE_ID")}\n')
    out.append(f'def commentId : List Nat := {ident("SAUCE_COMMENT_ID")}\n')
    m = _need(re.search(r'if b"([^"]*)" != &data\[o\.\.\(o \+ (\d+)\)\]', s), 'version check')
    if len(m.group(1)) != int(m.group(2)):
        raise ExtractError('SAUCE: version slice length')
    ver_r = [ord(c) for c in m.group(1)]
    m = _need(re.search(r"vec\.extend\(SAUCE_ID\);\s*vec\.push\(b'(.)'\);\s*vec\.push\(b'(.)'\);", s), 'version write')
    out.append(f'def versionRead : List Nat := {ver_r}\n')
    out.append(f'def versionWrite : List Nat := {[ord(m.group(1)), ord(m.group(2))]}\n')
    m = _need(re.search(r'vec\.push\((0x[0-9A-Fa-f]+)\);\s*let file_size', s), 'EOF push')
    out.append(f'def eofByte : Nat := {_int(m.group(1))}\n')

    # SauceString<LEN, EMPTY> instances
    for fld, nm in [('title', 'title'), ('author', 'author'), ('group', 'group')]:
        m = _need(re.search(r'pub ' + fld + r": SauceString<(\d+), ([^>]+)>", s), fld)
        m2 = _need(re.search(r'let mut ' + fld + r" = SauceString::<(\d+), ([^>]+)>::new\(\);", s), fld + ' (reader)')
        if (m.group(1), m.group(2)) != (m2.group(1), m2.group(2)):
            raise ExtractError(f'SAUCE: {fld} struct/reader types differ')
        out.append(f'def {nm}Len : Nat := {int(m.group(1))}\ndef {nm}Pad : Nat := {_int(m.group(2))}\n')
    m = _need(re.search(r'pub comments: Vec<SauceString<(\d+), ([^>]+)>>', s), 'comments')
    m2 = _need(re.search(r'let mut comment: SauceString<(\d+), ([^>]+)> = SauceString::new\(\);', s), 'comment (reader)')
    if (m.group(1), m.group(2)) != (m2.group(1), m2.group(2)):
        raise ExtractError('SAUCE: comment struct/reader types differ')
    out.append(f'def commentLen : Nat := {int(m.group(1))}\ndef commentPad : Nat := {_int(m.group(2))}\n')
    m = _need(re.search(r'let mut t_info_str: SauceString<(\d+), ([^>]+)> = SauceString::new\(\);', s), 't_info_str (reader)')
    m2 = _need(re.search(r'let t_info_str: SauceString<(\d+), ([^>]+)> = SauceString::from\(t_info_str\);', s), 't_info_str (writer)')
    if (m.group(1), m.group(2)) != (m2.group(1), m2.group(2)):
        raise ExtractError('SAUCE: t_info_str reader/writer types differ')
    out.append(f'def tinfoLen : Nat := {int(m.group(1))}\ndef tinfoPad : Nat := {_int(m.group(2))}\n')
    # bytes stripped by SauceString::len()
    m = _need(re.search(r'pub fn len\(&self\) -> usize \{(.*?)\n    \}', s, re.S), 'SauceString::len')
    m2 = _need(re.search(r"if ch != (\w+|b'.') && ch != (\w+|b'.') \{", m.group(1)), 'SauceString::len strip set')
    out.append(f'def stripSet : List Nat := {[_int(m2.group(1)), _int(m2.group(2))]}\n')

    # date / file size fields
    m = _need(re.search(r'from_utf8_lossy\(&data\[o\.\.\(o \+ (\d+)\)\]\)\.to_string\(\);\s*date_string', s), 'date slice')
    m2 = _need(re.search(r'assert_eq!\(date_time\.len\(\), (\d+)\);', s), 'date write')
    if m.group(1) != m2.group(1):
        raise ExtractError('SAUCE: date length reader/writer differ')
    out.append(f'def dateLen : Nat := {int(m.group(1))}\n')
    m = _need(re.search(r'o \+= 8;\s*o \+= (\d+);\s*let data_type', s), 'file size skip')
    _need(re.search(r'vec\.extend\(u32::to_le_bytes\(file_size\)\);', s), 'file size write')
    out.append(f'def fileSizeLen : Nat := {int(m.group(1))}\n')

    # flag bits and file type codes
    for c, nm in [('ANSI_FLAG_NON_BLINK_MODE', 'flagNonBlink'), ('ANSI_MASK_LETTER_SPACING', 'maskLetterSpacing'),
                  ('ANSI_LETTER_SPACING_LEGACY', 'lsLegacy'), ('ANSI_LETTER_SPACING_8PX', 'ls8px'),
                  ('ANSI_LETTER_SPACING_9PX', 'ls9px'), ('ANSI_MASK_ASPECT_RATIO', 'maskAspectRatio'),
                  ('ANSI_ASPECT_RATIO_LEGACY', 'arLegacy'), ('ANSI_ASPECT_RATIO_STRETCH', 'arStretch'),
                  ('ANSI_ASPECT_RATIO_SQUARE', 'arSquare')]:
        out.append(f'def {nm} : Nat := {const(c)}\n')
    ftc = {}
    for m in re.finditer(r'const (SAUCE_FILE_TYPE_\w+): u8 = (\d+);', s):
        ftc[m.group(1)] = int(m.group(2))
    if len(ftc) < 6:
        raise ExtractError('SAUCE: file type constants')

    # enums
    m = _need(re.search(r'pub enum SauceDataType \{(.*?)\n\}', s, re.S), 'SauceDataType')
    dt = {a: int(b) for a, b in re.findall(r'(\w+) = (\d+),', m.group(1))}
    m = _need(re.search(r'pub fn from\(b: u8\) -> SauceDataType \{(.*?)\n    \}', s, re.S), 'SauceDataType::from')
    frm = re.findall(r'(\d+) => SauceDataType::(\w+),', m.group(1))
    for n, name in frm:
        if dt.get(name) != int(n):
            raise ExtractError('SAUCE: SauceDataType::from is not the identity on known codes')
    out.append(f'def dataTypeMax : Nat := {max(int(n) for n, _ in frm)}\n')
    m = _need(re.search(r'pub enum SauceFileType \{(.*?)\n\}', s, re.S), 'SauceFileType')
    kinds = [k for k in re.findall(r'(\w+),', m.group(1)) if k != 'default']
    kinds = [k for k in kinds if k[0].isupper()]
    out.append('/-- `SauceFileType` variants in declaration order (index = code used by the model) -/\n')
    out.append('def kindNames : List String := [' + ', '.join(f'"{k}"' for k in kinds) + ']\n')

    # ---- writer arms
    m = _need(re.search(r'match sauce_file_type \{', s), 'writer match')
    body, _ = _block(s, m.end() - 1)
    arms = _arms(body, r'SauceFileType::\w+')
    out.append('/-- one arm of `match sauce_file_type` in `write_sauce_info`: which kinds, data type, file type\n'
               '    (`none` = `(width / 2) as u8`, error above 255), which fields it fills -/\n')
    out.append('structure WArm where\n  kinds : List Nat\n  dataType : Nat\n  fileType : Option Nat\n  w1 : Bool\n  h2 : Bool\n'
               '  ice : Bool\n  ar : Bool\n  ls : Bool\n  font : Bool\n')
    rows = []
    seen = set()
    for pat, b in arms:
        ks = [kinds.index(k) for k in re.findall(r'SauceFileType::(\w+)', pat)]
        seen.update(ks)
        d = _need(re.search(r'data_type = SauceDataType::(\w+);', b), 'writer data_type in ' + pat).group(1)
        fm = _need(re.search(r'file_type = ([^;]+);', b), 'writer file_type in ' + pat).group(1).strip()
        if fm in ftc:
            ft = f'some {ftc[fm]}'
        elif re.fullmatch(r'\d+', fm):
            ft = f'some {int(fm)}'
        elif fm == 'w as u8':
            _need(re.search(r'let w = self\.get_width\(\) / 2;\s*if w > u8::MAX as i32 \{\s*return Err\(SauceError::BinFileWidthLimitExceeded', b), 'bin width rule')
            ft = 'none'
        else:
            raise ExtractError(f'SAUCE: writer file_type expression `{fm}`')
        w1 = 't_info1 = self.get_width();' in b
        h2 = 't_info2 = self.get_height();' in b
        for bad in re.findall(r't_info[12] = [^;]+;', b):
            if bad not in ('t_info1 = self.get_width();', 't_info2 = self.get_height();'):
                raise ExtractError(f'SAUCE: writer `{bad}`')
        ice = bool(re.search(r'if matches!\(self\.ice_mode, IceMode::Ice\) \{ t_flags \|= ANSI_FLAG_NON_BLINK_MODE; \}', b))
        ar = bool(re.search(r'if sauce_data\.use_aspect_ratio \{ t_flags \|= ANSI_ASPECT_RATIO_STRETCH; \}', b))
        ls = bool(re.search(r'if sauce_data\.use_letter_spacing \{ t_flags \|= ANSI_LETTER_SPACING_9PX; \}', b))
        if len(re.findall(r't_flags \|=', b)) != int(ice) + int(ar) + int(ls):
            raise ExtractError('SAUCE: unknown t_flags assignment in writer arm ' + pat)
        font = 't_info_str = String::new();' not in b
        rows.append(f'  {{ kinds := {ks}, dataType := {dt[d]}, fileType := {ft}, w1 := {_b(w1)}, h2 := {_b(h2)}, '
                    f'ice := {_b(ice)}, ar := {_b(ar)}, ls := {_b(ls)}, font := {_b(font)} }}')
    if seen != set(range(len(kinds))):
        raise ExtractError('SAUCE: writer arms do not cover every SauceFileType')
    out.append('def writerArms : List WArm := [\n' + ',\n'.join(rows) + ']\n')
    _need(re.search(r'vec\.push\(data_type as u8\);\s*vec\.push\(file_type\);\s*vec\.extend\(u16::to_le_bytes\(t_info1 as u16\)\);\s*'
                    r'vec\.extend\(u16::to_le_bytes\(t_info2 as u16\)\);\s*vec\.extend\(u16::to_le_bytes\(t_info3\)\);\s*'
                    r'vec\.extend\(u16::to_le_bytes\(t_info4\)\);\s*vec\.push\(comment_len\);\s*vec\.push\(t_flags\);', s),
          'writer record tail order')
    m = _need(re.search(r'if data\.comments\.len\(\) > (\d+) \{\s*return Err\(SauceError::CommentLimitExceeded', s), 'comment limit')
    out.append(f'def commentLimit : Nat := {int(m.group(1))}\n')

    # ---- reader arms
    m = _need(re.search(r'match data_type \{', s), 'reader match')
    body, _ = _block(s, m.end() - 1)
    out.append('/-- one arm of the reader: data type, file type (`none` = any), where the size comes from, what is read -/\n')
    out.append('structure RArm where\n  dataType : Nat\n  fileType : Option Nat\n  kind : Nat\n  sizeInfo : Bool\n  widthFt : Bool\n'
               '  ice : Bool\n  ls : Bool\n  ar : Bool\n  font : Bool\n')

    def rarm(dtn, ft, b):
        k = _need(re.search(r'sauce_file_type = SauceFileType::(\w+);', b), 'reader kind').group(1)
        size_info = 'buffer_size = Size::new(t_info1, t_info2);' in b
        width_ft = 'buffer_size.width = ((file_type as u16) << 1) as i32;' in b
        for bad in re.findall(r'buffer_size(?:\.\w+)? = [^;]+;', b):
            if bad not in ('buffer_size = Size::new(t_info1, t_info2);', 'buffer_size.width = ((file_type as u16) << 1) as i32;'):
                raise ExtractError(f'SAUCE: reader `{bad}`')
        ice = 'use_ice = (t_flags & ANSI_FLAG_NON_BLINK_MODE) == ANSI_FLAG_NON_BLINK_MODE;' in b
        if 'use_ice =' in b and not ice:
            raise ExtractError('SAUCE: reader use_ice expression')
        ls = bool(re.search(r'match t_flags & ANSI_MASK_LETTER_SPACING \{\s*ANSI_LETTER_SPACING_LEGACY \| ANSI_LETTER_SPACING_8PX => \{\s*'
                            r'use_letter_spacing = false;\s*\}\s*ANSI_LETTER_SPACING_9PX => use_letter_spacing = true,\s*_ => \{\}\s*\}', b))
        if 'use_letter_spacing' in b and not ls:
            raise ExtractError('SAUCE: reader letter spacing expression')
        ar = bool(re.search(r'match t_flags & ANSI_MASK_ASPECT_RATIO \{\s*ANSI_ASPECT_RATIO_SQUARE \| ANSI_ASPECT_RATIO_LEGACY => \{\s*'
                            r'use_aspect_ratio = false;\s*\}\s*ANSI_ASPECT_RATIO_STRETCH => use_aspect_ratio = true,\s*_ => \{\}\s*\}', b))
        if 'use_aspect_ratio' in b and not ar:
            raise ExtractError('SAUCE: reader aspect ratio expression')
        font = 'font_opt = Some(t_info_str.to_string());' in b
        if 'font_opt =' in b and not font:
            raise ExtractError('SAUCE: reader font expression')
        return (f'  {{ dataType := {dtn}, fileType := {ft}, kind := {kinds.index(k)}, sizeInfo := {_b(size_info)}, '
                f'widthFt := {_b(width_ft)}, ice := {_b(ice)}, ls := {_b(ls)}, ar := {_b(ar)}, font := {_b(font)} }}')

    rrows = []
    for pat, b in _arms(body, r'SauceDataType::\w+'):
        name = re.search(r'SauceDataType::(\w+)', pat).group(1)
        if 'match file_type {' in b:
            inner, _ = _block(b, b.index('match file_type {'))
            for p2, b2 in _arms(inner, r'SAUCE_FILE_TYPE_\w+'):
                rrows.append(rarm(dt[name], f'some {ftc[p2.strip()]}', b2))
        else:
            rrows.append(rarm(dt[name], 'none', b))
    if len(rrows) < 8:
        raise ExtractError('SAUCE: reader arms')
    out.append('def readerArms : List RArm := [\n' + ',\n'.join(rrows) + ']\n')
    m = _need(re.search(r'let mut buffer_size = Size::new\((\d+), (\d+)\);', s), 'reader default size')
    out.append(f'def readerDefaultWidth : Nat := {int(m.group(1))}\ndef readerDefaultHeight : Nat := {int(m.group(2))}\n')
    _need(re.search(r'let t_info1 = data\[o\] as i32 \+ \(\(data\[o \+ 1\] as i32\) << 8\);\s*o \+= 2;\s*'
                    r'let t_info2 = data\[o\] as i32 \+ \(\(data\[o \+ 1\] as i32\) << 8\);', s), 'reader t_info1/t_info2')

    # ---- comment block arithmetic and the EOF byte
    m = _need(re.search(r'if data\.len\(\) - SAUCE_LEN < num_comments as usize \* (\d+) \+ (\d+) \{\s*return Err\(SauceError::InvalidCommentBlock', s),
              'comment block bound check')
    out.append(f'def checkLine : Nat := {int(m.group(1))}\ndef checkId : Nat := {int(m.group(2))}\n')
    m = _need(re.search(r'let comment_start = \(data\.len\(\) - SAUCE_LEN\) - num_comments as usize \* (\d+) - (\d+);', s), 'comment_start')
    out.append(f'def startLine : Nat := {int(m.group(1))}\ndef startId : Nat := {int(m.group(2))}\n')
    m = _need(re.search(r'if SAUCE_COMMENT_ID != data\[o\.\.\(o \+ (\d+)\)\] \{', s), 'COMNT slice')
    m2 = _need(re.search(r'\.into\(\)\);\s*\}\s*o \+= (\d+);\s*for _ in 0\.\.num_comments', s), 'COMNT skip')
    out.append(f'def commentIdSlice : Nat := {int(m.group(1))}\ndef commentIdSkip : Nat := {int(m2.group(1))}\n')
    m = _need(re.search(r'if SAUCE_ID != data\[o\.\.\(o \+ (\d+)\)\] \{\s*return Ok\(None\);\s*\}\s*o \+= (\d+);', s), 'SAUCE slice')
    out.append(f'def sauceIdSlice : Nat := {int(m.group(1))}\ndef sauceIdSkip : Nat := {int(m.group(2))}\n')
    m = _need(re.search(r'let offset = len\.saturating_sub\((\d+)\);', s), 'EOF byte count (saturating)')
    out.append(f'def eofLen : Nat := {int(m.group(1))}\n')
    _need(re.search(r'sauce_header_len: data\.len\(\) - offset,', s), 'sauce_header_len')

    # ---- Buffer::set_sauce width rule, from_bytes split, loader defaults
    b = _strip_comments(src('src/buffers.rs'))
    m = _need(re.search(r'if size\.width == 0 \|\| size\.width > (\d+) \{\s*size\.width = (\d+);\s*\}', b), 'set_sauce width rule')
    out.append(f'def widthMax : Nat := {int(m.group(1))}\ndef widthFallback : Nat := {int(m.group(2))}\n')
    _need(re.search(r'Ok\(Some\(sauce\)\) => \{\s*len -= sauce\.sauce_header_len;\s*Some\(sauce\)\s*\}', b), 'from_bytes split')
    _need(re.search(r'return fmt\.load_buffer\(file_name, &bytes\[\.\.len\], sauce_data\);', b), 'from_bytes slice')
    # the whole SAUCE skeleton of `Buffer::from_bytes` (Model/Sauce.lean `fromBytesSplit`): `extract` sees the WHOLE file
    # (not a window of it), `len` starts as the file length and is changed by the header length only, every loader call
    # gets `&bytes[..len]` and the record
    m = _need(re.search(r'pub fn from_bytes\(file_name: &Path, _skip_errors: bool, bytes: &\[u8\]\) -> EngineResult<Buffer> \{', b), 'from_bytes signature')
    fb, _ = _block(b, m.end() - 1)
    fbn = re.sub(r'\s+', ' ', fb)
    _need(re.search(r'let mut len = bytes\.len\(\); let sauce_data = match SauceData::extract\(bytes\) \{ '
                    r'Ok\(Some\(sauce\)\) => \{ len -= sauce\.sauce_header_len; Some\(sauce\) \} '
                    r'Ok\(None\) => None, Err\(err\) => \{ log::error!\("Error reading sauce data: \{\}", err\); None \} \};', fbn),
          'from_bytes: extract(bytes) on the whole file / len arithmetic')
    if len(re.findall(r'SauceData::extract\(', fbn)) != 1:
        raise ExtractError('SAUCE: from_bytes calls SauceData::extract more than once')
    if len(re.findall(r'\blen\s*(?:[-+*/%|&^]|<<|>>)?=(?!=)', fbn)) != 2:     # `let mut len =` and `len -=`
        raise ExtractError('SAUCE: from_bytes changes `len` in a way Model/Sauce.lean fromBytesSplit does not follow')
    if re.search(r'let (?:mut )?(?:bytes|sauce_data)\b', fbn.replace('let sauce_data = match SauceData::extract(bytes)', '', 1)):
        raise ExtractError('SAUCE: from_bytes rebinds `bytes`/`sauce_data`')
    calls = re.findall(r'load_buffer\(([^;]*)\);?', fbn)
    if len(calls) != 2 or any(c.strip() != 'file_name, &bytes[..len], sauce_data' for c in calls):
        raise ExtractError(f'SAUCE: from_bytes loader calls {calls} (expected two calls with `&bytes[..len], sauce_data`)')
    out.append('/-- `Buffer::from_bytes` pinned: `SauceData::extract(bytes)` on the whole file, `len -= sauce_header_len` only,\n'
               '    this many `load_buffer(file_name, &bytes[..len], sauce_data)` calls (extension table + Ansi fallback) -/\n')
    out.append(f'def fromBytesLoaderCalls : Nat := {len(calls)}\n')
    rows = []
    for f in ['ansi', 'ascii', 'avatar', 'pcboard', 'bin', 'xbinary', 'tundra', 'artworx', 'ice_draw', 'icy_draw']:
        t = _strip_comments(src(f'src/formats/{f}.rs'))
        e = _need(re.search(r'fn get_file_extension\(&self\) -> &str \{\s*"(\w+)"', t), f'{f} extension').group(1)
        lb = t[t.index('fn load_buffer('):]
        m = _need(re.search(r'Buffer::new\(\((\d+), (\d+)\)\)', lb), f'{f} loader default size')
        sm = re.search(r'result\.set_sauce\(\s*(?:Some\(sauce\)|sauce_opt)\s*,\s*(true|false)\)', lb)
        wm = re.search(r'write_sauce_info\((?:crate::)?SauceFileType::(\w+),', t)
        _need(sm, f'{f} set_sauce')
        _need(wm, f'{f} write_sauce_info')
        rows.append(f'("{e}", {int(m.group(1))}, {int(m.group(2))}, {sm.group(1)}, {kinds.index(wm.group(1))})')
    out.append('/-- (extension, loader default width, default height, resize_to_sauce, SauceFileType index written) -/\n')
    out.append('def loaders : List (String × Nat × Nat × Bool × Nat) := [' + ', '.join(rows) + ']\n')
    out.append('end IcyVerif.Gen.Sauce\n')
    return 'Sauce.lean', ''.join(out)


GENERATORS = {'sauce': gen_sauce}
