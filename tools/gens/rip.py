"""Gen/Rip.lean, Gen/Bgi.lean, Gen/Igs.lean: command tables of the RIPscrip lexer (src/parsers/rip/mod.rs,
commands.rs: per command its letter, level, parse arms = parameter widths, re-serialisation format), constants of
the BGI core (bgi/mod.rs) and the IGS command letters (igs/cmd.rs).  Purely syntactic: every shape the translator
does not recognise is an ExtractError (the check then reports the drift)."""
import re, json
from extract import src, nums, lean_list, HEADER, ExtractError


def lean_str(s):
    out = '"'
    for ch in s:
        o = ord(ch)
        if ch == '"':
            out += '\\"'
        elif ch == '\\':
            out += '\\\\'
        elif o < 32 or o > 126:
            out += '\\x%02x' % o
        else:
            out += ch
    return out + '"'


def rust_char(lit):
    """'x' | '\\x1B' | '\\\\' -> code point"""
    lit = lit.strip()
    m = re.fullmatch(r"'(.*)'", lit)
    if not m:
        raise ExtractError(f'not a char literal: {lit}')
    b = m.group(1)
    if len(b) == 1:
        return ord(b)
    m2 = re.fullmatch(r'\\x([0-9A-Fa-f]{2})', b)
    if m2:
        return int(m2.group(1), 16)
    esc = {'\\n': 10, '\\r': 13, '\\\\': 92, "\\'": 39, '\\t': 9}
    if b in esc:
        return esc[b]
    raise ExtractError(f'char literal {lit}')


def matching_brace(s, i):
    """index of the '}' matching the '{' at s[i]"""
    assert s[i] == '{'
    d = 0
    k = i
    n = len(s)
    while k < n:
        c = s[k]
        if c == '{':
            d += 1
        elif c == '}':
            d -= 1
            if d == 0:
                return k
        elif c == '"':
            k += 1
            while s[k] != '"':
                if s[k] == '\\':
                    k += 1
                k += 1
        elif c == "'" and k + 2 < n and (s[k + 2] == "'" or (s[k + 1] == '\\')):
            # char literal
            k2 = s.index("'", k + 2 if s[k + 1] == '\\' else k + 1)
            k = k2
        elif c == '/' and s[k + 1] == '/':
            k = s.index('\n', k)
        elif c == '/' and s[k + 1] == '*':
            k = s.index('*/', k) + 1
        k += 1
    raise ExtractError('unbalanced braces')


def strip_comments(s):
    s = re.sub(r'/\*.*?\*/', '', s, flags=re.S)
    s = re.sub(r'//[^\n]*', '', s)
    return s


# ------------------------------------------------------------------------------------------------ commands.rs
def parse_struct(body):
    """fields in declaration order: (name, kind) with kind in int|bool|str|char|vec"""
    fields = []
    for m in re.finditer(r'pub (\w+): ([\w<>]+),', body):
        ty = m.group(2)
        kind = {'i32': 'int', 'bool': 'bool', 'String': 'str', 'char': 'char', 'Vec<i32>': 'vec'}.get(ty)
        if kind is None:
            raise ExtractError(f'field type {ty}')
        fields.append((m.group(1), kind))
    return fields


def norm(s):
    return re.sub(r'\s+', ' ', s).strip()


def parse_action(stmts, slots):
    """statements (without the final Ok(..)) -> Act"""
    s = norm(stmts)
    m = re.fullmatch(r'parse_base_36\(&mut self\.(\w+), ch\)\?;', s)
    if m:
        return ('digit', slots['int'][m.group(1)])
    m = re.fullmatch(r"self\.(\w+) = ch == '1';", s)
    if m:
        return ('flag', slots['int'][m.group(1)])
    m = re.fullmatch(r'self\.(\w+)\.push\(ch\);', s)
    if m:
        return ('push', slots['str'][m.group(1)])
    m = re.fullmatch(r'self\.(\w+) = ch;', s)
    if m:
        return ('setc', slots['str'][m.group(1)])
    m = re.fullmatch(r'if \*state % 2 == 0 \{ self\.(\w+)\.push\(0\); \} let mut (\w+) = self\.(\w+)\.pop\(\)\.unwrap\(\); '
                     r'parse_base_36\(&mut (\w+), ch\)\?; self\.(\w+)\.push\((\w+)\);', s)
    if m and m.group(1) == m.group(3) == m.group(5) and m.group(2) == m.group(4) == m.group(6):
        return ('vdigit',)
    m = re.fullmatch(r'self\.(\w+) = ch\.to_digit\(36\)\.unwrap\(\) as i32;', s)
    if m:
        return ('digitUnwrap', slots['int'][m.group(1)])
    raise ExtractError(f'parse action not understood: {s}')


def parse_ret(expr, slots):
    e = norm(expr)
    if e == 'Ok(true)':
        return ('t',)
    if e == 'Ok(false)':
        return ('f',)
    m = re.fullmatch(r'Ok\(\*state < (\d+)\)', e)
    if m:
        return ('lt', int(m.group(1)))
    m = re.fullmatch(r'Ok\(\*state < \(self\.(\w+) \+ 1\) \* 4\)', e)
    if m:
        return ('ltPoly', slots['int'][m.group(1)])
    raise ExtractError(f'parse result not understood: {e}')


def split_block(body, slots):
    """'stmts; Ok(x)' -> (Act, Ret)"""
    b = norm(body)
    m = re.search(r'(Ok\([^;]*\))$', b)
    if not m:
        raise ExtractError(f'arm without final Ok(..): {b}')
    return parse_action(b[:m.start()], slots), parse_ret(m.group(1), slots)


def parse_pattern(p):
    """'0 | 1' | '2' | '2..=5' -> (lo, hi); contiguity is required"""
    p = p.strip()
    m = re.fullmatch(r'(\d+)\.\.=(\d+)', p)
    if m:
        return int(m.group(1)), int(m.group(2))
    parts = [int(x) for x in re.split(r'\s*\|\s*', p)]
    if parts != list(range(parts[0], parts[0] + len(parts))):
        raise ExtractError(f'non-contiguous state pattern {p}')
    return parts[0], parts[-1]


def parse_parse_fn(body, slots):
    """body of fn parse -> (arms [(lo,hi,act,ret)], default (act,ret) | None=Err)"""
    b = strip_comments(body).strip()
    nb = norm(b)
    if nb.startswith('match state {'):
        i = b.index('{')
        j = matching_brace(b, i)
        if norm(b[j + 1:]) != '':
            raise ExtractError('code after match state')
        inner = b[i + 1:j]
        arms = []
        dflt = 'missing'
        k = 0
        while True:
            m = re.compile(r'\s*((?:\d+(?:\.\.=\d+)?(?:\s*\|\s*\d+)*)|_)\s*=>\s*').match(inner, k)
            if not m:
                if inner[k:].strip() == '':
                    break
                raise ExtractError(f'arm syntax: {inner[k:k + 60]!r}')
            pat = m.group(1)
            k = m.end()
            if inner[k] == '{':
                e = matching_brace(inner, k)
                blk = inner[k + 1:e]
                k = e + 1
                if k < len(inner) and inner[k] == ',':
                    k += 1
                res = split_block(blk, slots)
            else:
                e = inner.index(',', k)
                expr = norm(inner[k:e])
                k = e + 1
                if expr == 'Err(anyhow::Error::msg("Invalid state"))':
                    res = None
                else:
                    raise ExtractError(f'arm expression {expr}')
            if pat == '_':
                dflt = res
            else:
                if res is None:
                    raise ExtractError('Err arm with a non-default pattern')
                lo, hi = parse_pattern(pat)
                arms.append((lo, hi, res[0], res[1]))
        if dflt == 'missing':
            raise ExtractError('match state without default arm')
        return arms, dflt
    # if *state == 0 { A } else { B } Ok(true)
    m = re.fullmatch(r'if \*state == 0 \{ (.*?) \} else \{ (.*?) \} (Ok\(true\))', nb)
    if m:
        return [(0, 0, parse_action(m.group(1), slots), ('t',))], (parse_action(m.group(2), slots), ('t',))
    m = re.fullmatch(r'if \(0\.\.=(\d+)\)\.contains\(state\) \{ (.*?) \} else \{ (.*?) \} (Ok\(true\))', nb)
    if m:
        return [(0, int(m.group(1)), parse_action(m.group(2), slots), ('t',))], (parse_action(m.group(3), slots), ('t',))
    m = re.fullmatch(r"if ch == '\$' \{ return Ok\(false\); \} self\.(\w+)\.push\(ch\); Ok\(true\)", nb)
    if m:
        return [], (('dollar', slots['str'][m.group(1)]), ('t',))
    # unconditional body
    return [], split_block(b, slots)


def parse_format(body, slots, fields):
    """body of fn to_rip_string -> [Piece]"""
    b = norm(strip_comments(body))
    m = re.fullmatch(r'"((?:[^"\\]|\\.)*)"\.to_string\(\)', b)
    if m:
        return [('lit', rust_unescape(m.group(1)))]
    m = re.fullmatch(r'format!\( ?"((?:[^"\\]|\\.)*)"(.*?),? ?\)', b)
    if m:
        fmt = rust_unescape(m.group(1))
        args = split_args(m.group(2))
        parts = fmt.split('{}')
        if len(parts) != len(args) + 1:
            raise ExtractError(f'format arity: {b}')
        pieces = []
        for i, a in enumerate(args):
            if parts[i]:
                pieces.append(('lit', parts[i]))
            pieces.append(parse_fmt_arg(a, slots))
        if parts[-1]:
            pieces.append(('lit', parts[-1]))
        return pieces
    m = re.fullmatch(r'let mut res = String::from\("((?:[^"\\]|\\.)*)"\); '
                     r'(res\.push_str\(to_base_36\(2, self\.(\w+)\.len\(\) as i32 / 2\)\.as_str\(\)\); )?'
                     r'for (\w+) in &self\.(\w+) \{ res\.push_str\(to_base_36\(2, \*(\w+)\)\.as_str\(\)\); \} res', b)
    if m:
        pieces = [('lit', rust_unescape(m.group(1)))]
        if m.group(2):
            pieces.append(('vecHalfLen',))
        pieces.append(('vec',))
        return pieces
    raise ExtractError(f'to_rip_string not understood: {b[:120]}')


def rust_unescape(s):
    out = ''
    i = 0
    while i < len(s):
        if s[i] == '\\':
            if s[i + 1] == 'x':
                out += chr(int(s[i + 2:i + 4], 16))
                i += 4
                continue
            out += {'n': '\n', 'r': '\r', '\\': '\\', '"': '"', '0': '\0', 't': '\t'}[s[i + 1]]
            i += 2
            continue
        out += s[i]
        i += 1
    return out


def split_args(s):
    s = s.strip()
    if s.startswith(','):
        s = s[1:]
    args, d, cur = [], 0, ''
    for ch in s:
        if ch == '(':
            d += 1
        elif ch == ')':
            d -= 1
        if ch == ',' and d == 0:
            args.append(cur.strip())
            cur = ''
        else:
            cur += ch
    if cur.strip():
        args.append(cur.strip())
    return args


def parse_fmt_arg(a, slots):
    m = re.fullmatch(r'to_base_36\((\d+), self\.(\w+)\)', a)
    if m:
        return ('b36', int(m.group(1)), slots['int'][m.group(2)])
    m = re.fullmatch(r'i32::from\(self\.(\w+)\)', a)
    if m:
        return ('boolf', slots['int'][m.group(1)])
    m = re.fullmatch(r'self\.(\w+)', a)
    if m and m.group(1) in slots['str']:
        return ('str', slots['str'][m.group(1)])
    raise ExtractError(f'format argument {a}')


def commands():
    s = src('src/parsers/rip/commands.rs')
    res = {}
    for m in re.finditer(r'pub struct (\w+) \{(.*?)\n\}\n', s, re.S):
        name, body = m.group(1), m.group(2)
        im = re.search(r'impl Command for ' + name + r' \{', s)
        if not im:
            continue
        i = s.index('{', im.start())
        j = matching_brace(s, i)
        impl = s[i + 1:j]
        fields = parse_struct(body)
        slots = {'int': {}, 'str': {}, 'vec': {}}
        char_slots = []
        for fname, kind in fields:
            if kind == 'char':
                char_slots.append(len(slots['str']))
            if kind in ('int', 'bool'):
                slots['int'][fname] = len(slots['int'])
            elif kind in ('str', 'char'):
                slots['str'][fname] = len(slots['str'])
            else:
                slots['vec'][fname] = len(slots['vec'])
        if len(slots['vec']) > 1:
            raise ExtractError(f'{name}: more than one vector field')
        pm = re.search(r'fn parse\(&mut self, _?state: &mut i32, ch: char\) -> EngineResult<bool> \{', impl)
        if pm:
            pi = impl.index('{', pm.end() - 1)
            pj = matching_brace(impl, pi)
            arms, dflt = parse_parse_fn(impl[pi + 1:pj], slots)
        else:
            arms, dflt = [], None      # trait default: Err("Invalid state")
        fm = re.search(r'fn to_rip_string\(&self\) -> String \{', impl)
        if not fm:
            raise ExtractError(f'{name}: no to_rip_string')
        fi = impl.index('{', fm.end() - 1)
        fj = matching_brace(impl, fi)
        fmt = parse_format(impl[fi + 1:fj], slots, fields)
        has_run = re.search(r'fn run\(&self', impl) is not None
        res[name] = dict(name=name, nints=len(slots['int']), nstrs=len(slots['str']), chars=char_slots, arms=arms, dflt=dflt, fmt=fmt,
                         has_run=has_run, has_parse=pm is not None)
    return res


# ------------------------------------------------------------------------------------------------ mod.rs dispatch
def dispatch():
    s = src('src/parsers/rip/mod.rs')
    a = s.index('State::ReadCommand(level) =>')
    b = s.index('State::GotRipStart =>', a)
    blk = s[a:b]
    i1 = blk.index('if level == 1 {')
    i9 = blk.index('if level == 9 {')
    e1 = matching_brace(blk, blk.index('{', i1))
    e9 = matching_brace(blk, blk.index('{', i9))
    lvl1, lvl9, lvl0 = blk[i1:e1], blk[i9:e9], blk[e9:]
    out = []

    def arms(text, level):
        for m in re.finditer(r"('(?:\\x[0-9A-Fa-f]{2}|\\?.)') => (return self\.push_command\(buf, caret, |self\.start_command\()Box::<commands::(\w+)>::default\(\)\)", text):
            out.append((level, rust_char(m.group(1)), 'push' if 'push_command' in m.group(2) else 'start', m.group(3)))
    arms(lvl1, 1)
    arms(lvl0, 0)
    m = re.search(r"if let ('(?:\\x[0-9A-Fa-f]{2}|\\?.)') = ch \{\s*self\.start_command\(Box::<commands::(\w+)>::default\(\)\);", lvl9)
    if not m:
        raise ExtractError('level 9 block not understood')
    out.append((9, rust_char(m.group(1)), 'start', m.group(2)))
    switches = [(rust_char(m.group(1)), int(m.group(2))) for m in re.finditer(r"('.') => \{\s*self\.state = State::ReadCommand\((\d+)\);", lvl0)]
    m = re.search(r"('.') => \{\s*// RIP_NO_MORE\s*self\.state = State::EndRip;", lvl0)
    if not m:
        raise ExtractError('EndRip arm not found')
    end_rip = rust_char(m.group(1))
    n_arms = len(re.findall(r"'(?:\\x[0-9A-Fa-f]{2}|\\?.)' =>", lvl1)) + len(re.findall(r"'(?:\\x[0-9A-Fa-f]{2}|\\?.)' =>", lvl0))
    if n_arms != len([o for o in out if o[0] != 9]) + len(switches) + 1:
        raise ExtractError(f'ReadCommand: {n_arms} char arms in the source, {len(out) - 1}+{len(switches)}+1 understood')
    return out, switches, end_rip


def act_lean(a):
    if a[0] == 'vdigit':
        return '.vdigit'
    return f'.{a[0]} {a[1]}'


def ret_lean(r):
    if r[0] in ('t', 'f'):
        return '.' + r[0]
    return f'.{r[0]} {r[1]}'


def piece_lean(p):
    if p[0] == 'lit':
        return f'.lit {lean_str(p[1])}'
    if p[0] == 'b36':
        return f'.b36 {p[1]} {p[2]}'
    if p[0] in ('vec', 'vecHalfLen'):
        return '.' + p[0]
    return f'.{p[0]} {p[1]}'


def gen_rip():
    cmds = commands()
    disp, switches, end_rip = dispatch()
    used = []
    for lv, ch, kind, name in disp:
        if name not in cmds:
            raise ExtractError(f'command {name} not found in commands.rs')
        if name not in used:
            used.append(name)
    s = src('src/parsers/rip/mod.rs')
    m = re.search(r'fn parse_base_36\(number: &mut i32, ch: char\) -> EngineResult<\(\)> \{(.*?)\n\}', s, re.S)
    if not m:
        raise ExtractError('parse_base_36 not found')
    pb = norm(m.group(1))
    checked = 'checked_mul(36)' in pb and 'checked_add(digit as i32)' in pb
    plain = '*number = *number * 36 + digit as i32;' in pb
    if not (checked or plain) or 'ch.to_digit(36)' not in pb:
        raise ExtractError('parse_base_36 body not understood')
    out = [HEADER, 'import IcyVerif.Model.RipSpec\nnamespace IcyVerif.Gen.Rip\nopen IcyVerif.RipSpec\n\n']
    out.append(f'/-- `parse_base_36` uses checked arithmetic (returns an error instead of overflowing i32) -/\n'
               f'def base36Checked : Bool := {"true" if checked else "false"}\n\n')
    for idx, name in enumerate(used):
        c = cmds[name]
        arms = ', '.join(f'⟨{lo}, {hi}, {act_lean(a)}, {ret_lean(r)}⟩' for lo, hi, a, r in c['arms'])
        d = 'none' if c['dflt'] is None else f'some ({act_lean(c["dflt"][0])}, {ret_lean(c["dflt"][1])})'
        fmt = ', '.join(piece_lean(p) for p in c['fmt'])
        out.append(f'def cmd{name} : CmdSpec := ⟨{lean_str(name)}, {c["nints"]}, {c["nstrs"]}, {c["chars"]}, [{arms}], {d}, [{fmt}]⟩\n')
    out.append('\n/-- command specifications in dispatch order; `Dispatch.cmd` indexes this list -/\n')
    out.append('def cmds : List CmdSpec := [' + ', '.join('cmd' + n for n in used) + ']\n\n')
    out.append('/-- (level, character code, run immediately?, index into `cmds`) for every command letter of State::ReadCommand -/\n')
    out.append('def dispatch : List Dispatch := [' + ', '.join(
        f'⟨{lv}, {ch}, {"true" if kind == "push" else "false"}, {used.index(name)}⟩' for lv, ch, kind, name in disp) + ']\n\n')
    out.append('/-- level-0 characters that switch to another command level -/\n')
    out.append('def levelSwitch : List (Nat × Nat) := [' + ', '.join(f'({c}, {l})' for c, l in switches) + ']\n')
    out.append(f'def endRipChar : Nat := {end_rip}\n')
    for nm in ('TextWindow', 'ResetWindows'):
        out.append(f'def idx{nm} : Nat := {used.index(nm)}\n')
    out.append('end IcyVerif.Gen.Rip\n')
    return 'Rip.lean', ''.join(out)


# ------------------------------------------------------------------------------------------------ bgi constants
def gen_bgi():
    s = src('src/parsers/rip/bgi/mod.rs')
    m = re.search(r'const SCREEN_SIZE: Size = Size \{ width: (\d+), height: (\d+) \};', s)
    if not m:
        raise ExtractError('SCREEN_SIZE')
    w, h = int(m.group(1)), int(m.group(2))
    m = re.search(r'DEFAULT_FILL_PATTERNS: \[\[u8; 8\]; 13\] = \[(.*?)\n    \];', s, re.S)
    if not m:
        raise ExtractError('DEFAULT_FILL_PATTERNS')
    pats = nums(strip_comments(m.group(1)))
    if len(pats) != 104:
        raise ExtractError(f'DEFAULT_FILL_PATTERNS has {len(pats)} numbers')
    m = re.search(r'const LINE_PATTERNS: \[u32; 5\] = \[(.*?)\];', s, re.S)
    if not m:
        raise ExtractError('LINE_PATTERNS')
    lps = nums(strip_comments(m.group(1)))
    m = re.search(r'const DEFAULT_USER_PATTERN: \[u8; 8\] = \[(.*?)\];', s)
    up = nums(m.group(1))
    m = re.search(r'screen: vec!\[0; \(SCREEN_SIZE\.width \* SCREEN_SIZE\.height\) as usize\]', s)
    if not m:
        raise ExtractError('Bgi::new screen allocation changed')
    # enum orders (discriminants used by `self as usize` / `as u8`)
    def enum_variants(name):
        mm = re.search(r'pub enum ' + name + r' \{(.*?)\}', s, re.S)
        return [v.strip() for v in strip_comments(mm.group(1)).split(',') if v.strip()]
    fs = enum_variants('FillStyle')
    wm = enum_variants('WriteMode')
    ls = enum_variants('LineStyle')
    # from(u8) tables
    def from_table(name, variants):
        mm = re.search(r'pub fn from\(\w+: u8\) -> ' + name + r' \{\s*match \w+ \{(.*?)\n        \}', s, re.S)
        tab = {}
        dflt = None
        for am in re.finditer(r'(\d+|_) => ' + name + r'::(\w+),', strip_comments(mm.group(1))):
            if am.group(1) == '_':
                dflt = variants.index(am.group(2))
            else:
                tab[int(am.group(1))] = variants.index(am.group(2))
        return tab, dflt
    fs_tab, fs_d = from_table('FillStyle', fs)
    wm_tab, wm_d = from_table('WriteMode', wm)
    ls_tab, ls_d = from_table('LineStyle', ls)
    p = src('src/palette_handling.rs')
    m = re.search(r'pub const EGA_PALETTE: \[Color; (\d+)\]', p)
    ega = int(m.group(1))
    m = re.search(r'pub const DOS_DEFAULT_PALETTE: \[Color; (\d+)\]', p)
    dos = int(m.group(1))
    out = [HEADER, 'namespace IcyVerif.Gen.Bgi\n']
    out.append(f'def screenW : Nat := {w}\ndef screenH : Nat := {h}\n')
    out.append(lean_list('fillPatternsFlat', pats))
    out.append(lean_list('linePatterns', lps))
    out.append(lean_list('defaultUserPattern', up))
    out.append(f'def egaPaletteLen : Nat := {ega}\ndef dosPaletteLen : Nat := {dos}\n')
    out.append(f'def fillStyleCount : Nat := {len(fs)}\ndef fillStyleUser : Nat := {fs.index("User")}\ndef fillStyleSolid : Nat := {fs.index("Solid")}\ndef fillStyleEmpty : Nat := {fs.index("Empty")}\n')
    def tab(name, t, d):
        return f'def {name} : List (Nat × Nat) := [' + ', '.join(f'({k}, {v})' for k, v in sorted(t.items())) + f']\ndef {name}Default : Nat := {d}\n'
    out.append(tab('fillStyleFrom', fs_tab, fs_d))
    out.append(tab('writeModeFrom', wm_tab, wm_d))
    out.append(tab('lineStyleFrom', ls_tab, ls_d))
    out.append(f'def writeModes : List String := [' + ', '.join(json.dumps(v) for v in wm) + ']\n')
    out.append(f'def lineStyleUser : Nat := {ls.index("User")}\n')
    out.append('end IcyVerif.Gen.Bgi\n')
    return 'Bgi.lean', ''.join(out)


# ------------------------------------------------------------------------------------------------ igs letters
def gen_igs():
    s = src('src/parsers/igs/cmd.rs')
    m = re.search(r'pub enum IgsCommands \{(.*?)\n\}', s, re.S)
    variants = [v.strip() for v in strip_comments(re.sub(r'///[^\n]*', '', m.group(1))).split(',') if v.strip()]
    m = re.search(r'pub fn from_char\(ch: char\) -> EngineResult<Self> \{(.*?)\n    \}', s, re.S)
    tab = [(rust_char(a.group(1)), variants.index(a.group(2))) for a in re.finditer(r"('(?:\\?.)') => IgsCommands::(\w+),", m.group(1))]
    if len(tab) < 40:
        raise ExtractError('IgsCommands::from_char table too small')
    ms = src('src/parsers/igs/mod.rs')
    m = re.search(r'pub fn parse_next_number\(x: i32, ch: u8\) -> i32 \{\s*x\.saturating_mul\(10\)\.saturating_add\(ch as i32\)\.saturating_sub\(b\'0\' as i32\)\s*\}', ms)
    if not m:
        raise ExtractError('igs parse_next_number changed')
    # the loop sub-machine starts from `LoopState::Start` at EVERY `&` (the invariant IGood of the lexer model relies on it:
    # a loop abandoned in its count field leaves the sub-state behind), and nothing else assigns `LoopState::Start`
    m = re.search(r"'&' => \{\s*self\.state = State::ReadCommand\(IgsCommands::LoopCommand\);\s*self\.loop_state = LoopState::Start;\s*Ok\(CallbackAction::NoUpdate\)\s*\}", ms)
    if not m:
        raise ExtractError('igs loop start changed (the `&` arm no longer sets ReadCommand(LoopCommand) and loop_state = LoopState::Start)')
    body = ms[ms.index('fn print_char('):]
    if len(re.findall(r'self\.loop_state = LoopState::Start', body)) != 1:
        raise ExtractError('igs: loop_state = LoopState::Start is assigned somewhere else than the `&` arm')
    out = [HEADER, 'namespace IcyVerif.Gen.Igs\n']
    out.append('/-- IgsCommands variants in declaration order (Debug names) -/\n')
    out.append('def commandNames : List String := [' + ', '.join(json.dumps(v) for v in variants) + ']\n')
    out.append('/-- (character code, variant index) of IgsCommands::from_char -/\n')
    out.append('def fromChar : List (Nat × Nat) := [' + ', '.join(f'({c}, {i})' for c, i in tab) + ']\n')
    out.append(f'def idxWriteText : Nat := {variants.index("WriteText")}\ndef idxLoopCommand : Nat := {variants.index("LoopCommand")}\n')
    out.append('def loopChar : Nat := 38\n')
    out.append('end IcyVerif.Gen.Igs\n')
    return 'Igs.lean', ''.join(out)


GENERATORS = {'rip': gen_rip, 'bgi': gen_bgi, 'igs': gen_igs}
