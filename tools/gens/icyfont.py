"""Gen/IcyFont.lean: what the FONT_n codec of the native IcyDraw format relies on in src/fonts.rs and
src/formats/icy_draw.rs — the PSF2 magic and version bound, the header fields `to_psf2_bytes` writes (in order), the
header fields `load_psf2` reads (name, byte range), the consistency guard, which header fields become the font's
`size`, `length` and the glyph row count, and the two call sites in icy_draw.rs.  Shapes the model copies are emitted as
strings and compared with the expected ones by `IcyVerif.C07.psf2_source_shape`; a shape that is gone makes the
translation fail."""
import re, json
from extract import src, HEADER, ExtractError


def _norm(t):
    return re.sub(r'\s+', ' ', t).strip()


def _fn(s, sig):
    """text of the function starting at `sig` up to the next `\n    }` (4-space indented method end)"""
    i = s.find(sig)
    if i < 0:
        raise ExtractError(f'{sig} not found')
    j = s.find('\n    }\n', i)
    if j < 0:
        raise ExtractError(f'end of {sig} not found')
    return s[i:j]


def _lstr(xs):
    return '[' + ', '.join(json.dumps(x) for x in xs) + ']'


def gen_icyfont():
    f = src('src/fonts.rs')
    s = src('src/formats/icy_draw.rs')
    out = [HEADER, 'namespace IcyVerif.Gen.IcyFont\n']
    m = re.search(r'const PSF2_MAGIC: u32 = (0x[0-9a-fA-F_]+);', f)
    if not m:
        raise ExtractError('PSF2_MAGIC not found')
    out.append(f'def psf2MagicSrc : Nat := {int(m.group(1).replace("_", ""), 16)}\n')
    m = re.search(r'const PSF2_MAXVERSION: u32 = (0x[0-9a-fA-F_]+|\d+);', f)
    if not m:
        raise ExtractError('PSF2_MAXVERSION not found')
    out.append(f'def psf2MaxVersionSrc : Nat := {int(m.group(1).replace("_", ""), 0)}\n')

    # ---- writer
    w = re.sub(r'//[^\n]*', '', _fn(f, 'pub fn to_psf2_bytes(&self)'))
    fields = re.findall(r'data\.extend\(u32::to_le_bytes\((.*?)\)\);', w)
    out.append('/-- the eight u32 header fields `to_psf2_bytes` writes, in order -/\n')
    out.append(f'def psf2WriterFields : List String := {_lstr([_norm(x) for x in fields])}\n')
    m = re.search(r'for i in 0\.\.self\.length \{\s*let Some\(glyph\) = char::from_u32\(i as u32\)\.and_then\(\|ch\| self\.get_glyph\(ch\)\) else \{\s*'
                  r'return Err\(FontError::FontNotFound\.into\(\)\);\s*\};\s*data\.extend\(&glyph\.data\);\s*\}', w)
    if not m:
        raise ExtractError('glyph loop of to_psf2_bytes changed shape')
    others = [x for x in re.findall(r'data\.(?:extend|push|extend_from_slice)\(', w)]
    if len(others) != len(fields) + 1:
        raise ExtractError('to_psf2_bytes writes something besides the eight header fields and the glyph rows')

    # ---- loader
    l = re.sub(r'//[^\n]*', '', _fn(f, 'fn load_psf2('))
    rd = re.findall(r'let (\w+) = u32::from_le_bytes\(data\[(\d+)\.\.(\d+)\]\.try_into\(\)\.unwrap\(\)\)( as \w+)?;', l)
    out.append('/-- the header fields `load_psf2` reads: (name, from, to, cast) -/\n')
    out.append('def psf2LoaderFields : List (String × Nat × Nat × String) := [' +
               ', '.join(f'({json.dumps(n)}, {a}, {b}, {json.dumps(c.strip())})' for n, a, b, c in rd) + ']\n')
    m = re.search(r'if data\.len\(\) < (\d+) \{', l)
    if not m:
        raise ExtractError('length check of load_psf2 not found')
    out.append(f'def psf2MinLength : Nat := {m.group(1)}\n')
    m = re.search(r'let expected = (.*?);\s*if (.*?) \{\s*return Err\(FontError::LengthMismatch', l, re.S)
    if not m:
        raise ExtractError('consistency guard of load_psf2 not found')
    out.append(f'def psf2Expected : String := {json.dumps(_norm(m.group(1)))}\n')
    out.append(f'def psf2Guard : String := {json.dumps(_norm(m.group(2)))}\n')
    m = re.search(r'let mut r = BitFont \{(.*?)\};', l, re.S)
    if not m:
        raise ExtractError('BitFont literal of load_psf2 not found')
    lit = m.group(1)
    g = lambda pat, what: (re.search(pat, lit) or (_ for _ in ()).throw(ExtractError(f'load_psf2: {what} not found')))
    sz = g(r'size: \((\w+), (\w+)\)\.into\(\),', 'size field')
    out.append('/-- which header fields become `size.width`, `size.height` -/\n')
    out.append(f'def psf2LoaderSize : String × String := ({json.dumps(sz.group(1))}, {json.dumps(sz.group(2))})\n')
    ln = g(r'\n\s*length,', 'length field')
    gl = g(r'glyphs: glyphs_from_u8_data\((.*?), &data\[(\w+)\.\.\]\),', 'glyphs field')
    out.append('/-- (row count handed to `glyphs_from_u8_data`, start of the glyph data) -/\n')
    out.append(f'def psf2LoaderGlyphs : String × String := ({json.dumps(_norm(gl.group(1)))}, {json.dumps(gl.group(2))})\n')

    # ---- from_bytes dispatch
    fb = _fn(f, 'pub fn from_bytes(font_name')
    order = re.findall(r'return (?:Ok\()?BitFont::(load_psf1|load_psf2)\(font_name, data\)', fb)
    tail = re.search(r'BitFont::load_plain_font\(font_name, data\)\s*$', fb.strip())
    if order != ['load_psf1', 'load_psf2'] or not tail:
        raise ExtractError('from_bytes no longer sniffs PSF1, PSF2, raw in this order')

    # ---- create_8 (how a custom font of any width enters a document)
    c8 = _fn(f, 'pub fn create_8(')
    m = re.search(r'size: \((\w+), (\w+)\)\.into\(\),\s*length: (\d+),.*?glyphs: glyphs_from_u8_data\((\w+) as usize, data\),', c8, re.S)
    if not m:
        raise ExtractError('create_8 changed shape')
    out.append(f'def create8Shape : List String := {_lstr(list(m.groups()))}\n')

    # ---- the two call sites of the FONT_n chunk
    if not re.search(r'for \(k, v\) in buf\.font_iter\(\) \{\s*let mut font_data: Vec<u8> = Vec::new\(\);\s*'
                     r'write_utf8_encoded_string\(&mut font_data, &v\.name\);\s*font_data\.extend\(v\.to_psf2_bytes\(\)\.unwrap\(\)\);', s):
        raise ExtractError('FONT_n writer of icy_draw.rs changed shape')
    if not re.search(r'let \(font_name, size\) = read_utf8_encoded_string\(&bytes\[o\.\.\]\)\?;\s*o \+= size;\s*'
                     r'let font = BitFont::from_bytes\(font_name, &bytes\[o\.\.\]\)\?;\s*result\.set_font\(font_slot, font\);', s):
        raise ExtractError('FONT_n reader of icy_draw.rs changed shape')
    out.append('end IcyVerif.Gen.IcyFont\n')
    return 'IcyFont.lean', ''.join(out)


GENERATORS = {'icyfont': gen_icyfont}
