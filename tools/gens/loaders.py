"""Gen/Loaders.lean: constants of the binary loaders (magic numbers, header sizes, flag bits, limits), the
extension table of `FORMATS`, and VARIANT FLAGS that say which of two known spellings a site has in the tree
being checked (so that the model follows fixes owned by other properties: SAUCE `len - 1` vs `saturating_sub`,
`from_u32_unchecked` vs checked conversion, `lines.clear()` after `Buffer::new`)."""
import re
from extract import src, HEADER, ExtractError


def _int(t):
    t = t.strip().replace('_', '')
    if t.startswith('0b'):
        return int(t[2:], 2)
    if t.startswith('0x'):
        return int(t[2:], 16)
    return int(t)


def _expr(e):
    """tiny constant-expression evaluator: sums/products of integer literals"""
    e = e.strip()
    if not re.fullmatch(r'[0-9xXa-fA-F_ +*()]+', e):
        raise ExtractError(f'constant expression not understood: {e}')
    e = re.sub(r'0x[0-9a-fA-F_]+|\d[\d_]*', lambda m: str(_int(m.group(0))), e)
    return int(eval(e, {'__builtins__': {}}))  # digits, + * ( ) only


def _const(s, name, ty=r'\w+'):
    m = re.search(r'const ' + name + r': ' + ty + r' = ([^;]+);', s)
    if not m:
        raise ExtractError(f'const {name} not found')
    return m.group(1).strip()


def _bytes_lit(e):
    """b"..." / *b"..." literal -> list of byte values"""
    m = re.search(r'b"((?:[^"\\]|\\.)*)"', e)
    if not m:
        raise ExtractError(f'byte literal not understood: {e}')
    t = m.group(1)
    out, i = [], 0
    while i < len(t):
        if t[i] == '\\':
            if t[i + 1] == 'x':
                out.append(int(t[i + 2:i + 4], 16))
                i += 4
            else:
                out.append({'n': 10, 'r': 13, 't': 9, '0': 0, '\\': 92, '"': 34}[t[i + 1]])
                i += 2
        else:
            out.append(ord(t[i]))
            i += 1
    return out


def _load_fn(s, what):
    m = re.search(r'fn load_buffer\(.*?\n    \}\n', s, re.S)
    if not m:
        raise ExtractError(f'{what}: load_buffer not found')
    return m.group(0)


def _need(cond, msg):
    if not cond:
        raise ExtractError(msg)


def gen_loaders():
    out = [HEADER, 'namespace IcyVerif.Gen.Loaders\n']

    def d(name, val, ty='Nat'):
        out.append(f'def {name} : {ty} := {val}\n')

    def lst(name, vals):
        out.append(f'def {name} : List Nat := [' + ', '.join(map(str, vals)) + ']\n')

    def flag(name, val):
        d(name, 'true' if val else 'false', 'Bool')

    # ---------------------------------------------------------------- XBin (beyond Gen/Xb.lean)
    s = src('src/formats/xbinary.rs')
    lb = _load_fn(s, 'xbinary')
    lst('xbId', _bytes_lit(re.search(r'if (b"[^"]*") != &data\[0\.\.4\]', lb).group(1)))
    m = re.search(r'if !\((\d+)\.\.=(\d+)\)\.contains\(&width\)', lb)
    _need(m, 'xbinary: width range check not found')
    d('xbMinWidth', int(m.group(1)))
    d('xbMaxWidth', int(m.group(2)))
    m = re.search(r'if font_size == 0 \{\s*font_size = (\d+);\s*\}\s*if font_size > (\d+) \{', lb)
    _need(m, 'xbinary: font size defaults not found')
    d('xbDefaultFontSize', int(m.group(1)))
    d('xbMaxFontSize', int(m.group(2)))
    m = re.search(r'Buffer::new\(\((\d+), (\d+)\)\)', lb)
    d('xbInitW', int(m.group(1)))
    d('xbInitH', int(m.group(2)))
    flag('xbLinesCleared', 'result.layers[0].lines.clear();' in lb)
    _need('if data.len() < o + XBIN_PALETTE_LENGTH' in lb and 'if data.len() < o + font_length * if extended_char_mode { 2 } else { 1 }' in lb,
          'xbinary: palette/font length guards not found (model follows the repaired loader)')
    _need(re.search(r'if extended_char_mode && !has_custom_font \{\s*return Err\(', lb),
          'xbinary: 512 character mode without a font block is no longer rejected (C05 repair; the model follows it)')
    rc = re.search(r'fn read_data_compressed\(.*?\n\}\n', s, re.S).group(0)
    ru = re.search(r'fn read_data_uncompressed\(.*?\n\}\n', s, re.S).group(0)
    _need('while o < bytes.len() && pos.y < result.get_height()' in rc and 'while o < bytes.len() && pos.y < result.get_height()' in ru,
          'xbinary: readers no longer stop at the declared height')
    _need(rc.count('if o >= bytes.len() {') == 3, 'xbinary: run-header EOF guards of read_data_compressed changed')

    # ---------------------------------------------------------------- BIN
    s = src('src/formats/bin.rs')
    lb = _load_fn(s, 'bin')
    m = re.search(r'Buffer::new\(\((\d+), (\d+)\)\)', lb)
    d('binInitW', int(m.group(1)))
    d('binInitH', int(m.group(2)))
    flag('binLinesCleared', 'result.layers[0].lines.clear();' in lb)
    _need('if o >= data.len() {' in lb and 'if o + 1 >= data.len() {' in lb, 'bin: end-of-data checks changed')

    # ---------------------------------------------------------------- ADF
    s = src('src/formats/artworx.rs')
    lb = _load_fn(s, 'artworx')
    d('adfHeaderLength', _expr(_const(s, 'HEADER_LENGTH')))
    d('adfVersion', _int(_const(s, 'VERSION')))
    m = re.search(r'let palette_size = ([^;]+);', lb)
    d('adfPaletteSize', _expr(m.group(1)))
    m = re.search(r'let font_size = ([^;]+);', lb)
    d('adfFontSize', _expr(m.group(1)))
    m = re.search(r'result\.set_width\((\d+)\);', lb)
    d('adfWidth', int(m.group(1)))
    flag('adfLinesCleared', 'result.layers[0].lines.clear();' in lb)
    _need('if file_size < HEADER_LENGTH' in lb and 'if o + 2 > file_size' in lb, 'artworx: length checks changed')

    # ---------------------------------------------------------------- IDF
    s = src('src/formats/ice_draw.rs')
    lb = _load_fn(s, 'ice_draw')
    d('idfHeaderSize', _expr(_const(s, 'HEADER_SIZE')))
    d('idfFontSize', _expr(_const(s, 'FONT_SIZE')))
    d('idfPaletteSize', _expr(_const(s, 'PALETTE_SIZE')))
    lst('idfV13', _bytes_lit(_const(s, 'IDF_V1_3_HEADER', r'&\[u8\]')))
    lst('idfV14', _bytes_lit(_const(s, 'IDF_V1_4_HEADER', r'&\[u8\]')))
    flag('idfLinesCleared', 'result.layers[0].lines.clear();' in lb)
    flag('idfResizeToSauce', bool(re.search(r'set_sauce\(\w+, true\)', lb)))
    _need('if pos.y > u16::MAX as i32 {' in lb, 'ice_draw: row bound of the RLE loop not found (model follows the repaired loader)')
    _need('if data.len() < HEADER_SIZE + FONT_SIZE + PALETTE_SIZE' in lb, 'ice_draw: length check changed')

    # ---------------------------------------------------------------- Tundra
    s = src('src/formats/tundra.rs')
    lb = _load_fn(s, 'tundra')
    lst('tndHeader', _bytes_lit(_const(s, 'TUNDRA_HEADER', r'&\[u8\]')))
    d('tndPosition', _int(_const(s, 'TUNDRA_POSITION')))
    d('tndColorFg', _int(_const(s, 'TUNDRA_COLOR_FOREGROUND')))
    d('tndColorBg', _int(_const(s, 'TUNDRA_COLOR_BACKGROUND')))
    m = re.search(r'if cmd > (\d+) && cmd <= (\d+) \{', lb)
    _need(m, 'tundra: colour command range not found')
    d('tndCmdLo', int(m.group(1)))
    d('tndCmdHi', int(m.group(2)))
    _need('if pos.y >= (u16::MAX) as i32' in lb, 'tundra: jump bound changed')
    flag('tndLinesCleared', 'result.layers[0].lines.clear();' in lb)
    _need(lb.count('LoadingError::FileTooShort') == 5, 'tundra: operand length guards changed (model follows the repaired loader)')
    m = re.search(r'let sauce_width = sauce_opt\.as_ref\(\)\.map_or\(0, \|sauce\| sauce\.buffer_size\.width\);\s*result\.set_sauce\(sauce_opt, true\);\s*'
                  r'if sauce_width > (\d+) \{\s*result\.set_width\(sauce_width\);\s*result\.layers\[0\]\.set_width\(sauce_width\);\s*\}', lb)
    _need(m, 'tundra: SAUCE widths above the set_sauce limit (C05 repair) not found')
    d('tndWideAbove', int(m.group(1)))

    # ---------------------------------------------------------------- set_sauce clamp
    s = src('src/buffers.rs')
    m = re.search(r'if size\.width == 0 \|\| size\.width > (\d+) \{\s*size\.width = (\d+);', s)
    _need(m, 'set_sauce width clamp not found')
    d('sauceMaxWidth', int(m.group(1)))
    d('sauceDefaultWidth', int(m.group(2)))
    fb = re.search(r'pub fn from_bytes\(file_name: &Path.*?\n    \}\n', s, re.S).group(0)
    _need('len -= sauce.sauce_header_len;' in fb and '&bytes[..len]' in fb, 'Buffer::from_bytes shape changed')

    # ---------------------------------------------------------------- SAUCE (only what the dispatch needs)
    s = src('src/sauce_mod/mod.rs')
    d('sauceLen', _int(_const(s, 'SAUCE_LEN')))
    lst('sauceId', _bytes_lit(_const(s, 'SAUCE_ID', r'\[u8; 5\]')))
    lst('sauceCommentId', _bytes_lit(_const(s, 'SAUCE_COMMENT_ID', r'\[u8; 5\]')))
    for name in ['ASCII', 'ANSI', 'ANSIMATION', 'PCBOARD', 'AVATAR', 'TUNDRA_DRAW']:
        pass
    lst('sauceCharTypes', [_int(_const(s, 'SAUCE_FILE_TYPE_' + n)) for n in ['ASCII', 'ANSI', 'ANSIMATION', 'PCBOARD', 'AVATAR', 'TUNDRA_DRAW']])
    m = re.search(r'enum SauceDataType \{(.*?)\n\}', s, re.S)
    kinds = dict(re.findall(r'(\w+) = (\d+),', m.group(1)))
    d('sauceTypeCharacter', int(kinds['Character']))
    d('sauceTypeBinaryText', int(kinds['BinaryText']))
    d('sauceTypeXBin', int(kinds['XBin']))
    ex = re.search(r'pub fn extract\(data: &\[u8\]\).*?\n    \}\n', s, re.S).group(0)
    sat = 'len.saturating_sub(1)' in ex
    _need(sat or 'let offset = len - 1;' in ex, 'extract: `len - 1` site not recognised')
    flag('sauceOffsetSaturating', sat)
    usz = 'data.len() - SAUCE_LEN < num_comments as usize * 64 + 5' in ex
    _need(usz or '(data.len() - SAUCE_LEN) as i32 - num_comments as i32 * 64 - 5 < 0' in ex, 'extract: comment block check not recognised')
    flag('sauceCommentCheckUsize', usz)

    # ---------------------------------------------------------------- IcyDraw
    s = src('src/formats/icy_draw.rs')
    lb = _load_fn(s, 'icy_draw')
    d('icedHeaderSize', _int(_const(s, 'ICED_HEADER_SIZE')))
    for rust, lean in [('IS_VISIBLE', 'layerVisible'), ('POS_LOCK', 'layerPosLock'), ('EDIT_LOCK', 'layerEditLock'), ('HAS_ALPHA', 'layerHasAlpha'),
                       ('ALPHA_LOCKED', 'layerAlphaLocked')]:
        d(lean, _int(_const(s, rust)))
    t = src('src/text_attribute.rs')
    for rust, lean in [('INVISIBLE', 'attrInvisible'), ('SHORT_DATA', 'attrShortData'), ('INVISIBLE_SHORT', 'attrInvisibleShort')]:
        m = re.search(r'pub const ' + rust + r': u16 = (0b[01_]+);', t)
        _need(m, f'attribute::{rust} not found')
        d(lean, _int(m.group(1)))
    m = re.search(r'if bytes\.len\(\) < o \+ (\d+) \{\s*return Err\(LoadingError::FileTooShort\.into\(\)\);\s*\}\s*let role = bytes\[o\];', lb)
    _need(m, 'icy_draw: layer header length guard not found (model follows the repaired loader)')
    d('icyLayerHeaderLen', int(m.group(1)))
    m = re.search(r'if role == 1 \{\s*if bytes\.len\(\) < o \+ (\d+) \{', lb)
    _need(m, 'icy_draw: image header length guard not found')
    d('icyImageHeaderLen', int(m.group(1)))
    _need(lb.count('if o + 2 > bytes.len() {') == 2 and lb.count('if o + 4 > bytes.len() {') == 2 and lb.count('if o + 14 > bytes.len() {') == 2,
          'icy_draw: cell decoder bounds checks changed (expected o+2 / o+4 / o+14 in both decoders)')
    _need('if bytes.len() - o < length {' in lb, 'icy_draw: data length check changed')
    _need('result.layers.get_mut(layer_num)' in lb, 'icy_draw: continuation chunk layer lookup changed')
    flag('icyCharUnchecked', 'char::from_u32_unchecked(ch)' in lb)
    rs = re.search(r'fn read_utf8_encoded_string\(.*?\n\}\n', s, re.S).group(0)
    _need('if data.len() < 4 {' in rs and 'if data.len() - 4 < size {' in rs, 'icy_draw: read_utf8_encoded_string guards not found')
    m = re.search(r'LAYER_CONTINUE_REGEX: Regex = Regex::new\(r"([^"]*)"\)', s)
    _need(m and m.group(1) == r'LAYER_(\d+)~(\d+)', 'icy_draw: continuation regex changed')

    # ---------------------------------------------------------------- clipboard
    s = src('src/layer.rs')
    m = re.search(r'pub fn from_clipboard_data\(.*?\n    \}\n', s, re.S)
    _need(m, 'from_clipboard_data not found')
    cb = m.group(0)
    _need('if data.len() < 17 || data[0] != 0 {' in cb and 'if cells == 0 || cells > i32::MAX as usize || data.len() / 14 < cells {' in cb,
          'from_clipboard_data: size guards not found (model follows the repaired loader)')
    flag('clipCharUnchecked', 'char::from_u32_unchecked' in cb)

    # ---------------------------------------------------------------- TDF
    s = src('src/tdf_font/mod.rs')
    m = re.search(r'static THE_DRAW_FONT_ID: &\[u8; \d+\] = (b"[^"]*");', s)
    lst('tdfId', _bytes_lit(m.group(1)))
    d('tdfHeaderSize', _int(_const(s, 'THE_DRAW_FONT_HEADER_SIZE')))
    d('tdfFontNameLen', _int(_const(s, 'FONT_NAME_LEN')))
    d('tdfMaxLetterSpace', _int(_const(s, 'MAX_LETTER_SPACE')))
    d('tdfCharTableSize', _int(_const(s, 'CHAR_TABLE_SIZE')))
    d('tdfCtrlZ', _int(_const(s, 'CTRL_Z')))
    d('tdfFontIndicator', _int(_const(s, 'FONT_INDICATOR')))
    fn = re.search(r'pub fn from_tdf_bytes\(.*?\n    \}\n', s, re.S).group(0)
    _need('if bytes.len() < o + THE_DRAW_FONT_HEADER_SIZE - THE_DRAW_FONT_ID.len() - 2 {' in fn and 'if char_offset + 2 > bytes.len() {' in fn
          and fn.count('if char_offset >= bytes.len() {') == 2, 'from_tdf_bytes: length guards not found (model follows the repaired loader)')

    # ---------------------------------------------------------------- extension table of FORMATS (order matters: first match wins)
    s = src('src/formats/mod.rs')
    m = re.search(r'pub static ref FORMATS: \[Box<dyn OutputFormat>; \d+\] = \[(.*?)\];', s, re.S)
    _need(m, 'FORMATS not found')
    mods = re.findall(r'Box::<(?:(\w+)::)?(\w+)>::default\(\)', m.group(1))
    struct_file = {}
    import os
    from extract import REPO
    for f in sorted(os.listdir(os.path.join(REPO, 'src/formats'))):
        if f.endswith('.rs') and f != 'mod.rs':
            t = src('src/formats/' + f)
            for sm in re.finditer(r'impl OutputFormat for (\w+) \{', t):
                struct_file[sm.group(1)] = (f[:-3], t)
    rows = []
    for _mod, st in mods:
        if st not in struct_file:
            raise ExtractError(f'FORMATS entry {st}: impl not found')
        stem, t = struct_file[st]
        imp = t[t.index(f'impl OutputFormat for {st} {{'):]
        e = re.search(r'fn get_file_extension\(&self\) -> &str \{\s*"(\w+)"', imp)
        _need(e, f'{stem}: get_file_extension not found')
        exts = [e.group(1)]
        a = re.search(r'fn get_alt_extensions\(&self\) -> Vec<String> \{(.*?)\n    \}', imp, re.S)
        if a and imp.index('fn get_alt_extensions') < imp.index('\n}\n'):
            exts += re.findall(r'"(\w+)"\.to_string\(\)', a.group(1))
        for x in exts:
            rows.append((x, stem))
    out.append('/-- (extension, loader module) in the order `Buffer::from_bytes` searches `FORMATS` -/\n')
    out.append('def extTable : List (String × String) := [' + ', '.join(f'("{x}", "{st}")' for x, st in rows) + ']\n')
    out.append('end IcyVerif.Gen.Loaders\n')
    return 'Loaders.lean', ''.join(out)


GENERATORS = {'loaders': gen_loaders}
