"""Gen/LoaderLoops.lean: inventory of every loop in the binary art-file loaders, the TheDraw font loader, the sixel decoder and
`Layer::set_char` (C03, loader cost), with the same syntactic conventions as gens/loops.py (file, enclosing fn, loop header,
definition of a plain-identifier bound).  Only the LOADING side of a format file is listed (functions named in `FNS`): a writer
loop is bounded by the buffer it writes, not by file content.  Props/C03Loaders.lean lists the loops the cost models account
for; a new loop or a changed bound expression breaks `loader_loops_known`.

Also regenerated here: the variant flags and constants the cost theorems are proved FROM
  * `icyNoColumnsGuard`   both row loops of the IcyDraw LAYER decoder stop at a layer without columns (`|| width <= 0`,
                          `|| layer.get_width() <= 0` in the `break` condition that also tests `o >= bytes.len()`),
  * `fileRowCap`          `MAX_FILE_BUFFER_HEIGHT` and the clamp of `limit_caret_pos` on file buffers,
  * `setCharRowFill`      `Layer::set_char` fills the rows it adds with `Line::create(self.size.width)` (rows x layer width cells),
  * the 16-bit row guards of the IDF (`pos.y > u16::MAX as i32`) and Tundra (`pos.y >= (u16::MAX) as i32`) loaders."""
import re, json, hashlib
from extract import src, HEADER, ExtractError

FNS = {
    'src/formats/xbinary.rs': ['load_buffer', 'advance_pos', 'read_data_compressed', 'read_data_uncompressed', 'decode_char'],
    'src/formats/bin.rs': ['load_buffer'],
    'src/formats/artworx.rs': ['load_buffer', 'from_ega_data'],
    'src/formats/ice_draw.rs': ['load_buffer', 'advance_pos'],
    'src/formats/tundra.rs': ['load_buffer', 'advance_pos', 'to_u32'],
    'src/formats/icy_draw.rs': ['load_buffer', 'read_utf8_encoded_string'],
    'src/tdf_font/mod.rs': ['from_tdf_bytes'],
    'src/sixel_mod.rs': ['parse_from', 'parse_char', 'translate_sixel_to_pixel', 'parse_sixel_data', 'width', 'height'],
    'src/layer.rs': ['set_char'],
    'src/line.rs': ['create', 'set_char'],
    'src/formats/mod.rs': ['crop_loaded_file'],
}

LOOP = re.compile(r'(\(\s*[^;{}]*?\.\.=?[^;{}]*?\)\s*(?:\.rev\(\))?\s*\.for_each|\bfor\s+[^{;]*?\s+in\s+[^{]*|\bwhile\s+[^{]*|\bloop\s*\{)')


def strip_tests(text):
    i = text.find('#[cfg(test)]\nmod tests {')
    j = text.find('#[cfg(test)]\nfn ')
    cut = min([k for k in (i, j) if k >= 0], default=-1)
    return text if cut < 0 else text[:cut]


def clean(text):
    text = strip_tests(text)
    text = re.sub(r'//[^\n]*', '', text)
    return re.sub(r'"(?:[^"\\\n]|\\.)*"', '""', text)


def gen_loaderloops():
    items = []
    for f, wanted in FNS.items():
        text = clean(src(f))
        fns = [(m.start(), m.group(1)) for m in re.finditer(r'\bfn\s+([A-Za-z0-9_]+)', text)]
        seen_fns = {n for _, n in fns}
        for w in wanted:
            if w not in seen_fns:
                raise ExtractError(f'{f}: fn {w} not found')
        fn, pos = '?', 0
        for m in LOOP.finditer(text):
            while pos < len(fns) and fns[pos][0] < m.start():
                fn = fns[pos][1]
                pos += 1
            if fn not in wanted:
                continue
            head = re.sub(r'\s+', ' ', m.group(1)).strip().rstrip('{').strip()
            bm = re.search(r'\.\.=?\s*([a-z_][a-z0-9_]*)\s*\)?\s*(?:\.for_each)?$', head)
            if bm:
                ident = bm.group(1)
                back = text[max(0, m.start() - 1500):m.start()]
                defs = list(re.finditer(r'let\s+(?:mut\s+)?' + ident + r'(?:\s*:\s*[A-Za-z0-9_]+)?\s*=\s*([^;]*);', back))
                if defs:
                    head += ' [' + ident + ' = ' + re.sub(r'\s+', ' ', defs[-1].group(1)).strip() + ']'
            item = f'{f[4:]}::{fn}::{head}'
            k = sum(1 for i in items if i == item or i.startswith(item + ' #'))
            items.append(item + (f' #{k + 1}' if k else ''))
    if len(items) < 20:
        raise ExtractError(f'only {len(items)} loader loops found')

    # ---- variant flags / constants
    icy = src('src/formats/icy_draw.rs')
    g1 = len(re.findall(r'if o >= bytes\.len\(\) \|\| width <= 0 \{', icy))
    g2 = len(re.findall(r'if o >= bytes\.len\(\) \|\| layer\.get_width\(\) <= 0 \{', icy))
    plain = len(re.findall(r'if o >= bytes\.len\(\) \{', icy))
    if g1 + g2 + plain != 2:
        raise ExtractError(f'icy_draw.rs: expected the two row loops of the LAYER decoder, found {g1 + g2 + plain} break conditions')
    no_columns = (g1 == 1 and g2 == 1)

    ts = src('src/terminal_state.rs')
    m = re.search(r'pub const MAX_FILE_BUFFER_HEIGHT: i32 = ([^;]+);', ts)
    if m:
        expr = m.group(1).strip()
        if expr == 'u16::MAX as i32':
            cap = 65535
        elif re.fullmatch(r'\d[\d_]*', expr):
            cap = int(expr.replace('_', ''))
        else:
            raise ExtractError(f'MAX_FILE_BUFFER_HEIGHT = {expr!r}: not understood')
        if 'caret.pos.y = caret.pos.y.clamp(0, MAX_FILE_BUFFER_HEIGHT - 1);' not in ts:
            raise ExtractError('limit_caret_pos: the file-buffer branch no longer clamps to MAX_FILE_BUFFER_HEIGHT - 1')
    else:
        cap = 0   # no cap: cursor movements in a file buffer are unbounded (the pinned tree)

    layer = src('src/layer.rs')
    sc = re.search(r'pub fn set_char\(&mut self.*?\n    \}', layer, re.S)
    if not sc:
        raise ExtractError('Layer::set_char not found')
    row_fill = 'self.lines.resize(pos.y as usize + 1, Line::create(self.size.width));' in sc.group(0)
    if not row_fill:
        raise ExtractError('Layer::set_char: the row fill `lines.resize(pos.y + 1, Line::create(self.size.width))` changed - the cost model '
                           '(rows x layer width cells) has to be revisited')
    idf = src('src/formats/ice_draw.rs')
    idf_guard = bool(re.search(r'if pos\.y > u16::MAX as i32 \{\s*(?://[^\n]*\n\s*)*return Err\(LoadingError::OutOfBounds', idf))
    tnd = src('src/formats/tundra.rs')
    tnd_guard = 'if pos.y >= (u16::MAX) as i32 {' in tnd
    if not idf_guard or not tnd_guard:
        raise ExtractError('IDF / Tundra: the 16-bit row guard the row budgets are proved from is gone')

    out = [HEADER, 'namespace IcyVerif.Gen.LoaderLoops\n', 'def loops : List String := [\n']
    out.append(',\n'.join('  ' + json.dumps(i) for i in items))
    out.append('\n]\n/-- 48-bit fingerprints (sha1) of the entries of `loops`, same order -/\n')
    out.append('def loopIds : List Nat := [' + ', '.join(str(int(hashlib.sha1(i.encode()).hexdigest()[:12], 16)) for i in items) + ']\n')
    out.append(f'/-- both row loops of the IcyDraw LAYER decoder stop at a layer without columns -/\ndef icyNoColumnsGuard : Bool := {"true" if no_columns else "false"}\n')
    out.append(f'/-- `MAX_FILE_BUFFER_HEIGHT` (0 = cursor movements in a file buffer are not capped) -/\ndef fileRowCap : Nat := {cap}\n')
    out.append(f'/-- `Layer::set_char` fills added rows with `Line::create(self.size.width)` -/\ndef setCharRowFill : Bool := {"true" if row_fill else "false"}\n')
    out.append('end IcyVerif.Gen.LoaderLoops\n')
    return 'LoaderLoops.lean', ''.join(out)


GENERATORS = {'loaderloops': gen_loaderloops}
