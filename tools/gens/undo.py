"""Gen/Undo.lean: constants the editor/undo model needs (src/text_attribute.rs, src/attributed_char.rs) and the
inventory of undo record types (src/editor/undo_operations.rs)"""
import re, json
from extract import src, HEADER, ExtractError


def gen_undo():
    ta = src('src/text_attribute.rs')
    m = re.search(r'pub const INVISIBLE: u16 = (0b[01_]+|0x[0-9A-Fa-f_]+|\d+);', ta)
    if not m:
        raise ExtractError('attribute::INVISIBLE not found')
    lit = m.group(1).replace('_', '')
    invisible = int(lit, 2) if lit.startswith('0b') else int(lit, 16) if lit.startswith('0x') else int(lit)
    if invisible & (invisible - 1) != 0 or invisible == 0:
        raise ExtractError('attribute::INVISIBLE is no longer a single bit')
    m = re.search(r'impl Default for TextAttribute \{.*?foreground_color: (\d+),\s*background_color: (\d+),\s*attr: attribute::NONE,\s*font_page: (\d+),', ta, re.S)
    if not m:
        raise ExtractError('TextAttribute::default changed shape')
    fg, bg, page = int(m.group(1)), int(m.group(2)), int(m.group(3))
    ac = src('src/attributed_char.rs')
    m = re.search(r"pub fn invisible\(\) -> Self \{\s*AttributedChar \{\s*ch: '(.)',\s*attribute: super::TextAttribute \{\s*attr: crate::attribute::INVISIBLE,\s*\.\.Default::default\(\)", ac, re.S)
    if not m:
        raise ExtractError('AttributedChar::invisible changed shape')
    inv_ch = ord(m.group(1))
    m = re.search(r"pub fn is_transparent\(self\) -> bool \{\s*\(self\.ch == '\\0' \|\| self\.ch == ' '\) && self\.attribute\.get_background\(\) == 0", ac)
    if not m:
        raise ExtractError('AttributedChar::is_transparent changed shape')
    uo = src('src/editor/undo_operations.rs')
    records = re.findall(r'impl UndoOperation for (\w+)', uo)
    if len(records) < 30:
        raise ExtractError(f'only {len(records)} undo record types found')

    def impl_body(name):
        mm = re.search(r'impl UndoOperation for ' + name + r' \{(.*?)\n\}\n', uo, re.S)
        if not mm:
            raise ExtractError(f'impl UndoOperation for {name} not found')
        body = mm.group(1) + '\n'
        um = re.search(r'fn undo\(.*?\n    \}\n', body, re.S)
        rm = re.search(r'fn redo\(.*?\n    \}\n', body, re.S)
        if not (um and rm):
            raise ExtractError(f'{name}: undo/redo not found')
        return re.sub(r'\s+', ' ', um.group(0)).strip(), re.sub(r'\s+', ' ', rm.group(0)).strip()

    modelled = ['AtomicUndo', 'UndoSetChar', 'UndoSwapChar', 'AddLayer', 'RemoveLayer', 'RaiseLayer', 'LowerLayer', 'ToggleLayerVisibility',
                'MoveLayer', 'SetLayerSize', 'ResizeBuffer', 'UndoLayerChange', 'Crop', 'DeleteRow', 'InsertRow', 'DeleteColumn',
                'InsertColumn', 'UndoScrollWholeLayerUp', 'UndoScrollWholeLayerDown', 'ClearLayer', 'Deselect', 'SelectNothing', 'SetSelection']
    out = [HEADER, 'namespace IcyVerif.Gen.Undo\n']
    out.append(f'/-- `attribute::INVISIBLE` -/\ndef attrInvisible : Nat := {invisible}\n')
    out.append(f'/-- `TextAttribute::default()` -/\ndef defaultFg : Nat := {fg}\ndef defaultBg : Nat := {bg}\ndef defaultPage : Nat := {page}\n')
    out.append(f'/-- the character of `AttributedChar::invisible()` -/\ndef invisibleCh : Nat := {inv_ch}\n')
    out.append('/-- every `impl UndoOperation for …` in undo_operations.rs, in source order -/\n')
    out.append('def recordTypes : List String := [' + ', '.join(json.dumps(r) for r in records) + ']\n')
    out.append('/-- the record types the Lean model transcribes -/\n')
    out.append('def modelledRecords : List String := [' + ', '.join(json.dumps(r) for r in modelled) + ']\n')
    for n in modelled:
        u, r = impl_body(n)
        out.append(f'def src_{n}_undo : String := {json.dumps(u)}\n')
        out.append(f'def src_{n}_redo : String := {json.dumps(r)}\n')
    out.append('end IcyVerif.Gen.Undo\n')
    return 'Undo.lean', ''.join(out)


GENERATORS = {'undo': gen_undo}
