"""Gen/Undo.lean: constants the editor/undo model needs (src/text_attribute.rs, src/attributed_char.rs) and the
inventory of undo record types (src/editor/undo_operations.rs)"""
import re, json
from extract import src, HEADER, ExtractError


def gen_undo():
    ta = src('src/text_attribute.rs')
    m = re.search(r'pub const INVISIBLE: u16 = (0b[01_]+|0x[0-9A-Fa-f_]+|\d+);', ta)
    if not m:
        raise ExtractError('attribute::INVISIBLE not found')
    lit = m.group(1).replace('_', '')
    invisible = int(lit, 2) if lit.startswith('0b') else int(lit, 16) if lit.startswith('0x') else int(lit)
    if invisible & (invisible - 1) != 0 or invisible == 0:
        raise ExtractError('attribute::INVISIBLE is no longer a single bit')
    m = re.search(r'impl Default for TextAttribute \{.*?foreground_color: (\d+),\s*background_color: (\d+),\s*attr: attribute::NONE,\s*font_page: (\d+),', ta, re.S)
    if not m:
        raise ExtractError('TextAttribute::default changed shape')
    fg, bg, page = int(m.group(1)), int(m.group(2)), int(m.group(3))
    ac = src('src/attributed_char.rs')
    m = re.search(r"pub fn invisible\(\) -> Self \{\s*AttributedChar \{\s*ch: '(.)',\s*attribute: super::TextAttribute \{\s*attr: crate::attribute::INVISIBLE,\s*\.\.Default::default\(\)", ac, re.S)
    if not m:
        raise ExtractError('AttributedChar::invisible changed shape')
    inv_ch = ord(m.group(1))
    m = re.search(r"pub fn is_transparent\(self\) -> bool \{\s*\(self\.ch == '\\0' \|\| self\.ch == ' '\) && self\.attribute\.get_background\(\) == 0", ac)
    if not m:
        raise ExtractError('AttributedChar::is_transparent changed shape')
    uo = src('src/editor/undo_operations.rs')
    records = re.findall(r'impl UndoOperation for (\w+)', uo)
    if len(records) < 30:
        raise ExtractError(f'only {len(records)} undo record types found')

    def impl_body(name):
        mm = re.search(r'impl UndoOperation for ' + name + r' \{(.*?)\n\}\n', uo, re.S)
        if not mm:
            raise ExtractError(f'impl UndoOperation for {name} not found')
        body = mm.group(1) + '\n'
        um = re.search(r'fn undo\(.*?\n    \}\n', body, re.S)
        rm = re.search(r'fn redo\(.*?\n    \}\n', body, re.S)
        if not (um and rm):
            raise ExtractError(f'{name}: undo/redo not found')
        return re.sub(r'\s+', ' ', um.group(0)).strip(), re.sub(r'\s+', ' ', rm.group(0)).strip()

    # ---- constants of the operations modelled since the font/area/paste records joined the model
    m = re.search(r'pub const BLINK: u16 = (0b[01_]+);', ta)
    if not m:
        raise ExtractError('attribute::BLINK not found')
    blink = int(m.group(1).replace('_', ''), 2)
    if blink & (blink - 1) != 0 or blink == 0:
        raise ExtractError('attribute::BLINK is no longer a single bit')
    m = re.search(r'pub const TRANSPARENT_COLOR: u32 = 1 << (\d+);', ta)
    if not m:
        raise ExtractError('TextAttribute::TRANSPARENT_COLOR changed shape')
    transparent = 1 << int(m.group(1))
    lo = src('src/editor/layer_operations.rs')
    m = re.search(r'static ref ROTATE_TABLE: HashMap<u8, u8> = HashMap::from\(\[(.*?)\]\);', lo, re.S)
    if not m:
        raise ExtractError('ROTATE_TABLE not found')
    body = re.sub(r'//[^\n]*', '', m.group(1))
    rot = [(int(a), int(b)) for a, b in re.findall(r'\((\d+),\s*(\d+)\)', body)]
    if len(rot) < 40:
        raise ExtractError('ROTATE_TABLE too short')
    # HashMap::from keeps the LAST value of a repeated key
    rotd = {}
    for a, b in rot:
        rotd[a] = b
    ftl = src('i18n/en/icy_engine.ftl')
    names = {}
    for key in ['layer-new-name', 'layer-pasted-name', 'layer-duplicate-name']:
        mm = re.search(r'^' + key + r'=(.*)$', ftl, re.M)
        if not mm:
            raise ExtractError(key + ' not found in the English message file')
        names[key] = mm.group(1)
    mm = re.fullmatch(r'(.*)\{ \$name \}(.*)', names['layer-duplicate-name'])
    if not mm:
        raise ExtractError('layer-duplicate-name changed shape')
    dup_pre, dup_post = mm.group(1), mm.group(2)
    ph = src('src/palette_handling.rs')
    m = re.search(r'pub const DOS_DEFAULT_PALETTE: \[Color; 16\] = \[(.*?)\n\];', ph, re.S)
    if not m:
        raise ExtractError('DOS_DEFAULT_PALETTE not found')
    cols = re.findall(r'r: 0x([0-9A-Fa-f]{2}),\s*g: 0x([0-9A-Fa-f]{2}),\s*b: 0x([0-9A-Fa-f]{2}),', m.group(1))
    if len(cols) != 16:
        raise ExtractError('DOS_DEFAULT_PALETTE: expected 16 colours')
    dos = [int(r, 16) * 65536 + int(g, 16) * 256 + int(b, 16) for r, g, b in cols]
    fo = src('src/editor/font_operations.rs')
    if 'PaletteMode::Fixed16 => Palette::from_slice(&DOS_DEFAULT_PALETTE)' not in fo:
        raise ExtractError('set_palette_mode: Fixed16 arm changed')

    modelled = ['AtomicUndo', 'UndoSetChar', 'UndoSwapChar', 'AddLayer', 'RemoveLayer', 'RaiseLayer', 'LowerLayer', 'ToggleLayerVisibility',
                'MoveLayer', 'SetLayerSize', 'ResizeBuffer', 'UndoLayerChange', 'Crop', 'DeleteRow', 'InsertRow', 'DeleteColumn',
                'InsertColumn', 'UndoScrollWholeLayerUp', 'UndoScrollWholeLayerDown', 'ClearLayer', 'Deselect', 'SelectNothing', 'SetSelection',
                'MergeLayerDown', 'Paste', 'AddFloatingLayer', 'RotateLayer', 'ReversedUndo', 'ReverseCaretPosition', 'SetSelectionMask',
                'AddSelectionToMask', 'InverseSelection', 'SwitchPalettte', 'SetSauceData', 'SwitchToFontPage', 'SetFont', 'AddFont',
                'SwitchPalette', 'SetIceMode', 'ReplaceFontUsage', 'RemoveFont', 'ChangeFontSlot', 'UpdateLayerProperties']
    out = [HEADER, 'namespace IcyVerif.Gen.Undo\n']
    out.append(f'/-- `attribute::INVISIBLE` -/\ndef attrInvisible : Nat := {invisible}\n')
    out.append(f'/-- `TextAttribute::default()` -/\ndef defaultFg : Nat := {fg}\ndef defaultBg : Nat := {bg}\ndef defaultPage : Nat := {page}\n')
    out.append(f'/-- the character of `AttributedChar::invisible()` -/\ndef invisibleCh : Nat := {inv_ch}\n')
    out.append(f'/-- `attribute::BLINK` -/\ndef attrBlink : Nat := {blink}\n')
    out.append(f'/-- `TextAttribute::TRANSPARENT_COLOR` -/\ndef transparentColor : Nat := {transparent}\n')
    out.append('/-- `ROTATE_TABLE` of layer_operations.rs (key, value), one entry per key -/\n')
    out.append('def rotateTable : List (Nat × Nat) := [' + ', '.join(f'({a}, {b})' for a, b in sorted(rotd.items())) + ']\n')
    out.append(f'/-- layer titles of the English message file -/\ndef layerNewName : String := {json.dumps(names["layer-new-name"])}\n')
    out.append(f'def layerPastedName : String := {json.dumps(names["layer-pasted-name"])}\n')
    out.append(f'def layerDuplicatePrefix : String := {json.dumps(dup_pre)}\ndef layerDuplicateSuffix : String := {json.dumps(dup_post)}\n')
    out.append('/-- `DOS_DEFAULT_PALETTE` as 0xRRGGBB -/\n')
    out.append('def dosDefaultPalette : List Nat := [' + ', '.join(map(str, dos)) + ']\n')
    out.append('/-- every `impl UndoOperation for …` in undo_operations.rs, in source order -/\n')
    out.append('def recordTypes : List String := [' + ', '.join(json.dumps(r) for r in records) + ']\n')
    out.append('/-- the record types the Lean model transcribes -/\n')
    out.append('def modelledRecords : List String := [' + ', '.join(json.dumps(r) for r in modelled) + ']\n')
    for n in modelled:
        u, r = impl_body(n)
        out.append(f'def src_{n}_undo : String := {json.dumps(u)}\n')
        out.append(f'def src_{n}_redo : String := {json.dumps(r)}\n')
    out.append('end IcyVerif.Gen.Undo\n')
    return 'Undo.lean', ''.join(out)


GENERATORS = {'undo': gen_undo}
