"""Gen/TermResize.lean: the clamps of the text-area resize `CSI 8 ; rows ; cols t` (`window_manipulation`,
src/parsers/ansi/ansi_commands.rs).  Every parameter-driven loop bound of the terminal code is expressed in terms of the
terminal width / height (`min(n, height)`, `min(n, width * height)`, ...), so these two clamps are what makes the per-command
bounds of C03 bounds in absolute terms: the translator fails when either clamp loses its upper or lower limit."""
import re
from extract import src, HEADER, ExtractError


def gen_termresize():
    s = src('src/parsers/ansi/ansi_commands.rs')
    m = re.search(r'fn window_manipulation\b.*?\n    \}', s, re.S)
    if not m:
        raise ExtractError('window_manipulation not found')
    body = m.group(0)
    mw = re.search(r'let width = self\.parsed_numbers\[2\]\.min\((\d+)\)\.max\((\d+)\);', body)
    mh = re.search(r'let height = self\.parsed_numbers\[1\]\.min\((\d+)\)\.max\((\d+)\);', body)
    if not mw or not mh:
        raise ExtractError('window_manipulation: the resize no longer clamps width and height with `.min(MAX).max(MIN)` - '
                           'the absolute loop bounds of C03 (rep_count_le, scroll_count_le, ...) rest on both limits')
    if 'buf.terminal_state.set_width(width);' not in body or 'buf.terminal_state.set_height(height);' not in body:
        raise ExtractError('window_manipulation: the clamped values are no longer what is stored')
    # no other place may set the terminal size from a parameter
    ansi = src('src/parsers/ansi/mod.rs') + s + src('src/parsers/ansi/dcs.rs') + src('src/parsers/ansi/osc.rs')
    n_set = len(re.findall(r'terminal_state\.set_(?:width|height|size)\(', ansi))
    out = [HEADER, 'namespace IcyVerif.Gen.TermResize\n']
    out.append(f'def maxW : Int := {int(mw.group(1))}\ndef minW : Int := {int(mw.group(2))}\n')
    out.append(f'def maxH : Int := {int(mh.group(1))}\ndef minH : Int := {int(mh.group(2))}\n')
    out.append(f'/-- calls of `terminal_state.set_width / set_height / set_size` in the ANSI parser (the resize command has two) -/\ndef sizeSetters : Nat := {n_set}\n')
    out.append('end IcyVerif.Gen.TermResize\n')
    return 'TermResize.lean', ''.join(out)


GENERATORS = {'termresize': gen_termresize}
