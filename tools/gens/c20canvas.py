"""Gen/BgiX.lean, Gen/RipRun.lean, Gen/IgsPaint.lean: what the canvas models of C20 take from the source.

* bgix:     EGA / DOS default palettes (RGB packed r*65536+g*256+b), the shape of `Parser::get_picture_data`,
            `Palette::get_rgb` / `set_color`, and the guards of the (repaired) flood fill the proofs rely on.
* riprun:   for every RIP command whose effect is modelled, the body of its `run` (normalised) must be the known one;
            emits (command name, kind code) so that the model dispatches on regenerated data.
* igspaint: palettes, patterns, line styles, the argument-count table of `DrawExecutor::execute_command`, the guards.
Every pattern that is not found is an ExtractError (the check then reports the drift)."""
import re
from extract import src, nums, lean_list, HEADER, ExtractError


def strip_comments(s):
    s = re.sub(r'/\*.*?\*/', '', s, flags=re.S)
    s = re.sub(r'//[^\n]*', '', s)
    return s


def norm(s):
    return re.sub(r'\s+', ' ', strip_comments(s)).strip()


def need(text, pattern, what, flags=re.S):
    m = re.search(pattern, text, flags)
    if not m:
        raise ExtractError(f'pattern not found: {what}')
    return m


def color_table(text, name, count):
    m = need(text, r'pub const ' + name + r': \[Color; (\d+)\] = \[(.*?)\n\];', name)
    if int(m.group(1)) != count:
        raise ExtractError(f'{name} has {m.group(1)} entries, expected {count}')
    body = strip_comments(m.group(2))
    cols = re.findall(r'Color \{\s*name: None,\s*r: (\w+),\s*g: (\w+),\s*b: (\w+),?\s*\}', body)
    if len(cols) != count:
        raise ExtractError(f'{name}: parsed {len(cols)} colours')
    return [int(r, 0) * 65536 + int(g, 0) * 256 + int(b, 0) for r, g, b in cols]


def fn_body(text, header_re, what):
    m = need(text, header_re, what)
    i = text.index('{', m.end() - 1)
    d = 0
    k = i
    while True:
        c = text[k]
        if c == '{':
            d += 1
        elif c == '}':
            d -= 1
            if d == 0:
                return text[i + 1:k]
        k += 1


# ------------------------------------------------------------------------------------------------ bgix
def gen_bgix():
    p = src('src/palette_handling.rs')
    ega = color_table(p, 'EGA_PALETTE', 64)
    dos = color_table(p, 'DOS_DEFAULT_PALETTE', 16)
    # Palette::get_rgb: black for a colour number without entry
    b = norm(fn_body(p, r'pub fn get_rgb\(&self, color: u32\) -> \(u8, u8, u8\) \{', 'Palette::get_rgb'))
    if 'if color >= self.colors.len() as u32 { (0, 0, 0) } else { let c = &self.colors[color as usize]; (c.r, c.g, c.b) }' not in b:
        raise ExtractError('Palette::get_rgb changed')
    b = norm(fn_body(p, r'pub fn set_color\(&mut self, color: u32, color_struct: Color\) \{', 'Palette::set_color'))
    if 'if self.colors.len() <= color as usize { self.colors.resize(color as usize + 1, Color::default()); } self.colors[color as usize] = color_struct;' not in b:
        raise ExtractError('Palette::set_color changed')
    need(p, r'#\[derive\(Debug, Clone, Default, Serialize, Deserialize\)\]\s*pub struct Color \{', 'Color derives Default (black)')
    r = src('src/parsers/rip/mod.rs')
    b = norm(fn_body(r, r'fn get_picture_data\(&mut self\) -> Option<\(Size, Vec<u8>\)> \{', 'rip get_picture_data'))
    want = ('let mut pixels = Vec::new(); let pal = self.bgi.get_palette().clone(); for i in &self.bgi.screen { if *i == 0 { '
            'pixels.push(0); pixels.push(0); pixels.push(0); pixels.push(0); continue; } let (r, g, b) = pal.get_rgb(*i as u32); '
            'pixels.push(r); pixels.push(g); pixels.push(b); pixels.push(255); } Some((self.bgi.window, pixels))')
    if want not in b:
        raise ExtractError('rip Parser::get_picture_data changed (the model of Model/BgiPic.lean copies its loop)')
    g = src('src/parsers/rip/bgi/mod.rs')
    b = norm(fn_body(g, r'pub fn set_palette\(&mut self, colors: &\[i32\]\) \{', 'Bgi::set_palette'))
    if 'let mut pal = Palette::new(); pal.clear(); for c in colors { pal.push(EGA_PALETTE[*c as usize].clone()); } self.palette = pal;' not in b:
        raise ExtractError('Bgi::set_palette changed')
    b = norm(fn_body(g, r'pub fn set_palette_color\(&mut self, index: i32, color: u8\) \{', 'Bgi::set_palette_color'))
    if 'self.palette.set_color(index as u32, EGA_PALETTE[color as usize].clone());' not in b:
        raise ExtractError('Bgi::set_palette_color changed')
    need(g, r'palette: Palette::dos_default\(\),', 'Bgi::new palette')
    # the guards of the flood fill the termination / range proofs rely on
    ff = norm(fn_body(g, r'pub fn flood_fill\(&mut self, x: i32, y: i32, border: u8\) \{', 'Bgi::flood_fill'))
    for pat, what in [
        ('let clip = self.viewport.intersect(&Rectangle::from(0, 0, self.window.width, self.window.height));', 'clip rectangle'),
        ('if x < clip.left() || x >= clip.right() || y < clip.top() || y >= clip.bottom() { return; }', 'half-open seed test'),
        ('let mut fill_lines = vec![Vec::new(); self.window.height as usize];', 'one span list per screen row'),
        ('if cury < clip.bottom() && cury >= clip.top() {', 'row range test'),
        ('while cx <= fli.x2 {', 'scan loop'),
        ('if already_drawn(&fill_lines, cx, cury) { cx += 1; continue; }', 'already_drawn step'),
        ('if let Some(li) = li { cx = li.x2;', 'jump to the end of the found span'),
        ('fill_lines[li.y as usize].push(li); } cx += 1; }', 'shared cx += 1'),
        ('for fill_line in &fill_lines { for li in fill_line { self.bar(li.x1, li.y, li.x2, li.y); } }', 'drawing pass'),
    ]:
        if pat not in ff:
            raise ExtractError(f'Bgi::flood_fill: {what} not found (the model of Model/BgiFill.lean copies this shape)')
    fl = norm(fn_body(g, r'fn find_line\(&self, x: i32, y: i32, border: u8\) -> Option<LineInfo> \{', 'Bgi::find_line'))
    for pat, what in [
        ('let width = self.viewport.get_width().min(self.window.width);', 'width limit'),
        ('for ex in x..width {', 'forward scan'),
        ('for sx in (0..x).rev() {', 'backward scan'),
        ('if (startx == 0 || endx == self.window.width - 1) && (endx == startx) { return None; }', 'weird condition'),
    ]:
        if pat not in fl:
            raise ExtractError(f'Bgi::find_line: {what} not found')
    ad = norm(fn_body(g, r'fn already_drawn\(fill_lines: &\[Vec<LineInfo>\], x: i32, y: i32\) -> bool \{', 'already_drawn'))
    if 'for li in &fill_lines[y as usize] { if y == li.y && x >= li.x1 && x <= li.x2 { return true; } } false' not in ad:
        raise ExtractError('already_drawn changed')
    rc = norm(fn_body(g, r'pub fn rectangle\(&mut self, left: i32, top: i32, right: i32, bottom: i32\) \{', 'Bgi::rectangle'))
    if rc != 'self.line(left, top, right, top); self.line(left, bottom, right, bottom); self.line(right, top, right, bottom); self.line(left, top, left, bottom);':
        raise ExtractError('Bgi::rectangle changed')
    dp = norm(fn_body(g, r'pub fn draw_poly\(&mut self, points: &\[Position\]\) \{', 'Bgi::draw_poly'))
    if dp != ('if points.is_empty() { return; } let mut last_point = points[0]; for point in points { self.line(last_point.x, last_point.y, point.x, point.y); '
              'last_point = *point; } self.line(last_point.x, last_point.y, points[0].x, points[0].y);'):
        raise ExtractError('Bgi::draw_poly changed')
    dl = norm(fn_body(g, r'pub fn draw_poly_line\(&mut self, points: &\[Position\]\) \{', 'Bgi::draw_poly_line'))
    if dl != ('if points.is_empty() { return; } let mut last_point = points[0]; for point in points { self.line(last_point.x, last_point.y, point.x, point.y); '
              'last_point = *point; }'):
        raise ExtractError('Bgi::draw_poly_line changed')
    out = [HEADER, 'namespace IcyVerif.Gen.BgiX\n']
    out.append('/-- EGA_PALETTE as r*65536 + g*256 + b -/\n')
    out.append(lean_list('egaPalette', ega))
    out.append('/-- DOS_DEFAULT_PALETTE (the palette of `Bgi::new` and `graph_defaults`) -/\n')
    out.append(lean_list('dosPalette', dos))
    out.append('end IcyVerif.Gen.BgiX\n')
    return 'BgiX.lean', ''.join(out)


# ------------------------------------------------------------------------------------------------ riprun
# command name -> (kind code, normalised body of `run`)
RIP_RUN = {
    'ViewPort': (1, 'bgi.set_viewport(self.x0, self.y0, self.x1, self.y1); Ok(CallbackAction::NoUpdate)'),
    'EraseView': (2, 'bgi.clear_viewport(); Ok(CallbackAction::Update)'),
    'Color': (3, 'bgi.set_color(self.c as u8); Ok(CallbackAction::NoUpdate)'),
    'SetPalette': (4, 'if self.palette.iter().any(|c| !(0..64).contains(c)) { return Err(anyhow::Error::msg("Invalid palette color")); } '
                      'bgi.set_palette(&self.palette); Ok(CallbackAction::Update)'),
    'OnePalette': (5, 'if !(0..64).contains(&self.value) { return Err(anyhow::Error::msg("Invalid palette color")); } '
                      'bgi.set_palette_color(self.color, self.value as u8); Ok(CallbackAction::Update)'),
    'WriteMode': (6, 'bgi.set_write_mode(super::bgi::WriteMode::from(self.mode as u8)); Ok(CallbackAction::NoUpdate)'),
    'Move': (7, 'bgi.move_to(self.x, self.y); Ok(CallbackAction::NoUpdate)'),
    'Pixel': (8, 'bgi.put_pixel(self.x, self.y, bgi.get_color()); Ok(CallbackAction::Update)'),
    'Line': (9, 'bgi.line(self.x0, self.y0, self.x1, self.y1); Ok(CallbackAction::Update)'),
    'Rectangle': (10, 'bgi.rectangle(self.x0, self.y0, self.x1, self.y1); Ok(CallbackAction::Update)'),
    'Bar': (11, 'let (left, right) = if self.x0 < self.x1 { (self.x0, self.x1) } else { (self.x1, self.x0) }; '
                'let (top, bottom) = if self.y0 < self.y1 { (self.y0, self.y1) } else { (self.y1, self.y0) }; '
                'bgi.bar(left, top, right, bottom); Ok(CallbackAction::Update)'),
    'Polygon': (12, 'let mut points = Vec::new(); for i in 0..self.points.len() / 2 { points.push(Position::new(self.points[i * 2], self.points[i * 2 + 1])); } '
                    'bgi.draw_poly(&points); Ok(CallbackAction::Update)'),
    'PolyLine': (13, 'let mut points = Vec::new(); for i in 0..self.points.len() / 2 { points.push(Position::new(self.points[i * 2], self.points[i * 2 + 1])); } '
                     'bgi.draw_poly_line(&points); Ok(CallbackAction::Update)'),
    'Fill': (14, 'bgi.flood_fill(self.x, self.y, self.border as u8); Ok(CallbackAction::Update)'),
    'LineStyle': (15, 'bgi.set_line_style(super::bgi::LineStyle::from(self.style as u8)); if self.style == 4 { bgi.set_line_pattern(self.user_pat); } '
                      'bgi.set_line_thickness(self.thick); Ok(CallbackAction::NoUpdate)'),
    'FillStyle': (16, 'bgi.set_fill_style(super::bgi::FillStyle::from(self.pattern as u8)); bgi.set_fill_color(self.color as u8); Ok(CallbackAction::NoUpdate)'),
    'FillPattern': (17, 'bgi.set_user_fill_pattern(&[ self.c1 as u8, self.c2 as u8, self.c3 as u8, self.c4 as u8, self.c5 as u8, self.c6 as u8, self.c7 as u8, self.c8 as u8, ]); '
                        'bgi.set_fill_style(super::bgi::FillStyle::User); bgi.set_fill_color(self.col as u8); Ok(CallbackAction::NoUpdate)'),
}


def gen_riprun():
    c = src('src/parsers/rip/commands.rs')
    out = [HEADER, 'namespace IcyVerif.Gen.RipRun\n']
    rows = []
    for name, (kind, want) in RIP_RUN.items():
        m = need(c, r'impl Command for ' + name + r' \{', f'impl Command for {name}')
        nxt = re.search(r'\nimpl Command for ', c[m.end():])
        block = c[m.end(): m.end() + nxt.start()] if nxt else c[m.end():]
        body = norm(fn_body(block, r'fn run\(&self, _?buf: &mut Buffer, _?caret: &mut Caret, _?bgi: &mut Bgi\) -> EngineResult<CallbackAction> \{', f'{name}::run'))
        if body != want:
            raise ExtractError(f'{name}::run changed: {body!r}')
        rows.append((name, kind))
    # struct field order (the lexer model numbers the integer fields in declaration order)
    for name, fields in [('Fill', ['x', 'y', 'border']), ('OnePalette', ['color', 'value']), ('LineStyle', ['style', 'user_pat', 'thick']),
                         ('FillStyle', ['pattern', 'color']), ('Bar', ['x0', 'y0', 'x1', 'y1']), ('ViewPort', ['x0', 'y0', 'x1', 'y1']),
                         ('FillPattern', ['c1', 'c2', 'c3', 'c4', 'c5', 'c6', 'c7', 'c8', 'col'])]:
        m = need(c, r'pub struct ' + name + r' \{(.*?)\}', f'struct {name}')
        got = re.findall(r'pub (\w+): i32', m.group(1))
        if got != fields:
            raise ExtractError(f'struct {name} fields {got}')
    out.append('/-- (command name, kind code of the modelled `run` body) -/\n')
    out.append('def runKind : List (String × Nat) := [' + ', '.join(f'("{n}", {k})' for n, k in rows) + ']\n')
    out.append('end IcyVerif.Gen.RipRun\n')
    return 'RipRun.lean', ''.join(out)


GENERATORS = {'bgix': gen_bgix, 'riprun': gen_riprun}


# ------------------------------------------------------------------------------------------------ igspaint
def const_nums(text, name, ty_re, what=None):
    m = need(text, r'const ' + name + r': ' + ty_re + r' = &?\[(.*?)\];', what or name)
    return nums(strip_comments(m.group(1)))


def gen_igspaint():
    pal = src('src/palette_handling.rs')
    sysp = color_table(pal, 'IGS_SYSTEM_PALETTE', 16)
    igsp = color_table(pal, 'IGS_PALETTE', 16)
    m = src('src/parsers/igs/mod.rs')
    rnd = const_nums(m, 'RANDOM_PATTERN', r'\[u16; 100\]')
    hol = const_nums(m, 'HOLLOW_PATTERN', r'\[u16; 1\]')
    sol = const_nums(m, 'SOLID_PATTERN', r'\[u16; 1\]')
    typ = const_nums(m, 'TYPE_PATTERN', r'\[\[u16; 8\]; 24\]')
    hat = const_nums(m, 'HATCH_PATTERN', r'\[\[u16; 8\]; 6\]')
    wid = const_nums(m, 'HATCH_WIDE_PATTERN', r'\[\[u16; 16\]; 6\]')
    lst = const_nums(m, 'LINE_STYLE', r'\[u16; 6\]')
    for name, got, want in [('RANDOM_PATTERN', rnd, 100), ('TYPE_PATTERN', typ, 192), ('HATCH_PATTERN', hat, 48), ('HATCH_WIDE_PATTERN', wid, 96), ('LINE_STYLE', lst, 6), ('HOLLOW', hol, 1), ('SOLID', sol, 1)]:
        if len(got) != want:
            raise ExtractError(f'{name}: {len(got)} numbers, expected {want}')
    p = src('src/parsers/igs/paint.rs')
    reg = const_nums(p, 'REGISTER_TO_PEN', r'&\[usize; 17\]')
    if len(reg) != 17:
        raise ExtractError('REGISTER_TO_PEN')
    # resolutions
    rs = re.findall(r'TerminalResolution::(\w+) => Size \{ width: (\d+), height: (\d+) \}', p)
    if [r[0] for r in rs] != ['Low', 'Medium', 'High']:
        raise ExtractError(f'TerminalResolution::get_resolution: {rs}')
    need(p, r'screen: vec!\[1; 320 \* 200\],\s*terminal_resolution: TerminalResolution::Low,\s*pen_colors: IGS_SYSTEM_PALETTE\.to_vec\(\),', 'DrawExecutor::default')
    # LineType::get_mask
    masks = re.findall(r'LineType::(\w+) => (\d+),', fn_body(p, r'fn get_mask\(self\) -> usize \{', 'get_mask'))
    if [int(b) for _, b in masks] != list(range(7)):
        raise ExtractError(f'LineType::get_mask {masks}')
    # execute_command: one arm per command; the argument-count guard of each arm
    ex = fn_body(p, r'fn execute_command\(\s*&mut self,.*?\) -> EngineResult<CallbackAction> \{', 'execute_command')
    arms = list(re.finditer(r'\n            IgsCommands::(\w+) => \{', ex))
    table = []
    bodies = {}
    for i, a in enumerate(arms):
        end = arms[i + 1].start() if i + 1 < len(arms) else ex.index('\n            _ => Err(anyhow::anyhow!("Unimplemented IGS command')
        body = norm(ex[a.end():end])
        if body.endswith('}'):
            body = body[:-1].strip()
        bodies[a.group(1)] = body
        mm = re.match(r'if parameters\.len\(\) != (\d+) \{ return Err\(', body)
        if mm:
            table.append((a.group(1), int(mm.group(1))))
        elif a.group(1) in ('PolyFill', 'PolyLine'):
            if not body.startswith('if parameters.is_empty() { return Err('):
                raise ExtractError(f'{a.group(1)}: is_empty guard')
            rule = 'let points: i32 = parameters[0]; if points < 1 || points * 2 + 1 != parameters.len() as i32 { return Err('
            if rule not in body:
                raise ExtractError(f'{a.group(1)}: the `points * 2 + 1 != parameters.len()` rule is gone (the model and theorem igs_poly_validation rely on it)')
        elif a.group(1) == 'GrabScreen':
            if not body.startswith('if parameters.len() < 2 { return Err('):
                raise ExtractError('GrabScreen: len < 2 guard')
            gl = re.findall(r'(\d+) => \{ if parameters\.len\(\) != (\d+) \{ return Err', body)
            if [(int(a), int(b)) for a, b in gl] != [(0, 8), (1, 6), (2, 4), (3, 8)]:
                raise ExtractError(f'GrabScreen modes {gl}')
        elif a.group(1) == 'ScreenClear':
            if body != 'self.clear(buf, caret); Ok(CallbackAction::Update)':
                raise ExtractError('ScreenClear arm changed')
        else:
            raise ExtractError(f'execute_command arm {a.group(1)} has no argument-count guard')
    want_arms = ['Initialize', 'ScreenClear', 'AskIG', 'Cursor', 'ColorSet', 'SetPenColor', 'DrawLine', 'PolyFill', 'PolyLine', 'LineDrawTo', 'Box',
                 'RoundedRectangles', 'HollowSet', 'Pieslice', 'Circle', 'Ellipse', 'EllipticalArc', 'QuickPause', 'AttributeForFills', 'FilledRectangle',
                 'TimeAPause', 'PolymarkerPlot', 'TextEffects', 'LineMarkerTypes', 'DrawingMode', 'SetResolution', 'WriteText', 'FloodFill', 'GrabScreen',
                 'VTColor', 'VTPosition']
    if [a.group(1) for a in arms] != want_arms:
        raise ExtractError(f'execute_command arms changed: {[a.group(1) for a in arms]}')
    # index guards the invariant `every screen byte < 16` relies on
    for arm, pat in [('ColorSet', 'if !(0..=15).contains(&parameters[1]) { return Err('), ('SetPenColor', 'if !(0..=15).contains(&color) { return Err('),
                     ('VTColor', 'if let Some(pen) = REGISTER_TO_PEN.get(parameters[1] as usize) {')]:
        if pat not in bodies[arm]:
            raise ExtractError(f'{arm}: index guard `{pat}` is gone')
    # (the observation hook `VERIF_PIXEL_OPS.fetch_add(..)` at the top of set_pixel / get_pixel is cfg(icy_engine_verif) only)
    hook = '#[cfg(icy_engine_verif)] VERIF_PIXEL_OPS.fetch_add(1, std::sync::atomic::Ordering::Relaxed); '
    b = norm(fn_body(p, r'fn set_pixel\(&mut self, x: i32, y: i32, line_color: u8\) \{', 'set_pixel')).replace(hook, '', 1)
    if b != 'let offset = (y * self.get_resolution().width + x) as usize; if offset >= self.screen.len() { return; } self.screen[offset] = line_color;':
        raise ExtractError('set_pixel changed')
    b = norm(fn_body(p, r'fn get_pixel\(&mut self, x: i32, y: i32\) -> u8 \{', 'get_pixel')).replace(hook, '', 1)
    if b != 'let offset = (y * self.get_resolution().width + x) as usize; if offset >= self.screen.len() { return 0; } self.screen[offset]':
        raise ExtractError('get_pixel changed')
    b = norm(fn_body(p, r'fn fill_rect\(&mut self, mut x0: i32, mut y0: i32, mut x1: i32, mut y1: i32\) \{', 'fill_rect'))
    if 'x0 = x0.max(0); y0 = y0.max(0); x1 = x1.min(res.width - 1); y1 = y1.min(res.height - 1); for y in y0..=y1 { for x in x0..=x1 { self.fill_pixel(x, y); } }' not in b:
        raise ExtractError('fill_rect: clipping to the screen is gone')
    # the loop bounds of the three blits: the cost functions of Model/IgsCost.lean (rounds = rows x columns) and the
    # theorems igs_blit_*_cost rely on the clamps to the resolution / the early exits at the screen edge
    for fn, sig, body in [
        ('blit_screen_to_screen', r'fn blit_screen_to_screen\(&mut self, _write_mode: i32, from: Position, to: Position, dest: Position\) \{',
         'let res = self.get_resolution(); let width = (to.x - from.x).min(res.width); let height = (to.y - from.y).min(res.height); '
         'for y in 0..height { for x in 0..width { let color = self.get_pixel(from.x + x, from.y + y); self.set_pixel(dest.x + x, dest.y + y, color); } }'),
        ('blit_screen_to_memory', r'fn blit_screen_to_memory\(&mut self, _write_mode: i32, from: Position, to: Position\) \{',
         'let res = self.get_resolution(); let width = (to.x - from.x).min(res.width); let height = (to.y - from.y).min(res.height); '
         'self.screen_memory_size = Size::new(width, height); self.screen_memory.clear(); '
         'for y in from.y..from.y + height { for x in from.x..from.x + width { let color = self.get_pixel(x, y); self.screen_memory.push(color); } }'),
        ('blit_memory_to_screen', r'fn blit_memory_to_screen\(&mut self, _write_mode: i32, from: Position, to: Position, dest: Position\) \{',
         'let width = to.x - from.x; let height = to.y - from.y; let res = self.get_resolution(); '
         'for y in 0..height { let yp = y + from.y; if dest.y + y >= res.height { break; } for x in 0..width { let xp = x + from.x; '
         'if dest.x + x >= res.width { break; } let offset = yp as i64 * width as i64 + xp as i64; '
         'if let Some(color) = usize::try_from(offset).ok().and_then(|o| self.screen_memory.get(o).copied()) { self.set_pixel(dest.x + x, dest.y + y, color); } } }'),
    ]:
        got = norm(strip_comments(fn_body(p, sig, fn)))
        if got != body:
            raise ExtractError(f'{fn}: loop bounds / body changed (the blit cost theorems rely on them): {got}')
    b = norm(fn_body(p, r'fn get_picture_data\(&mut self\) -> Option<\(Size, Vec<u8>\)> \{', 'igs get_picture_data'))
    if b != ('let mut pixels = Vec::new(); for i in &self.screen { let (r, g, b) = self.pen_colors[*i as usize].get_rgb(); pixels.push(r); pixels.push(g); pixels.push(b); '
             'if r == 0 && g == 0 && b == 0 { pixels.push(0); } else { pixels.push(255); } } Some((self.get_resolution(), pixels))'):
        raise ExtractError('igs get_picture_data changed')
    # round_rect: the corner offsets are scaled in i64 (repaired; Model/IgsPaint.lean `roundRect.sc` has no overflow outcome there)
    rr = norm(strip_comments(fn_body(p, r'fn round_rect\(&mut self, x1: i32, y1: i32, x2: i32, y2: i32, parameters: i32\) \{', 'round_rect')))
    if ('let scale = |k: i64, r: i32| (k * r as i64 / 32767) as i32; '
        'let x_off = [0, scale(12539, x_radius), scale(23170, x_radius), scale(30273, x_radius), x_radius]; '
        'let y_off = [y_radius, scale(30273, y_radius), scale(23170, y_radius), scale(12539, y_radius), 0];') not in rr:
        raise ExtractError('round_rect: the i64 scaling of the corner offsets is gone / changed')
    # polymarker stroke tables (draw_poly_maker)
    pm = fn_body(p, r'fn draw_poly_maker\(&mut self, x0: i32, y0: i32\) \{', 'draw_poly_maker')
    markers = re.findall(r'PolymarkerType::(\w+) => vec!\[([^\]]*)\]', pm)
    if [a for a, _ in markers] != ['Point', 'Plus', 'Star', 'Square', 'DiagonalCross', 'Diamond']:
        raise ExtractError(f'draw_poly_maker tables {markers}')
    mtabs = [[int(t.replace('i32', '')) for t in re.findall(r'-?\d+(?:i32)?', b)] for _, b in markers]
    if 'i += num_points * 2;' not in norm(pm):
        raise ExtractError('draw_poly_maker: `i += num_points * 2` is gone')
    ds = norm(fn_body(p, r'fn draw_line\(&mut self, x0: i32, y0: i32, x1: i32, y1: i32, color: u8, mask: usize\) \{', 'igs draw_line'))
    if 'let mut line_mask = LINE_STYLE.get(mask).copied().unwrap_or(LINE_STYLE[0]);' not in ds:
        raise ExtractError('igs draw_line: the LINE_STYLE lookup guard is gone')
    out = [HEADER, 'namespace IcyVerif.Gen.IgsPaint\n']
    out.append('def markerTables : List (List Int) := [' + ', '.join('[' + ', '.join(str(v) for v in t) + ']' for t in mtabs) + ']\n')
    out.append(lean_list('systemPalette', sysp))
    out.append(lean_list('igsPalette', igsp))
    out.append(lean_list('randomPattern', rnd))
    out.append(lean_list('hollowPattern', hol))
    out.append(lean_list('solidPattern', sol))
    out.append(lean_list('typePatternFlat', typ))
    out.append(lean_list('hatchPatternFlat', hat))
    out.append(lean_list('hatchWidePatternFlat', wid))
    out.append(lean_list('lineStyle', lst))
    out.append(lean_list('registerToPen', reg))
    out.append('def resolutions : List (Nat × Nat) := [' + ', '.join(f'({w}, {h})' for _, w, h in rs) + ']\n')
    out.append('/-- (command, required `parameters.len()`) for the arms of `execute_command` that start with `if parameters.len() != N` -/\n')
    out.append('def argCount : List (String × Nat) := [' + ', '.join(f'("{n}", {k})' for n, k in table) + ']\n')
    out.append('end IcyVerif.Gen.IgsPaint\n')
    return 'IgsPaint.lean', ''.join(out)


GENERATORS['igspaint'] = gen_igspaint
