"""Gen/RipText.lean: the integer part of the RIP text path (C20) — what `set_text_style`, `FontType::from`,
`Direction::from`, `FontType::get_font`, the scale tables of character.rs and the embedded .CHR fonts contribute to
the index computations of font.rs / character.rs.  Every pattern that is not found is an ExtractError."""
import os, re, struct
from extract import src, nums, lean_list, HEADER, ExtractError, REPO


def norm(s):
    s = re.sub(r'/\*.*?\*/', '', s, flags=re.S)
    s = re.sub(r'//[^\n]*', '', s)
    return re.sub(r'\s+', ' ', s).strip()


def need(text, pattern, what):
    m = re.search(pattern, text, re.S)
    if not m:
        raise ExtractError(f'pattern not found: {what}')
    return m


def gen_riptext():
    ch = src('src/parsers/rip/bgi/character.rs')
    up = nums(need(ch, r'pub const SCALE_UP: \[i32; (\d+)\] = \[(.*?)\];', 'SCALE_UP').group(2))
    down = nums(need(ch, r'pub const SCALE_DOWN: \[i32; (\d+)\] = \[(.*?)\];', 'SCALE_DOWN').group(2))
    nch = norm(ch)
    for pat in ['let size = size as usize; let height = font.get_height() * SCALE_UP[size] / SCALE_DOWN[size];',
                '(self.width * SCALE_UP[scale_factor as usize]) as f32 / SCALE_DOWN[scale_factor as usize] as f32']:
        if pat not in nch:
            raise ExtractError(f'character.rs: `{pat}` is gone (the scale tables are indexed by the text size)')
    bm = src('src/parsers/rip/bgi/mod.rs')
    m = need(norm(bm), r'pub fn set_text_style\(&mut self, font: FontType, direction: Direction, char_size: i32\) \{ self\.font = font; '
             r'self\.direction = direction; self\.char_size = char_size\.clamp\((\d+), (\d+)\); \}',
             'Bgi::set_text_style: `self.char_size = char_size.clamp(<literal>, <literal>)` (theorem rip_text_total needs the bounds to be inside the scale tables)')
    lo, hi = int(m.group(1)), int(m.group(2))
    variants = [v.strip() for v in need(bm, r'pub enum FontType \{(.*?)\}', 'enum FontType').group(1).split(',') if v.strip()]
    fb = need(bm, r'pub fn from\(font_type: u8\) -> FontType \{\s*match font_type \{(.*?)\n        \}', 'FontType::from').group(1)
    fb = re.sub(r'//[^\n]*', '', fb)
    arms = [(int(a), variants.index(b)) for a, b in re.findall(r'(\d+) => FontType::(\w+),', fb)]
    dflt = variants.index(need(fb, r'_ => FontType::(\w+),', 'FontType::from default').group(1))
    db = need(bm, r'pub fn from\(direction: u8\) -> Direction \{\s*match direction \{(.*?)\n        \}', 'Direction::from').group(1)
    if norm(db) != '1 => Direction::Vertical, _ => Direction::Horizontal,':
        raise ExtractError('Direction::from changed')
    gf = need(bm, r'pub fn get_font\(&self\) -> &Font \{\s*match self \{(.*?)\n        \}', 'FontType::get_font').group(1)
    font_idx = {}
    for lhs, idx in re.findall(r'((?:FontType::\w+\s*\|?\s*)+) => &FONTS\[(\d+)\],', gf):
        for v in re.findall(r'FontType::(\w+)', lhs):
            font_idx[v] = int(idx)
    if sorted(font_idx) != sorted(variants):
        raise ExtractError(f'FontType::get_font does not cover every variant: {sorted(font_idx)}')
    files = re.findall(r'Font::load\(include_bytes!\("(fonts/\w+\.CHR)"\)\)\.unwrap\(\),', need(bm, r'static ref FONTS: Vec<Font> = vec!\[(.*?)\];', 'FONTS').group(1))
    if not files:
        raise ExtractError('FONTS table is empty')
    # the .CHR header as Font::load reads it: characters.len() = first + character_count
    chars = []
    for f in files:
        b = open(os.path.join(REPO, 'src/parsers/rip/bgi', f), 'rb').read()
        i = b.index(0x1A) + 1
        hs = struct.unpack_from('<H', b, i)[0]
        cnt = struct.unpack_from('<H', b, hs + 1)[0]
        first = b[hs + 4]
        chars.append(first + cnt)
    fo = norm(src('src/parsers/rip/bgi/font.rs'))
    for pat in ['if character as usize >= self.characters.len() { return 0.0; } if let Some(ch) = &self.characters[character as usize] {',
                'for c in str.bytes() { if c as usize >= self.characters.len() { continue; } if let Some(ch) = &self.characters[c as usize] { width += ch.width as f64; } }']:
        if pat not in fo:
            raise ExtractError(f'font.rs: the guard `{pat[:60]}…` before indexing `characters` is gone')
    n_scale = len(re.findall(r'SCALE_UP\[size as usize\] / SCALE_DOWN\[size as usize\]', fo))
    if n_scale < 6:
        raise ExtractError('font.rs: the SCALE_UP[size] / SCALE_DOWN[size] sites changed')
    cm = norm(src('src/parsers/rip/commands.rs'))
    if 'bgi.set_text_style(FontType::from(self.font as u8), Direction::from(self.direction as u8), self.size);' not in cm:
        raise ExtractError('FontStyle::run changed')
    out = [HEADER, 'namespace IcyVerif.Gen.RipText\n']
    out.append(lean_list('scaleUp', up, 'Int'))
    out.append(lean_list('scaleDown', down, 'Int'))
    out.append(f'def sizeLo : Int := {lo}\ndef sizeHi : Int := {hi}\n')
    out.append('/-- FontType variants in declaration order -/\n')
    out.append('def fontVariants : List String := [' + ', '.join(f'"{v}"' for v in variants) + ']\n')
    out.append('/-- `FontType::from(u8)`: (code, variant index); every other code gives `fontFromDefault` -/\n')
    out.append('def fontFrom : List (Nat × Nat) := [' + ', '.join(f'({a}, {b})' for a, b in arms) + ']\n')
    out.append(f'def fontFromDefault : Nat := {dflt}\n')
    out.append(f'def fontDefaultVariant : Nat := {variants.index("Default")}\n')
    out.append('/-- `FontType::get_font`: index into FONTS per variant -/\n')
    out.append(lean_list('fontIndex', [font_idx[v] for v in variants]))
    out.append('/-- `characters.len()` (first + character_count of the embedded .CHR file) per FONTS entry -/\n')
    out.append(lean_list('fontChars', chars))
    out.append('end IcyVerif.Gen.RipText\n')
    return 'RipText.lean', ''.join(out)


GENERATORS = {'riptext': gen_riptext}
