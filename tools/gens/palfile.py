"""Gen/PalFile.lean: the PALETTE statements of the writers and loaders of the formats that embed a palette (XBin, ArtWorx
ADF, iCE Draw IDF), pinned as text.  The whole-file model (`Model/BinFormats.lean`, C05) writes `asVec63 (fillTo16 pal)` /
`toEgaData pal` / `asVec63 pal` and reads `from63` / `fromEgaData` of exactly that block WHATEVER ELSE the file holds (number
of fonts, compression, ice mode); C16's `file_palette_roundtrip` rests on that.  A palette statement that starts to depend
on anything else (e.g. the 512-character flag) changes the text between the pinned anchors: ExtractError = broken obligation
(the correspondence family `palstream savepal` then shows the concrete picture)."""
import re
from extract import src, HEADER, ExtractError


def squash(t):
    t = re.sub(r'//[^\n]*', '', t)
    return re.sub(r'\s+', ' ', t).strip()


def between(text, a, b, what):
    i = text.find(a)
    j = text.find(b, i + len(a)) if i >= 0 else -1
    if i < 0 or j < 0:
        raise ExtractError(f'{what}: anchors {a!r} .. {b!r} not found')
    return squash(text[i:j])


def pinned(what, got, want):
    if got != squash(want):
        raise ExtractError(f'{what} changed; the whole-file model copies\n    {squash(want)}\n  found\n    {got}')


def gen_palfile():
    xb = src('src/formats/xbinary.rs')
    adf = src('src/formats/artworx.rs')
    idf = src('src/formats/ice_draw.rs')
    frags = []

    def pin(what, got, want):
        pinned(what, got, want)
        frags.append((what, got))

    # XBin writer: the flag and the block, up to the font block
    pin('XBin::to_bytes palette flag', between(xb, 'if !buf.palette.is_default() {', 'if options.compress {', 'XBin::to_bytes'),
        'if !buf.palette.is_default() { flags |= FLAG_PALETTE; }')
    pin('XBin::to_bytes palette block',
        between(xb, 'if (flags & FLAG_PALETTE) == FLAG_PALETTE {', 'if flags & FLAG_FONT == FLAG_FONT {', 'XBin::to_bytes'), '''
        if (flags & FLAG_PALETTE) == FLAG_PALETTE {
            let mut pal = buf.palette.clone();
            pal.fill_to_16();
            let palette_data = pal.as_vec_63();
            if palette_data.len() != XBIN_PALETTE_LENGTH {
                return Err(anyhow::anyhow!( "Invalid palette data length was {} should be {}.", palette_data.len(), XBIN_PALETTE_LENGTH ));
            }
            result.extend(palette_data);
        }''')
    # XBin loader
    pin('XBin::load_buffer palette block', between(xb, 'if has_custom_palette {', 'if has_custom_font {', 'XBin::load_buffer'), '''
        if has_custom_palette {
            if data.len() < o + XBIN_PALETTE_LENGTH { return Err(LoadingError::FileTooShort.into()); }
            result.palette = Palette::from_63(&data[o..(o + XBIN_PALETTE_LENGTH)]);
            o += XBIN_PALETTE_LENGTH;
        }''')
    n_res, n_buf = len(re.findall(r'result\.palette(?![_\w])', xb)), len(re.findall(r'buf\.palette(?![_\w])', xb))
    if n_res != 1 or n_buf != 2:
        raise ExtractError('xbinary.rs touches the palette at a site the whole-file model does not know '
                           f'(result.palette x{n_res}, expected 1; buf.palette x{n_buf}, expected 2)')
    # ADF
    pin('Artworx::to_bytes palette', between(adf, 'let mut result = vec![1];', 'if let Some(font) = buf.get_font(', 'Artworx::to_bytes'),
        'let mut result = vec![1]; result.extend(to_ega_data(&buf.palette));')
    pin('Artworx::load_buffer palette', between(adf, 'let palette_size = 3 * 64;', 'let font_size', 'Artworx::load_buffer'),
        'let palette_size = 3 * 64; result.palette = from_ega_data(&data[o..(o + palette_size)]); o += palette_size;')
    # IDF
    pin('IceDraw::to_bytes palette', between(idf, '// palette\n        result.extend(', 'if options.save_sauce {', 'IceDraw::to_bytes'),
        'result.extend(buf.palette.as_vec_63());')
    pin('IceDraw::load_buffer palette', between(idf, 'result.palette = Palette::from_63(', 'Ok(result)', 'IceDraw::load_buffer'),
        'result.palette = Palette::from_63(&data[o..(o + PALETTE_SIZE)]);')
    out = [HEADER, 'namespace IcyVerif.Gen.PalFile\n',
           '/-- the palette statements of the XBin / ADF / IDF writers and loaders the whole-file model copies (pinned text) -/\n',
           'def pinnedFragments : List String := [' + ', '.join('"' + w + '"' for w, _ in frags) + ']\n',
           'end IcyVerif.Gen.PalFile\n']
    return 'PalFile.lean', ''.join(out)


GENERATORS = {'palfile': gen_palfile}
