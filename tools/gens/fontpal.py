"""Gen/FontPal.lean: what the C02/C03 models of the bitmap-font loaders (src/fonts.rs) and the palette importers
(src/palette_handling.rs) take from the source:

* constants (PSF magic numbers, header sizes, the extension table of `import_palette`),
* VARIANT FLAG `glyphZeroGuard`: does `glyphs_from_u8_data` return before its loop when the glyph height is 0?  The
  model's loop follows the flag, `glyph_loop_cost` / `bitfont_total` are proved from `glyphZeroGuard = true`, so removing
  the guard from the source breaks those obligations (and the loop header itself is pinned: the translator refuses
  another spelling),
* SITE INVENTORY: every line of the loader functions that contains a construct which can panic in the debug profile
  (index/slice, unwrap/expect, allocation from a number, arithmetic, casts, todo!/panic!/assert) - `loader_sites_known`
  in Props/C02.lean compares fingerprints with the table of sites the model accounts for, so a NEW such line (e.g. an
  allocation sized by a number from the file) breaks an obligation even before a generator reaches it,
* the Unicode class behind `\\d` of the `regex` crate (Nd ranges from the regex-syntax version the harness links)."""
import os, re, json, hashlib, glob
from extract import src, HEADER, ExtractError

RISK = re.compile(r'\[|\.unwrap\(|\.expect\(|with_capacity|\.reserve|\bvec!|\s[-+*/%]=?\s|\btodo!|\bpanic!|\bunreachable!|\bassert|\sas\s|unchecked|\bunsafe\b|<<|>>|\.pow\(|from_raw')

FONT_FNS = ['glyphs_from_u8_data', 'load_psf1', 'load_plain_font', 'load_psf2', 'from_bytes', 'calculate_checksum', 'create_8', 'from_basic']
PAL_FNS = ['load_palette', 'import_palette']


def _need(cond, msg):
    if not cond:
        raise ExtractError(msg)


def fn_body(text, name):
    """text of `fn name(...) ... { body }` by brace matching (comments already stripped)"""
    m = re.search(r'\bfn\s+' + name + r'\s*(?:<[^>]*>)?\s*\(', text)
    _need(m, f'fn {name} not found')
    i = text.index('{', m.end())
    depth, j = 0, i
    while j < len(text):
        if text[j] == '{':
            depth += 1
        elif text[j] == '}':
            depth -= 1
            if depth == 0:
                return text[m.start():j + 1]
        j += 1
    raise ExtractError(f'fn {name}: unbalanced braces')


def strip_comments(text):
    return re.sub(r'//[^\n]*', '', text)


def sites_of(path, fns):
    text = strip_comments(src(path))
    items = []
    for fn in fns:
        body = fn_body(text, fn)
        seen = {}
        for line in body.split('\n')[1:]:
            line = re.sub(r'\s+', ' ', line).strip()
            if not line or not RISK.search(' ' + line + ' '):
                continue
            k = seen.get(line, 0) + 1
            seen[line] = k
            items.append(f'{path[4:]}::{fn}::{line}' + (f' #{k}' if k > 1 else ''))
    return items


def nd_ranges():
    """Decimal_Number ranges of the regex-syntax crate version named in harness/Cargo.lock"""
    here = os.path.dirname(os.path.abspath(__file__))
    lock = os.path.join(here, '..', '..', 'harness', 'Cargo.lock')
    ver = None
    if os.path.exists(lock):
        m = re.search(r'name = "regex-syntax"\nversion = "([^"]+)"', open(lock).read())
        if m:
            ver = m.group(1)
    home = os.environ.get('CARGO_HOME', os.path.expanduser('~/.cargo'))
    cands = sorted(glob.glob(os.path.join(home, 'registry', 'src', '*', f'regex-syntax-{ver or "*"}', 'src', 'unicode_tables', 'perl_decimal.rs')))
    _need(cands, 'regex-syntax unicode table perl_decimal.rs not found in the cargo registry')
    t = open(cands[-1], encoding='utf-8').read()
    m = re.search(r'DECIMAL_NUMBER: &\'static \[\(char, char\)\] = &\[(.*?)\];', t, re.S)
    _need(m, 'DECIMAL_NUMBER table not understood')
    rs = [(ord(a), ord(b)) for a, b in re.findall(r"\('(.)', '(.)'\)", m.group(1))]
    _need(len(rs) > 30 and rs[0] == (48, 57), 'DECIMAL_NUMBER table looks wrong')
    return rs, os.path.basename(os.path.dirname(os.path.dirname(os.path.dirname(cands[-1]))))


def gen_fontpal():
    out = [HEADER, 'namespace IcyVerif.Gen.FontPal\n']

    def d(name, val, ty='Nat'):
        out.append(f'def {name} : {ty} := {val}\n')

    def flag(name, val):
        d(name, 'true' if val else 'false', 'Bool')

    # ---------------------------------------------------------------- fonts.rs
    s = strip_comments(src('src/fonts.rs'))
    m = re.search(r'const PSF1_MAGIC: u16 = (0x[0-9a-fA-F_]+);', s)
    _need(m, 'PSF1_MAGIC not found')
    d('psf1Magic', int(m.group(1).replace('_', ''), 16))
    m = re.search(r'const PSF1_MODE512: u8 = (0x[0-9a-fA-F_]+);', s)
    _need(m, 'PSF1_MODE512 not found')
    d('psf1Mode512', int(m.group(1).replace('_', ''), 16))
    m = re.search(r'const PSF2_MAGIC: u32 = (0x[0-9a-fA-F_]+);', s)
    _need(m, 'PSF2_MAGIC not found')
    d('psf2Magic', int(m.group(1).replace('_', ''), 16))
    m = re.search(r'const PSF2_MAXVERSION: u32 = (0x[0-9a-fA-F_]+);', s)
    _need(m, 'PSF2_MAXVERSION not found')
    d('psf2MaxVersion', int(m.group(1).replace('_', ''), 16))

    g = fn_body(s, 'glyphs_from_u8_data')
    _need(re.search(r'fn glyphs_from_u8_data\(font_height: usize, mut data: &\[u8\]\)', g), 'glyphs_from_u8_data: signature changed')
    wm = re.search(r'\bwhile\s+([^{]*?)\s*\{', g)
    _need(wm and wm.group(1) == 'data.len() >= font_height', 'glyphs_from_u8_data: loop header is not `while data.len() >= font_height` '
          '(the model copies that condition)')
    _need(len(re.findall(r'\b(?:while|for|loop)\b', g)) == 1, 'glyphs_from_u8_data: more than one loop')
    _need('data: data[..font_height].into(),' in g and 'data = &data[font_height..];' in g and 'ch += 1;' in g,
          'glyphs_from_u8_data: loop body changed')
    gm = re.search(r'if font_height == 0 \{\s*return glyphs;\s*\}', g)
    flag('glyphZeroGuard', bool(gm) and gm.start() < wm.start())

    p1 = fn_body(s, 'load_psf1')
    _need('let mode = data[2];' in p1 and 'let charsize = data[3];' in p1 and 'glyphs_from_u8_data(charsize as usize, &data[4..])' in p1
          and 'mode & BitFont::PSF1_MODE512 == BitFont::PSF1_MODE512 { 512 } else { 256 }' in p1, 'load_psf1: shape changed')
    pl = fn_body(s, 'load_plain_font')
    m = re.search(r'if data\.len\(\) % (\d+) != 0 \{\s*return Err', pl)
    _need(m and f'let char_height = data.len() / {m.group(1)};' in pl and 'glyphs_from_u8_data(char_height, data)' in pl, 'load_plain_font: shape changed')
    d('plainGlyphs', int(m.group(1)))
    p2 = fn_body(s, 'load_psf2')
    m = re.search(r'if data\.len\(\) < (\d+) \{\s*return Err', p2)
    _need(m, 'load_psf2: header length guard not found')
    d('psf2HeaderLen', int(m.group(1)))
    fields = re.findall(r'let (\w+) = u32::from_le_bytes\(data\[(\d+)\.\.(\d+)\]\.try_into\(\)\.unwrap\(\)\)( as \w+)?;', p2)
    _need([(f[0], int(f[1]), int(f[2])) for f in fields] == [('version', 4, 8), ('headersize', 8, 12), ('length', 16, 20), ('charsize', 20, 24),
                                                           ('height', 24, 28), ('width', 28, 32)], f'load_psf2: header fields changed: {fields}')
    _need('if version > BitFont::PSF2_MAXVERSION {' in p2, 'load_psf2: version check changed')
    _need('let expected = i64::from(length) * i64::from(charsize) + headersize as i64;' in p2
          and 'if length < 0 || charsize <= 0 || expected != data.len() as i64 || charsize as u64 != height as u64 * ((width as u64 + 7) / 8) {' in p2,
          'load_psf2: consistency check changed (model follows the repaired loader)')
    _need('glyphs_from_u8_data(height, &data[headersize..])' in p2, 'load_psf2: glyph data slice changed')
    fb = fn_body(s, 'from_bytes')
    m = re.search(r'if data\.len\(\) < (\d+) \{\s*return Err', fb)
    _need(m, 'BitFont::from_bytes: length guard not found (model follows the repaired loader)')
    d('fontMinLen', int(m.group(1)))
    _need('u16::from_le_bytes(data[0..2].try_into().unwrap())' in fb and 'u32::from_le_bytes(data[0..4].try_into().unwrap())' in fb
          and fb.index('PSF1_MAGIC') < fb.index('PSF2_MAGIC') < fb.index('load_plain_font'), 'BitFont::from_bytes: dispatch changed')
    # VARIANT FLAG: is a PSF1 character size of 0 rejected before `load_psf1`?  (`bitfont_size_nonzero` is proved from it;
    # a font of height 0 in slot 0 makes `parse_with_parser` divide by zero when it sizes a sixel layer)
    zm = re.search(r'if magic16 == BitFont::PSF1_MAGIC \{\s*(if data\[3\] == 0 \{\s*return Err\([^;]*\);\s*\}\s*)?return Ok\(BitFont::load_psf1\(font_name, data\)\);', fb)
    _need(zm, 'BitFont::from_bytes: PSF1 arm not recognised')
    flag('psf1ZeroRejected', zm.group(1) is not None)
    cc = fn_body(s, 'calculate_checksum')
    _need('for ch in 0..self.length {' in cc, 'calculate_checksum: loop header changed')

    # ---------------------------------------------------------------- palette_handling.rs
    s = strip_comments(src('src/palette_handling.rs'))
    ip = fn_body(s, 'import_palette')
    rows = re.findall(r'"(\w+)" => Palette::load_palette\(&PaletteFormat::(\w+), bytes\),', ip)
    _need(rows and 'ext.to_ascii_lowercase()' in ip, 'import_palette: extension table not found')
    out.append('/-- `import_palette`: lower-cased extension -> format -/\n')
    out.append('def palExtTable : List (String × String) := [' + ', '.join(f'("{a}", "{b.lower()}")' for a, b in rows) + ']\n')
    lp = fn_body(s, 'load_palette')
    # every conversion of a number found in the file is `?`-propagated (an Err, not a panic) and typed u32
    parses = re.findall(r'\.parse::<(\w+)>\(\)(\?)?', lp)
    radix = re.findall(r'u32::from_str_radix\(\w+, (\d+)\)(\?)?', lp)
    d('palDecimalParses', len(parses))
    d('palHexParses', len(radix))
    out.append('/-- every conversion of a number found in a palette file is `.parse::<u32>()?` or `u32::from_str_radix(_, 16)?`\n'
               '    (an `Err`, not a panic; nothing wider than u32) -/\n')
    flag('palConversionsChecked', bool(parses) and all(t == 'u32' and q == '?' for t, q in parses)
         and bool(radix) and all(r == '16' and q == '?' for r, q in radix))
    _need(lp.count('match String::from_utf8(bytes.to_vec()) {') == 5, 'load_palette: the five formats no longer start with String::from_utf8')
    _need(lp.count('Color::new(r as u8, g as u8, b as u8)') == 5, 'load_palette: channel truncation `as u8` changed')
    for name, rx in [('HEX_REGEX', r'([0-9a-fA-F]{2})([0-9a-fA-F]{2})([0-9a-fA-F]{2})'), ('PAL_REGEX', r'(\d+)\s+(\d+)\s+(\d+)'),
                     ('GPL_COLOR_REGEX', r'(\d+)\s+(\d+)\s+(\d+)\s*(.*)'),
                     ('TXT_COLOR_REGEX', r'([0-9a-fA-F]{2})([0-9a-fA-F]{2})([0-9a-fA-F]{2})([0-9a-fA-F]{2})'),
                     ('ICE_COLOR_REGEX', r'([0-9a-fA-F]{2})([0-9a-fA-F]{2})([0-9a-fA-F]{2})')]:
        m = re.search(r'static ref ' + name + r': Regex = Regex::new\(r"([^"]*)"\)', s)
        _need(m and m.group(1) == rx, f'{name} changed: the matcher in the model is written for {rx}')

    # ---------------------------------------------------------------- site inventory
    items = sites_of('src/fonts.rs', FONT_FNS) + sites_of('src/palette_handling.rs', PAL_FNS)
    _need(len(items) > 30, f'only {len(items)} loader sites found')
    out.append('/-- lines of the font / palette loader functions holding a construct that can panic in the debug profile -/\n')
    out.append('def loaderSites : List String := [\n' + ',\n'.join('  ' + json.dumps(i, ensure_ascii=False) for i in items) + '\n]\n')
    out.append('/-- 48-bit fingerprints (sha1) of `loaderSites`, same order -/\n')
    out.append('def loaderSiteIds : List Nat := [' + ', '.join(str(int(hashlib.sha1(i.encode()).hexdigest()[:12], 16)) for i in items) + ']\n')

    # ---------------------------------------------------------------- \d of the regex crate
    rs, ver = nd_ranges()
    out.append(f'/-- Unicode Decimal_Number (`\\\\d` in the regex crate\'s default Unicode mode), from {ver} -/\n')
    out.append('def ndRanges : List (Nat × Nat) := [' + ', '.join(f'({a}, {b})' for a, b in rs) + ']\n')
    out.append('end IcyVerif.Gen.FontPal\n')
    return 'FontPal.lean', ''.join(out)


GENERATORS = {'fontpal': gen_fontpal}
