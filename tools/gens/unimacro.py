"""Gen/UniMacro.lean (C10): what `Model/UniMacro.lean` (the macro table of the ANSI parser: where macro bodies —
`String`s built from stream characters — are made and stored) takes from the source.

* the literals `execute_dcs` / `parse_macro` dispatch on: the macro introducer `!z`, the custom-font prefix, the sixel
  introducer `q`, the values of Pdt that clears the table and of Penc that select text / hex bodies;
* an inventory of EVERY mention of the field `macros` in `src/parsers/ansi/*.rs` outside tests (file, enclosing fn,
  statement): `Props/C10Macro.macro_table_sites_known` compares it with the list the model was written from, so a new
  writer (or a post-processing step such as a `store_macro` helper) breaks an obligation even before a generator reaches it;
* PINNED text (translator fails when it changes): `parse_macro_sequence`, `parse_macro`, the number loop of
  `execute_dcs`, the tail of `parse_hex_macro_sequence` (from the last `push_repeated` to the `insert`)."""
import os, re, json
from extract import src, lean_list, HEADER, ExtractError, REPO


def squash(t):
    t = re.sub(r'//[^\n]*', '', t)
    return re.sub(r'\s+', ' ', t).strip()


def fn_body(text, sig):
    a = text.find(sig)
    if a < 0:
        raise ExtractError(f'{sig!r} not found')
    i = text.index('{', a)
    depth, j = 0, i
    while j < len(text):
        if text[j] == '{':
            depth += 1
        elif text[j] == '}':
            depth -= 1
            if depth == 0:
                return text[a:j + 1]
        j += 1
    raise ExtractError(f'{sig!r}: unbalanced braces')


def pinned(name, got, want):
    if squash(got) != squash(want):
        raise ExtractError(f'{name} is no longer the text Model/UniMacro.lean follows')


EXPECTED_TEXT = '''
fn parse_macro_sequence(&mut self, id: usize, start_index: usize) {
    self.macros.insert(id, self.parse_string[start_index..].to_string());
}'''

EXPECTED_PARSE_MACRO = '''
fn parse_macro(&mut self, start_index: usize) -> EngineResult<CallbackAction> {
    if let Some(pid) = self.parsed_numbers.first() {
        if let Some(pdt) = self.parsed_numbers.get(1) {
            if *pdt == 1 {
                self.macros.clear();
            }
        }
        match self.parsed_numbers.get(2) {
            Some(0) => {
                self.parse_macro_sequence(*pid as usize, start_index);
            }
            Some(1) => {
                self.parse_hex_macro_sequence(*pid as usize, start_index)?;
            }
            _ => {
                return Err(ParserError::UnsupportedDCSSequence(format!(
                    "encountered p3 in macro definition: '{}' only 0 and 1 are valid.",
                    self.parse_string
                ))
                .into())
            }
        };
        return Ok(CallbackAction::NoUpdate);
    }
    Err(ParserError::UnsupportedDCSSequence(format!("encountered unsupported macro definition: '{}'", self.parse_string)).into())
}'''

EXPECTED_NUMBER_LOOP = '''
let mut i = 0;
self.parsed_numbers.clear();
for ch in self.parse_string.chars() {
    match ch {
        '0'..='9' => {
            let d = match self.parsed_numbers.pop() {
                Some(number) => number,
                _ => 0,
            };
            self.parsed_numbers.push(parse_next_number(d, ch as u8));
        }
        ';' => {
            self.parsed_numbers.push(0);
        }
        _ => {
            break;
        }
    }
    i += 1;
}

if self.parse_string[i..].starts_with("!z") {
    return self.parse_macro(i + 2);
}

if self.parse_string[i..].starts_with('q') {'''

EXPECTED_HEX_TAIL = '''
if read_repeat {
    push_repeated(&mut marco_rec, &repeat_rec, repeat_number);
}

self.macros.insert(id, marco_rec);

Ok(CallbackAction::NoUpdate)
}'''


def strip_comments_keep_lines(s):
    out = []
    for line in s.split('\n'):
        # good enough for these files: no `//` inside string literals on lines that mention `macros`
        k = line.find('//')
        out.append(line if k < 0 else line[:k])
    return '\n'.join(out)


def enclosing_fn(s, pos):
    name = None
    for m in re.finditer(r'\bfn\s+(\w+)', s[:pos]):
        name = m.group(1)
    return name or '<top>'


def gen_unimacro():
    dcs = src('src/parsers/ansi/dcs.rs')
    pinned('parse_macro_sequence', fn_body(dcs, 'fn parse_macro_sequence('), EXPECTED_TEXT)
    pinned('parse_macro', fn_body(dcs, 'fn parse_macro('), EXPECTED_PARSE_MACRO)
    ex = fn_body(dcs, 'fn execute_dcs(')
    a = ex.find('let mut i = 0;')
    b = ex.find("starts_with('q') {")
    if a < 0 or b < 0:
        raise ExtractError('execute_dcs: number loop / sixel dispatch not found')
    pinned('the number loop and dispatch of execute_dcs', ex[a:b + len("starts_with('q') {")], EXPECTED_NUMBER_LOOP)
    m = re.search(r'if self\.parse_string\.starts_with\("([^"]*)"\) \{\s*return self\.load_custom_font\(buf\);', ex)
    if not m or ex.find(m.group(0)) > a:
        raise ExtractError('execute_dcs: custom-font prefix test is no longer the first thing it does')
    font_prefix = [ord(c) for c in m.group(1)]
    hx = fn_body(dcs, 'fn parse_hex_macro_sequence(')
    t = hx.rfind('if read_repeat {')
    if t < 0:
        raise ExtractError('parse_hex_macro_sequence: tail not found')
    pinned('the tail of parse_hex_macro_sequence', hx[t:], EXPECTED_HEX_TAIL)
    if not re.search(r'for ch in self\.parse_string\[start_index\.\.\]\.chars\(\) \{', hx):
        raise ExtractError('parse_hex_macro_sequence no longer walks parse_string[start_index..]')
    # literals
    intro = re.search(r'starts_with\("(![^"]*)"\) \{\s*return self\.parse_macro\(i \+ (\d+)\);', ex)
    if not intro or int(intro.group(2)) != len(intro.group(1)):
        raise ExtractError('macro introducer literal and the start index passed to parse_macro disagree')
    sixel = re.search(r"starts_with\('(.)'\) \{", ex)
    pm = fn_body(dcs, 'fn parse_macro(')
    clear = re.search(r'if \*pdt == (\d+) \{\s*self\.macros\.clear\(\);', pm)
    enc_text = re.search(r'Some\((\d+)\) => \{\s*self\.parse_macro_sequence\(', pm)
    enc_hex = re.search(r'Some\((\d+)\) => \{\s*self\.parse_hex_macro_sequence\(', pm)
    if not (sixel and clear and enc_text and enc_hex):
        raise ExtractError('parse_macro / execute_dcs: dispatch literals not found')
    # inventory of every mention of the field
    sites = []
    d = os.path.join(REPO, 'src/parsers/ansi')
    for f in sorted(os.listdir(d)):
        if not f.endswith('.rs') or 'test' in f:
            continue
        raw = open(os.path.join(d, f), encoding='utf-8').read()
        s = strip_comments_keep_lines(raw)
        # `#[cfg(test)] mod x;` declarations go, an inline `#[cfg(test)] mod x { … }` (always last in these files) is cut
        s = re.sub(r'#\[cfg\(test\)\]\s*(?:pub\s+)?mod\s+\w+\s*;', '', s)
        k = s.find('#[cfg(test)]')
        if k >= 0:
            s = s[:k]
        for mm in re.finditer(r'\bmacros\b', s):
            ls = s.rfind('\n', 0, mm.start()) + 1
            le = s.find('\n', mm.end())
            line = squash(s[ls:le if le >= 0 else len(s)])
            site = (f'src/parsers/ansi/{f}', enclosing_fn(s, mm.start()), line)
            if site not in sites:
                sites.append(site)
    if not any('insert' in x[2] for x in sites):
        raise ExtractError('no writer of the macro table found (inventory broken)')
    out = [HEADER, 'namespace IcyVerif.Gen.UniMacro\n']
    out.append(lean_list('macroIntro', [ord(c) for c in intro.group(1)]))
    out.append(lean_list('fontPrefix', font_prefix))
    out.append(f'def sixelIntro : Nat := {ord(sixel.group(1))}\n')
    out.append(f'def pdtClear : Int := {int(clear.group(1))}\n')
    out.append(f'def encText : Int := {int(enc_text.group(1))}\n')
    out.append(f'def encHex : Int := {int(enc_hex.group(1))}\n')
    out.append('/-- every mention of the field `macros` in src/parsers/ansi (file, enclosing fn, statement) -/\n')
    out.append('def macroTableSites : List (String × String × String) := [' +
               ',\n  '.join(f'({json.dumps(a)}, {json.dumps(b)}, {json.dumps(c)})' for a, b, c in sites) + ']\n')
    out.append('end IcyVerif.Gen.UniMacro\n')
    return 'UniMacro.lean', ''.join(out)


GENERATORS = {'unimacro': gen_unimacro}
