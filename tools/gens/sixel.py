"""Gen/Sixel.lean: the literals the sixel model depends on (src/sixel_mod.rs, src/palette_handling.rs,
src/parsers/ansi/mod.rs, src/buffers.rs) plus shape fingerprints of the functions the hand-written model mirrors"""
import re, json
from extract import src, HEADER, ExtractError


def gen_sixel():
    s = src('src/sixel_mod.rs')
    pal = src('src/palette_handling.rs')
    m = re.search(r'pub const DOS_DEFAULT_PALETTE: \[Color; (\d+)\]', pal)
    if not m:
        raise ExtractError('DOS_DEFAULT_PALETTE not found')
    pal_len = int(m.group(1))
    if not re.search(r'impl Default for Palette \{.*?colors: DOS_DEFAULT_PALETTE\.to_vec\(\)', pal, re.S):
        raise ExtractError('Palette::default() no longer starts from DOS_DEFAULT_PALETTE')
    if 'current_sixel_palette: Palette::default()' not in s:
        raise ExtractError('SixelParser no longer starts from Palette::default()')

    def fn_body(text, name):
        mm = re.search(r'fn ' + name + r'\b[^{]*\{(.*?)\n    \}', text, re.S)
        if not mm:
            raise ExtractError(f'fn {name} not found')
        return mm.group(1)

    tr = fn_body(s, 'translate_sixel_to_pixel')
    m1 = re.search(r"if ch < '(.)' \{", tr)
    m2 = re.search(r"let mask = ch as u8 - b'(.)';", tr)
    m3 = re.search(r'let y_pos = self\.sixel_cursor\.y\.checked_mul\((\d+)\)\.ok_or\(ParserError::InvalidPictureSize\)\?;', tr)
    m4 = re.search(r'let mut last_line = y_pos\.checked_add\((\d+)\)\.ok_or\(ParserError::InvalidPictureSize\)\?;', tr)
    m5 = re.search(r'for i in 0\.\.(\d+) \{', tr)
    m6 = re.search(r'let offset = x_pos as usize \* (\d+);', tr)
    m7 = re.search(r'cur_line\.resize\(\(x_pos as usize \+ 1\) \* (\d+), 0\)', tr)
    if not all([m1, m2, m3, m4, m5, m6, m7]):
        raise ExtractError('translate_sixel_to_pixel skeleton changed')
    if len({m3.group(1), m4.group(1), m5.group(1)}) != 1 or m6.group(1) != m7.group(1) or m1.group(1) != m2.group(1):
        raise ExtractError('translate_sixel_to_pixel: band height / pixel size / first data char used inconsistently')
    data = fn_body(s, 'parse_sixel_data')
    m8 = re.search(r"if ch > '\\x([0-9A-Fa-f]{2})' \{", data)
    if not m8:
        raise ExtractError('parse_sixel_data: ignore threshold not found')
    ctrl = re.findall(r"^\s*'(.)' => \{", data, re.M)
    # the cursor arithmetic is checked: overflow is an error, not a panic (model: `Err.invalidPictureSize`)
    if 'self.sixel_cursor.y = self.sixel_cursor.y.checked_add(1).ok_or(ParserError::InvalidPictureSize)?;' not in data:
        raise ExtractError("parse_sixel_data: the '-' arm no longer uses checked_add")
    if 'self.sixel_cursor.x = self.sixel_cursor.x.checked_add(1).ok_or(ParserError::InvalidPictureSize)?;' not in tr:
        raise ExtractError('translate_sixel_to_pixel: the column counter no longer uses checked_add')
    if re.search(r'sixel_cursor\.[xy] \+= |sixel_cursor\.[xy] \* ', s):
        raise ExtractError('sixel_mod.rs: unchecked arithmetic on the sixel cursor')
    ansi = src('src/parsers/ansi/mod.rs')
    m9 = re.search(r'pub fn parse_next_number\(x: i32, ch: u8\) -> i32 \{\s*(.*?)\s*\}', ansi, re.S)
    if not m9:
        raise ExtractError('parse_next_number not found')
    buf = src('src/buffers.rs')
    m10 = re.search(r'pub fn update_sixel_threads\(&mut self\)[^{]*\{(.*?)\n    \}', buf, re.S)
    if not m10:
        raise ExtractError('update_sixel_threads not found')
    # ---- file-loading path (src/formats/mod.rs) and the DCS hand-off (src/parsers/ansi/dcs.rs)
    fm = src('src/formats/mod.rs')
    m11 = re.search(r'// transform sixels to layers\n(.*?)\n\s*// crop last empty line', fm, re.S)
    if not m11:
        raise ExtractError('parse_with_parser: sixel-to-layer section not found')
    dcs = src('src/parsers/ansi/dcs.rs')
    m12 = re.search(r'let vertical_scale = match self\.parsed_numbers\.first\(\) \{(.*?)\n\s*\};', dcs, re.S)
    if not m12:
        raise ExtractError('execute_dcs: vertical_scale table not found')
    vs_table, vs_none, vs_other = [], None, None
    for arm in re.finditer(r'^\s*(.+?) => (\d+),\s*$', m12.group(1), re.M):
        pat, val = arm.group(1).strip(), int(arm.group(2))
        if pat == '_':
            vs_other = val
            continue
        alts = [a.strip() for a in pat.split('|')]
        keys = []
        i = 0
        while i < len(alts):
            a = alts[i]
            if a == 'None':
                vs_none = val
            elif a.startswith('Some('):
                # Some(0 | 1 | 5 | 6) was split at the inner bars as well: collect up to the closing parenthesis
                grp = [a[5:]]
                while not grp[-1].endswith(')'):
                    i += 1
                    grp.append(alts[i])
                grp[-1] = grp[-1][:-1]
                keys += [int(g) for g in grp]
            else:
                raise ExtractError(f'execute_dcs: unexpected vertical_scale pattern {pat!r}')
            i += 1
        if keys:
            vs_table.append((keys, val))
    if vs_none is None or vs_other is None or not vs_table:
        raise ExtractError('execute_dcs: vertical_scale table incomplete')
    if not re.search(r"starts_with\('q'\)", dcs) or 'Sixel::parse_from(p, 1, vertical_scale, bg_color, &dcs_string[i + 1..])' not in dcs:
        raise ExtractError('execute_dcs: sixel hand-off changed')
    if 'let p = caret.get_position();' not in dcs:
        raise ExtractError('execute_dcs: the sixel position is no longer the caret position')
    # ---- size limits (C03 / C14: no number in the payload sizes an allocation or a loop beyond them)
    m13 = re.search(r'pub const MAX_SIXEL_SIZE: i32 = (\d[\d_]*);', s)
    m14 = re.search(r'pub const MAX_SIXEL_COLORS: u32 = (\d[\d_]*);', s)
    if not m13 or not m14:
        raise ExtractError('sixel_mod.rs: MAX_SIXEL_SIZE / MAX_SIXEL_COLORS not found (the model follows the size-limited decoder)')
    pc = fn_body(s, 'parse_char')
    if 'if self.parsed_numbers.len() < 2 || self.parsed_numbers.len() > 4 || self.parsed_numbers[2..].iter().any(|n| *n > MAX_SIXEL_SIZE) {' not in pc:
        raise ExtractError('parse_char: the raster attribute guard (numbers beyond MAX_SIXEL_SIZE) changed')
    if not re.search(r'if let Some\(i\) = self\.parsed_numbers\.first\(\) \{\s*if \*i > MAX_SIXEL_SIZE \{\s*return Err\(ParserError::InvalidPictureSize\.into\(\)\);\s*\}\s*for _ in 0\.\.\*i \{', pc):
        raise ExtractError('parse_char: the repeat count guard in front of `for _ in 0..*i` changed')
    if 'if self.parsed_numbers.len() != 5 || self.current_sixel_color >= MAX_SIXEL_COLORS {' not in pc:
        raise ExtractError('parse_char: the colour register guard changed')
    if not re.search(r'last_line = self\.height\(\);\s*\}\s*if x_pos >= MAX_SIXEL_SIZE \|\| last_line > MAX_SIXEL_SIZE \{\s*return Err\(ParserError::InvalidPictureSize\.into\(\)\);\s*\}\s*if \(self\.picture_data\.len\(\) as i32\) < last_line \{', tr):
        raise ExtractError('translate_sixel_to_pixel: the size guard between the height clamp and the row resize changed')
    # ---- the raster attribute arm of `parse_char` (model: `sizeArm`): both forms `resize` the row vector to the declared
    # height UNCONDITIONALLY — `Vec::resize` grows and CUTS —, the theorem `sixel_raster_consistent` rests on it
    m15 = re.search(r'(self\.vertical_scale = self\.parsed_numbers\[0\];.*?self\.state = SixelState::Read;)\s*self\.parse_sixel_data\(ch\)\?;', pc, re.S)
    if not m15:
        raise ExtractError('parse_char: the raster attribute arm (ReadSize) was not found')
    raster_lines = [ln.strip() for ln in m15.group(1).split('\n') if ln.strip() and not ln.strip().startswith('//')]
    for need in ('self.picture_data.resize(height as usize, Vec::new());',
                 'self.picture_data.resize(height as usize, vec![0; 4 * width as usize]);'):
        if need not in raster_lines:
            raise ExtractError('parse_char: the raster attribute arm no longer resizes the rows to the declared height with `' + need + '`')
    out = [HEADER, 'namespace IcyVerif.Gen.Sixel\n']
    out.append(f'/-- `MAX_SIXEL_SIZE`: largest picture width / height in pixels -/\ndef maxSixelSize : Nat := {int(m13.group(1).replace("_", ""))}\n')
    out.append(f'/-- `MAX_SIXEL_COLORS`: colour registers a stream may define -/\ndef maxSixelColors : Nat := {int(m14.group(1).replace("_", ""))}\n')
    out.append(f'/-- `DOS_DEFAULT_PALETTE.len()` = size of `Palette::default()` -/\ndef defaultPalLen : Nat := {pal_len}\n')
    out.append(f"/-- `'{m1.group(1)}'`: first data character / mask offset -/\ndef firstData : Nat := {ord(m1.group(1))}\n")
    out.append(f'/-- pixel rows per sixel band -/\ndef bandRows : Nat := {int(m3.group(1))}\n')
    out.append(f'/-- bytes per pixel -/\ndef pixelBytes : Nat := {int(m6.group(1))}\n')
    out.append(f'/-- characters above this code point are ignored by `parse_sixel_data` -/\ndef ignoreAbove : Nat := {int(m8.group(1), 16)}\n')
    out.append('/-- control characters of `parse_sixel_data`, in match order -/\ndef controlChars : List Nat := [' +
               ', '.join(str(ord(c)) for c in ctrl) + ']\n')
    out.append(f'def src_parse_next_number : String := {json.dumps(re.sub(chr(92) + "s+", " ", m9.group(1)).strip())}\n')
    ulines = [ln.strip() for ln in m10.group(1).split('\n') if ln.strip()]
    out.append('/-- body of `Buffer::update_sixel_threads`, line by line -/\n')
    out.append('def src_update_sixel_threads : List String := [\n  ' + ',\n  '.join(json.dumps(ln) for ln in ulines) + ']\n')
    out.append('/-- the raster attribute arm of `SixelParser::parse_char` (state ReadSize, after the guard), line by line -/\n')
    out.append('def src_raster_arm : List String := [\n  ' + ',\n  '.join(json.dumps(ln) for ln in raster_lines) + ']\n')
    out.append('/-- the join loop and the sixel-to-layer loop of `parse_with_parser` -/\n')
    lines = [ln.strip() for ln in m11.group(1).split('\n') if ln.strip()]
    out.append('def src_sixel_to_layers : List String := [\n  ' + ',\n  '.join(json.dumps(ln) for ln in lines) + ']\n')
    out.append('/-- `execute_dcs`: first DCS parameter -> `vertical_scale` (arms `Some(a | b …) => v`) -/\n')
    out.append('def vscaleTable : List (List Nat × Nat) := [' +
               ', '.join('([' + ', '.join(map(str, k)) + f'], {v})' for k, v in vs_table) + ']\n')
    out.append(f'def vscaleNone : Nat := {vs_none}\ndef vscaleOther : Nat := {vs_other}\n')
    out.append('end IcyVerif.Gen.Sixel\n')
    return 'Sixel.lean', ''.join(out)


GENERATORS = {'sixel': gen_sixel}
