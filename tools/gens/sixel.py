"""Gen/Sixel.lean: the literals the sixel model depends on (src/sixel_mod.rs, src/palette_handling.rs,
src/parsers/ansi/mod.rs, src/buffers.rs) plus shape fingerprints of the functions the hand-written model mirrors"""
import re, json
from extract import src, HEADER, ExtractError


def gen_sixel():
    s = src('src/sixel_mod.rs')
    pal = src('src/palette_handling.rs')
    m = re.search(r'pub const DOS_DEFAULT_PALETTE: \[Color; (\d+)\]', pal)
    if not m:
        raise ExtractError('DOS_DEFAULT_PALETTE not found')
    pal_len = int(m.group(1))
    if not re.search(r'impl Default for Palette \{.*?colors: DOS_DEFAULT_PALETTE\.to_vec\(\)', pal, re.S):
        raise ExtractError('Palette::default() no longer starts from DOS_DEFAULT_PALETTE')
    if 'current_sixel_palette: Palette::default()' not in s:
        raise ExtractError('SixelParser no longer starts from Palette::default()')

    def fn_body(text, name):
        mm = re.search(r'fn ' + name + r'\b[^{]*\{(.*?)\n    \}', text, re.S)
        if not mm:
            raise ExtractError(f'fn {name} not found')
        return mm.group(1)

    tr = fn_body(s, 'translate_sixel_to_pixel')
    m1 = re.search(r"if ch < '(.)' \{", tr)
    m2 = re.search(r"let mask = ch as u8 - b'(.)';", tr)
    m3 = re.search(r'let y_pos = self\.sixel_cursor\.y \* (\d+);', tr)
    m4 = re.search(r'let mut last_line = y_pos \+ (\d+);', tr)
    m5 = re.search(r'for i in 0\.\.(\d+) \{', tr)
    m6 = re.search(r'let offset = x_pos as usize \* (\d+);', tr)
    m7 = re.search(r'cur_line\.resize\(\(x_pos as usize \+ 1\) \* (\d+), 0\)', tr)
    if not all([m1, m2, m3, m4, m5, m6, m7]):
        raise ExtractError('translate_sixel_to_pixel skeleton changed')
    if len({m3.group(1), m4.group(1), m5.group(1)}) != 1 or m6.group(1) != m7.group(1) or m1.group(1) != m2.group(1):
        raise ExtractError('translate_sixel_to_pixel: band height / pixel size / first data char used inconsistently')
    data = fn_body(s, 'parse_sixel_data')
    m8 = re.search(r"if ch > '\\x([0-9A-Fa-f]{2})' \{", data)
    if not m8:
        raise ExtractError('parse_sixel_data: ignore threshold not found')
    ctrl = re.findall(r"^\s*'(.)' => \{", data, re.M)
    ansi = src('src/parsers/ansi/mod.rs')
    m9 = re.search(r'pub fn parse_next_number\(x: i32, ch: u8\) -> i32 \{\s*(.*?)\s*\}', ansi, re.S)
    if not m9:
        raise ExtractError('parse_next_number not found')
    buf = src('src/buffers.rs')
    m10 = re.search(r'pub fn update_sixel_threads\(&mut self\)[^{]*\{(.*?)\n    \}', buf, re.S)
    if not m10:
        raise ExtractError('update_sixel_threads not found')
    out = [HEADER, 'namespace IcyVerif.Gen.Sixel\n']
    out.append(f'/-- `DOS_DEFAULT_PALETTE.len()` = size of `Palette::default()` -/\ndef defaultPalLen : Nat := {pal_len}\n')
    out.append(f"/-- `'{m1.group(1)}'`: first data character / mask offset -/\ndef firstData : Nat := {ord(m1.group(1))}\n")
    out.append(f'/-- pixel rows per sixel band -/\ndef bandRows : Nat := {int(m3.group(1))}\n')
    out.append(f'/-- bytes per pixel -/\ndef pixelBytes : Nat := {int(m6.group(1))}\n')
    out.append(f'/-- characters above this code point are ignored by `parse_sixel_data` -/\ndef ignoreAbove : Nat := {int(m8.group(1), 16)}\n')
    out.append('/-- control characters of `parse_sixel_data`, in match order -/\ndef controlChars : List Nat := [' +
               ', '.join(str(ord(c)) for c in ctrl) + ']\n')
    for n, t in [('parse_next_number', m9.group(1)), ('update_sixel_threads', m10.group(1))]:
        out.append(f'def src_{n} : String := {json.dumps(re.sub(chr(92) + "s+", " ", t).strip())}\n')
    out.append('end IcyVerif.Gen.Sixel\n')
    return 'Sixel.lean', ''.join(out)


GENERATORS = {'sixel': gen_sixel}
