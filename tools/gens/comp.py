"""Gen/Comp.lean: constants used by the layer-compositing model (C13): the INVISIBLE attribute bit,
TRANSPARENT_COLOR, the half-block code points, the default / invisible cell, and the shape of
`impl TextPane for Buffer :: get_char` (number of return / continue sites, the flattened source text of
get_char / merge / make_solid_color) so that a change of the skeleton shows up as a changed generated file."""
import re, json, os
from extract import src, HEADER, ExtractError, lean_list, REPO

# the ANSI font slots the C13 harness installs in its test buffers (harness/src/c13.rs `build`):
# buffer slot 0 = from_ansi_font_page(0), slot 1 = from_ansi_font_page(32), slot 3 = from_ansi_font_page(42)
HARNESS_ANSI_SLOTS = [0, 32, 42]


def _fonts_mod():
    """reuse `parse_font` (mirror of BitFont::from_bytes) of tools/gens/fonts.py"""
    import importlib.util
    here = os.path.dirname(os.path.abspath(__file__))
    spec = importlib.util.spec_from_file_location('gens_fonts_for_comp', os.path.join(here, 'fonts.py'))
    m = importlib.util.module_from_spec(spec)
    spec.loader.exec_module(m)
    return m


def gen_comp_fonts():
    """Gen/CompFonts.lean: the glyph bitmaps (`Glyph::data`, one byte per row) of the built-in fonts in
    HARNESS_ANSI_SLOTS, read from data/fonts exactly as `BitFont::from_bytes` reads them, and the shape of
    `HalfBlock::from` (the two `count_ones` loops and the `> width * height / 4` threshold)."""
    fm = _fonts_mod()
    s = src('src/fonts.rs')
    m = re.search(r'\nfonts!\[(.*?)\n\];', s, re.S)
    if not m:
        raise ExtractError('fonts![] table not found')
    by_slot = {}
    for e in re.finditer(r'\(\s*([A-Z0-9_]+),\s*"([^"]+)",\s*(?:DEFAULT_FONT_NAME|"[^"]*"),\s*(\d+),\s*(\d+)\s*,\s*(\d+)\s*\)', m.group(1)):
        by_slot[int(e.group(5))] = (e.group(1), e.group(2))
    hbk = src('src/paint/half_block.rs')
    m = re.search(r'pub fn from\(buf: &Buffer, block: AttributedChar, pos: Position\) -> Self \{(.*?)\n    \}\n', hbk, re.S)
    if not m:
        raise ExtractError('HalfBlock::from not found')
    body = re.sub(r'\s+', ' ', m.group(1)).strip()
    thr = re.findall(r'if (upper|lower) > font\.size\.width \* font\.size\.height / (\d+) \{ block\.attribute\.get_foreground\(\) \} else \{ block\.attribute\.get_background\(\) \}', body)
    loops = re.search(r'for i in 0\.\.\(glyph\.data\.len\(\) / 2\) \{ upper \+= glyph\.data\[i\]\.count_ones\(\) as i32; '
                      r'lower \+= glyph\.data\[glyph\.data\.len\(\) / 2 \+ i\]\.count_ones\(\) as i32; \}', body)
    nofont = len(re.findall(r'upper_block_color: block\.attribute\.get_background\(\), lower_block_color: block\.attribute\.get_background\(\)', body))
    if [t[0] for t in thr] != ['upper', 'lower'] or len({t[1] for t in thr}) != 1 or not loops or nofont != 2:
        raise ExtractError('HalfBlock::from: source shape changed')
    out = [HEADER, 'namespace IcyVerif.Gen.CompFonts\n']
    out.append(f'/-- `upper > width * height / N`: the N of HalfBlock::from -/\ndef halfThresholdDiv : Nat := {int(thr[0][1])}\n')
    out.append(f'def src_half_block_from : String := {json.dumps(body)}\n')
    names = []
    for slot in HARNESS_ANSI_SLOTS:
        if slot not in by_slot:
            raise ExtractError(f'fonts![]: no font with ANSI slot {slot}')
        ident, file = by_slot[slot]
        with open(os.path.join(REPO, 'data/fonts', file), 'rb') as f:
            w, h, gl = fm.parse_font(f.read())
        nm = 'g_' + ident.lower()
        flat = [b for rows in gl for b in rows]
        out.append(f'/-- {file}: {len(gl)} glyphs of {h} rows, glyph i = rows [i*{h}, (i+1)*{h}) -/\n')
        out.append(lean_list(nm + '_rows', flat))
        names.append((slot, nm, w, h, len(gl)))
    out.append('/-- (ANSI font slot, width, height, number of glyphs, all glyph rows concatenated) -/\n')
    out.append('def fonts : List (Nat × Nat × Nat × Nat × List Nat) := [' +
               ', '.join(f'({sl}, {w}, {h}, {n}, {nm}_rows)' for sl, nm, w, h, n in names) + ']\n')
    out.append('end IcyVerif.Gen.CompFonts\n')
    return 'CompFonts.lean', ''.join(out)



def _int(t):
    t = t.replace('_', '')
    if t.startswith('0b'):
        return int(t[2:], 2)
    if t.startswith('0x'):
        return int(t[2:], 16)
    return int(t)


def _char(t):
    """Rust char literal or `N as char`"""
    t = t.strip()
    m = re.fullmatch(r"(\d+) as char", t)
    if m:
        return int(m.group(1))
    m = re.fullmatch(r"'\\0'", t)
    if m:
        return 0
    m = re.fullmatch(r"'(.)'", t)
    if m:
        return ord(m.group(1))
    raise ExtractError(f'char literal {t!r} not understood')


def gen_comp():
    ta = src('src/text_attribute.rs')
    ac = src('src/attributed_char.rs')
    hbk = src('src/paint/half_block.rs')
    buf = src('src/buffers.rs')

    m = re.search(r'pub const INVISIBLE: u16 = (0b[01_]+|0x[0-9A-Fa-f_]+|\d+);', ta)
    if not m:
        raise ExtractError('attribute::INVISIBLE not found')
    invisible = _int(m.group(1))
    m = re.search(r'pub const TRANSPARENT_COLOR: u32 = (\d+) << (\d+);', ta)
    if not m:
        raise ExtractError('TRANSPARENT_COLOR not found')
    transparent = int(m.group(1)) << int(m.group(2))
    m = re.search(r'impl Default for TextAttribute \{.*?Self \{(.*?)\}', ta, re.S)
    if not m:
        raise ExtractError('Default for TextAttribute not found')
    d = m.group(1)
    dfg = re.search(r'foreground_color: (\d+)', d)
    dbg = re.search(r'background_color: (\d+)', d)
    dat = re.search(r'attr: attribute::NONE', d)
    dpg = re.search(r'font_page: (\d+)', d)
    none = re.search(r'pub const NONE: u16 = (\d+);', ta)
    if not (dfg and dbg and dat and dpg and none):
        raise ExtractError('TextAttribute::default shape changed')
    m = re.search(r'impl Default for AttributedChar \{.*?AttributedChar \{\s*ch: (.*?),', ac, re.S)
    if not m:
        raise ExtractError('Default for AttributedChar not found')
    dch = _char(m.group(1))
    m = re.search(r'pub fn invisible\(\) -> Self \{\s*AttributedChar \{\s*ch: (.*?),\s*attribute: super::TextAttribute \{\s*'
                  r'attr: crate::attribute::INVISIBLE,\s*\.\.Default::default\(\)', ac, re.S)
    if not m:
        raise ExtractError('AttributedChar::invisible shape changed')
    ich = _char(m.group(1))
    m = re.search(r'pub fn is_transparent\(self\) -> bool \{\s*\(self\.ch == (.*?) \|\| self\.ch == (.*?)\) && '
                  r'self\.attribute\.get_background\(\) == (\d+)', ac)
    if not m:
        raise ExtractError('AttributedChar::is_transparent shape changed')
    tch = [_char(m.group(1)), _char(m.group(2))]
    tbg = int(m.group(3))
    hbt = re.search(r'const HALF_BLOCK_TOP: char = (.*?);', hbk)
    hbb = re.search(r'const HALF_BLOCK_BOTTOM: char = (.*?);', hbk)
    if not (hbt and hbb):
        raise ExtractError('HALF_BLOCK_TOP/BOTTOM not found')

    # skeleton of Buffer::get_char
    m = re.search(r'impl TextPane for Buffer \{.*?\n    fn get_char\(&self, pos: impl Into<Position>\) -> AttributedChar \{(.*?)\n    \}\n',
                  buf, re.S)
    if not m:
        raise ExtractError('impl TextPane for Buffer::get_char not found')
    body = m.group(1)
    returns = len(re.findall(r'\breturn\b', body)) + 1      # + the tail expression
    continues = len(re.findall(r'\bcontinue;', body))
    def fn_body(text, name, indent):
        mm = re.search(r'\n' + indent + r'(?:pub )?fn ' + name + r'\([^)]*\)[^{]*\{(.*?)\n' + indent + r'\}', text, re.S)
        if not mm:
            raise ExtractError(f'fn {name} not found')
        return re.sub(r'\s+', ' ', mm.group(1)).strip()

    out = [HEADER, 'namespace IcyVerif.Gen.Comp\n']
    out.append(f'def invisibleBit : Nat := {invisible}\n')
    out.append(f'def transparentColor : Nat := {transparent}\n')
    out.append(f'def halfBlockTop : Nat := {_char(hbt.group(1))}\n')
    out.append(f'def halfBlockBottom : Nat := {_char(hbb.group(1))}\n')
    out.append(f'def defaultCh : Nat := {dch}\n')
    out.append(f'def defaultFg : Nat := {int(dfg.group(1))}\n')
    out.append(f'def defaultBg : Nat := {int(dbg.group(1))}\n')
    out.append(f'def defaultFlags : Nat := {int(none.group(1))}\n')
    out.append(f'def defaultPage : Nat := {int(dpg.group(1))}\n')
    out.append(f'def invisibleCh : Nat := {ich}\n')
    out.append(f'def transparentCh0 : Nat := {tch[0]}\n')
    out.append(f'def transparentCh1 : Nat := {tch[1]}\n')
    out.append(f'def transparentBg : Nat := {tbg}\n')
    out.append(f'/-- return sites (incl. the tail expression) and `continue` sites of Buffer::get_char -/\n')
    out.append(f'def getCharReturns : Nat := {returns}\n')
    out.append(f'def getCharContinues : Nat := {continues}\n')
    flat_body = re.sub(r'\s+', ' ', body).strip()
    out.append(f'def src_get_char : String := {json.dumps(flat_body)}\n')
    out.append(f'def src_merge : String := {json.dumps(fn_body(buf, "merge", ""))}\n')
    out.append(f'def src_make_solid_color : String := {json.dumps(fn_body(buf, "make_solid_color", "    "))}\n')
    out.append('end IcyVerif.Gen.Comp\n')
    return [('Comp.lean', ''.join(out)), gen_comp_fonts()]


GENERATORS = {'comp': gen_comp}
