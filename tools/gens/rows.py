"""Gen/RowSites.lean: what ties `Model/Rows*.lean` (C01, row table) to the source besides the correspondence run.

* GUARDS the totality proofs rely on are pinned: if one of them disappears or is spelled differently the translator
  fails (`EXTRACT-ERROR rows: …`), e.g. `lines.get_mut(i as usize) else { continue }` and `len > start_column` in
  `scroll_left/right`, `end < line_count` in `insert_terminal_line`, `line >= line_count` in `remove_terminal_line`,
  `i < line.chars.len()` in `Caret::del/ins`, the bounds test of `Layer::set_char/get_char`, the row allocation in
  `Buffer::print_char` (insert mode) and `Caret::lf`.
* SITE INVENTORY: every line of the transcribed functions that holds a construct which can panic in the debug
  profile on a row table (index, `.insert(`, `.remove(`, `.resize(`, `with_capacity`, `as usize`, `assert!`, unwrap,
  plain arithmetic) with a 48-bit fingerprint of `file::fn::line`; `Props/C01Rows.row_sites_known` compares them with
  the table of sites the model accounts for, so a NEW such line is a broken obligation before any generator reaches it.
"""
import re, json, hashlib
from extract import src, HEADER, ExtractError

RISK = re.compile(r'\[|\.insert\(|\.remove\(|\.resize\(|\.drain\(|\.swap\(|\.truncate\(|\.split_off\(|with_capacity|\.unwrap\(|\.expect\(|\bassert|\bpanic!|\btodo!|\bunreachable!'
                  r'|\sas usize|\sas u32|\sas i32|\s[-+*]=?\s|unchecked|\bunsafe\b')

# (file, fn name, substring that must occur in the signature line — to pick the right `fn` when a name occurs twice)
FUNCS = [
    ('src/line.rs', 'with_capacity', 'capacity: i32'),
    ('src/line.rs', 'create', 'width: i32'),
    ('src/line.rs', 'insert_char', 'index: i32'),
    ('src/line.rs', 'set_char', 'index: i32'),
    ('src/layer.rs', 'get_char', '&self, pos: impl Into<Position>'),
    ('src/layer.rs', 'clear', '&mut self'),
    ('src/layer.rs', 'set_char', 'attributed_char: AttributedChar'),
    ('src/layer.rs', 'remove_line', 'index: i32'),
    ('src/layer.rs', 'insert_line', 'index: i32, line: Line'),
    ('src/parsers/mod.rs', 'lf', 'buf: &mut Buffer'),
    ('src/parsers/mod.rs', 'ff', 'buf: &mut Buffer'),
    ('src/parsers/mod.rs', 'bs', 'buf: &mut Buffer'),
    ('src/parsers/mod.rs', 'del', 'buf: &mut Buffer'),
    ('src/parsers/mod.rs', 'ins', 'buf: &mut Buffer'),
    ('src/parsers/mod.rs', 'erase_charcter', 'number: i32'),
    ('src/parsers/mod.rs', 'check_scrolling_on_caret_up', 'force: bool'),
    ('src/parsers/mod.rs', 'check_scrolling_on_caret_down', 'force: bool'),
    ('src/parsers/mod.rs', 'print_char', 'layer: usize, caret: &mut Caret, ch: AttributedChar'),
    ('src/parsers/mod.rs', 'scroll_up', 'layer: usize'),
    ('src/parsers/mod.rs', 'scroll_down', 'layer: usize'),
    ('src/parsers/mod.rs', 'scroll_left', 'layer: usize'),
    ('src/parsers/mod.rs', 'scroll_right', 'layer: usize'),
    ('src/parsers/mod.rs', 'clear_screen', 'layer: usize'),
    ('src/parsers/mod.rs', 'clear_buffer_down', 'layer: usize'),
    ('src/parsers/mod.rs', 'clear_buffer_up', 'layer: usize'),
    ('src/parsers/mod.rs', 'clear_line', 'layer: usize'),
    ('src/parsers/mod.rs', 'clear_line_end', 'layer: usize'),
    ('src/parsers/mod.rs', 'clear_line_start', 'layer: usize'),
    ('src/parsers/mod.rs', 'remove_terminal_line', 'line: i32'),
    ('src/parsers/mod.rs', 'insert_terminal_line', 'line: i32'),
    ('src/parsers/ansi/ansi_commands.rs', 'get_rect_area', 'offset: usize'),
    ('src/parsers/ansi/ansi_commands.rs', 'fill_rectangular_area', 'buf: &mut Buffer'),
    ('src/parsers/ansi/ansi_commands.rs', 'erase_rectangular_area', 'buf: &mut Buffer'),
    ('src/parsers/ansi/ansi_commands.rs', 'selective_erase_rectangular_area', 'buf: &mut Buffer'),
    ('src/parsers/petscii/mod.rs', 'update_shift_mode', 'shift_mode: bool'),
    ('src/parsers/viewdata/mod.rs', 'fill_to_eol', 'caret: &Caret'),
    ('src/parsers/mode7/mod.rs', 'fill_to_eol', 'caret: &Caret'),
]


def _need(cond, msg):
    if not cond:
        raise ExtractError(msg)


def strip_comments(text):
    return re.sub(r'//[^\n]*', '', text)


def fn_body(text, name, sig):
    """body of the `fn name` whose signature contains `sig` and that HAS a body (not a trait declaration)"""
    for m in re.finditer(r'\bfn\s+' + name + r'\s*(?:<[^>]*>)?\s*\(', text):
        semi = text.find(';', m.end())
        brace = text.find('{', m.end())
        if brace < 0 or (0 <= semi < brace):
            continue
        if sig not in text[m.start():brace]:
            continue
        depth, j = 0, brace
        while j < len(text):
            if text[j] == '{':
                depth += 1
            elif text[j] == '}':
                depth -= 1
                if depth == 0:
                    return text[m.start():j + 1]
            j += 1
        raise ExtractError(f'fn {name}: unbalanced braces')
    raise ExtractError(f'fn {name} ({sig}) not found')


def norm(s):
    return re.sub(r'\s+', ' ', s).strip()


def gen_rows():
    bodies = {}
    texts = {}
    for path, fn, sig in FUNCS:
        if path not in texts:
            texts[path] = strip_comments(src(path))
        bodies[(path, fn)] = fn_body(texts[path], fn, sig)

    def has(path, fn, *snips):
        b = norm(bodies[(path, fn)])
        for sn in snips:
            _need(norm(sn) in b, f'{path}::{fn}: `{norm(sn)}` not found — a guard / shape the Rows model and its totality proofs rely on changed')

    M = 'src/parsers/mod.rs'
    L = 'src/layer.rs'
    # ---- pinned guards and shapes
    has('src/line.rs', 'set_char', 'if index >= self.chars.len() as i32 {', 'self.chars.resize(index as usize + 1, AttributedChar::invisible());', 'self.chars[index as usize] = char;')
    has('src/line.rs', 'insert_char', 'if index > self.chars.len() as i32 {', 'self.chars.resize(index as usize, AttributedChar::invisible());', 'self.chars.insert(index as usize, char_opt);')
    has('src/line.rs', 'create', 'chars.resize(width as usize, AttributedChar::invisible());')
    has('src/line.rs', 'with_capacity', 'chars: Vec::with_capacity(capacity as usize),')
    has(L, 'get_char', 'if pos.x < 0 || pos.y < 0 || pos.x >= self.get_width() || pos.y >= self.get_height() {',
        'if y < self.lines.len() as i32 {', 'if pos.x < cur_line.chars.len() as i32 {')
    has(L, 'set_char', 'if pos.x < 0 || pos.y < 0 || pos.x >= self.get_width() || pos.y >= self.get_height() { return; }',
        'if pos.y >= self.lines.len() as i32 { self.lines.resize(pos.y as usize + 1, Line::create(self.size.width)); }',
        'let cur_line = &mut self.lines[pos.y as usize]; cur_line.set_char(pos.x, attributed_char);')
    has(L, 'remove_line', 'assert!(!(index < 0 || index >= self.lines.len() as i32), "line out of range");', 'self.lines.remove(index as usize);')
    has(L, 'insert_line', 'assert!(index >= 0, "line out of range");', 'if index > self.lines.len() as i32 { self.lines.resize(index as usize, Line::create(self.size.width)); }',
        'self.lines.insert(index as usize, line);')
    has(L, 'clear', 'self.lines.clear();')
    has(M, 'lf', 'while self.pos.y >= buf.layers[current_layer].lines.len() as i32 {', 'buf.layers[current_layer].lines.insert(len, Line::with_capacity(buffer_width));',
        'if was_ooe { buf.terminal_state.limit_caret_pos(buf, self); } else { self.check_scrolling_on_caret_down(buf, current_layer, false); }')
    has(M, 'del', 'if let Some(line) = buf.layers[current_layer].lines.get_mut(self.pos.y as usize) {', 'if i < line.chars.len() { line.chars.remove(i); }')
    has(M, 'ins', 'if let Some(line) = buf.layers[current_layer].lines.get_mut(self.pos.y as usize) {', 'if i < line.chars.len() { line.chars.insert(i, AttributedChar::new(\' \', self.attribute)); }')
    has(M, 'erase_charcter', 'let number = min(buf.terminal_state.get_width() - i, number);', 'if number <= 0 { return; }',
        'if let Some(line) = buf.layers[current_layer].lines.get_mut(self.pos.y as usize) {', 'line.set_char(i, AttributedChar::new(\' \', self.attribute));')
    has(M, 'check_scrolling_on_caret_up', 'let steps = (last.saturating_sub(self.pos.y)).min(buf.terminal_state.get_height());', 'buf.scroll_down(current_layer);')
    has(M, 'check_scrolling_on_caret_down', 'if (buf.needs_scrolling() || force) && self.pos.y > buf.get_last_editable_line() { buf.scroll_up(current_layer);')
    has(M, 'print_char', 'if layer.lines.len() < caret.pos.y as usize + 1 { layer.lines.resize(caret.pos.y as usize + 1, Line::with_capacity(buffer_width)); }',
        'layer.lines[caret.pos.y as usize].insert_char(caret.pos.x, AttributedChar::default());',
        'if caret.pos.y + 1 > self.layers[layer].get_height() { self.layers[layer].set_height(caret.pos.y + 1); }',
        'self.layers[layer].set_char(caret.pos, ch);')
    for f in ['scroll_left', 'scroll_right']:
        has(M, f, 'for i in start_line..=end_line {', 'let Some(line) = layer.lines.get_mut(i as usize) else { continue; };', 'if line.chars.len() > start_column {')
    has(M, 'scroll_left', 'let start_column = self.get_first_editable_column() as usize;', 'let end_column = self.get_last_editable_column() + 1;',
        'line.insert_char(end_column, AttributedChar::default()); line.chars.remove(start_column);')
    has(M, 'scroll_right', 'let end_column = self.get_last_editable_column() as usize;', 'line.chars.insert(start_column, AttributedChar::default());',
        'if end_column + 1 < line.chars.len() { line.chars.remove(end_column + 1); }')
    has(M, 'scroll_up', 'for x in start_column..=end_column {', '(start_line..end_line).for_each(|y| {', 'layer.set_char((x, end_line), AttributedChar::default());')
    has(M, 'scroll_down', 'for x in start_column..=end_column {', '((start_line + 1)..=end_line).rev().for_each(|y| {', 'layer.set_char((x, start_line), AttributedChar::default());')
    has(M, 'clear_screen', 'layer.clear();')
    has(M, 'clear_buffer_down', 'for y in pos.y..self.get_last_visible_line() { for x in 0..self.get_width() { self.layers[layer].set_char((x, y), ch); } }')
    has(M, 'clear_buffer_up', 'for y in self.get_first_visible_line()..pos.y { for x in 0..self.get_width() { self.layers[layer].set_char((x, y), ch); } }')
    has(M, 'clear_line', 'for x in 0..self.get_width() {')
    has(M, 'clear_line_end', 'for x in pos.x..self.get_width() {')
    has(M, 'clear_line_start', 'for x in 0..pos.x {')
    has(M, 'remove_terminal_line', 'if line >= self.layers[layer].get_line_count() { return; }', 'self.layers[layer].remove_line(line);',
        'if let Some((_, end)) = self.terminal_state.get_margins_top_bottom() {', 'self.layers[layer].insert_line(end, Line::with_capacity(buffer_width));')
    has(M, 'insert_terminal_line', 'if let Some((_, end)) = self.terminal_state.get_margins_top_bottom() { if end < self.layers[layer].get_line_count() { self.layers[layer].lines.remove(end as usize); } }',
        'self.layers[layer].insert_line(line, Line::with_capacity(buffer_width));')
    A = 'src/parsers/ansi/ansi_commands.rs'
    has(A, 'get_rect_area', '.min(buf.get_line_count().max(buf.terminal_state.get_height())) - 1;', '.max(1).min(buf.terminal_state.get_width()) - 1;')
    has(A, 'fill_rectangular_area', 'if self.parsed_numbers.len() != 5 {', 'for y in top_line..=bottom_line { for x in left_column..=right_column { buf.layers[0].set_char(')
    has(A, 'erase_rectangular_area', 'if self.parsed_numbers.len() != 4 {', 'for y in top_line..=bottom_line { for x in left_column..=right_column { buf.layers[0].set_char(')
    has(A, 'selective_erase_rectangular_area', 'if self.parsed_numbers.len() != 4 {', 'for y in top_line..=bottom_line { for x in left_column..=right_column {')
    has('src/parsers/petscii/mod.rs', 'update_shift_mode', 'if self.shift_mode == shift_mode { return; }', 'for y in 0..buf.get_height() { for x in 0..buf.get_width() {', 'buf.layers[current_layer].set_char((x, y), ch);')
    for v in ['src/parsers/viewdata/mod.rs', 'src/parsers/mode7/mod.rs']:
        has(v, 'fill_to_eol', 'if caret.get_position().x <= 0 { return; }', 'for x in sx..buf.terminal_state.get_width() {', 'if ch.attribute != attr { break; }', 'buf.layers[0].set_char(p, ch);')

    # ---- the buffer width is written by set_size / set_width only, from the terminal size (BwOk)
    all_parsers = ''.join(strip_comments(src(p)) for p in ['src/parsers/mod.rs', 'src/parsers/ansi/mod.rs', 'src/parsers/ansi/ansi_commands.rs', 'src/parsers/ansi/dcs.rs',
                                                          'src/parsers/ansi/osc.rs', 'src/parsers/avatar/mod.rs', 'src/parsers/pcboard/mod.rs', 'src/parsers/ctrla/mod.rs',
                                                          'src/parsers/renegade/mod.rs', 'src/parsers/petscii/mod.rs', 'src/parsers/atascii/mod.rs', 'src/parsers/viewdata/mod.rs',
                                                          'src/parsers/mode7/mod.rs', 'src/parsers/ascii/mod.rs'])
    writes = re.findall(r'\b(?:buf|self|buffer)\.set_(?:size|width)\(([^;]*)\);', all_parsers)
    _need(writes and all(norm(w) in ('buf.terminal_state.get_size()', 'self.terminal_state.get_size()') for w in writes),
          f'the buffer width is written with something else than the terminal size: {writes} (BwOk: lemma bw in 1..=132)')
    _need(not re.search(r'layers\[[^\]]*\]\.set_(?:width|size)\(', all_parsers), 'a parser changes the width of a layer (the Rows model keeps `lw` constant)')

    # ---- site inventory
    items = []
    for path, fn, sig in FUNCS:
        seen = {}
        for line in bodies[(path, fn)].split('\n')[1:]:
            line = norm(line)
            if not line or not RISK.search(' ' + line + ' '):
                continue
            k = seen.get(line, 0) + 1
            seen[line] = k
            items.append(f'{path}::{fn}::{line}' + (f'#{k}' if k > 1 else ''))
    _need(len(items) > 40, f'only {len(items)} row-table sites found')
    out = [HEADER, 'namespace IcyVerif.Gen.RowSites\n']
    out.append('/-- lines of the transcribed content operations holding a construct that can panic in the debug profile -/\n')
    out.append('def rowSites : List String := [\n' + ',\n'.join('  ' + json.dumps(i, ensure_ascii=False) for i in items) + '\n]\n')
    out.append('/-- 48-bit fingerprints (sha1) of `rowSites`, same order -/\n')
    out.append('def rowSiteIds : List Nat := [' + ', '.join(str(int(hashlib.sha1(i.encode()).hexdigest()[:12], 16)) for i in items) + ']\n')
    out.append(f'def pinnedGuards : Nat := {sum(1 for _ in FUNCS)}\n')
    out.append('end IcyVerif.Gen.RowSites\n')
    return 'RowSites.lean', ''.join(out)


GENERATORS = {'rows': gen_rows}
