"""Gen/Codec.lean: attribute bit constants (src/text_attribute.rs) and the code-page tables of the five
UnicodeConverters (CP437, ATASCII, PETSCII, Viewdata, Mode 7) as lists of code points."""
import re, json
from extract import src, nums, lean_list, HEADER, ExtractError

_ESC = {'n': 10, 'r': 13, 't': 9, '0': 0, '\\': 92, "'": 39, '"': 34}


def char_literals(text):
    """all Rust `char` literals of `text`, in order, as code points (comments removed first)"""
    text = re.sub(r'//[^\n]*', '', text)
    out = []
    i, n = 0, len(text)
    while i < n:
        if text[i] != "'":
            i += 1
            continue
        i += 1
        if i >= n:
            raise ExtractError('dangling quote')
        if text[i] == '\\':
            i += 1
            c = text[i]
            if c == 'u':
                m = re.match(r'u\{([0-9a-fA-F_]+)\}', text[i:])
                if not m:
                    raise ExtractError('bad \\u escape')
                out.append(int(m.group(1).replace('_', ''), 16))
                i += m.end()
            elif c == 'x':
                out.append(int(text[i + 1:i + 3], 16))
                i += 3
            elif c in _ESC:
                out.append(_ESC[c])
                i += 1
            else:
                raise ExtractError(f'unknown escape \\{c}')
        else:
            out.append(ord(text[i]))
            i += 1
        if i >= n or text[i] != "'":
            raise ExtractError(f'char literal not closed near {text[max(0, i - 10):i + 10]!r}')
        i += 1
    return out


def char_table(path, name, size):
    s = src(path)
    m = re.search(r'const ' + name + r': \[char; (\d+)\] = \[(.*?)\n\];', s, re.S)
    if not m:
        raise ExtractError(f'{name} not found in {path}')
    vals = char_literals(m.group(2))
    if int(m.group(1)) != size or len(vals) != size:
        raise ExtractError(f'{name}: declared {m.group(1)}, parsed {len(vals)}, expected {size}')
    return s, vals


def rev_range(s, pat, what):
    """the index range the reverse HashMap is built from, e.g. `(0..128).for_each(|a: u8|` -> 128"""
    m = re.search(pat, s, re.S)
    if not m:
        raise ExtractError(f'reverse-map range of {what} not found')
    lo, incl, hi = int(m.group(1)), m.group(2) == '=', int(m.group(3))
    if lo != 0:
        raise ExtractError(f'reverse-map range of {what} does not start at 0')
    return hi + 1 if incl else hi


RANGE_PAT = r'%s.*?\((\d+)\.\.(=?)(\d+)\)\.for_each'


def fn_body(s, name):
    mm = re.search(r'fn ' + name + r'\([^)]*\)[^{]*\{(.*?)\n    \}', s, re.S)
    if not mm:
        raise ExtractError(f'fn {name} not found')
    return re.sub(r'\s+', ' ', mm.group(1)).strip()


def gen_codec():
    out = [HEADER, 'namespace IcyVerif.Gen.Codec\n']
    # ---- attribute bit constants
    ta = src('src/text_attribute.rs')
    m = re.search(r'pub mod attribute \{(.*?)\n\}', ta, re.S)
    if not m:
        raise ExtractError('mod attribute not found')
    consts = {}
    for cm in re.finditer(r'pub const (\w+): u16 = (0b[01_]+|0x[0-9A-Fa-f_]+|\d+);', m.group(1)):
        t = cm.group(2).replace('_', '')
        consts[cm.group(1)] = int(t, 2) if t.startswith('0b') else int(t, 16) if t.startswith('0x') else int(t)
    for need in ['NONE', 'BOLD', 'FAINT', 'ITALIC', 'BLINK', 'UNDERLINE', 'DOUBLE_UNDERLINE', 'CONCEAL', 'CROSSED_OUT',
                 'DOUBLE_HEIGHT', 'OVERLINE', 'INVISIBLE', 'SHORT_DATA', 'INVISIBLE_SHORT']:
        if need not in consts:
            raise ExtractError(f'attribute::{need} not found')
    for k, v in consts.items():
        name = 'attr' + ''.join(p.capitalize() for p in k.split('_'))
        out.append(f'def {name} : Nat := {v}\n')
    # default attribute
    m = re.search(r'impl Default for TextAttribute \{.*?foreground_color: (\d+),\s*background_color: (\d+),\s*attr: attribute::(\w+),\s*font_page: (\d+)', ta, re.S)
    if not m:
        raise ExtractError('TextAttribute::default not found')
    out.append(f'def defaultFg : Nat := {m.group(1)}\ndef defaultBg : Nat := {m.group(2)}\n'
               f'def defaultAttr : Nat := {consts[m.group(3)]}\ndef defaultPage : Nat := {m.group(4)}\n')
    # masks / shifts of from_u8 and as_u8 (literals only; the control structure is hand-modelled and tied by the
    # exhaustive correspondence run)
    fu = fn_body(ta, 'from_u8')
    au = fn_body(ta, 'as_u8')
    mm = re.search(r'attr >> (\d+) \} else \{ blink = attr & (0b[01_]+) != 0; \(attr >> (\d+)\) & (0b[01_]+) \}', fu)
    m2 = re.search(r'foreground_color = \(attr & (0b[01_]+)\)', fu)
    if not (mm and m2):
        raise ExtractError('from_u8 skeleton changed')
    b = lambda t: int(t.replace('_', '')[2:], 2)
    out.append(f'def decIceShift : Nat := {mm.group(1)}\ndef decBlinkBit : Nat := {b(mm.group(2))}\n'
               f'def decShift : Nat := {mm.group(3)}\ndef decBgMask : Nat := {b(mm.group(4))}\ndef decFgMask : Nat := {b(m2.group(1))}\n')
    m3 = re.search(r'let mut fg = self\.foreground_color & (0b[01_]+); if self\.is_bold\(\) \{ fg \|= (0b[01_]+); \}', au)
    m4 = re.search(r'\(fg \| bg << (\d+)\) as u8', au)
    if not (m3 and m4):
        raise ExtractError('as_u8 skeleton changed')
    out.append(f'def encFgMask : Nat := {b(m3.group(1))}\ndef encBoldBit : Nat := {b(m3.group(2))}\ndef encShift : Nat := {m4.group(1)}\n')
    out.append(f'def src_from_u8 : String := {json.dumps(fu)}\n')
    out.append(f'def src_as_u8 : String := {json.dumps(au)}\n')
    # ---- code pages
    s, cp437 = char_table('src/parsers/ascii/mod.rs', 'CP437_TO_UNICODE', 256)
    out.append(lean_list('cp437', cp437))
    n = rev_range(s, RANGE_PAT % 'UNICODE_TO_CP437', 'CP437')
    out.append(f'def cp437Rev : Nat := {n}\n')
    s, atari = char_table('src/parsers/atascii/mod.rs', 'ATARI_TO_UNICODE', 256)
    out.append(lean_list('atari', atari))
    n = rev_range(s, RANGE_PAT % 'UNICODE_TO_ATARI', 'ATASCII')
    out.append(f'def atariRev : Nat := {n}\n')
    for nm, path in [('viewdata', 'src/parsers/viewdata/constants.rs'), ('mode7', 'src/parsers/mode7/constants.rs')]:
        s, tbl = char_table(path, 'VIEWDATA_TO_UNICODE', 256)
        out.append(lean_list(nm, tbl))
        n = rev_range(s, RANGE_PAT % 'UNICODE_TO_VIEWDATA', nm)
        out.append(f'def {nm}Rev : Nat := {n}\n')
    # the Viewdata / Mode 7 converters special-case one character before the table lookup
    for nm, path in [('viewdata', 'src/parsers/viewdata/mod.rs'), ('mode7', 'src/parsers/mode7/mod.rs')]:
        s = src(path)
        m = re.search(r"fn convert_from_unicode\(&self, ch: char, _font_page: usize\) -> char \{\s*if ch == ('(?:\\.|[^'])+') \{\s*return ('(?:\\.|[^'])+');", s)
        if not m:
            raise ExtractError(f'{nm} convert_from_unicode special case not found')
        a, bb = char_literals(m.group(1))[0], char_literals(m.group(2))[0]
        out.append(f'def {nm}Special : Nat × Nat := ({a}, {bb})\n')
    s = src('src/parsers/petscii/mod.rs')
    m = re.search(r'const CHAR_TABLE: \[\(u8, u8\); (\d+)\] = \[(.*?)\n\];', s, re.S)
    if not m:
        raise ExtractError('PETSCII CHAR_TABLE not found')
    pv = nums(m.group(2))
    if len(pv) != 2 * int(m.group(1)):
        raise ExtractError(f'CHAR_TABLE: declared {m.group(1)} pairs, parsed {len(pv)} numbers')
    if not re.search(r'UNICODE_TO_PETSCII: std::collections::HashMap<u8,u8> = CHAR_TABLE\.into_iter\(\)\.collect\(\);', s) or \
       not re.search(r'PETSCII_TO_UNICODE: std::collections::HashMap<u8,u8> = CHAR_TABLE\.into_iter\(\)\.map\(\|\(k, v\)\| \(v, k\)\)\.collect\(\);', s):
        raise ExtractError('PETSCII map construction changed')
    pairs = [f'({pv[i]}, {pv[i + 1]})' for i in range(0, len(pv), 2)]
    out.append(lean_list('petscii', pairs, ty='(Nat × Nat)'))
    out.append('end IcyVerif.Gen.Codec\n')
    return 'Codec.lean', ''.join(out)


GENERATORS = {'codec': gen_codec}
