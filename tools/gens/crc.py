"""Gen/Crc.lean: CRC tables and the shape of the sliced CRC-32 fast path (src/crc.rs);
Gen/CrcSites.lean: the three call sites that feed bytes through update_crc16 / update_crc32 (DECRQCRA, font checksum,
palette checksum): the per-cell / per-colour byte order, loop bounds, initial values are REGENERATED, the rest of each function
body is emitted as a whitespace-normalised fingerprint that a theorem compares with the text the model was written from."""
import re, json
from extract import src, nums, lean_list, HEADER, ExtractError

# --------------------------------------------------------------------------- CRC
def gen_crc():
    s = src('src/crc.rs')
    m = re.search(r'CRC16_CCITT_TABLE: \[u16; 256\] = \[(.*?)\];', s, re.S)
    if not m:
        raise ExtractError('CRC16_CCITT_TABLE not found')
    t16 = nums(m.group(1))
    m = re.search(r'CRC32_TABLE: \[\[u32; 256\]; 16\] = \[(.*?)\n\];', s, re.S)
    if not m:
        raise ExtractError('CRC32_TABLE not found')
    t32 = nums(m.group(1))
    if len(t16) != 256 or len(t32) != 4096:
        raise ExtractError(f'CRC table sizes {len(t16)} {len(t32)}')
    # shape of the sliced fast path in get_crc32
    m = re.search(r'pub fn get_crc32\(buf: &\[u8\]\) -> u32 \{(.*?)\n\}', s, re.S)
    if not m:
        raise ExtractError('get_crc32 not found')
    body = m.group(1)
    init = re.search(r'let mut result = (0x[0-9A-Fa-f_]+);', body)
    thr = re.search(r'while buf\.len\(\) >= (\d+)', body)
    adv = re.search(r'buf = &buf\[(\d+)\.\.\];', body)
    tail = re.search(r'update_slow\((!?)result, buf\)', body)
    if not (init and thr and adv and tail):
        raise ExtractError('get_crc32 skeleton changed')
    chain = []
    for cm in re.finditer(
            r'CRC32_TABLE\[(0x[0-9a-fA-F]+)\]\[buf\[(0x[0-9a-fA-F]+)\] as usize'
            r'(?: \^ \(\(?result(?: >> (0x[0-9a-fA-F]+))?\)? & 0xFF\) as usize)?\]', body):
        row = int(cm.group(1), 16)
        idx = int(cm.group(2), 16)
        has_r = '^' in cm.group(0)
        sh = int(cm.group(3), 16) if cm.group(3) else 0
        chain.append((row, idx, 1 if has_r else 0, sh))
    n_tables = len(re.findall(r'CRC32_TABLE\[', body))
    if n_tables != len(chain):
        raise ExtractError(f'get_crc32 chain: {n_tables} table uses, {len(chain)} parsed')
    # update_slow, update_crc32, update_crc16, get_crc16 skeletons: fingerprints only (the
    # hand-written model mirrors them; the correspondence run ties them)
    def fn_body(name):
        mm = re.search(r'fn ' + name + r'\([^)]*\)[^{]*\{(.*?)\n\}', s, re.S)
        if not mm:
            raise ExtractError(f'fn {name} not found')
        return re.sub(r'\s+', ' ', mm.group(1)).strip()
    fps = {n: fn_body(n) for n in ['get_crc16', 'update_crc16', 'update_slow', 'update_crc32']}
    # get_crc32: the loop skeleton with the XOR chain (already parsed into crc32Chain) abstracted away
    loop = re.sub(r'\s+', ' ', body).strip()
    loop = re.sub(r'result = CRC32_TABLE\[.*?;', 'result = CHAIN;', loop, count=1)
    loop = re.sub(r'^let mut result = 0x[0-9A-Fa-f_]+; let mut buf = buf; ', '', loop)
    fps['get_crc32_loop'] = loop
    out = [HEADER, 'namespace IcyVerif.Gen.Crc\n']
    out.append(lean_list('t16', t16))
    for k in range(16):
        out.append(lean_list(f't32r{k}', t32[k * 256:(k + 1) * 256]))
    out.append('def t32 : List (List Nat) := [' + ', '.join(f't32r{k}' for k in range(16)) + ']\n')
    out.append(f'def crc32Init : Nat := {int(init.group(1).replace("_", ""), 16)}\n')
    out.append(f'def crc32Block : Nat := {int(thr.group(1))}\n')
    out.append(f'def crc32Advance : Nat := {int(adv.group(1))}\n')
    out.append(f'def crc32TailNot : Bool := {"true" if tail.group(1) == "!" else "false"}\n')
    out.append('/-- (table row, byte index, xor-with-state?, state shift) of the XOR chain in get_crc32 -/\n')
    out.append('def crc32Chain : List (Nat × Nat × Nat × Nat) := [' +
               ', '.join(f'({a}, {b}, {c}, {d})' for a, b, c, d in chain) + ']\n')
    for n, fp in fps.items():
        out.append(f'def src_{n} : String := {json.dumps(fp)}\n')
    out.append('end IcyVerif.Gen.Crc\n')
    return 'Crc.lean', ''.join(out)



# --------------------------------------------------------------------------- call sites
def _ws(t):
    return re.sub(r'\s+', ' ', t).strip()


def _method(s, name, what):
    """body of an `impl` method (4-space indented)"""
    m = re.search(r'\n    (?:pub(?:\([a-z]+\))? )?fn ' + name + r'\([^)]*\)[^{]*\{\n(.*?)\n    \}\n', s, re.S)
    if not m:
        raise ExtractError(f'{what}: fn {name} not found')
    return m.group(1)


def _block(text, start):
    """text of the brace block that opens at text[start] == '{' (exclusive of the braces), and the index after it"""
    depth = 0
    for i in range(start, len(text)):
        if text[i] == '{':
            depth += 1
        elif text[i] == '}':
            depth -= 1
            if depth == 0:
                return text[start + 1:i], i + 1
    raise ExtractError('unbalanced braces')


def _lit(t):
    return int(t.replace('_', ''), 0)


def gen_crc_sites():
    out = [HEADER, 'namespace IcyVerif.Gen.CrcSites\n']
    fps = {}
    # ---- DECRQCRA
    a = src('src/parsers/ansi/ansi_commands.rs')
    body = _method(a, 'request_checksum_of_rectangular_area', 'DECRQCRA')
    body = re.sub(r'//[^\n]*', '', body)
    m = re.search(r'if self\.parsed_numbers\.len\(\) != (\d+) \{', body)
    if not m:
        raise ExtractError('DECRQCRA: parameter count test not found')
    out.append(f'def rectNumCount : Nat := {m.group(1)}\n')
    for nm in ['pt', 'pl', 'pb', 'pr']:
        mm = re.search(r'let ' + nm + r' = self\.parsed_numbers\[(\d+)\];', body)
        if not mm:
            raise ExtractError(f'DECRQCRA: let {nm} not found')
        out.append(f'def rectIdx_{nm} : Nat := {mm.group(1)}\n')
    mm = re.search(r'format!\("\\x1BP\{\}!~\{crc16:04X\}\\x1B\\\\", self\.parsed_numbers\[(\d+)\]\)', body)
    if not mm:
        raise ExtractError('DECRQCRA: reply format changed')
    out.append(f'def rectIdx_id : Nat := {mm.group(1)}\n')
    for var, lo, hi in [('y', 'pt', 'pb'), ('x', 'pl', 'pr')]:
        mm = re.search(r'for ' + var + r' in ' + lo + r'\.\.(=?)' + hi + r' \{', body)
        if not mm:
            raise ExtractError(f'DECRQCRA: loop over {var} changed')
        out.append(f'def rectIncl_{var} : Bool := {"true" if mm.group(1) else "false"}\n')
    i = body.find('if ch.is_visible() {')
    if i < 0:
        raise ExtractError('DECRQCRA: visibility test not found')
    blk, end = _block(body, i + len('if ch.is_visible() '))
    t = text_attr = src('src/text_attribute.rs')
    mm = re.search(r'pub attr: u(\d+),', t)
    fgw = re.search(r'pub fn get_foreground\(self\) -> u(\d+) \{\s*self\.foreground_color\s*\}', t)
    bgw = re.search(r'pub fn get_background\(self\) -> u(\d+) \{\s*self\.background_color\s*\}', t)
    if not (mm and fgw and bgw):
        raise ExtractError('TextAttribute: attr / get_foreground / get_background changed')
    widths = {'attr': int(mm.group(1)) // 8, 'get_foreground()': int(fgw.group(1)) // 8, 'get_background()': int(bgw.group(1)) // 8}
    code = {'attr': 1, 'get_foreground()': 2, 'get_background()': 3}
    rest = _ws(blk)
    fields = []
    while rest:
        m1 = re.match(r'crc16 = update_crc16\(crc16, ch\.ch as u8\); ?', rest)
        m2 = re.match(r'for b in ch\.attribute\.(attr|get_foreground\(\)|get_background\(\))\.to_(be|le)_bytes\(\) \{ crc16 = update_crc16\(crc16, b\); \} ?', rest)
        if m1:
            fields.append((0, 1, 0))
            rest = rest[m1.end():]
        elif m2:
            fields.append((code[m2.group(1)], widths[m2.group(1)], 0 if m2.group(2) == 'be' else 1))
            rest = rest[m2.end():]
        else:
            raise ExtractError('DECRQCRA: statement the translator does not understand in the per-cell feeding: ' + rest[:80])
    out.append('/-- per visible cell, in feeding order: (field: 0 ch / 1 attr / 2 foreground / 3 background, bytes, 0 big / 1 little endian) -/\n')
    out.append('def rectFields : List (Nat × Nat × Nat) := [' + ', '.join(f'({a_}, {b_}, {c_})' for a_, b_, c_ in fields) + ']\n')
    fps['decrqcra'] = _ws(body[:i] + 'if ch.is_visible() { SERIAL }' + body[end:])
    ac = src('src/attributed_char.rs')
    fps['is_visible'] = _ws(_method(ac, 'is_visible', 'AttributedChar'))
    mm = re.search(r'pub const INVISIBLE: u16 = ([0-9a-fA-Fxb_]+);', t)
    if not mm:
        raise ExtractError('attribute::INVISIBLE not found')
    out.append(f'def attrInvisible : Nat := {_lit(mm.group(1))}\n')
    # ---- BitFont::calculate_checksum
    f = src('src/fonts.rs')
    body = _method(f, 'calculate_checksum', 'BitFont')
    mi = re.search(r'let mut crc = (\d+);', body)
    ml = re.search(r'for ch in (\d+)\.\.(=?)self\.length \{', body)
    if not (mi and ml):
        raise ExtractError('BitFont::calculate_checksum: initial value / loop over 0..self.length changed')
    out.append(f'def fontInit : Nat := {mi.group(1)}\n')
    out.append(f'def fontLoopFrom : Nat := {ml.group(1)}\n')
    out.append(f'def fontLoopIncl : Bool := {"true" if ml.group(2) else "false"}\n')
    fps['font_calculate_checksum'] = _ws(body)
    fps['font_get_checksum'] = _ws(_method(f, 'get_checksum', 'BitFont'))
    fps['font_get_glyph'] = _ws(_method(f, 'get_glyph', 'BitFont'))
    # ---- Palette
    p = src('src/palette_handling.rs')
    body = _method(p, 'get_checksum', 'Palette')
    fl = re.findall(r'self\.checksum = update_crc32\(self\.checksum, c\.([a-z]+)\);', body)
    if not fl or any(x not in 'rgb' for x in fl):
        raise ExtractError('Palette::get_checksum: feeding lines changed')
    out.append('/-- per colour, in feeding order: 0 r / 1 g / 2 b -/\n')
    out.append('def palFields : List Nat := [' + ', '.join(str('rgb'.index(x)) for x in fl) + ']\n')
    fp = re.sub(r'(\s*self\.checksum = update_crc32\(self\.checksum, c\.[a-z]+\);)+', ' FIELDS;', body, count=1)
    fps['pal_get_checksum'] = _ws(fp)
    for nm in ['invalidate_checksum', 'push', 'set_color', 'set_color_rgb', 'clear', 'resize', 'fill_to_16', 'insert_color', 'len']:
        fps['pal_' + nm] = _ws(_method(p, nm, 'Palette'))
    hsl = _ws(_method(p, 'set_color_hsl', 'Palette'))
    fps['pal_set_color_hsl'] = re.sub(r'let \(r, g, b\) = .*?; self\.colors\[', 'HSL; self.colors[', hsl, count=1)
    olds = set(re.findall(r'\bold_checksum: (\d+),', p))
    regs = set(re.findall(r'\bchecksum: (\d+),', p))
    if len(olds) != 1 or len(regs) != 1:
        raise ExtractError(f'Palette constructors: initial old_checksum {sorted(olds)} / checksum {sorted(regs)} not uniform')
    n_ctor = len(re.findall(r'\bold_checksum: \d+,', p))
    out.append(f'def palInitOld : Nat := {olds.pop()}\n')
    out.append(f'def palInitReg : Nat := {regs.pop()}\n')
    out.append(f'def palConstructors : Nat := {n_ctor}\n')
    # anything else that writes the two cache fields or the colour vector in place would have to be modelled too
    writers = sorted(set(re.findall(r'self\.(?:old_checksum|checksum) = ', p)))
    n_writes = len(re.findall(r'self\.(?:old_checksum|checksum) = ', p))
    out.append(f'def palCacheWrites : Nat := {n_writes}\n')
    mut_sites = len(re.findall(r'self\.colors(?:\[[^\]]*\] = |\.(?:push|resize|clear|truncate|remove|insert|swap|pop|retain|drain|extend|iter_mut|sort|reverse|dedup|append|split_off|swap_remove|get_mut|last_mut|first_mut|as_mut|fill)\b)', p))
    out.append(f'def palColorWrites : Nat := {mut_sites}\n')
    mm = re.search(r'#\[derive\(([^)]*)\)\]\s*pub struct Color \{(.*?)\n\}', p, re.S)
    if not mm or 'Default' not in mm.group(1):
        raise ExtractError('Color no longer derives Default')
    out.append('def colorDefault : List Nat := [0, 0, 0]\n')
    mm = re.search(r'pub const DOS_DEFAULT_PALETTE: \[Color; 16\] = \[(.*?)\n\];', p, re.S)
    if not mm:
        raise ExtractError('DOS_DEFAULT_PALETTE not found')
    vals = [_lit(x) for x in re.findall(r'\b[rgb]: (0x[0-9A-Fa-f]+|\d+)', mm.group(1))]
    if len(vals) != 48:
        raise ExtractError(f'DOS_DEFAULT_PALETTE: {len(vals)} components')
    out.append(lean_list('dosDefaultFlat', vals))
    for n, fp in fps.items():
        out.append(f'def src_{n} : String := {json.dumps(fp)}\n')
    out.append('end IcyVerif.Gen.CrcSites\n')
    return 'CrcSites.lean', ''.join(out)


def gen_crc_all():
    return [gen_crc(), gen_crc_sites()]


GENERATORS = {'crc': gen_crc_all}
