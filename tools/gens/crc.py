"""Gen/Crc.lean: CRC tables and the shape of the sliced CRC-32 fast path (src/crc.rs)"""
import re, json
from extract import src, nums, lean_list, HEADER, ExtractError

# --------------------------------------------------------------------------- CRC
def gen_crc():
    s = src('src/crc.rs')
    m = re.search(r'CRC16_CCITT_TABLE: \[u16; 256\] = \[(.*?)\];', s, re.S)
    if not m:
        raise ExtractError('CRC16_CCITT_TABLE not found')
    t16 = nums(m.group(1))
    m = re.search(r'CRC32_TABLE: \[\[u32; 256\]; 16\] = \[(.*?)\n\];', s, re.S)
    if not m:
        raise ExtractError('CRC32_TABLE not found')
    t32 = nums(m.group(1))
    if len(t16) != 256 or len(t32) != 4096:
        raise ExtractError(f'CRC table sizes {len(t16)} {len(t32)}')
    # shape of the sliced fast path in get_crc32
    m = re.search(r'pub fn get_crc32\(buf: &\[u8\]\) -> u32 \{(.*?)\n\}', s, re.S)
    if not m:
        raise ExtractError('get_crc32 not found')
    body = m.group(1)
    init = re.search(r'let mut result = (0x[0-9A-Fa-f_]+);', body)
    thr = re.search(r'while buf\.len\(\) >= (\d+)', body)
    adv = re.search(r'buf = &buf\[(\d+)\.\.\];', body)
    tail = re.search(r'update_slow\((!?)result, buf\)', body)
    if not (init and thr and adv and tail):
        raise ExtractError('get_crc32 skeleton changed')
    chain = []
    for cm in re.finditer(
            r'CRC32_TABLE\[(0x[0-9a-fA-F]+)\]\[buf\[(0x[0-9a-fA-F]+)\] as usize'
            r'(?: \^ \(\(?result(?: >> (0x[0-9a-fA-F]+))?\)? & 0xFF\) as usize)?\]', body):
        row = int(cm.group(1), 16)
        idx = int(cm.group(2), 16)
        has_r = '^' in cm.group(0)
        sh = int(cm.group(3), 16) if cm.group(3) else 0
        chain.append((row, idx, 1 if has_r else 0, sh))
    n_tables = len(re.findall(r'CRC32_TABLE\[', body))
    if n_tables != len(chain):
        raise ExtractError(f'get_crc32 chain: {n_tables} table uses, {len(chain)} parsed')
    # update_slow, update_crc32, update_crc16, get_crc16 skeletons: fingerprints only (the
    # hand-written model mirrors them; the correspondence run ties them)
    def fn_body(name):
        mm = re.search(r'fn ' + name + r'\([^)]*\)[^{]*\{(.*?)\n\}', s, re.S)
        if not mm:
            raise ExtractError(f'fn {name} not found')
        return re.sub(r'\s+', ' ', mm.group(1)).strip()
    fps = {n: fn_body(n) for n in ['get_crc16', 'update_crc16', 'update_slow', 'update_crc32']}
    # get_crc32: the loop skeleton with the XOR chain (already parsed into crc32Chain) abstracted away
    loop = re.sub(r'\s+', ' ', body).strip()
    loop = re.sub(r'result = CRC32_TABLE\[.*?;', 'result = CHAIN;', loop, count=1)
    loop = re.sub(r'^let mut result = 0x[0-9A-Fa-f_]+; let mut buf = buf; ', '', loop)
    fps['get_crc32_loop'] = loop
    out = [HEADER, 'namespace IcyVerif.Gen.Crc\n']
    out.append(lean_list('t16', t16))
    for k in range(16):
        out.append(lean_list(f't32r{k}', t32[k * 256:(k + 1) * 256]))
    out.append('def t32 : List (List Nat) := [' + ', '.join(f't32r{k}' for k in range(16)) + ']\n')
    out.append(f'def crc32Init : Nat := {int(init.group(1).replace("_", ""), 16)}\n')
    out.append(f'def crc32Block : Nat := {int(thr.group(1))}\n')
    out.append(f'def crc32Advance : Nat := {int(adv.group(1))}\n')
    out.append(f'def crc32TailNot : Bool := {"true" if tail.group(1) == "!" else "false"}\n')
    out.append('/-- (table row, byte index, xor-with-state?, state shift) of the XOR chain in get_crc32 -/\n')
    out.append('def crc32Chain : List (Nat × Nat × Nat × Nat) := [' +
               ', '.join(f'({a}, {b}, {c}, {d})' for a, b, c, d in chain) + ']\n')
    for n, fp in fps.items():
        out.append(f'def src_{n} : String := {json.dumps(fp)}\n')
    out.append('end IcyVerif.Gen.Crc\n')
    return 'Crc.lean', ''.join(out)



GENERATORS = {'crc': gen_crc}
