"""Gen/Loops.lean: inventory of every loop in the terminal-stream code, the bitmap-font loaders and the palette
importers whose trip count can depend on the input (C03).  Purely syntactic: file, enclosing fn, loop header text, the
definition of a plain-identifier bound, and - when that definition is a RAW control-function parameter
(`self.parsed_numbers[i]`) - the text of the guard that rejects the command before the loop (`{guard: …}`), because
then the guard is the only thing that bounds the loop.  Props/C03.lean lists the loops the model accounts for; a new
loop, a changed bound expression or a changed guard breaks `all_loops_known`."""
import re, json
from extract import src, HEADER, ExtractError

FILES = ['src/parsers/mod.rs', 'src/parsers/ansi/mod.rs', 'src/parsers/ansi/ansi_commands.rs', 'src/parsers/ansi/dcs.rs',
         'src/parsers/ansi/osc.rs', 'src/parsers/avatar/mod.rs', 'src/terminal_state.rs', 'src/fonts.rs', 'src/palette_handling.rs']

LOOP = re.compile(r'(\(\s*[^;{}]*?\.\.=?[^;{}]*?\)\s*(?:\.rev\(\))?\s*\.for_each|\bfor\s+[^{;]*?\s+in\s+[^{]*|\bwhile\s+[^{]*|\bloop\s*\{)')


def strip_tests(text):
    i = text.find('#[cfg(test)]\nmod tests {')
    j = text.find('#[cfg(test)]\nfn ')
    cut = min([k for k in (i, j) if k >= 0], default=-1)
    return text if cut < 0 else text[:cut]


def gen_loops():
    items = []
    for f in FILES:
        text = strip_tests(src(f))
        # drop comments
        text = re.sub(r'//[^\n]*', '', text)
        # drop the contents of string literals ("error while opening file" is not a loop)
        text = re.sub(r'"(?:[^"\\\n]|\\.)*"', '""', text)
        fn = '?'
        pos = 0
        fns = [(m.start(), m.group(1)) for m in re.finditer(r'\bfn\s+([A-Za-z0-9_]+)', text)]
        for m in LOOP.finditer(text):
            while pos < len(fns) and fns[pos][0] < m.start():
                fn = fns[pos][1]
                pos += 1
            head = re.sub(r'\s+', ' ', m.group(1)).strip().rstrip('{').strip()
            # the definition of a plain-identifier bound (`0..num`): nearest preceding `let num = …;`
            bm = re.search(r'\.\.=?\s*([a-z_][a-z0-9_]*)\s*\)?\s*(?:\.for_each)?$', head)
            if bm:
                ident = bm.group(1)
                back = text[max(0, m.start() - 1200):m.start()]
                defs = list(re.finditer(r'let\s+(?:mut\s+)?' + ident + r'(?:\s*:\s*[A-Za-z0-9_]+)?\s*=\s*([^;]*);', back))
                if defs:
                    dtext = re.sub(r'\s+', ' ', defs[-1].group(1)).strip()
                    head += ' [' + ident + ' = ' + dtext + ']'
                    if re.fullmatch(r'self\.parsed_numbers\[[^\]]*\]', dtext):
                        # an unclamped parameter: the rejecting guard between the definition and the loop is the bound
                        between = back[defs[-1].end():]
                        guards = [g for g in re.finditer(r'\bif\s+([^{}]*?)\s*\{\s*return\s+Err', between)
                                  if re.search(r'\b' + ident + r'\b', g.group(1))]
                        head += ' {guard: ' + (re.sub(r'\s+', ' ', guards[-1].group(1)).strip() if guards else 'NONE') + '}'
            item = f'{f[4:]}::{fn}::{head}'
            k = sum(1 for i in items if i == item or i.startswith(item + ' #'))
            items.append(item + (f' #{k + 1}' if k else ''))
    if len(items) < 20:
        raise ExtractError(f'only {len(items)} loops found')
    import hashlib
    out = [HEADER, 'namespace IcyVerif.Gen.Loops\n', 'def loops : List String := [\n']
    out.append(',\n'.join('  ' + json.dumps(i) for i in items))
    out.append('\n]\n/-- 48-bit fingerprints (sha1) of the entries of `loops`, same order (strings do not kernel-reduce) -/\n')
    out.append('def loopIds : List Nat := [' + ', '.join(str(int(hashlib.sha1(i.encode()).hexdigest()[:12], 16)) for i in items) + ']\n')
    out.append('end IcyVerif.Gen.Loops\n')
    return 'Loops.lean', ''.join(out)


GENERATORS = {'loops': gen_loops}
