"""Gen/Fonts.lean: a per-glyph summary of every built-in font (the `fonts!` and `sauce_fonts!` tables of
src/fonts.rs, files under data/fonts), parsed exactly as `BitFont::from_bytes` parses them:
width, height, number of glyphs and, per glyph code, (number of data bytes, u8::count_ones total,
"every in-range bit is set").  C12's `FontOk` is discharged from these lists by `decide`; the harness
recomputes the same summary from the compiled crate and compares (`icydrv coloropt fontsum …`).
Also the constants of the colour optimiser / renderer (BOLD bit, the bright-colour fold)."""
import os, re, struct
from extract import src, lean_list, HEADER, ExtractError, REPO


def parse_font(data):
    """mirror of BitFont::from_bytes -> (width, height, [glyph rows])"""
    def glyphs(h, d):
        out = []
        if h == 0:
            raise ExtractError('font height 0')
        while d:
            if len(d) < h:
                raise ExtractError('glyph data is not a multiple of the height (from_bytes would panic)')
            out.append(list(d[:h]))
            d = d[h:]
        return out
    if len(data) >= 2 and struct.unpack('<H', data[:2])[0] == 0x0436:
        charsize = data[3]
        return 8, charsize, glyphs(charsize, data[4:])
    if len(data) >= 4 and struct.unpack('<I', data[:4])[0] == 0x864AB572:
        version, headersize, _flags, length, charsize, height, width = struct.unpack('<7I', data[4:32])
        if version > 0:
            raise ExtractError('psf2 version')
        if length * charsize + headersize != len(data):
            raise ExtractError('psf2 length mismatch')
        return width, height, glyphs(height, data[headersize:])
    if len(data) % 256 != 0:
        raise ExtractError('unknown font format')
    h = len(data) // 256
    return 8, h, glyphs(h, data)


def summary(w, h, gl):
    lens, ones, full = [], [], []
    for rows in gl:
        lens.append(len(rows))
        ones.append(sum(bin(b).count('1') for b in rows))
        ok = len(rows) >= h and all((rows[cy] & (128 >> cx)) != 0 for cy in range(h) for cx in range(w))
        full.append(1 if ok else 0)
    return lens, ones, full


def gen_fonts():
    s = src('src/fonts.rs')
    m = re.search(r'\nfonts!\[(.*?)\n\];', s, re.S)
    if not m:
        raise ExtractError('fonts![] table not found')
    ansi = []
    for e in re.finditer(r'\(\s*([A-Z0-9_]+),\s*"([^"]+)",\s*(DEFAULT_FONT_NAME|"[^"]*"),\s*(\d+),\s*(\d+)\s*(?:,\s*(\d+)\s*)?\)', m.group(1)):
        ansi.append((e.group(1), e.group(2), int(e.group(6)) if e.group(6) is not None else None))
    n_entries = len(re.findall(r'\(\s*[A-Z0-9_]+,', m.group(1)))
    if n_entries != len(ansi) or not ansi:
        raise ExtractError(f'fonts![]: {n_entries} entries, {len(ansi)} parsed')
    m = re.search(r'\nsauce_fonts!\[(.*?)\n\];', s, re.S)
    if not m:
        raise ExtractError('sauce_fonts![] table not found')
    sauce = [(e.group(1), e.group(2)) for e in re.finditer(r'\(\s*([A-Z0-9_]+),\s*"([^"]+)",\s*"[^"]*",', m.group(1))]
    if len(re.findall(r'\(\s*[A-Z0-9_]+,', m.group(1))) != len(sauce) or not sauce:
        raise ExtractError('sauce_fonts![] entries not parsed')

    # constants used by the model of render_to_rgba / get_shape
    ta = src('src/text_attribute.rs')
    b = re.search(r'pub const BOLD: u16 = (0b[01_]+);', ta)
    buf = src('src/buffers.rs')
    fold = re.search(r'let fg = if ch\.attribute\.is_bold\(\) && ch\.attribute\.get_foreground\(\) < (\d+) \{\s*'
                     r'ch\.attribute\.get_foreground\(\) \+ (\d+)', buf)
    bit = re.search(r'glyph\.data\[cy as usize\] & \((\d+) >> cx\) == 0', buf)
    alpha = re.search(r'pixels\[offset \+ 3\] = (0x[0-9A-Fa-f]+|\d+);', buf)
    co = src('src/formats/color_optimization.rs')
    norm = re.search(r"if self\.normalize_whitespace && map\.contains_key\(&' '\) \{\s*ch = ' ';", co)
    if not (b and fold and bit and alpha and norm):
        raise ExtractError('render_to_rgba / optimize constants: source shape changed')

    out = [HEADER, 'namespace IcyVerif.Gen.Fonts\n']
    out.append('/-- per built-in font: width, height, and per glyph code the number of data bytes, the total of\n'
               '    `u8::count_ones`, and whether every bit inside width x height is set -/\n')
    out.append('structure FontSum where\n  w : Nat\n  h : Nat\n  lens : List Nat\n  ones : List Nat\n  full : List Nat\n\n')
    out.append(f'def boldBit : Nat := {int(b.group(1).replace("_", "")[2:], 2)}\n')
    out.append(f'def brightLimit : Nat := {int(fold.group(1))}\n')
    out.append(f'def brightOffset : Nat := {int(fold.group(2))}\n')
    out.append(f'def msbMask : Nat := {int(bit.group(1))}\n')
    out.append(f'def alphaOpaque : Nat := {int(alpha.group(1), 0)}\n')
    out.append('def spaceCh : Nat := 32\n')

    cache = {}

    def emit(name, file):
        if file not in cache:
            with open(os.path.join(REPO, 'data/fonts', file), 'rb') as f:
                w, h, gl = parse_font(f.read())
            cache[file] = (w, h) + summary(w, h, gl)
        w, h, lens, ones, full = cache[file]
        out.append(lean_list(f'{name}_lens', lens))
        out.append(lean_list(f'{name}_ones', ones))
        out.append(lean_list(f'{name}_full', full))
        out.append(f'def {name} : FontSum := ⟨{w}, {h}, {name}_lens, {name}_ones, {name}_full⟩\n')

    slots, others = [], []
    for ident, file, slot in ansi:
        nm = 'f_' + ident.lower()
        emit(nm, file)
        (slots if slot is not None else others).append((slot, nm))
    snames = []
    for ident, file in sauce:
        nm = 's_' + ident.lower()
        emit(nm, file)
        snames.append(nm)
    out.append('/-- `BitFont::from_ansi_font_page(slot)` -/\n')
    out.append('def ansiFonts : List (Nat × FontSum) := [' + ', '.join(f'({sl}, {nm})' for sl, nm in slots) + ']\n')
    out.append('/-- built-in fonts without an ANSI slot (Viewdata) -/\n')
    out.append('def otherFonts : List FontSum := [' + ', '.join(nm for _, nm in others) + ']\n')
    out.append('/-- `BitFont::from_sauce_name(SAUCE_FONT_NAMES[i])` -/\n')
    out.append('def sauceFonts : List FontSum := [' + ', '.join(snames) + ']\n')
    out.append('def allFonts : List FontSum := ansiFonts.map (·.2) ++ otherFonts ++ sauceFonts\n')
    out.append('end IcyVerif.Gen.Fonts\n')
    return 'Fonts.lean', ''.join(out)


GENERATORS = {'fonts': gen_fonts}
