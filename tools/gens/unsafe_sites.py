"""Gen/Unsafe.lean: inventory of every unchecked conversion in /repo/src outside #[cfg(test)] (C10).

Purely syntactic: every `from_u32_unchecked(`, `from_utf8_unchecked(`, `transmute(`, `get_unchecked(`,
`get_unchecked_mut(` call with file, enclosing fn and argument text; every other `unsafe {` block is listed
separately (so a new KIND of unsafe code is also noticed).  Also copies the constants the site proofs are about:
HEX_TABLE (pcboard.rs), the XBin `Compression` discriminants and the mask used at the transmute."""
import os, re, json
from extract import src, nums, lean_list, HEADER, ExtractError, REPO

KINDS = ['from_u32_unchecked', 'from_utf8_unchecked', 'transmute', 'get_unchecked_mut', 'get_unchecked']


def blank_comments_and_strings(s):
    """replace comments and string/char literal CONTENTS by spaces (same length, newlines kept)"""
    out = list(s)
    i, n = 0, len(s)

    def blank(a, b):
        for k in range(a, b):
            if out[k] != '\n':
                out[k] = ' '
    while i < n:
        c = s[i]
        if s.startswith('//', i):
            j = s.find('\n', i)
            j = n if j < 0 else j
            blank(i, j)
            i = j
        elif s.startswith('/*', i):
            depth, j = 1, i + 2
            while j < n and depth:
                if s.startswith('/*', j):
                    depth += 1
                    j += 2
                elif s.startswith('*/', j):
                    depth -= 1
                    j += 2
                else:
                    j += 1
            blank(i, j)
            i = j
        elif c == 'r' and re.match(r'r#*"', s[i:]) and (i == 0 or not (s[i - 1].isalnum() or s[i - 1] == '_')):
            m = re.match(r'r(#*)"', s[i:])
            end = '"' + m.group(1)
            j = s.find(end, i + len(m.group(0)))
            j = n if j < 0 else j + len(end)
            blank(i + len(m.group(0)), j - len(end))
            i = j
        elif c == '"':
            j = i + 1
            while j < n and s[j] != '"':
                j += 2 if s[j] == '\\' else 1
            blank(i + 1, j)
            i = j + 1
        elif c == "'":
            m = re.match(r"'(\\x[0-9a-fA-F]{2}|\\u\{[0-9a-fA-F_]+\}|\\.|[^\\'])'", s[i:])
            if m:
                blank(i + 1, i + len(m.group(0)) - 1)
                i += len(m.group(0))
            else:
                i += 1  # lifetime
        else:
            i += 1
    return ''.join(out)


def match_brace(s, i, open_='{', close='}'):
    """s[i] is the opening bracket; returns index just past the matching closing one"""
    depth = 0
    for j in range(i, len(s)):
        if s[j] == open_:
            depth += 1
        elif s[j] == close:
            depth -= 1
            if depth == 0:
                return j + 1
    raise ExtractError('unbalanced brackets')


def strip_test_items(s):
    """blank every item that follows a #[cfg(test)] attribute (mod {...}, fn {...}, impl {...}, use …;)"""
    out = s
    for m in list(re.finditer(r'#\[cfg\(test\)\]', s)):
        j = m.end()
        # skip further attributes
        while True:
            mm = re.match(r'\s*#\[[^\]]*\]', out[j:])
            if not mm:
                break
            j += mm.end()
        semi = out.find(';', j)
        brace = out.find('{', j)
        if brace >= 0 and (semi < 0 or brace < semi):
            end = match_brace(out, brace)
        else:
            end = semi + 1 if semi >= 0 else len(out)
        out = out[:m.start()] + re.sub(r'[^\n]', ' ', out[m.start():end]) + out[end:]
    return out


def test_module_files():
    """files that are only compiled under #[cfg(test)] (declared `#[cfg(test)] mod x;`)"""
    skip = set()
    root = os.path.join(REPO, 'src')
    for base, _, files in os.walk(root):
        for f in files:
            if not f.endswith('.rs'):
                continue
            p = os.path.join(base, f)
            s = open(p, encoding='utf-8').read()
            for m in re.finditer(r'#\[cfg\(test\)\]\s*(?:pub(?:\([^)]*\))?\s+)?mod\s+(\w+)\s*;', s):
                d = base if f in ('mod.rs', 'lib.rs', 'main.rs') else os.path.join(base, f[:-3])
                skip.add(os.path.normpath(os.path.join(d, m.group(1) + '.rs')))
                skip.add(os.path.normpath(os.path.join(d, m.group(1), 'mod.rs')))
    return skip


def enclosing_fn(s, pos):
    name = None
    for m in re.finditer(r'\bfn\s+(\w+)', s[:pos]):
        name = m.group(1)
    return name or '<top>'


def gen_unsafe():
    root = os.path.join(REPO, 'src')
    skip = test_module_files()
    sites, others = [], []
    n_files = 0
    for base, dirs, files in os.walk(root):
        dirs.sort()
        for f in sorted(files):
            if not f.endswith('.rs'):
                continue
            p = os.path.normpath(os.path.join(base, f))
            if p in skip:
                continue
            # a directory module that is test-only
            if any(p.startswith(os.path.dirname(x) + os.sep) for x in skip if x.endswith(os.sep + 'mod.rs') and os.path.exists(x)):
                continue
            n_files += 1
            raw = open(p, encoding='utf-8').read()
            s = strip_test_items(blank_comments_and_strings(raw))
            rel = os.path.relpath(p, REPO)
            covered = []
            for m in re.finditer(r'\b(' + '|'.join(KINDS) + r')\s*(?:::<[^>]*>)?\s*\(', s):
                close = match_brace(s, m.end() - 1, '(', ')')
                arg = re.sub(r'\s+', ' ', raw[m.end():close - 1]).strip()
                sites.append((rel, enclosing_fn(s, m.start()), m.group(1), arg))
                covered.append(m.start())
            for m in re.finditer(r'\bunsafe\s*\{', s):
                end = match_brace(s, m.end() - 1)
                if not any(m.start() < c < end for c in covered):
                    body = re.sub(r'\s+', ' ', raw[m.end():end - 1]).strip()
                    others.append((rel, enclosing_fn(s, m.start()), body[:120]))
            for m in re.finditer(r'\bunsafe\s+fn\s+(\w+)', s):
                others.append((rel, m.group(1), 'unsafe fn'))
    if n_files < 50:
        raise ExtractError(f'only {n_files} source files seen')
    # constants the site proofs talk about
    pcb = src('src/formats/pcboard.rs')
    m = re.search(r'HEX_TABLE:\s*&\[u8;\s*(\d+)\]\s*=\s*b"([^"]*)"', pcb)
    if not m:
        raise ExtractError('HEX_TABLE not found')
    hex_table = [ord(c) for c in m.group(2)]
    if int(m.group(1)) != len(hex_table):
        raise ExtractError('HEX_TABLE length annotation differs from literal')
    dcs = src('src/parsers/ansi/dcs.rs')
    m = re.search(r'const MAX_MACRO_LEN:\s*usize\s*=\s*(\d+);', dcs)
    if not m:
        raise ExtractError('MAX_MACRO_LEN not found in dcs.rs')
    max_macro_len = int(m.group(1))
    if not re.search(r'let room = MAX_MACRO_LEN\.saturating_sub\(dst\.len\(\)\) / rec\.len\(\);\s*for _ in 0\.\.\(n\.max\(0\) as usize\)\.min\(room\) \{\s*dst\.push_str\(rec\);', dcs):
        raise ExtractError('push_repeated no longer appends whole records within MAX_MACRO_LEN (Model/Unicode.repeatAppend)')
    xb = src('src/formats/xbinary.rs')
    m = re.search(r'#\[repr\(u8\)\][^{]*enum Compression \{(.*?)\}', xb, re.S)
    if not m:
        raise ExtractError('enum Compression (repr u8) not found')
    discr = []
    for line in m.group(1).split(','):
        line = line.strip()
        if not line:
            continue
        mm = re.match(r'\w+\s*=\s*(0b[01_]+|0x[0-9a-fA-F_]+|\d+)$', line)
        if not mm:
            raise ExtractError(f'Compression variant without explicit discriminant: {line}')
        discr.append(int(mm.group(1).replace('_', ''), 0))
    masks = []
    for (rel, fn, kind, arg) in sites:
        if kind == 'transmute' and rel.endswith('xbinary.rs'):
            mm = re.search(r'&\s*(0b[01_]+|0x[0-9a-fA-F_]+|\d+)', arg)
            if mm:
                masks.append(int(mm.group(1).replace('_', ''), 0))
    out = [HEADER, 'namespace IcyVerif.Gen.Unsafe\n']
    out.append('/-- (file, enclosing fn, kind, argument text) of every unchecked conversion outside #[cfg(test)] -/\n')
    out.append('def unsafeSites : List (String × String × String × String) := [' +
               ',\n  '.join(f'({json.dumps(a)}, {json.dumps(b)}, {json.dumps(c)}, {json.dumps(d)})' for a, b, c, d in sites) + ']\n')
    out.append('/-- every other `unsafe { … }` block / `unsafe fn` (file, fn, text) -/\n')
    out.append('def otherUnsafe : List (String × String × String) := [' +
               ',\n  '.join(f'({json.dumps(a)}, {json.dumps(b)}, {json.dumps(c)})' for a, b, c in others) + ']\n')
    out.append(lean_list('hexTable', hex_table))
    out.append(f'def maxMacroLen : Nat := {max_macro_len}\n')
    out.append(lean_list('xbinCompressionDiscriminants', discr))
    out.append(lean_list('xbinCompressionMasks', masks))
    out.append(f'def sourceFilesScanned : Nat := {n_files}\n')
    out.append('end IcyVerif.Gen.Unsafe\n')
    return 'Unsafe.lean', ''.join(out)


GENERATORS = {'unsafe_sites': gen_unsafe}
