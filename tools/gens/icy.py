"""Gen/Icy.lean: constants of the native IcyDraw (.icy) format — src/formats/icy_draw.rs,
attribute markers from src/text_attribute.rs, the default palette from src/palette_handling.rs"""
import re, json
from extract import src, nums, lean_list, HEADER, ExtractError


def _int(t):
    t = t.replace('_', '')
    if t.startswith('0b'):
        return int(t[2:], 2)
    if t.startswith('0x'):
        return int(t[2:], 16)
    return int(t)


def _const(s, name, ty):
    m = re.search(r'const ' + name + r': ' + ty + r' = ([0-9a-fA-Fxb_]+);', s)
    if not m:
        raise ExtractError(f'const {name}: {ty} not found')
    return _int(m.group(1))


def _norm(t):
    return re.sub(r'\s+', ' ', t).strip()


def _strip_comments(t):
    return re.sub(r'//[^\n]*', '', t)


def _enum_tables(b, enum):
    """variants (declaration order), `to_byte` (byte per variant) and `from_byte` (explicit arms + the `_` arm) of one
    of the four header-mode enums of src/buffers.rs.  Anything but the plain `match` shape makes the translation fail."""
    m = re.search(r'pub enum ' + enum + r' \{(.*?)\n\}', b, re.S)
    if not m:
        raise ExtractError(f'enum {enum} not found')
    body = re.sub(r'///[^\n]*', '', m.group(1))
    variants = [v.strip() for v in _strip_comments(body).split(',') if v.strip()]
    if not variants or not all(re.fullmatch(r'[A-Za-z0-9_]+', v) for v in variants):
        raise ExtractError(f'enum {enum}: variants are not plain identifiers: {variants}')
    m = re.search(r'impl ' + enum + r' \{(.*?)\n\}', b, re.S)
    if not m:
        raise ExtractError(f'impl {enum} not found')
    impl = m.group(1)
    # from_byte
    m = re.search(r'pub fn from_byte\(b: u8\) -> Self \{\s*match b \{(.*?)\}\s*\}', impl, re.S)
    if not m:
        raise ExtractError(f'{enum}::from_byte is no longer `match b {{ … }}`')
    arms_txt = _strip_comments(m.group(1))
    arms = re.findall(r'(\d+|_)\s*=>\s*' + enum + r'::([A-Za-z0-9_]+)\s*,', arms_txt)
    left = re.sub(r'(\d+|_)\s*=>\s*' + enum + r'::([A-Za-z0-9_]+)\s*,', '', arms_txt).strip()
    if left:
        raise ExtractError(f'{enum}::from_byte has arms of another shape: {left[:80]}')
    if not arms or arms[-1][0] != '_' or any(a[0] == '_' for a in arms[:-1]):
        raise ExtractError(f'{enum}::from_byte: expected exactly one `_` arm, in last position')
    for _, v in arms:
        if v not in variants:
            raise ExtractError(f'{enum}::from_byte names the unknown variant {v}')
    explicit = [(int(a), variants.index(v)) for a, v in arms[:-1]]
    if any(a > 255 for a, _ in explicit):
        raise ExtractError(f'{enum}::from_byte: arm beyond u8')
    dflt = variants.index(arms[-1][1])
    # to_byte
    m = re.search(r'pub fn to_byte\(self\) -> u8 \{\s*match self \{(.*?)\}\s*\}', impl, re.S)
    if not m:
        raise ExtractError(f'{enum}::to_byte is no longer `match self {{ … }}`')
    tb_txt = _strip_comments(m.group(1))
    tb = re.findall(enum + r'::([A-Za-z0-9_]+)\s*=>\s*(\d+)\s*,', tb_txt)
    left = re.sub(enum + r'::([A-Za-z0-9_]+)\s*=>\s*(\d+)\s*,', '', tb_txt).strip()
    if left:
        raise ExtractError(f'{enum}::to_byte has arms of another shape: {left[:80]}')
    if sorted(v for v, _ in tb) != sorted(variants):
        raise ExtractError(f'{enum}::to_byte does not list every variant exactly once')
    to_byte = [int(dict(tb)[v]) for v in variants]
    if any(x > 255 for x in to_byte):
        raise ExtractError(f'{enum}::to_byte: value beyond u8')
    return variants, to_byte, explicit, dflt


def gen_icy():
    s = src('src/formats/icy_draw.rs')
    a = src('src/text_attribute.rs')
    p = src('src/palette_handling.rs')
    out = [HEADER, 'namespace IcyVerif.Gen.Icy\n']

    # ---- format constants
    out.append(f'def icdVersion : Nat := {_const(s, "ICD_VERSION", "u16")}\n')
    out.append(f'def icedHeaderSize : Nat := {_const(s, "ICED_HEADER_SIZE", "usize")}\n')
    for rust, lean in [('IS_VISIBLE', 'flagIsVisible'), ('POS_LOCK', 'flagPosLock'), ('EDIT_LOCK', 'flagEditLock'),
                       ('HAS_ALPHA', 'flagHasAlpha'), ('ALPHA_LOCKED', 'flagAlphaLocked')]:
        out.append(f'def {lean} : Nat := {_const(s, rust, "u32")}\n')
    out.append(f'def maxChunk : Nat := {_const(s, "MAX", "u64")}\n')
    out.append(f'def maxPreviewLines : Nat := {_const(s, "MAX_LINES", "i32")}\n')
    for rust, lean in [('INVISIBLE', 'attrInvisible'), ('SHORT_DATA', 'attrShortData'), ('INVISIBLE_SHORT', 'attrInvisibleShort')]:
        out.append(f'def {lean} : Nat := {_const(a, rust, "u16")}\n')
    m = re.search(r'const TRANSPARENT_COLOR: u32 = 1 << (\d+);', a)
    if not m:
        raise ExtractError('TRANSPARENT_COLOR not found')
    out.append(f'def transparentColor : Nat := {1 << int(m.group(1))}\n')

    # ---- the writer's cell loop: budget factor and the short/long thresholds (first chunk and continuation chunk)
    loops = re.findall(r'if result\.len\(\) as u64 \+ layer\.get_width\(\) as u64 \* (\d+) > MAX \{\s*break;\s*\}(.*?)y \+= 1;', s, re.S)
    if len(loops) != 2:
        raise ExtractError(f'expected 2 cell loops in the writer, found {len(loops)}')
    if loops[0][0] != loops[1][0]:
        raise ExtractError('row budget factor differs between first chunk and continuation chunk')
    out.append(f'def rowBudgetFactor : Nat := {int(loops[0][0])}\n')
    thr = []
    for _, body in loops:
        m = re.search(r'ch\.is_visible\(\)\s*&& ch\.ch as u32 <= (\d+)\s*&& ch\.attribute\.foreground_color <= (\d+)\s*'
                      r'&& ch\.attribute\.background_color <= (\d+)\s*&& ch\.attribute\.font_page <= (\d+)', body)
        if not m:
            raise ExtractError('short-cell condition of the writer changed shape')
        thr.append(tuple(int(x) for x in m.groups()))
    out.append('/-- (max ch, max fg, max bg, max font page) of a short cell, writer of the first chunk -/\n')
    out.append('def shortMax : Nat × Nat × Nat × Nat := (%d, %d, %d, %d)\n' % thr[0])
    out.append('def shortMaxCont : Nat × Nat × Nat × Nat := (%d, %d, %d, %d)\n' % thr[1])
    out.append(f'/-- the two per-row writer loops (first chunk / continuation chunk) are textually identical -/\n')
    out.append(f'def cellLoopsIdentical : Bool := {"true" if _norm(loops[0][1]) == _norm(loops[1][1]) else "false"}\n')

    # ---- mode / role bytes as written
    m = re.search(r'let mode = match layer\.properties\.mode \{\s*crate::Mode::Normal => (\d+),\s*crate::Mode::Chars => (\d+),\s*'
                  r'crate::Mode::Attributes => (\d+),', s)
    if not m:
        raise ExtractError('mode table of the writer not found')
    out.append('def modeBytes : List Nat := [%s, %s, %s]\n' % m.groups())
    m = re.search(r'match layer\.role \{\s*crate::Role::Image => result\.push\((\d+)\),\s*_ => result\.push\((\d+)\),', s)
    if not m:
        raise ExtractError('role bytes of the writer not found')
    out.append(f'def roleImageByte : Nat := {m.group(1)}\ndef roleNormalByte : Nat := {m.group(2)}\n')
    m = re.search(r'result\.push\(b\);\s*result\.push\((0x[0-9A-Fa-f]+|\d+)\);', s)
    if not m:
        raise ExtractError('colour alpha byte of the writer not found')
    out.append(f'def colorAlphaByte : Nat := {_int(m.group(1))}\n')

    # ---- the four header-mode enums (src/buffers.rs): variants, to_byte, from_byte — and the calls of the ICED code
    b = src('src/buffers.rs')
    for enum, lean, field, wr in [('BufferType', 'bufferType', 'buffer_type', r'result\.extend\(u16::to_le_bytes\(buf\.buffer_type\.to_byte\(\) as u16\)\);'),
                                  ('IceMode', 'iceMode', 'ice_mode', r'result\.push\(buf\.ice_mode\.to_byte\(\)\);'),
                                  ('PaletteMode', 'paletteMode', 'palette_mode', r'result\.push\(buf\.palette_mode\.to_byte\(\)\);'),
                                  ('FontMode', 'fontMode', 'font_mode', r'result\.push\(buf\.font_mode\.to_byte\(\)\);')]:
        variants, to_byte, explicit, dflt = _enum_tables(b, enum)
        out.append(f'/-- `{enum}`: variants in declaration order; `to_byte` per variant; explicit arms (byte, variant) and `_` arm of `from_byte` -/\n')
        out.append(f'def {lean}Variants : List String := [' + ', '.join(json.dumps(v) for v in variants) + ']\n')
        out.append(f'def {lean}ToByte : List Nat := [' + ', '.join(map(str, to_byte)) + ']\n')
        out.append(f'def {lean}FromArms : List (Nat × Nat) := [' + ', '.join(f'({a}, {v})' for a, v in explicit) + ']\n')
        out.append(f'def {lean}FromDefault : Nat := {dflt}\n')
        if not re.search(wr, s):
            raise ExtractError(f'the ICED writer no longer stores {field} through {enum}::to_byte')
        arg = r'buffer_type as u8' if enum == 'BufferType' else field
        if not re.search(r'result\.' + field + r' = crate::' + enum + r'::from_byte\(' + arg + r'\);', s):
            raise ExtractError(f'the ICED reader no longer sets {field} through {enum}::from_byte')
    # `Buffer::new`: the modes a loaded buffer starts from
    m = re.search(r'buffer_type: BufferType::(\w+),.*?ice_mode: IceMode::(\w+),.*?palette_mode: PaletteMode::(\w+),.*?font_mode: FontMode::(\w+),', b, re.S)
    if not m:
        raise ExtractError('initial modes of Buffer::new / create not found')
    out.append('/-- the modes `Buffer::new` starts from (variant names) -/\n')
    out.append('def initialModes : List String := [' + ', '.join(json.dumps(x) for x in m.groups()) + ']\n')

    # ---- chunk keywords used by writer and reader
    kws = sorted(set(re.findall(r'add_ztxt_chunk\((?:format!\()?"([A-Z_]+)', s)))
    out.append('def writerKeywords : List String := [' + ', '.join(json.dumps(k) for k in kws) + ']\n')
    rk = sorted(set(re.findall(r'^\s*"([A-Z]+)" => \{', s, re.M)) | set(re.findall(r'(?:strip_prefix|starts_with)\("([A-Z_]+)"\)', s)))
    out.append('def readerKeywords : List String := [' + ', '.join(json.dumps(k) for k in rk) + ']\n')

    # ---- default palette (a document whose palette equals it gets no PALETTE chunk)
    m = re.search(r'pub const DOS_DEFAULT_PALETTE: \[Color; 16\] = \[(.*?)\n\];', p, re.S)
    if not m:
        raise ExtractError('DOS_DEFAULT_PALETTE not found')
    cols = re.findall(r'r: (0x[0-9A-Fa-f]+),\s*g: (0x[0-9A-Fa-f]+),\s*b: (0x[0-9A-Fa-f]+),', m.group(1))
    if len(cols) != 16:
        raise ExtractError(f'DOS_DEFAULT_PALETTE: {len(cols)} colours parsed')
    out.append('def dosDefaultPalette : List (Nat × Nat × Nat) := [' +
               ', '.join('(%d, %d, %d)' % tuple(int(c, 16) for c in col) for col in cols) + ']\n')
    out.append('end IcyVerif.Gen.Icy\n')
    return 'Icy.lean', ''.join(out)


GENERATORS = {'icy': gen_icy}
