"""Gen/Icy.lean: constants of the native IcyDraw (.icy) format — src/formats/icy_draw.rs,
attribute markers from src/text_attribute.rs, the default palette from src/palette_handling.rs"""
import re, json
from extract import src, nums, lean_list, HEADER, ExtractError


def _int(t):
    t = t.replace('_', '')
    if t.startswith('0b'):
        return int(t[2:], 2)
    if t.startswith('0x'):
        return int(t[2:], 16)
    return int(t)


def _const(s, name, ty):
    m = re.search(r'const ' + name + r': ' + ty + r' = ([0-9a-fA-Fxb_]+);', s)
    if not m:
        raise ExtractError(f'const {name}: {ty} not found')
    return _int(m.group(1))


def _norm(t):
    return re.sub(r'\s+', ' ', t).strip()


def gen_icy():
    s = src('src/formats/icy_draw.rs')
    a = src('src/text_attribute.rs')
    p = src('src/palette_handling.rs')
    out = [HEADER, 'namespace IcyVerif.Gen.Icy\n']

    # ---- format constants
    out.append(f'def icdVersion : Nat := {_const(s, "ICD_VERSION", "u16")}\n')
    out.append(f'def icedHeaderSize : Nat := {_const(s, "ICED_HEADER_SIZE", "usize")}\n')
    for rust, lean in [('IS_VISIBLE', 'flagIsVisible'), ('POS_LOCK', 'flagPosLock'), ('EDIT_LOCK', 'flagEditLock'),
                       ('HAS_ALPHA', 'flagHasAlpha'), ('ALPHA_LOCKED', 'flagAlphaLocked')]:
        out.append(f'def {lean} : Nat := {_const(s, rust, "u32")}\n')
    out.append(f'def maxChunk : Nat := {_const(s, "MAX", "u64")}\n')
    out.append(f'def maxPreviewLines : Nat := {_const(s, "MAX_LINES", "i32")}\n')
    for rust, lean in [('INVISIBLE', 'attrInvisible'), ('SHORT_DATA', 'attrShortData'), ('INVISIBLE_SHORT', 'attrInvisibleShort')]:
        out.append(f'def {lean} : Nat := {_const(a, rust, "u16")}\n')
    m = re.search(r'const TRANSPARENT_COLOR: u32 = 1 << (\d+);', a)
    if not m:
        raise ExtractError('TRANSPARENT_COLOR not found')
    out.append(f'def transparentColor : Nat := {1 << int(m.group(1))}\n')

    # ---- the writer's cell loop: budget factor and the short/long thresholds (first chunk and continuation chunk)
    loops = re.findall(r'if result\.len\(\) as u64 \+ layer\.get_width\(\) as u64 \* (\d+) > MAX \{\s*break;\s*\}(.*?)y \+= 1;', s, re.S)
    if len(loops) != 2:
        raise ExtractError(f'expected 2 cell loops in the writer, found {len(loops)}')
    if loops[0][0] != loops[1][0]:
        raise ExtractError('row budget factor differs between first chunk and continuation chunk')
    out.append(f'def rowBudgetFactor : Nat := {int(loops[0][0])}\n')
    thr = []
    for _, body in loops:
        m = re.search(r'ch\.is_visible\(\)\s*&& ch\.ch as u32 <= (\d+)\s*&& ch\.attribute\.foreground_color <= (\d+)\s*'
                      r'&& ch\.attribute\.background_color <= (\d+)\s*&& ch\.attribute\.font_page <= (\d+)', body)
        if not m:
            raise ExtractError('short-cell condition of the writer changed shape')
        thr.append(tuple(int(x) for x in m.groups()))
    out.append('/-- (max ch, max fg, max bg, max font page) of a short cell, writer of the first chunk -/\n')
    out.append('def shortMax : Nat × Nat × Nat × Nat := (%d, %d, %d, %d)\n' % thr[0])
    out.append('def shortMaxCont : Nat × Nat × Nat × Nat := (%d, %d, %d, %d)\n' % thr[1])
    out.append(f'/-- the two per-row writer loops (first chunk / continuation chunk) are textually identical -/\n')
    out.append(f'def cellLoopsIdentical : Bool := {"true" if _norm(loops[0][1]) == _norm(loops[1][1]) else "false"}\n')

    # ---- mode / role bytes as written
    m = re.search(r'let mode = match layer\.properties\.mode \{\s*crate::Mode::Normal => (\d+),\s*crate::Mode::Chars => (\d+),\s*'
                  r'crate::Mode::Attributes => (\d+),', s)
    if not m:
        raise ExtractError('mode table of the writer not found')
    out.append('def modeBytes : List Nat := [%s, %s, %s]\n' % m.groups())
    m = re.search(r'match layer\.role \{\s*crate::Role::Image => result\.push\((\d+)\),\s*_ => result\.push\((\d+)\),', s)
    if not m:
        raise ExtractError('role bytes of the writer not found')
    out.append(f'def roleImageByte : Nat := {m.group(1)}\ndef roleNormalByte : Nat := {m.group(2)}\n')
    m = re.search(r'result\.push\(b\);\s*result\.push\((0x[0-9A-Fa-f]+|\d+)\);', s)
    if not m:
        raise ExtractError('colour alpha byte of the writer not found')
    out.append(f'def colorAlphaByte : Nat := {_int(m.group(1))}\n')

    # ---- chunk keywords used by writer and reader
    kws = sorted(set(re.findall(r'add_ztxt_chunk\((?:format!\()?"([A-Z_]+)', s)))
    out.append('def writerKeywords : List String := [' + ', '.join(json.dumps(k) for k in kws) + ']\n')
    rk = sorted(set(re.findall(r'^\s*"([A-Z]+)" => \{', s, re.M)) | set(re.findall(r'(?:strip_prefix|starts_with)\("([A-Z_]+)"\)', s)))
    out.append('def readerKeywords : List String := [' + ', '.join(json.dumps(k) for k in rk) + ']\n')

    # ---- default palette (a document whose palette equals it gets no PALETTE chunk)
    m = re.search(r'pub const DOS_DEFAULT_PALETTE: \[Color; 16\] = \[(.*?)\n\];', p, re.S)
    if not m:
        raise ExtractError('DOS_DEFAULT_PALETTE not found')
    cols = re.findall(r'r: (0x[0-9A-Fa-f]+),\s*g: (0x[0-9A-Fa-f]+),\s*b: (0x[0-9A-Fa-f]+),', m.group(1))
    if len(cols) != 16:
        raise ExtractError(f'DOS_DEFAULT_PALETTE: {len(cols)} colours parsed')
    out.append('def dosDefaultPalette : List (Nat × Nat × Nat) := [' +
               ', '.join('(%d, %d, %d)' % tuple(int(c, 16) for c in col) for col in cols) + ']\n')
    out.append('end IcyVerif.Gen.Icy\n')
    return 'Icy.lean', ''.join(out)


GENERATORS = {'icy': gen_icy}
