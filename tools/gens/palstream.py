"""Gen/PalStream.lean: what the palette-relevant CALL SITES of the ANSI parser are made of
(src/parsers/ansi/ansi_commands.rs, osc.rs, mod.rs, src/caret.rs, src/text_attribute.rs, src/palette_handling.rs):

* the arms of the `match n` in `select_graphic_rendition`, classified by what they do to the caret colours / the palette
  (`sgrArms`), COLOR_OFFSETS, XTERM_256_PALETTE, the default colours of `TextAttribute::default()`;
* the skeleton of `parse_extended_colors` (sub-selectors 5 / 2, the parameter counts, the 0..=255 ranges) and of
  `select_24bit_color` and the `'t'` dispatch - compared with the text the hand-written model follows;
* the OSC number loop, the selector `4`, the index limit and the regex of `parse_osc`.

A source shape the translator does not recognise is an ExtractError (a broken obligation), never a silent mismatch."""
import re
from extract import src, nums, lean_list, HEADER, ExtractError

# kinds of `sgrArms` entries (lo, hi, kind, a, b)
NEUTRAL, RESET, SWAP, FG_OFF, BG_OFF, FG_EXT, BG_EXT, FG_CONST, BG_CONST, ERR = range(10)

OSC_REGEX = r'(\d+)?;[rR][gG][bB]:([0-9a-fA-F]{2})/([0-9a-fA-F]{2})/([0-9a-fA-F]{2})'


def squash(t):
    t = re.sub(r'//[^\n]*', '', t)
    return re.sub(r'\s+', ' ', t).strip()


def fn_body(text, sig):
    """text of the function starting at `sig` up to its closing brace (brace counting; no braces in strings/comments there)"""
    a = text.find(sig)
    if a < 0:
        raise ExtractError(f'{sig!r} not found')
    i = text.index('{', a)
    depth, j = 0, i
    while j < len(text):
        if text[j] == '{':
            depth += 1
        elif text[j] == '}':
            depth -= 1
            if depth == 0:
                return text[a:j + 1]
        j += 1
    raise ExtractError(f'{sig!r}: unbalanced braces')


EXPECTED_EXT = squash('''
fn parse_extended_colors(&mut self, buf: &mut Buffer, i: &mut usize) -> EngineResult<u32> {
    if *i + 1 >= self.parsed_numbers.len() {
        return Err(ParserError::UnsupportedEscapeSequence(self.current_escape_sequence.clone()).into());
    }
    match self.parsed_numbers.get(*i + 1) {
        Some(5) => {
            if *i + 3 > self.parsed_numbers.len() {
                return Err(ParserError::UnsupportedEscapeSequence(self.current_escape_sequence.clone()).into());
            }
            let color = self.parsed_numbers[*i + 2];
            *i += 3;
            if (0..=255).contains(&color) {
                let color = buf.palette.insert_color(XTERM_256_PALETTE[color as usize].1.clone());
                Ok(color)
            } else {
                Err(ParserError::UnsupportedEscapeSequence(self.current_escape_sequence.clone()).into())
            }
        }
        Some(2) => {
            if *i + 5 > self.parsed_numbers.len() {
                return Err(ParserError::UnsupportedEscapeSequence(self.current_escape_sequence.clone()).into());
            }
            let r = self.parsed_numbers[*i + 2];
            let g = self.parsed_numbers[*i + 3];
            let b = self.parsed_numbers[*i + 4];
            *i += 5;
            if (0..=255).contains(&r) && (0..=255).contains(&g) && (0..=255).contains(&b) {
                let color = buf.palette.insert_color_rgb(r as u8, g as u8, b as u8);
                Ok(color)
            } else {
                Err(ParserError::UnsupportedEscapeSequence(self.current_escape_sequence.clone()).into())
            }
        }
        _ => Err(ParserError::UnsupportedEscapeSequence(self.current_escape_sequence.clone()).into()),
    }
}''')

EXPECTED_24 = squash('''
pub(crate) fn select_24bit_color(&mut self, buf: &mut Buffer, caret: &mut Caret) -> EngineResult<CallbackAction> {
    let r = self.parsed_numbers[1];
    let g = self.parsed_numbers[2];
    let b = self.parsed_numbers[3];
    let color = buf.palette.insert_color_rgb(r as u8, g as u8, b as u8);
    match self.parsed_numbers.first() {
        Some(0) => {
            caret.attribute.set_background(color);
        }
        Some(1) => {
            caret.attribute.set_foreground(color);
        }
        _ => {
            return Err(ParserError::UnsupportedEscapeSequence(self.current_escape_sequence.clone()).into());
        }
    }
    Ok(CallbackAction::Update)
}''')

EXPECTED_T = squash('''
't' => {
    self.state = EngineState::Default;
    match self.parsed_numbers.len() {
        3 => return self.window_manipulation(buf),
        4 => return self.select_24bit_color(buf, caret),
        _ => return Err(ParserError::UnsupportedEscapeSequence(
            self.current_escape_sequence.clone(),
        ).into())
    }
}''')

EXPECTED_OSC = squash('''
pub(super) fn parse_osc(&mut self, buf: &mut Buffer, caret: &mut Caret) -> EngineResult<CallbackAction> {
    let mut i = 0;
    for ch in self.parse_string.chars() {
        match ch {
            '0'..='9' => {
                let d = match self.parsed_numbers.pop() {
                    Some(number) => number,
                    _ => 0,
                };
                self.parsed_numbers.push(parse_next_number(d, ch as u8));
            }
            ';' => {
                self.parsed_numbers.push(0);
            }
            _ => {
                break;
            }
        }
        i += 1;
    }

    if !self.parsed_numbers.is_empty() && self.parsed_numbers[0] == 4 {
        for a in OSC_PALETTE.captures_iter(&self.parse_string) {
            let Some(color) = a.get(1) else {
                log::error!("Missing color index in palette sequence: {}", self.parse_string);
                continue;
            };
            let color = color.as_str().parse::<u32>()?;
            if color > 255 {
                log::error!("Invalid color index: {}", color);
                continue;
            }
            let r = u8::from_str_radix(a.get(2).unwrap().as_str(), 16)?;
            let g = u8::from_str_radix(a.get(3).unwrap().as_str(), 16)?;
            let b = u8::from_str_radix(a.get(4).unwrap().as_str(), 16)?;
            buf.palette.set_color_rgb(color, r, g, b);
        }
        return Ok(CallbackAction::Update);
    }

    if i == 3 && *self.parsed_numbers.first().unwrap() == 8 {
        self.handle_osc_hyperlinks(self.parse_string[3..].to_string(), buf, caret);
        return Ok(CallbackAction::NoUpdate);
    }

    Err(ParserError::UnsupportedOSCSequence(self.parse_string.clone()).into())
}''')

EXPECTED_NEXT = squash('''
pub fn parse_next_number(x: i32, ch: u8) -> i32 {
    x.saturating_mul(10).saturating_add(ch as i32).saturating_sub(b'0' as i32)
}''')

EXPECTED_CSI_DIGITS = squash('''
if ch.is_ascii_digit() {
    let d = match self.parsed_numbers.pop() {
        Some(number) => number,
        _ => 0,
    };
    self.parsed_numbers.push(parse_next_number(d, ch as u8));
} else if ch == ';' {
    self.parsed_numbers.push(0);
} else {''')


def pinned(name, got, want):
    if squash(got) != want:
        raise ExtractError(f'{name} is no longer the text the stream model of Model/PalStream.lean follows')


def sgr_arms(body):
    """the arms of `match n { … }` in select_graphic_rendition -> [(lo, hi, kind, a, b)]"""
    m = re.search(r'match n \{\n(.*?)\n            \}\n            i \+= 1;', body, re.S)
    if not m:
        raise ExtractError('select_graphic_rendition: `match n` not found')
    text = re.sub(r'/\*.*?\*/', '', m.group(1), flags=re.S)
    # an arm starts at indentation 16 with a pattern of numbers, ranges and `|`, or `_`
    starts = [(mm.start(), mm.group(1)) for mm in re.finditer(r'^ {16}((?:\d+(?:\.\.=\d+)?(?: \| )?)+|_) => ', text, re.M)]
    if not starts:
        raise ExtractError('select_graphic_rendition: no arms')
    arms = []
    saw_default = False
    for k, (pos, pat) in enumerate(starts):
        end = starts[k + 1][0] if k + 1 < len(starts) else len(text)
        arm = re.sub(r'//[^\n]*', '', text[pos:end])
        b = re.sub(r'\s+', ' ', arm.split('=>', 1)[1]).strip()
        if pat == '_':
            if 'return Err(' not in b:
                raise ExtractError('select_graphic_rendition: the default arm no longer returns Err')
            saw_default = True
            continue
        kind, a, bb = None, 0, 0
        if 'reset_color_attribute' in b:
            kind = RESET
        elif re.fullmatch(r'\{ let fg = caret\.attribute\.get_foreground\(\); caret\.attribute\.set_foreground\(caret\.attribute\.get_background\(\)\); caret\.attribute\.set_background\(fg\); \}', b):
            kind = SWAP
        elif (mm := re.fullmatch(r'caret\.attribute\.set_(fore|back)ground\(COLOR_OFFSETS\[n as usize - (\d+)\] as u32\),', b)):
            kind, a, bb = (FG_OFF if mm.group(1) == 'fore' else BG_OFF), 0, int(mm.group(2))
        elif (mm := re.fullmatch(r'caret\.attribute\.set_(fore|back)ground\((\d+) \+ COLOR_OFFSETS\[n as usize - (\d+)\] as u32\),', b)):
            kind, a, bb = (FG_OFF if mm.group(1) == 'fore' else BG_OFF), int(mm.group(2)), int(mm.group(3))
        elif (mm := re.fullmatch(r'\{ caret\.attribute\.set_(fore|back)ground\(self\.parse_extended_colors\(buf, &mut i\)\?\); continue; \}', b)):
            kind = FG_EXT if mm.group(1) == 'fore' else BG_EXT
        elif (mm := re.fullmatch(r'caret\.attribute\.set_(fore|back)ground\((\d+)\),', b)):
            kind, a = (FG_CONST if mm.group(1) == 'fore' else BG_CONST), int(mm.group(2))
        elif 'return Err(' in b:
            kind = ERR
        elif re.search(r'foreground|background|palette|buf\.|caret\.attribute = ', b):
            raise ExtractError(f'select_graphic_rendition: arm `{pat}` touches colours in a way the model does not know: {b[:120]}')
        else:
            kind = NEUTRAL
        for alt in pat.split('|'):
            alt = alt.strip()
            if '..=' in alt:
                lo, hi = alt.split('..=')
            else:
                lo = hi = alt
            arms.append((int(lo), int(hi), kind, a, bb))
    if not saw_default:
        raise ExtractError('select_graphic_rendition: no default arm')
    for lo, hi, kind, a, bb in arms:
        if kind in (FG_OFF, BG_OFF) and not (bb == lo and hi - lo == 7):
            raise ExtractError(f'select_graphic_rendition: arm {lo}..={hi} indexes COLOR_OFFSETS with n - {bb}')
    return arms


def gen_palstream():
    out = [HEADER, 'namespace IcyVerif.Gen.PalStream\n']
    cmds = src('src/parsers/ansi/ansi_commands.rs')
    osc = src('src/parsers/ansi/osc.rs')
    mod = src('src/parsers/ansi/mod.rs')
    consts = src('src/parsers/ansi/constants.rs')
    ph = src('src/palette_handling.rs')
    ta = src('src/text_attribute.rs')
    caret = src('src/caret.rs')
    igs = src('src/parsers/igs/mod.rs')

    # ---- tables
    m = re.search(r'COLOR_OFFSETS: \[u8; 8\] = \[([^\]]*)\];', consts)
    if not m:
        raise ExtractError('COLOR_OFFSETS not found')
    out.append(lean_list('colorOffsets', nums(m.group(1))))
    m = re.search(r'pub const XTERM_256_PALETTE: \[\(&str, Color\); 256\] = \[(.*?)\n\];', ph, re.S)
    if not m:
        raise ExtractError('XTERM_256_PALETTE not found')
    cols = re.findall(r'Color \{\s*name: None,\s*r: (\w+),\s*g: (\w+),\s*b: (\w+),\s*\}', m.group(1))
    if len(cols) != 256:
        raise ExtractError(f'XTERM_256_PALETTE: {len(cols)} colours')
    flat = []
    for c in cols:
        flat += [int(x, 0) for x in c]
    out.append(lean_list('xtermFlat', flat))
    m = re.search(r'pub const DOS_DEFAULT_PALETTE: \[Color; 16\] = \[(.*?)\n\];', ph, re.S)
    if not m:
        raise ExtractError('DOS_DEFAULT_PALETTE not found')
    cols = re.findall(r'Color \{\s*name: None,\s*r: (\w+),\s*g: (\w+),\s*b: (\w+),\s*\}', m.group(1))
    if len(cols) != 16:
        raise ExtractError(f'DOS_DEFAULT_PALETTE: {len(cols)} colours')
    flat = []
    for c in cols:
        flat += [int(x, 0) for x in c]
    out.append(lean_list('dosFlat', flat))

    # ---- defaults of the caret attribute
    m = re.search(r'impl Default for TextAttribute \{\s*fn default\(\) -> Self \{\s*Self \{\s*foreground_color: (\d+),\s*background_color: (\d+),', ta)
    if not m:
        raise ExtractError('TextAttribute::default not found')
    out.append(f'def defaultFg : Nat := {m.group(1)}\ndef defaultBg : Nat := {m.group(2)}\n')
    pinned('Caret::reset_color_attribute', fn_body(caret, 'pub fn reset_color_attribute(&mut self)'), squash('''
pub fn reset_color_attribute(&mut self) {
    let font_page = self.attribute.get_font_page();
    self.attribute = TextAttribute::default();
    self.attribute.set_font_page(font_page);
}'''))
    for fn, field in [('set_foreground', 'foreground_color'), ('set_background', 'background_color')]:
        if squash(fn_body(ta, f'pub fn {fn}(&mut self, color: u32)')) != squash(f'pub fn {fn}(&mut self, color: u32) {{ self.{field} = color; }}'):
            raise ExtractError(f'TextAttribute::{fn} changed')

    # ---- SGR
    sgr = fn_body(cmds, 'pub(crate) fn select_graphic_rendition(')
    if 'if self.parsed_numbers.is_empty() { caret.reset_color_attribute();' not in squash(sgr):
        raise ExtractError('select_graphic_rendition: the empty-parameter reset is gone')
    arms = sgr_arms(sgr)
    out.append('/-- (lo, hi, kind, a, b): kind 0 neutral, 1 reset, 2 swap fg/bg, 3 fg := a + COLOR_OFFSETS[n - b], 4 the same for bg,\n'
               '    5 fg := parse_extended_colors, 6 bg := parse_extended_colors, 7 fg := a, 8 bg := a, 9 return Err; anything else: Err -/\n')
    out.append(lean_list('sgrArms', [f'({lo}, {hi}, {k}, {a}, {b})' for lo, hi, k, a, b in arms], ty='(Nat × Nat × Nat × Nat × Nat)'))
    pinned('parse_extended_colors', fn_body(cmds, 'fn parse_extended_colors('), EXPECTED_EXT)
    out.append('def extIndexed : Nat := 5\ndef extRgb : Nat := 2\ndef extMax : Nat := 255\n')
    pinned('select_24bit_color', fn_body(cmds, 'pub(crate) fn select_24bit_color('), EXPECTED_24)
    out.append('def t24Bg : Nat := 0\ndef t24Fg : Nat := 1\n')
    a = mod.find("'t' => {")
    if a < 0:
        raise ExtractError("CSI 't' arm not found")
    b = mod.find("'S' => {", a)
    pinned("the CSI 't' dispatch", mod[a:b], EXPECTED_T)
    out.append('def tWindowParams : Nat := 3\ndef t24Params : Nat := 4\n')
    m = re.search(r'pub\(crate\) fn window_manipulation\(&mut self, buf: &mut Buffer\) -> EngineResult<CallbackAction> \{\s*match self\.parsed_numbers\.first\(\) \{\s*Some\((\d+)\) => \{', cmds)
    if not m:
        raise ExtractError('window_manipulation changed')
    out.append(f'def tWindowResize : Nat := {m.group(1)}\n')
    if EXPECTED_CSI_DIGITS not in squash(mod):
        raise ExtractError('the CSI parameter loop (digits / `;`) changed')
    pinned('parse_next_number', fn_body(igs, 'pub fn parse_next_number('), EXPECTED_NEXT)
    out.append('def i32Max : Nat := 2147483647\n')

    # ---- OSC
    m = re.search(r'static ref OSC_PALETTE: Regex = Regex::new\(r"(.*?)"\)\.unwrap\(\);', osc)
    if not m or m.group(1) != OSC_REGEX:
        raise ExtractError(f'OSC_PALETTE is {m.group(1) if m else None!r}; the hand-written matcher implements {OSC_REGEX!r}')
    pinned('parse_osc', fn_body(osc, 'pub(super) fn parse_osc('), EXPECTED_OSC)
    out.append('def oscPaletteSelector : Nat := 4\ndef oscHyperlinkSelector : Nat := 8\ndef oscMaxIndex : Nat := 255\n')
    # the OSC terminator: ESC \\ only
    if squash('''EngineState::ReadOSCSequenceEscape => { if ch == '\\\\' { self.state = EngineState::Default; return self.parse_osc(buf, caret); }''') not in squash(mod):
        raise ExtractError('the OSC terminator handling changed')
    out.append('end IcyVerif.Gen.PalStream\n')
    return 'PalStream.lean', ''.join(out)


GENERATORS = {'palstream': gen_palstream}
