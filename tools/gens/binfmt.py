"""Gen/BinFmt.lean: constants of the binary art formats (C05), copied from the source:
src/formats/{bin,artworx,ice_draw,tundra}.rs (sizes of the start buffers, header bytes, command codes, limits, the EGA
register table), src/palette_handling.rs (DOS_DEFAULT_PALETTE, EGA_PALETTE), src/sauce_mod/mod.rs (record layout
constants, data/file type numbers, the non-blink flag), src/buffers.rs (the width sanity limit of set_sauce),
src/fonts.rs + data/fonts (name and glyph bytes of the default font, parsed as BitFont::from_bytes parses the file)."""
import os, re, struct
from extract import src, lean_list, HEADER, ExtractError, REPO


def _int(t):
    t = t.strip().replace('_', '')
    if t.startswith('0b'):
        return int(t[2:], 2)
    if t.startswith('0x'):
        return int(t[2:], 16)
    return int(t)


def _colors(s, name, n):
    m = re.search(r'pub const ' + name + r': \[Color; ' + str(n) + r'\] = \[(.*?)\n\];', s, re.S)
    if not m:
        raise ExtractError(f'{name} not found')
    cs = re.findall(r'r: (0x[0-9A-Fa-f]+|\d+),\s*g: (0x[0-9A-Fa-f]+|\d+),\s*b: (0x[0-9A-Fa-f]+|\d+),', m.group(1))
    if len(cs) != n:
        raise ExtractError(f'{name}: {len(cs)} colours parsed, {n} expected')
    out = []
    for c in cs:
        out += [_int(x) for x in c]
    return out


def _new_size(s, what):
    m = re.search(r'fn load_buffer\(.*?let mut result = Buffer::new\(\((\d+), (\d+)\)\);\n(\s*result\.layers\[0\]\.lines\.clear\(\);\n)?', s, re.S)
    if not m:
        raise ExtractError(f'{what}: start buffer not found')
    return int(m.group(1)), int(m.group(2)), 1 if m.group(3) else 0


def _bytes_lit(s, name):
    m = re.search(r'const ' + name + r': &\[u8\] = b"((?:[^"\\]|\\.)*)";', s)
    if not m:
        raise ExtractError(f'{name} not found')
    raw = m.group(1)
    out, i = [], 0
    while i < len(raw):
        if raw[i] == '\\' and raw[i + 1] == 'x':
            out.append(int(raw[i + 2:i + 4], 16))
            i += 4
        elif raw[i] == '\\':
            raise ExtractError(f'{name}: escape not understood')
        else:
            out.append(ord(raw[i]))
            i += 1
    return out


def _const(s, name, ty=r'\w+'):
    m = re.search(r'const ' + name + r': ' + ty + r' = ([^;]+);', s)
    if not m:
        raise ExtractError(f'const {name} not found')
    e = m.group(1).strip()
    if e.startswith('*b"'):
        return [ord(c) for c in e[3:-1]]
    prod = 1
    terms = [t.strip() for t in e.split('+')]
    total = 0
    for t in terms:
        prod = 1
        for f in t.split('*'):
            prod *= _int(f)
        total += prod
    return total


def gen_binfmt():
    out = [HEADER, 'namespace IcyVerif.Gen.BinFmt\n']

    def d(name, v):
        out.append(f'def {name} : Nat := {v}\n')

    pal = src('src/palette_handling.rs')
    out.append(lean_list('dosPalette', _colors(pal, 'DOS_DEFAULT_PALETTE', 16)))
    out.append(lean_list('egaPalette', _colors(pal, 'EGA_PALETTE', 64)))

    # --- start buffers of the loaders and whether they clear the pre-allocated rows
    for f, nm in [('xbinary', 'xb'), ('bin', 'bin'), ('artworx', 'adf'), ('ice_draw', 'idf'), ('tundra', 'tnd')]:
        w, h, cl = _new_size(src(f'src/formats/{f}.rs'), f)
        d(nm + 'StartW', w)
        d(nm + 'StartH', h)
        d(nm + 'ClearsRows', cl)

    # --- ArtWorx
    a = src('src/formats/artworx.rs')
    d('adfVersion', _const(a, 'VERSION'))
    d('adfHeaderLength', _const(a, 'HEADER_LENGTH'))
    m = re.search(r'let palette_size = ([^;]+);', a)
    m2 = re.search(r'let font_size = (\d+);', a)
    if not (m and m2):
        raise ExtractError('artworx: palette_size / font_size')
    d('adfPaletteSize', _const('const X: usize = ' + m.group(1) + ';', 'X'))
    d('adfFontSize', int(m2.group(1)))
    m = re.search(r'static EGA_COLOR_OFFSETS: \[usize; 16\] = \[([^\]]+)\];', a)
    if not m:
        raise ExtractError('EGA_COLOR_OFFSETS')
    offs = [int(x) for x in m.group(1).split(',')]
    if len(offs) != 16:
        raise ExtractError('EGA_COLOR_OFFSETS length')
    out.append(lean_list('egaColorOffsets', offs))
    m = re.search(r'if buf\.get_width\(\) != (\d+) \{', a)
    if not m:
        raise ExtractError('artworx width')
    d('adfWidth', int(m.group(1)))

    # --- iCE Draw
    i = src('src/formats/ice_draw.rs')
    d('idfHeaderSize', _const(i, 'HEADER_SIZE'))
    d('idfFontSize', _const(i, 'FONT_SIZE'))
    d('idfPaletteSize', _const(i, 'PALETTE_SIZE'))
    out.append(lean_list('idfHeader13', _bytes_lit(i, 'IDF_V1_3_HEADER')))
    out.append(lean_list('idfHeader14', _bytes_lit(i, 'IDF_V1_4_HEADER')))
    m = re.search(r'if buf\.get_height\(\) > (\d+) \{', i)
    m2 = re.search(r"if rle_count > (\d+) \|\| ch\.ch == '\\x(\d\d)' \{", i)
    m3 = re.search(r'if ch == (\d+) && attr == (\d+) && rle_count == 1 && !options\.compress \{\s*result\.extend\(\[(\d+), (\d+), (\d+), (\d+)\]\);', i)
    m4 = re.search(r'if char_code == (\d+) && attr == (\d+) \{', i)
    if not (m and m2 and m3 and m4):
        raise ExtractError('ice_draw: limits / escape shape changed')
    d('idfMaxHeight', int(m.group(1)))
    d('idfRleMin', int(m2.group(1)))
    d('idfEscChar', int(m2.group(2), 16))
    if (int(m3.group(1)), int(m3.group(2))) != (int(m4.group(1)), int(m4.group(2))) or int(m3.group(1)) != int(m2.group(2), 16):
        raise ExtractError('ice_draw: writer and loader disagree on the escape pair')
    d('idfEscAttr', int(m3.group(2)))
    out.append(lean_list('idfFakeRepeat', [int(m3.group(k)) for k in (3, 4, 5, 6)]))

    # --- Tundra
    t = src('src/formats/tundra.rs')
    d('tndVersion', _const(t, 'TUNDRA_VER'))
    out.append(lean_list('tndHeader', _bytes_lit(t, 'TUNDRA_HEADER')))
    d('tndPosition', _const(t, 'TUNDRA_POSITION'))
    d('tndColorFg', _const(t, 'TUNDRA_COLOR_FOREGROUND'))
    d('tndColorBg', _const(t, 'TUNDRA_COLOR_BACKGROUND'))
    m = re.search(r'\|\| \((\d+)\.\.=(\d+)\)\.contains\(&ch\)', t)
    m2 = re.search(r'if cmd > (\d+) && cmd <= (\d+) \{', t)
    m3 = re.search(r'let shown = \|a: TextAttribute\| if a\.is_bold\(\) && a\.get_foreground\(\) < (\d+) \{ a\.get_foreground\(\) \+ (\d+) \} else \{ a\.get_foreground\(\) \};', t)
    if not (m and m2 and m3):
        raise ExtractError('tundra: command range / bold fold shape changed')
    d('tndCtlLo', int(m.group(1)))
    d('tndCtlHi', int(m.group(2)))
    d('tndCmdAbove', int(m2.group(1)))
    d('tndCmdUpTo', int(m2.group(2)))
    d('tndBoldLimit', int(m3.group(1)))
    d('tndBoldOffset', int(m3.group(2)))
    if 'if pos.y >= (u16::MAX) as i32 {' not in t:
        raise ExtractError('tundra: y limit')
    d('tndMaxY', 65535)

    # --- SAUCE
    s = src('src/sauce_mod/mod.rs')
    d('sauceLen', _const(s, 'SAUCE_LEN'))
    out.append(lean_list('sauceId', _const(s, 'SAUCE_ID', r'\[u8; 5\]')))
    out.append(lean_list('sauceCommentId', _const(s, 'SAUCE_COMMENT_ID', r'\[u8; 5\]')))
    d('sauceFlagNonBlink', _const(s, 'ANSI_FLAG_NON_BLINK_MODE'))
    for rust, lean in [('ASCII', 'sauceFtAscii'), ('ANSI', 'sauceFtAnsi'), ('ANSIMATION', 'sauceFtAnsimation'), ('PCBOARD', 'sauceFtPcboard'),
                       ('AVATAR', 'sauceFtAvatar'), ('TUNDRA_DRAW', 'sauceFtTundra')]:
        d(lean, _const(s, 'SAUCE_FILE_TYPE_' + rust))
    m = re.search(r'pub enum SauceDataType \{(.*?)\n\}', s, re.S)
    if not m:
        raise ExtractError('SauceDataType')
    dt = dict((k, int(v)) for k, v in re.findall(r'(\w+) = (\d+),', m.group(1)))
    for k, lean in [('Character', 'sauceDtCharacter'), ('BinaryText', 'sauceDtBinaryText'), ('XBin', 'sauceDtXBin')]:
        d(lean, dt[k])
    m = re.search(r'SauceString<(\d+), b\' \'>,\s*pub author: SauceString<(\d+), b\' \'>,\s*pub group: SauceString<(\d+), b\' \'>', s)
    m2 = re.search(r'let t_info_str: SauceString<(\d+), 0> = SauceString::from\(t_info_str\);', s)
    m3 = re.search(r'let mut buffer_size = Size::new\((\d+), (\d+)\);', s)
    if not (m and m2 and m3):
        raise ExtractError('sauce: string lengths / default size')
    d('sauceTitleLen', int(m.group(1)))
    d('sauceAuthorLen', int(m.group(2)))
    d('sauceGroupLen', int(m.group(3)))
    d('sauceInfoLen', int(m2.group(1)))
    d('sauceDefaultW', int(m3.group(1)))
    d('sauceDefaultH', int(m3.group(2)))
    b = src('src/buffers.rs')
    m = re.search(r'if size\.width == 0 \|\| size\.width > (\d+) \{\s*size\.width = (\d+);', b)
    if not m:
        raise ExtractError('set_sauce width limit')
    d('sauceMaxWidth', int(m.group(1)))
    d('sauceFallbackWidth', int(m.group(2)))

    # --- the default font
    f = src('src/fonts.rs')
    m = re.search(r'const DEFAULT_FONT_NAME: &str = "([^"]+)";', f)
    m2 = re.search(r'\(CP437, "([^"]+)", DEFAULT_FONT_NAME, 8, (\d+), 0\)', f)
    if not (m and m2):
        raise ExtractError('default font entry')
    out.append(lean_list('defaultFontName', [ord(c) for c in m.group(1)]))
    # the embedding decision of the XBin writer (C17 `xb_font_rt`): `is_default` must compare name, size, length AND the
    # glyph bytes with the built-in font (Model/BinFormats.lean: Font.isDefault); the writer must ask it for font 0
    norm = lambda t: re.sub(r'\s+', ' ', re.sub(r'//[^\n]*', '', t)).strip()
    mi = re.search(r'pub fn is_default\(&self\) -> bool \{(.*?)\n    \}', f, re.S)
    want = ('if self.name != DEFAULT_FONT_NAME { return false; } let default = BitFont::default(); '
            'self.size == default.size && self.length == default.length && '
            'self.convert_to_u8_data() == default.convert_to_u8_data()')
    if not mi or norm(mi.group(1)) != want:
        raise ExtractError('fonts.rs: BitFont::is_default no longer compares name, size, length and glyph bytes with the built-in font')
    if 'if !font.is_default() || !buf.has_fonts() || fonts.len() > 1 {\n            flags |= FLAG_FONT;' not in src('src/formats/xbinary.rs'):
        raise ExtractError('xbinary.rs: embedding decision of font 0 changed')
    data = open(os.path.join(REPO, 'data', 'fonts', m2.group(1)), 'rb').read()
    if len(data) >= 4 and struct.unpack('<I', data[:4])[0] == 0x864AB572:
        version, headersize, _flags, length, charsize, height, width = struct.unpack('<7I', data[4:32])
        if version != 0 or length * charsize + headersize != len(data) or width != 8 or charsize != height:
            raise ExtractError('default font: psf2 header')
        glyphs = data[headersize:]
    elif len(data) >= 2 and struct.unpack('<H', data[:2])[0] == 0x0436:
        height = data[3]
        glyphs = data[4:]
        length = len(glyphs) // height
    else:
        raise ExtractError('default font: unknown container')
    if height != int(m2.group(2)) or length != 256 or len(glyphs) != 256 * height:
        raise ExtractError('default font: size')
    d('defaultFontHeight', height)
    out.append(lean_list('defaultFontData', list(glyphs)))
    # --- repairs the model follows (the translator fails when one of them disappears)
    m = re.search(r'let sauce_width = sauce_opt\.as_ref\(\)\.map_or\(0, \|sauce\| sauce\.buffer_size\.width\);\s*'
                  r'result\.set_sauce\(sauce_opt, true\);\s*if sauce_width > (\d+) \{\s*result\.set_width\(sauce_width\);\s*'
                  r'result\.layers\[0\]\.set_width\(sauce_width\);\s*\}', t)
    if not m:
        raise ExtractError('tundra: loader no longer takes SAUCE widths above the set_sauce limit')
    d('tndWideAbove', int(m.group(1)))
    if not re.search(r'if pos\.y > u16::MAX as i32 \{[^}]*return Err\(LoadingError::OutOfBounds\.into\(\)\);', i):
        raise ExtractError('ice_draw: row limit of the loader')
    d('idfMaxY', 65535)
    x = src('src/formats/xbinary.rs')
    if not re.search(r'if extended_char_mode && !has_custom_font \{\s*return Err\(', x):
        raise ExtractError('xbinary: loader no longer rejects 512 character mode without a font block')
    if not re.search(r'if data\.len\(\) < o \+ XBIN_PALETTE_LENGTH \{\s*return Err\(LoadingError::FileTooShort', x) or \
            not re.search(r'if data\.len\(\) < o \+ font_length \* if extended_char_mode \{ 2 \} else \{ 1 \} \{\s*return Err\(LoadingError::FileTooShort', x):
        raise ExtractError('xbinary: palette / font block length checks')
    bn = src('src/formats/bin.rs')
    if not re.search(r'fn to_bytes\(&self, buf: &crate::Buffer, options: &SaveOptions\) -> EngineResult<Vec<u8>> \{\s*if buf\.get_width\(\) % 2 != 0 \{\s*return Err\(', bn):
        raise ExtractError('bin: writer no longer refuses odd widths')
    if len(re.findall(r'return Err\(LoadingError::FileTooShort\.into\(\)\);', t)) != 5:
        raise ExtractError('tundra: the five end-of-file checks of the loader')

    # --- the writers see the buffer only through Buffer::get_char (the compositor): none of them reads a layer
    for fname in ['xbinary', 'bin', 'artworx', 'ice_draw', 'tundra']:
        fs_ = src(f'src/formats/{fname}.rs')
        mw = re.search(r'fn to_bytes\(&self, buf: &crate::Buffer, options: &SaveOptions\) -> EngineResult<Vec<u8>> \{(.*?)\n    fn load_buffer', fs_, re.S)
        if not mw:
            raise ExtractError(f'{fname}: to_bytes not found')
        body = mw.group(1)
        if fname == 'xbinary':
            mc = re.search(r'\nfn compress_backtrack\(.*?\n\}\n', fs_, re.S)
            mc2 = re.search(r'\nfn count_length\(.*?\n\}\n', fs_, re.S)
            me = re.search(r'\nfn encode_attr\(.*?\n\}\n', fs_, re.S)
            if not (mc and mc2 and me):
                raise ExtractError('xbinary: compressor functions not found')
            body += mc.group(0) + mc2.group(0) + me.group(0)
        if re.search(r'\blayers\b', body):
            raise ExtractError(f'{fname}: the writer reads a layer directly (the model saves Buffer::get_char of the whole stack)')
        if 'get_char(' not in body:
            raise ExtractError(f'{fname}: the writer no longer reads cells through get_char')
    bsrc = src('src/buffers.rs')
    ma = re.search(r'pub fn analyze_font_usage\(buf: &Buffer\) -> Vec<usize> \{(.*?)\n\}', bsrc, re.S)
    mws = re.search(r'pub fn write_sauce_info\(.*?\n    \}\n', s, re.S)
    if not ma or re.search(r'\blayers\b', ma.group(1)) or 'buf.get_char(' not in ma.group(1) or not mws or re.search(r'\blayers\b', mws.group(0)):
        raise ExtractError('analyze_font_usage / write_sauce_info: read a layer directly')
    d('writersReadGetCharOnly', 1)

    # --- font names: guess_font_name (checksum table of the built-in fonts, in search order) and BitFont::from_sauce_name
    fm = _sibling('fonts')
    cm = _sibling('codec')
    _, cp437 = cm.char_table('src/parsers/ascii/mod.rs', 'CP437_TO_UNICODE', 256)

    def sauce_bytes(text):
        # SauceString::from: first index of CP437_TO_UNICODE holding the character, '?' if there is none (no length cut here)
        o = []
        for ch in text:
            c = ord(ch)
            o.append(cp437.index(c) if c in cp437 else ord('?'))
        return o

    crc_src = src('src/crc.rs')
    m = re.search(r'CRC32_TABLE: \[\[u32; 256\]; 16\] = \[(.*?)\n\];', crc_src, re.S)
    if not m or 'pub fn update_crc32(crc: u32, b: u8) -> u32 {\n    (crc >> 8) ^ CRC32_TABLE[0][(b ^ crc as u8) as usize]\n}' not in crc_src:
        raise ExtractError('crc.rs: CRC32_TABLE / update_crc32 shape')
    row0 = [int(v.replace('_', ''), 16) for v in re.findall(r'0x[0-9A-Fa-f_]+', m.group(1))][:256]
    if len(row0) != 256:
        raise ExtractError('crc.rs: first table row')
    out.append(lean_list('crcRow0', row0))
    if not re.search(r'pub fn calculate_checksum\(&mut self\) \{\s*let mut crc = 0;\s*for ch in 0\.\.self\.length \{\s*if let Some\(glyph\) = '
                     r'char::from_u32\(ch as u32\)\.and_then\(\|ch\| self\.get_glyph\(ch\)\) \{\s*for b in &glyph\.data \{\s*crc = update_crc32\(crc, \*b\);', f):
        raise ExtractError('fonts.rs: calculate_checksum shape')

    def checksum(gl):
        crc = 0
        for rows in gl:
            for b in rows:
                crc = (crc >> 8) ^ row0[(b ^ crc) & 0xFF]
        return crc

    mm = re.search(r'\nfonts!\[(.*?)\n\];', f, re.S)
    ms = re.search(r'\nsauce_fonts!\[(.*?)\n\];', f, re.S)
    mg = re.search(r'pub fn guess_font_name\(font: &BitFont\) -> String \{\s*for i in 0\.\.ANSI_FONTS \{\s*if let Ok\(ansi_font\) = BitFont::from_ansi_font_page\(i\) \{\s*'
                   r'if ansi_font\.get_checksum\(\) == font\.get_checksum\(\) \{\s*return ansi_font\.name\.clone\(\);\s*\}\s*\}\s*\}\s*'
                   r'for name in SAUCE_FONT_NAMES \{\s*if let Ok\(sauce_font\) = BitFont::from_sauce_name\(name\) \{\s*'
                   r'if sauce_font\.get_checksum\(\) == font\.get_checksum\(\) \{\s*return sauce_font\.name\.clone\(\);\s*\}\s*\}\s*\}\s*'
                   r'fl!\(crate::LANGUAGE_LOADER, "unknown-font-name", width = font\.size\.width, height = font\.size\.height\)', src('src/formats/mod.rs'))
    mn = re.search(r'pub const ANSI_FONTS: usize = (\d+);', f)
    if not (mm and ms and mg and mn):
        raise ExtractError('fonts.rs / formats/mod.rs: font tables or guess_font_name shape')
    default_name = re.search(r'const DEFAULT_FONT_NAME: &str = "([^"]+)";', f).group(1)
    ansi = {}
    for e in re.finditer(r'\(\s*([A-Z0-9_]+),\s*"([^"]+)",\s*(DEFAULT_FONT_NAME|"[^"]*"),\s*(\d+),\s*(\d+)\s*,\s*(\d+)\s*\)', mm.group(1)):
        nm = default_name if e.group(3) == 'DEFAULT_FONT_NAME' else e.group(3)[1:-1]
        ansi[int(e.group(6))] = (e.group(2), nm)
    n_ansi = int(mn.group(1))
    cache = {}

    def load(file):
        if file not in cache:
            with open(os.path.join(REPO, 'data/fonts', file), 'rb') as fh:
                cache[file] = fm.parse_font(fh.read())
        return cache[file]

    table = []
    for slot in range(n_ansi):
        if slot not in ansi:
            continue          # from_ansi_font_page(slot) is Err: skipped by guess_font_name
        file, nm = ansi[slot]
        w, h, gl = load(file)
        table.append((checksum(gl), sauce_bytes(nm)))
    sauce = [(e.group(2), e.group(3)) for e in re.finditer(r'\(\s*([A-Z0-9_]+),\s*"([^"]+)",\s*"([^"]*)",', ms.group(1))]
    if len(re.findall(r'\(\s*[A-Z0-9_]+,', ms.group(1))) != len(sauce) or not sauce:
        raise ExtractError('sauce_fonts![] entries not parsed')
    fonts_out = [HEADER, 'namespace IcyVerif.Gen.BinFonts\n']
    names, heights, datas = [], [], []
    for k, (file, nm) in enumerate(sauce):
        w, h, gl = load(file)
        if w != 8 or len(gl) != 256 or any(len(r) != h for r in gl):
            raise ExtractError(f'SAUCE font {nm}: not 256 glyphs of 8 x {h}')
        table.append((checksum(gl), sauce_bytes(nm)))
        names.append(sauce_bytes(nm))
        heights.append(h)
        fonts_out.append(lean_list(f'sauceFontData{k}', [b for r in gl for b in r]))
        datas.append(f'sauceFontData{k}')
    out.append('/-- `guess_font_name`: (checksum, name as SAUCE bytes) of the built-in fonts in the order they are tried -/\n')
    out.append('def fontCrcNames : List (Nat × List Nat) := [' + ', '.join(f'({c}, {n})' for c, n in table) + ']\n')
    ftl = open(os.path.join(REPO, 'i18n/en/icy_engine.ftl'), encoding='utf-8').read()
    mu = re.search(r'^unknown-font-name=(.*?)\{ \$width \}(.*?)\{ \$height \}(.*)$', ftl, re.M)
    if not mu:
        raise ExtractError('i18n: unknown-font-name')
    # fluent wraps every placeable in U+2068 / U+2069 (isolating marks): not CP437, so '?' in a SAUCE string
    out.append(lean_list('unknownFontPre', sauce_bytes(mu.group(1) + '\u2068')))
    out.append(lean_list('unknownFontMid', sauce_bytes('\u2069' + mu.group(2) + '\u2068')))
    out.append(lean_list('unknownFontPost', sauce_bytes('\u2069' + mu.group(3))))
    fonts_out.append('/-- `SAUCE_FONT_NAMES[i]` as bytes, height, `convert_to_u8_data()` of `BitFont::from_sauce_name` -/\n')
    fonts_out.append('def sauceFonts : List (List Nat × Nat × List Nat) := [' +
                     ', '.join(f'({n}, {h}, {dn})' for n, h, dn in zip(names, heights, datas)) + ']\n')
    fonts_out.append('end IcyVerif.Gen.BinFonts\n')
    out.append('end IcyVerif.Gen.BinFmt\n')
    # Model/BinFormats.lean builds on the SAUCE model of C11: its generated constants are regenerated with these
    sauce_gen = _sibling('sauce').gen_sauce()
    return [('BinFmt.lean', ''.join(out)), ('BinFonts.lean', ''.join(fonts_out)), sauce_gen]


def _sibling(name):
    import importlib.util
    p = os.path.join(os.path.dirname(os.path.abspath(__file__)), name + '.py')
    spec = importlib.util.spec_from_file_location('gens_' + name + '_via_binfmt', p)
    m = importlib.util.module_from_spec(spec)
    spec.loader.exec_module(m)
    return m


GENERATORS = {'binfmt': gen_binfmt}
