#!/usr/bin/env python3
"""Regenerates MANIFEST.json from tools/props.py (claimed checks) and the not_applicable table below."""
import json, os, sys
ROOT = os.path.join(os.path.dirname(os.path.abspath(__file__)), '..')
sys.path.insert(0, os.path.dirname(os.path.abspath(__file__)))
from props import PROPS

ALL = [f'C{i:02d}' for i in range(1, 21)]
NOT_YET = 'not claimed yet: model/theorem/correspondence for this property are still being built (see DESIGN.md §8 for the order of work)'
NA_REASON = {}

import subprocess
HOOKS = subprocess.run(['git', '-C', '/repo', 'log', '--grep=^hook:', '--format=%h'], stdout=subprocess.PIPE, text=True).stdout.split()

checks = []
for pid in ALL:
    if pid not in PROPS:
        continue
    c = PROPS[pid]
    checks.append({
        'property_id': pid,
        'quick_cmd': f'./check {pid} quick',
        'thorough_cmd': f'./check {pid} thorough',
        'evidence_file': f'/verif/evidence/{pid}.json',
        'replay_cmd_template': f'./check {pid} --replay {{path}}',
        'engine': 'lean4-proof+correspondence',
        'level_claimed': {'category': 'proof', 'text': c['level_text'] if 'level_text' in c else c['technique'], 'design_ref': c['design']},
        'level_note': c.get('level_note', 'Trusted: Lean kernel; axioms propext/Quot.sound/Classical.choice only (audited each run); translator tools/extract.py; '
                            'the differential correspondence run (generator quality bounds the tie); modelled: ' + c.get('modelled', '') +
                            '; not modelled: ' + c.get('not_modelled', '')),
        'technique': c['technique'],
    })
m = {
    'version': 1,
    'setup_cmd': './check setup',
    'hooks': {
        'guard': 'icy_engine_verif',
        'enable': 'RUSTFLAGS="--cfg icy_engine_verif" (set in harness/.cargo/config.toml; the harness depends on /repo by path)',
        'baseline_off_cmd': 'cd /repo && cargo test --workspace --no-fail-fast --offline',
        'source_commits': HOOKS,
        'add_only': True,
    },
    'engines': [{
        'name': 'lean4-proof+correspondence', 'path': '/verif/check',
        'serves_properties': [c['property_id'] for c in checks],
        'kind_free_text': 'Lean 4 theorems over executable models (lean/IcyVerif), models tied to /repo by a translator (tools/extract.py) for tables/constants '
                          'and by a differential correspondence run (harness/ Rust crate vs compiled Lean driver icydrv) on every run',
    }],
    'checks': checks,
    'notes': 'See DESIGN.md. known_findings.txt lists genuine defects (finding:/fixed:).',
    'not_applicable': [{'property_id': p, 'reason': NA_REASON.get(p, NOT_YET)} for p in ALL if p not in PROPS],
}
json.dump(m, open(os.path.join(ROOT, 'MANIFEST.json'), 'w'), indent=1)
print('MANIFEST.json:', len(checks), 'checks,', len(m['not_applicable']), 'not claimed')
