"""Per-property configuration of ./check: which generated files, Lean targets and theorems
(obligations), harness sub-command and descriptive text belong to each property."""

ALLOWED_AXIOMS = {'propext', 'Quot.sound', 'Classical.choice'}

COMMON_TRUSTED = [
    'Lean 4.33.0 kernel (and leanchecker in thorough tier)',
    'axioms allowed in property theorems: propext, Quot.sound, Classical.choice (audited with #print axioms on every run)',
    'tools/extract.py (translator: copies literals/constants from /repo/src into lean/IcyVerif/Gen)',
    'harness/ (Rust correspondence + oracle run against the real crate, debug profile with overflow checks)',
    'lean_exe compilation of the model agrees with the kernel view of the same definitions',
    'rustc, std',
]

PROPS = {}


def _load():
    import importlib.util, os
    d = os.path.join(os.path.dirname(os.path.abspath(__file__)), 'propsd')
    for f in sorted(os.listdir(d)):
        if f.endswith('.py') and not f.startswith('_'):
            spec = importlib.util.spec_from_file_location('propsd_' + f[:-3], os.path.join(d, f))
            m = importlib.util.module_from_spec(spec)
            spec.loader.exec_module(m)
            PROPS[f[:-3]] = m.PROP


_load()
