#!/usr/bin/env python3
"""Runs the repository test suite (guard OFF) and compares with /root/.vp/BASELINE.json stable_pass.
usage: baseline.py [repo-dir]"""
import json, re, subprocess, sys, os
repo = sys.argv[1] if len(sys.argv) > 1 else '/repo'
base = json.load(open('/root/.vp/BASELINE.json'))
stable = set(base['stable_pass'])
p = subprocess.run(['cargo', 'test', '--workspace', '--no-fail-fast', '--offline'], cwd=repo, text=True,
                   stdout=subprocess.PIPE, stderr=subprocess.STDOUT, env=dict(os.environ, CARGO_NET_OFFLINE='true'))
res = {}
for m in re.finditer(r'^test (\S+) \.\.\. (ok|FAILED|ignored)', p.stdout, re.M):
    res['icy_engine::' + m.group(1)] = m.group(2)
missing = sorted(t for t in stable if res.get(t) != 'ok')
print(f'tests seen {len(res)}, stable baseline {len(stable)}, stable now failing/missing {len(missing)}')
for t in missing[:40]:
    print('  NOT-OK', t, res.get(t))
sys.exit(1 if missing else 0)
