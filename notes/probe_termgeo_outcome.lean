/-! Design-stage probe (round 0) for TermGeo: outcome-typed steps over row-length geometry,
    panic sites explicit, invariant by omega. Terminal buffer, no margins. Builds in 2 s;
    axioms propext, Classical.choice, Quot.sound. Not framework code. -/

inductive Site | scrollLeftRow | scrollLeftInsert | addOverflow
deriving DecidableEq, Repr

inductive Out (α : Type) | ok (a : α) | panic (s : Site)
deriving Repr

structure G where
  lines : List Nat      -- length of each row's `chars`
  w : Int               -- terminal width
  h : Int               -- terminal height
  bufH : Int            -- buffer height (scrollback + screen)
  x : Int
  y : Int
deriving Repr

def I32MAX : Int := 2147483647
def firstVisible (g : G) : Int := max 0 (g.bufH - g.h)

def limit (g : G) : G :=
  let f := firstVisible g
  { g with y := max f (min g.y (f + g.h - 1)), x := max 0 (min g.x (max (g.w - 1) 0)) }

/-- `Layer::set_char` on geometry: rows are created full width, the touched row grows to x+1 -/
def growTo (ls : List Nat) (y : Nat) (w : Nat) : List Nat := ls ++ List.replicate (y + 1 - ls.length) w
def setCell (g : G) (x y : Int) : G :=
  if x < 0 ∨ y < 0 ∨ x ≥ g.w then g else
  let ls := growTo g.lines y.toNat g.w.toNat
  { g with lines := ls.set y.toNat (max (ls.getD y.toNat 0) (x.toNat + 1)) }

/-- `Caret::lf` (terminal buffer, no margins): new rows are EMPTY (`with_capacity`) -/
def lf (g : G) : G :=
  let y := g.y + 1
  let ls := g.lines ++ List.replicate (y.toNat + 1 - g.lines.length) 0
  let bufH := max g.bufH (y + 1)
  limit { g with lines := ls, x := 0, y := y, bufH := bufH }

def printChar (g : G) : G :=
  let g := { g with bufH := max g.bufH (g.y + 1) }
  let g := setCell g g.x g.y
  let g := { g with x := g.x + 1 }
  if g.x ≥ g.w then lf g else g

/-- CUP with the overflow check of the debug profile -/
def cup (g : G) (row col : Int) : Out G :=
  let t := firstVisible g + max 0 (row - 1)
  if t > I32MAX then .panic .addOverflow else
  .ok (limit { g with y := t, x := max 0 (col - 1) })

/-- `Buffer::scroll_left` exactly as in the pinned source: indexes every screen row, inserts at `w` -/
def scrollLeftRows (w : Nat) : List Nat → Nat → Nat → Out (List Nat)
  | ls, _, 0 => .ok ls
  | ls, i, n+1 =>
    match ls[i]? with
    | none => .panic .scrollLeftRow
    | some len =>
      if len > 0 then
        if w > len then .panic .scrollLeftInsert     -- Vec::insert(w) into a shorter row
        else scrollLeftRows w ls (i+1) n             -- insert + remove keeps the length
      else scrollLeftRows w ls (i+1) n

def scrollLeft (g : G) : Out G :=
  match scrollLeftRows g.w.toNat g.lines (firstVisible g).toNat g.h.toNat with
  | .ok ls => .ok { g with lines := ls }
  | .panic s => .panic s

/-- the pinned code panics: witness checked by evaluation -/
def fresh : G := { lines := [], w := 80, h := 25, bufH := 25, x := 0, y := 0 }
example : (match scrollLeft fresh with | .panic .scrollLeftRow => true | _ => false) = true := by decide
example : (match scrollLeft (printChar (lf (printChar fresh))) with | .panic _ => true | _ => false) = true := by decide

def Good (g : G) : Prop :=
  1 ≤ g.w ∧ 1 ≤ g.h ∧ g.h ≤ g.bufH ∧ 0 ≤ g.x ∧ g.x < g.w ∧
  firstVisible g ≤ g.y ∧ g.y < firstVisible g + g.h

theorem limit_good (g : G) (h1 : 1 ≤ g.w) (h2 : 1 ≤ g.h) (h3 : g.h ≤ g.bufH) : Good (limit g) := by
  unfold Good limit firstVisible; simp only; omega

theorem setCell_geo (g : G) (x y : Int) : (setCell g x y).w = g.w ∧ (setCell g x y).h = g.h ∧
    (setCell g x y).bufH = g.bufH ∧ (setCell g x y).x = g.x ∧ (setCell g x y).y = g.y := by
  unfold setCell; split <;> simp

theorem lf_good (g : G) (h1 : 1 ≤ g.w) (h2 : 1 ≤ g.h) (h3 : g.h ≤ g.bufH) : Good (lf g) := by
  unfold lf
  apply limit_good
  · exact h1
  · exact h2
  · show g.h ≤ max g.bufH (g.y + 1 + 1); omega

theorem printChar_good (g : G) (hg : Good g) : Good (printChar g) := by
  obtain ⟨h1, h2, h3, h4, h5, h6, h7⟩ := hg
  have hb : max g.bufH (g.y + 1) = g.bufH := by
    unfold firstVisible at h6 h7; omega
  unfold printChar
  simp only [hb]
  obtain ⟨e1, e2, e3, e4, e5⟩ := setCell_geo { g with bufH := g.bufH } g.x g.y
  split
  · apply lf_good
    · simpa [e1] using h1
    · simpa [e2] using h2
    · simpa [e2, e3] using h3
  · rename_i hlt
    simp only [e1, e4] at hlt
    refine ⟨by simpa [e1] using h1, by simpa [e2] using h2, by simpa [e2, e3] using h3, ?_, ?_, ?_, ?_⟩
    · simp only [e4]; omega
    · simp only [e1, e4]; omega
    · simpa [firstVisible, e2, e3, e5] using h6
    · simpa [firstVisible, e2, e3, e5] using h7

theorem cup_good (g : G) (r c : Int) (hg : Good g) : ∀ g', cup g r c = .ok g' → Good g' := by
  intro g' h
  unfold cup at h
  simp only at h
  split at h
  · cases h
  · cases h
    apply limit_good <;> (unfold Good at hg; simp only; omega)

#print axioms printChar_good
