/-! Design-stage probe (round 0) for C06: a run builder with an ARBITRARY end-run heuristic
    preserves the cells and only emits valid runs. Builds in 1.6 s; axioms propext, Quot.sound.
    Not framework code: the real model adds count_length, encode_attr and the byte serialiser. -/
/-! Feasibility probe for C06: run builder with arbitrary end-run oracle. -/

abbrev Cell := Nat × Nat   -- (char byte, attr byte) after encoding

inductive Mode | off | chr | att | full
deriving DecidableEq, Repr

structure Run where
  mode : Mode
  head : Cell            -- first cell of the run
  rest : List Cell       -- remaining cells (for chr: same char; att: same attr; full: all equal head)
deriving Repr

def Run.cells (r : Run) : List Cell := r.head :: r.rest

def Run.ok (r : Run) : Prop :=
  r.rest.length < 64 ∧
  match r.mode with
  | .off  => True
  | .chr  => ∀ c ∈ r.rest, c.1 = r.head.1
  | .att  => ∀ c ∈ r.rest, c.2 = r.head.2
  | .full => ∀ c ∈ r.rest, c = r.head

/-- serialisation of one run, as in the XBin spec -/
def Run.ser (r : Run) : List Nat :=
  let n := r.rest.length
  match r.mode with
  | .off  => (0x00 + n) :: (r.cells.flatMap fun c => [c.1, c.2])
  | .chr  => (0x40 + n) :: r.head.1 :: (r.cells.map (·.2))
  | .att  => (0x80 + n) :: r.head.2 :: (r.cells.map (·.1))
  | .full => (0xC0 + n) :: [r.head.1, r.head.2]

/-- builder state -/
structure St where
  done : List Run        -- finished runs (in order)
  cur  : Option Run

def St.cells (s : St) : List Cell :=
  (s.done.flatMap Run.cells) ++ (match s.cur with | none => [] | some r => r.cells)

/-- may the cell be appended to the open run? (the *forced* end conditions negated) -/
def fits (r : Run) (c : Cell) : Bool :=
  r.rest.length + 1 < 64 &&
  match r.mode with
  | .off => true
  | .chr => c.1 == r.head.1
  | .att => c.2 == r.head.2
  | .full => c == r.head

/-- choose mode for a new run from current and next cell, as compress_backtrack does -/
def pick (c : Cell) (next : Option Cell) : Mode :=
  match next with
  | none => .off
  | some n => if c = n then .full else if c.1 = n.1 then .chr else if c.2 = n.2 then .att else .off

/-- one step with an arbitrary heuristic `h` that may end the run early -/
def step (h : Run → Cell → List Cell → Bool) (s : St) (c : Cell) (look : List Cell) : St :=
  match s.cur with
  | none => { s with cur := some ⟨pick c look.head?, c, []⟩ }
  | some r =>
    if fits r c && !h r c look then { s with cur := some { r with rest := r.rest ++ [c] } }
    else { done := s.done ++ [r], cur := some ⟨pick c look.head?, c, []⟩ }

def build (h : Run → Cell → List Cell → Bool) : St → List Cell → St
  | s, [] => s
  | s, c :: cs => build h (step h s c cs) cs

def St.ok (s : St) : Prop := (∀ r ∈ s.done, r.ok) ∧ (∀ r, s.cur = some r → r.ok)

theorem fits_ok (r : Run) (c : Cell) (hr : r.ok) (hf : fits r c = true) :
    ({ r with rest := r.rest ++ [c] } : Run).ok := by
  unfold Run.ok at *
  unfold fits at hf
  obtain ⟨hlen, hm⟩ := hr
  simp only [Bool.and_eq_true, decide_eq_true_eq] at hf
  obtain ⟨h1, h2⟩ := hf
  constructor
  · simp; omega
  · cases hmode : r.mode <;> simp [hmode] at hm h2 ⊢
    · intro a b hab; rcases hab with hab | hab
      · exact hm a b hab
      · subst hab; exact h2
    · intro a b hab; rcases hab with hab | hab
      · exact hm a b hab
      · subst hab; exact h2
    · intro a b hab; rcases hab with hab | hab
      · exact hm a b hab
      · subst hab; simpa [Prod.ext_iff] using h2

theorem new_ok (m : Mode) (c : Cell) : (⟨m, c, []⟩ : Run).ok := by
  unfold Run.ok; cases m <;> simp

theorem step_cells (h) (s : St) (c : Cell) (look) : (step h s c look).cells = s.cells ++ [c] := by
  unfold step St.cells
  cases hc : s.cur with
  | none => simp [Run.cells]
  | some r =>
    by_cases hf : (fits r c && !h r c look) = true
    · simp [hf, Run.cells]
    · simp [hf, Run.cells]

theorem step_ok (h) (s : St) (c : Cell) (look) (hs : s.ok) : (step h s c look).ok := by
  unfold step
  cases hc : s.cur with
  | none =>
    refine ⟨hs.1, ?_⟩
    intro r hr; simp at hr; subst hr; exact new_ok _ _
  | some r =>
    have hr := hs.2 r hc
    by_cases hf : (fits r c && !h r c look) = true
    · simp only [hf, if_true]
      refine ⟨hs.1, ?_⟩
      intro r' hr'; simp at hr'; subst hr'
      simp only [Bool.and_eq_true] at hf
      exact fits_ok r c hr hf.1
    · simp only [hf]
      refine ⟨?_, ?_⟩
      · intro r' hr'; simp at hr'; rcases hr' with hr' | hr'
        · exact hs.1 r' hr'
        · subst hr'; exact hr
      · intro r' hr'; simp at hr'; subst hr'; exact new_ok _ _

theorem build_spec (h) (s : St) (cs : List Cell) (hs : s.ok) :
    (build h s cs).cells = s.cells ++ cs ∧ (build h s cs).ok := by
  induction cs generalizing s with
  | nil => simp [build, hs]
  | cons c cs ih =>
    have := ih (step h s c cs) (step_ok h s c cs hs)
    simp [build, this.1, this.2, step_cells]

#print axioms build_spec
