/-! Design-stage probe (round 0): CRC-16 step is XOR-linear, without bv_decide.
    Checked with `lake env lean` on Lean 4.33.0; axioms: propext, Quot.sound. -/
def P16 : BitVec 16 := 0x1021#16
def step16 (x : BitVec 16) : BitVec 16 := if x.msb then (x <<< 1) ^^^ P16 else x <<< 1

theorem step16_linear (a b : BitVec 16) : step16 (a ^^^ b) = step16 a ^^^ step16 b := by
  unfold step16
  have h : (a ^^^ b).msb = (a.msb ^^ b.msb) := by simp [BitVec.msb_xor]
  rw [h]
  cases ha : a.msb <;> cases hb : b.msb <;> simp [BitVec.shiftLeft_xor_distrib]
  · ac_rfl
  · ac_rfl
  · have : ∀ x y p : BitVec 16, x ^^^ p ^^^ (y ^^^ p) = x ^^^ y := by
      intro x y p
      calc x ^^^ p ^^^ (y ^^^ p) = x ^^^ y ^^^ (p ^^^ p) := by ac_rfl
        _ = x ^^^ y := by simp
    rw [this]

def iter (f : α → α) : Nat → α → α
  | 0, x => x
  | n+1, x => iter f n (f x)

/-- a low byte shifted through 8 steps never meets the polynomial -/
theorem low_byte (lo : BitVec 8) : iter step16 8 (lo.zeroExtend 16) = (lo.zeroExtend 16) <<< 8 := by
  revert lo; decide +kernel
