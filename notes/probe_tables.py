#!/usr/bin/env python3
"""Design-stage probe (round 0): regenerate the CRC tables of /repo/src/crc.rs as Lean
lists (256 elements per def) and check them by list traversal under `decide +kernel`.
Measured: CRC-16 table 1.2 s, 16x256 CRC-32 chain 8.7 s.  Array.getD-indexed checks did
not finish in 10 min; a single 4096-element literal overflows the compiler's recursion."""
import re, sys
src = open('/repo/src/crc.rs').read()
m = re.search(r'CRC16_CCITT_TABLE: \[u16; 256\] = \[(.*?)\];', src, re.S)
t16 = [int(x.replace('_', ''), 16) for x in re.findall(r'0x[0-9A-Fa-f_]+', m.group(1))]
m = re.search(r'CRC32_TABLE: \[\[u32; 256\]; 16\] = \[(.*)\];\s*\n\s*#\[cfg\(test\)\]', src, re.S)
t32 = [int(x.replace('_', ''), 16) for x in re.findall(r'0x[0-9A-Fa-f_]+', m.group(1))]
assert len(t16) == 256 and len(t32) == 4096
out = sys.stdout
out.write('def t16 : List Nat := [' + ', '.join(map(str, t16)) + ']\n')
for k in range(16):
    out.write(f'def t32_{k} : List Nat := [' + ', '.join(map(str, t32[k*256:(k+1)*256])) + ']\n')
out.write('def t32 : List (List Nat) := [' + ', '.join(f't32_{k}' for k in range(16)) + ']\n')
out.write('''
def step16n (c : Nat) : Nat := if c &&& 0x8000 != 0 then ((c <<< 1) ^^^ 0x1021) &&& 0xFFFF else (c <<< 1) &&& 0xFFFF
def step32n (c : Nat) : Nat := if c &&& 1 != 0 then (c >>> 1) ^^^ 0xEDB88320 else c >>> 1
def iterN (f : Nat → Nat) : Nat → Nat → Nat
  | 0, x => x
  | n+1, x => iterN f n (f x)
def ok16From : Nat → List Nat → Bool
  | _, [] => true
  | i, v :: vs => (v == iterN step16n 8 (i <<< 8)) && ok16From (i+1) vs
def ok0From : Nat → List Nat → Bool
  | _, [] => true
  | i, v :: vs => (v == iterN step32n 8 i) && ok0From (i+1) vs
def okNext : List Nat → List Nat → Bool
  | [], [] => true
  | p :: ps, q :: qs => (q == ((p >>> 8) ^^^ t32_0.getD (p &&& 0xFF) 0)) && okNext ps qs
  | _, _ => false
def okChain : List (List Nat) → Bool
  | a :: b :: rest => okNext a b && okChain (b :: rest)
  | _ => true
theorem T16 : ok16From 0 t16 = true ∧ t16.length = 256 := by decide +kernel
theorem T32a : ok0From 0 t32_0 = true ∧ t32_0.length = 256 := by decide +kernel
theorem T32b : okChain t32 = true ∧ t32.length = 16 := by decide +kernel
''')
