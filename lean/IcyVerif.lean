import IcyVerif.Model.Crc
