import IcyVerif.Props.C19
import IcyVerif.Drv.Crc
