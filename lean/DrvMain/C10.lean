import IcyVerif.Drv.Uni
import IcyVerif.Drv.Font
import IcyVerif.Drv.UniMacro
open IcyVerif.Drv

def dispatch (line : String) : String :=
  match line.trimAscii.toString.splitOn " " with
  | "uni" :: rest => Uni.handle rest
  | "font" :: rest => Font.handle rest
  | "unimacro" :: rest => UniMacro.handle rest
  | _ => "bad-op"

partial def loop (h : IO.FS.Stream) (out : IO.FS.Stream) : IO Unit := do
  let line ← h.getLine
  if line.isEmpty then return ()
  out.putStrLn (dispatch line)
  loop h out

def main : IO Unit := do
  let out ← IO.getStdout
  loop (← IO.getStdin) out
  out.flush
