import IcyVerif.Drv.Sauce
import IcyVerif.Drv.SauceUni
import IcyVerif.Drv.SauceLoad
open IcyVerif.Drv

def dispatch (line : String) : String :=
  match line.trimAscii.toString.splitOn " " with
  | "sauce" :: rest => Sauce.handle rest
  | "sauceuni" :: rest => SauceUni.handle rest
  | "sauceload" :: rest => SauceLoad.handle rest
  | _ => "bad-op"

partial def loop (h : IO.FS.Stream) (out : IO.FS.Stream) : IO Unit := do
  let line ← h.getLine
  if line.isEmpty then return ()
  out.putStrLn (dispatch line)
  loop h out

def main : IO Unit := do
  let out ← IO.getStdout
  loop (← IO.getStdin) out
  out.flush
