import IcyVerif.Drv.Rip
import IcyVerif.Drv.Bgi
import IcyVerif.Drv.Igs
import IcyVerif.Drv.Ripc
import IcyVerif.Drv.Igsx
import IcyVerif.Drv.Ript
open IcyVerif.Drv

def dispatch (line : String) : String :=
  match line.trimAscii.toString.splitOn " " with
  | "rip" :: rest => Rip.handle rest
  | "bgi" :: rest => Bgi.handle rest
  | "igs" :: rest => Igs.handle rest
  | "ripc" :: rest => Ripc.handle rest
  | "igsx" :: rest => Igsx.handle rest
  | "ript" :: rest => Ript.handle rest
  | _ => "bad-op"

partial def loop (h : IO.FS.Stream) (out : IO.FS.Stream) : IO Unit := do
  let line ← h.getLine
  if line.isEmpty then return ()
  out.putStrLn (dispatch line)
  loop h out

def main : IO Unit := do
  let out ← IO.getStdout
  loop (← IO.getStdin) out
  out.flush
