import IcyVerif.Drv.Loaders
import IcyVerif.Drv.FontLoad
import IcyVerif.Drv.TextLoad
open IcyVerif.Drv

def dispatch (line : String) : String :=
  match line.trimAscii.toString.splitOn " " with
  | "loaders" :: rest => Loaders.handle rest
  | "fontload" :: rest => FontLoad.handle rest
  | "textload" :: rest => TextLoad.handle rest
  | _ => "bad-op"

partial def loop (h : IO.FS.Stream) (out : IO.FS.Stream) : IO Unit := do
  let line ← h.getLine
  if line.isEmpty then return ()
  out.putStrLn (dispatch line)
  loop h out

def main : IO Unit := do
  let out ← IO.getStdout
  loop (← IO.getStdin) out
  out.flush
