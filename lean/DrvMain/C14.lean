import IcyVerif.Drv.Sixel
import IcyVerif.Drv.SixelQueue
import IcyVerif.Drv.SixelLoad
open IcyVerif.Drv

def dispatch (line : String) : String :=
  match line.trimAscii.toString.splitOn " " with
  | "sixel" :: rest => Sixel.handle rest
  | "sixelqueue" :: rest => SixelQueue.handle rest
  | "sixelload" :: rest => SixelLoad.handle rest
  | _ => "bad-op"

partial def loop (h : IO.FS.Stream) (out : IO.FS.Stream) : IO Unit := do
  let line ← h.getLine
  if line.isEmpty then return ()
  out.putStrLn (dispatch line)
  loop h out

def main : IO Unit := do
  let out ← IO.getStdout
  loop (← IO.getStdin) out
  out.flush
