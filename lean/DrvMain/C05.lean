import IcyVerif.Drv.BinFormats
import IcyVerif.Drv.BinLayers
open IcyVerif.Drv

def dispatch (line : String) : String :=
  match line.trimAscii.toString.splitOn " " with
  | "binformats" :: rest => BinFormats.handle rest
  | "binlayers" :: rest => BinLayers.handle rest
  | _ => "bad-op"

partial def loop (h : IO.FS.Stream) (out : IO.FS.Stream) : IO Unit := do
  let line ← h.getLine
  if line.isEmpty then return ()
  out.putStrLn (dispatch line)
  loop h out

def main : IO Unit := do
  let out ← IO.getStdout
  loop (← IO.getStdin) out
  out.flush
