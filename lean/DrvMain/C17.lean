import IcyVerif.Drv.Font
import IcyVerif.Drv.Tdf
import IcyVerif.Drv.FontBox
import IcyVerif.Drv.FontDcs
open IcyVerif.Drv

def dispatch (line : String) : String :=
  match line.trimAscii.toString.splitOn " " with
  | "font" :: rest => Font.handle rest
  | "tdf" :: rest => Tdf.handle rest
  | "fontbox" :: rest => FontBox.handle rest
  | "fontdcs" :: rest => FontDcs.handle rest
  | _ => "bad-op"

partial def loop (h : IO.FS.Stream) (out : IO.FS.Stream) : IO Unit := do
  let line ← h.getLine
  if line.isEmpty then return ()
  out.putStrLn (dispatch line)
  loop h out

def main : IO Unit := do
  let out ← IO.getStdout
  loop (← IO.getStdin) out
  out.flush
