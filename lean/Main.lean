import IcyVerif.Drv.ArtIO
import IcyVerif.Drv.Bgi
import IcyVerif.Drv.BinFormats
import IcyVerif.Drv.BinLayers
import IcyVerif.Drv.Codec
import IcyVerif.Drv.ColorOpt
import IcyVerif.Drv.Comp
import IcyVerif.Drv.Crc
import IcyVerif.Drv.Font
import IcyVerif.Drv.FontBox
import IcyVerif.Drv.FontDcs
import IcyVerif.Drv.FontLoad
import IcyVerif.Drv.IcyDraw
import IcyVerif.Drv.Igs
import IcyVerif.Drv.Igsx
import IcyVerif.Drv.LoaderCost
import IcyVerif.Drv.Loaders
import IcyVerif.Drv.PalStream
import IcyVerif.Drv.Palette
import IcyVerif.Drv.Rect
import IcyVerif.Drv.Rip
import IcyVerif.Drv.Ripc
import IcyVerif.Drv.Ript
import IcyVerif.Drv.Rows
import IcyVerif.Drv.Sauce
import IcyVerif.Drv.SauceLoad
import IcyVerif.Drv.SauceUni
import IcyVerif.Drv.Sixel
import IcyVerif.Drv.SixelLoad
import IcyVerif.Drv.SixelQueue
import IcyVerif.Drv.Tdf
import IcyVerif.Drv.Term
import IcyVerif.Drv.TextLoad
import IcyVerif.Drv.Undo
import IcyVerif.Drv.Uni
import IcyVerif.Drv.UniMacro
import IcyVerif.Drv.XbCompress
open IcyVerif.Drv

def dispatch (line : String) : String :=
  match line.trimAscii.toString.splitOn " " with
  | "artio" :: rest => ArtIO.handle rest
  | "bgi" :: rest => Bgi.handle rest
  | "binformats" :: rest => BinFormats.handle rest
  | "binlayers" :: rest => BinLayers.handle rest
  | "codec" :: rest => Codec.handle rest
  | "coloropt" :: rest => ColorOpt.handle rest
  | "comp" :: rest => Comp.handle rest
  | "crc" :: rest => Crc.handle rest
  | "font" :: rest => Font.handle rest
  | "fontbox" :: rest => FontBox.handle rest
  | "fontdcs" :: rest => FontDcs.handle rest
  | "fontload" :: rest => FontLoad.handle rest
  | "icydraw" :: rest => IcyDraw.handle rest
  | "igs" :: rest => Igs.handle rest
  | "igsx" :: rest => Igsx.handle rest
  | "loadercost" :: rest => LoaderCost.handle rest
  | "loaders" :: rest => Loaders.handle rest
  | "palstream" :: rest => PalStream.handle rest
  | "palette" :: rest => Palette.handle rest
  | "rect" :: rest => Rect.handle rest
  | "rip" :: rest => Rip.handle rest
  | "ripc" :: rest => Ripc.handle rest
  | "ript" :: rest => Ript.handle rest
  | "rows" :: rest => Rows.handle rest
  | "sauce" :: rest => Sauce.handle rest
  | "sauceload" :: rest => SauceLoad.handle rest
  | "sauceuni" :: rest => SauceUni.handle rest
  | "sixel" :: rest => Sixel.handle rest
  | "sixelload" :: rest => SixelLoad.handle rest
  | "sixelqueue" :: rest => SixelQueue.handle rest
  | "tdf" :: rest => Tdf.handle rest
  | "term" :: rest => Term.handle rest
  | "textload" :: rest => TextLoad.handle rest
  | "undo" :: rest => Undo.handle rest
  | "uni" :: rest => Uni.handle rest
  | "unimacro" :: rest => UniMacro.handle rest
  | "xbcompress" :: rest => XbCompress.handle rest
  | _ => "bad-op"

partial def loop (h : IO.FS.Stream) (out : IO.FS.Stream) : IO Unit := do
  let line ← h.getLine
  if line.isEmpty then return ()
  out.putStrLn (dispatch line)
  loop h out

def main : IO Unit := do
  let out ← IO.getStdout
  loop (← IO.getStdin) out
  out.flush
