import IcyVerif.Gen.Art
/-! # ArtIO — content-full reader for writer-shaped streams on a NON-terminal buffer (C15, C04)

Transcription of the file-loading path of icy_engine:

* `Buffer::print_char` (src/parsers/mod.rs), non-terminal branch, `Caret::lf`, `Caret::ff`, `Layer::set_char`,
  `Line::set_char`, `Buffer::clear_screen`, `TerminalState::limit_caret_pos` (non-terminal: only the column is clamped);
* the ANSI parser (src/parsers/ansi/mod.rs, ansi_commands.rs) restricted to the sub-language the engine's writers
  emit: printable code points, CR LF FF, SGR, `CSI n C`, `CSI n b`, `CSI r;c H`, `CSI 2J`, `CSI ?33h/l`, `CSI s/u`,
  `CSI 0/1;r;g;b t`, `CSI 0;n SP D`, `ESC <ctrl>`;  everything else sets `stuck` (the model makes no claim there and
  the correspondence run never feeds it);
* the Avatar / PCBoard / Ctrl-A / Renegade / ASCII / ATASCII parsers (thin state machines in front of the ANSI parser);
* the loader glue: `convert_ansi_to_utf8`, `parse_with_parser` (bold folding), `crop_loaded_file`, SAUCE size / iCE flag.

Code points and colours are `Nat`; attribute flags are a record of `Bool`s (the `u16` word is only an I/O encoding in
the driver).  The font page is not modelled (the writers under C15/C04 emit page 0 only; `CSI 0;n SP D` is accepted and
leaves the modelled state alone). -/
namespace IcyVerif.ArtIO
open IcyVerif.Gen.Art

/-! ## cells -/

structure Flags where
  bold : Bool := false
  faint : Bool := false
  italic : Bool := false
  blink : Bool := false
  underline : Bool := false
  dunderline : Bool := false
  conceal : Bool := false
  crossed : Bool := false
  overline : Bool := false
  invisible : Bool := false
deriving DecidableEq, Repr, Inhabited

/-- `attribute::NONE` -/
def Flags.none : Flags := {}

structure Attr where
  fg : Nat
  bg : Nat
  fl : Flags
deriving DecidableEq, Repr, Inhabited

structure Cell where
  ch : Nat
  attr : Attr
deriving DecidableEq, Repr, Inhabited

/-- `TextAttribute::default()` -/
def defaultAttr : Attr := ⟨defaultFg, defaultBg, Flags.none⟩
/-- `AttributedChar::default()` -/
def defaultCell : Cell := ⟨32, defaultAttr⟩
/-- `AttributedChar::invisible()` -/
def invisibleCell : Cell := ⟨32, ⟨defaultFg, defaultBg, { invisible := true }⟩⟩

/-- `AttributedChar::is_visible` -/
def Cell.isVisible (c : Cell) : Bool := !c.attr.fl.invisible
/-- `AttributedChar::is_transparent`: blank (NUL or space) on colour 0 -/
def Cell.isTransparent (c : Cell) : Bool := (c.ch == 0 || c.ch == 32) && c.attr.bg == 0

inductive IceMode | unlimited | blink | ice
deriving DecidableEq, Repr, Inhabited

abbrev Rgb := Nat × Nat × Nat

/-- `TextAttribute::from_u8` -/
def attrFromU8 (b : Nat) (m : IceMode) : Attr :=
  let blink := if m = .ice then false else b / 128 % 2 == 1
  let bg := if m = .ice then b / 16 % 16 else b / 16 % 8
  ⟨b % 16, bg, { blink := blink }⟩

/-- `TextAttribute::as_u8` -/
def attrAsU8 (a : Attr) (m : IceMode) : Nat :=
  let fg := if a.fl.bold then (a.fg % 16) ||| 8 else a.fg % 16
  let bg := match m with
    | .blink => (a.bg % 8) ||| (if a.fl.blink then 8 else 0)
    | _ => a.bg % 16
  (fg ||| (bg * 16)) % 256

/-- `Palette::insert_color` -/
def insertColor (pal : List Rgb) (c : Rgb) : List Rgb × Nat :=
  match pal.findIdx? (· == c) with
  | some i => (pal, i)
  | none => (pal ++ [c], pal.length)

/-- `Palette::get_rgb` (indices past the end are black; colours with bit 31 carry the RGB value directly) -/
def getRgb (pal : List Rgb) (c : Nat) : Rgb :=
  if c / 2147483648 % 2 == 1 then (c / 65536 % 256, c / 256 % 256, c % 256)
  else (pal[c]?).getD (0, 0, 0)

/-! ## the screen: layer 0 of a non-terminal buffer and the caret position -/

structure Screen where
  /-- `layers[0].get_width()` = terminal width -/
  w : Nat
  /-- `layers[0].get_height()` -/
  layerH : Nat
  /-- `layers[0].lines[y].chars[x]` -/
  lines : List (List Cell)
  cx : Nat
  cy : Nat
deriving Repr, Inhabited

/-- `Line::set_char` -/
def lineSetChar (l : List Cell) (x : Nat) (c : Cell) : List Cell :=
  (if l.length ≤ x then l ++ List.replicate (x + 1 - l.length) invisibleCell else l).set x c

/-- the `lines` part of `Layer::set_char`: rows are created with `Line::create(width)` (all invisible) -/
def linesSetChar (lines : List (List Cell)) (w x y : Nat) (c : Cell) : List (List Cell) :=
  (if lines.length ≤ y then lines ++ List.replicate (y + 1 - lines.length) (List.replicate w invisibleCell) else lines).modify y
    (fun l => lineSetChar l x c)

/-- `Layer::set_char` (unlocked, visible, no alpha lock) -/
def Screen.setChar (s : Screen) (x y : Nat) (c : Cell) : Screen :=
  if s.w ≤ x ∨ s.layerH ≤ y then s else { s with lines := linesSetChar s.lines s.w x y c }

/-- the `lines` part of `Caret::lf`: empty lines (`Line::with_capacity`) are appended until row `y` exists -/
def linesExtend (lines : List (List Cell)) (y : Nat) : List (List Cell) :=
  if lines.length ≤ y then lines ++ List.replicate (y + 1 - lines.length) [] else lines

/-- `Caret::lf` on a non-terminal buffer -/
def Screen.lf (s : Screen) : Screen :=
  { s with cx := 0, cy := s.cy + 1, lines := linesExtend s.lines (s.cy + 1) }

/-- `Caret::cr` -/
def Screen.cr (s : Screen) : Screen := { s with cx := 0 }

/-- `Buffer::print_char` on a non-terminal buffer, insert mode off, auto-wrap on -/
def Screen.put (s : Screen) (c : Cell) : Screen :=
  let s := if s.layerH < s.cy + 1 then { s with layerH := s.cy + 1 } else s
  let s := s.setChar s.cx s.cy c
  let s := { s with cx := s.cx + 1 }
  if s.w ≤ s.cx then s.lf else s

/-- `Buffer::clear_screen` / the screen part of `Caret::ff`: rows dropped, caret home (the layer size stays) -/
def Screen.clear (s : Screen) : Screen := { s with lines := [], cx := 0, cy := 0 }

/-- `TerminalState::limit_caret_pos` on a non-terminal buffer: only the column is clamped -/
def Screen.limit (s : Screen) : Screen := { s with cx := min s.cx (s.w - 1) }

/-- `Caret::right` -/
def Screen.right (s : Screen) (n : Nat) : Screen := { s with cx := min (s.cx + n) 2147483647 }.limit

/-- `Caret::del`: remove the cell under the caret -/
def Screen.del (s : Screen) : Screen :=
  { s with lines := s.lines.modify s.cy (fun l => l.eraseIdx s.cx) }

/-! ## state shared by all parsers -/

structure Core where
  scr : Screen
  /-- `caret.attribute` -/
  attr : Attr
  /-- `caret.ice_mode` -/
  caretIce : Bool
  /-- `buf.ice_mode` -/
  bufIce : IceMode
  /-- `buf.palette` -/
  pal : List Rgb
  /-- `buf.terminal_state.get_height()` (bounds REP) -/
  termH : Nat
  /-- left the modelled sub-language: no claim from here on -/
  stuck : Bool
deriving Repr, Inhabited

/-- `Caret::get_attribute`: in iCE mode a blinking attribute means a bright background -/
def Core.printAttr (c : Core) : Attr :=
  if c.caretIce then
    { c.attr with bg := if c.attr.bg < 8 && c.attr.fl.blink then c.attr.bg + 8 else c.attr.bg,
                  fl := { c.attr.fl with blink := false } }
  else c.attr

/-- print a code point with the caret attribute as the ANSI parser does (`caret.get_attribute()`) -/
def Core.printAnsi (c : Core) (ch : Nat) : Core := { c with scr := c.scr.put ⟨ch, c.printAttr⟩ }

/-- `Buffer::print_value` (ASCII / ATASCII parsers): `ch as u16`, dropped when it is not a scalar value; prints
    with `caret.attribute` itself -/
def Core.printValue (c : Core) (ch : Nat) : Core :=
  let v := ch % 65536
  if 55296 ≤ v ∧ v ≤ 57343 then c else { c with scr := c.scr.put ⟨v, c.attr⟩ }

/-- `Caret::reset_color_attribute` -/
def Core.resetAttr (c : Core) : Core := { c with attr := defaultAttr }

/-- `Caret::ff`: clear the layer, home, default attribute -/
def Core.ff (c : Core) : Core := { c with scr := c.scr.clear, attr := defaultAttr }

def Core.stick (c : Core) : Core := { c with stuck := true }

/-! ## the ANSI parser (sub-language) -/

inductive AState
  | ground
  | esc
  /-- `ReadCSISequence(is_start)` with `parsed_numbers` -/
  | csi (nums : List Nat) (start : Bool)
  /-- `ReadCSICommand` (`CSI ?`) -/
  | csiQ (nums : List Nat)
  /-- `EndCSI(' ')` -/
  | csiSp (nums : List Nat)
deriving DecidableEq, Repr, Inhabited

structure AnsiP where
  st : AState := .ground
  /-- `last_char` (REP) -/
  lastCh : Nat := 0
  /-- `saved_pos` -/
  saved : Nat × Nat := (0, 0)
deriving DecidableEq, Repr, Inhabited

def i32Max : Nat := 2147483647

/-- `parse_next_number`: saturating `x*10 + ch - '0'` -/
def parseNextNumber (x ch : Nat) : Nat := min (min (x * 10) i32Max + ch) i32Max - 48

/-- a digit arrives: `parsed_numbers.pop()` (or 0), push the extended number -/
def numsDigit (nums : List Nat) (ch : Nat) : List Nat :=
  match nums.reverse with
  | [] => [parseNextNumber 0 ch]
  | d :: rest => (parseNextNumber d ch :: rest).reverse

def isDigit (ch : Nat) : Bool := 48 ≤ ch && ch ≤ 57

/-- outcome of `parse_extended_colors`: `none` = `Err` (SGR stops), else the colour, the palette and the new index -/
def extColor (pal : List Rgb) (nums : List Nat) (i : Nat) : Option (Nat × List Rgb × Nat) :=
  if nums.length ≤ i + 1 then none else
  match nums[i + 1]? with
  | some 5 =>
    if nums.length < i + 3 then none else
    let col := nums.getD (i + 2) 0
    if col ≤ 255 then
      let (pal', idx) := insertColor pal (xtermPalette.getD col (0, 0, 0))
      some (idx, pal', i + 3)
    else none
  | some 2 =>
    if nums.length < i + 5 then none else
    let r := nums.getD (i + 2) 0
    let g := nums.getD (i + 3) 0
    let b := nums.getD (i + 4) 0
    if r ≤ 255 ∧ g ≤ 255 ∧ b ≤ 255 then
      let (pal', idx) := insertColor pal (r, g, b)
      some (idx, pal', i + 5)
    else none
  | _ => none

/-- one SGR parameter that is not 38/48; `none` = `Err` -/
def sgrOne (a : Attr) (n : Nat) : Option Attr :=
  if n = 0 then some defaultAttr
  else if n = 1 then some { a with fl := { a.fl with bold := true } }
  else if n = 2 then some { a with fl := { a.fl with faint := true } }
  else if n = 3 then some { a with fl := { a.fl with italic := true } }
  else if n = 4 then some { a with fl := { a.fl with underline := true } }
  else if n = 5 ∨ n = 6 then some { a with fl := { a.fl with blink := true } }
  else if n = 7 then some { a with fg := a.bg, bg := a.fg }
  else if n = 8 then some { a with fl := { a.fl with conceal := true } }
  else if n = 9 then some { a with fl := { a.fl with crossed := true } }
  else if 10 ≤ n ∧ n ≤ 20 then some a
  else if n = 21 then some { a with fl := { a.fl with dunderline := true } }
  else if n = 22 then some { a with fl := { a.fl with bold := false, faint := false } }
  else if n = 23 then some { a with fl := { a.fl with italic := false } }
  else if n = 24 then some { a with fl := { a.fl with underline := false } }
  else if n = 25 then some { a with fl := { a.fl with blink := false } }
  else if n = 28 then some { a with fl := { a.fl with conceal := false } }
  else if n = 29 then some { a with fl := { a.fl with crossed := false } }
  else if 30 ≤ n ∧ n ≤ 37 then some { a with fg := colorOffsets.getD (n - 30) 0 }
  else if n = 39 then some { a with fg := 7 }
  else if 40 ≤ n ∧ n ≤ 47 then some { a with bg := colorOffsets.getD (n - 40) 0 }
  else if n = 49 then some { a with bg := 0 }
  else if n = 53 then some { a with fl := { a.fl with overline := true } }
  else if n = 55 then some { a with fl := { a.fl with overline := false } }
  else if 90 ≤ n ∧ n ≤ 97 then some { a with fg := 8 + colorOffsets.getD (n - 90) 0 }
  else if 100 ≤ n ∧ n ≤ 107 then some { a with bg := 8 + colorOffsets.getD (n - 100) 0 }
  else none

/-- the parameter loop of `select_graphic_rendition` (fuel = number of parameters; every round consumes one) -/
def sgrLoop : Nat → List Nat → Nat → Attr → List Rgb → Attr × List Rgb
  | 0, _, _, a, pal => (a, pal)
  | fuel + 1, nums, i, a, pal =>
    match nums[i]? with
    | none => (a, pal)
    | some n =>
      if n = 38 then
        match extColor pal nums i with
        | some (col, pal', i') => sgrLoop fuel nums i' { a with fg := col } pal'
        | none => (a, pal)
      else if n = 48 then
        match extColor pal nums i with
        | some (col, pal', i') => sgrLoop fuel nums i' { a with bg := col } pal'
        | none => (a, pal)
      else match sgrOne a n with
        | some a' => sgrLoop fuel nums (i + 1) a' pal
        | none => (a, pal)

/-- `select_graphic_rendition` -/
def sgr (c : Core) (nums : List Nat) : Core :=
  let a0 := if nums.isEmpty then defaultAttr else c.attr
  let (a, pal) := sgrLoop nums.length nums 0 a0 c.pal
  { c with attr := a, pal := pal }

/-- `CSI Pn ; Pn H` (non-terminal: first visible line is 0) -/
def cup (s : Screen) (nums : List Nat) : Screen :=
  match nums with
  | [] => { s with cx := 0, cy := 0 }
  | [r] => { s with cy := r - 1, cx := 0 }.limit
  | r :: c :: _ => { s with cy := r - 1, cx := c - 1 }.limit

/-- `CSI Pn b`: repeat `last_char` with the current rendition, at most a screenful -/
def rep (c : Core) (lastCh : Nat) (nums : List Nat) : Core :=
  let n := min (nums.headD 1) (c.scr.w * c.termH)
  let cell : Cell := ⟨lastCh, c.printAttr⟩
  { c with scr := (List.replicate n cell).foldl Screen.put c.scr }

/-- `select_24bit_color` (`CSI 0/1;r;g;b t`): the components are taken `as u8` -/
def color24 (c : Core) (nums : List Nat) : Core :=
  let r := nums.getD 1 0 % 256
  let g := nums.getD 2 0 % 256
  let b := nums.getD 3 0 % 256
  let (pal, idx) := insertColor c.pal (r, g, b)
  match nums.head? with
  | some 0 => { c with pal := pal, attr := { c.attr with bg := idx } }
  | some 1 => { c with pal := pal, attr := { c.attr with fg := idx } }
  | _ => { c with pal := pal }

/-- control characters that `ESC <ctrl>` prints literally -/
def escPrintable (ch : Nat) : Bool :=
  ch == 12 || ch == 7 || ch == 8 || ch == 9 || ch == 127 || ch == 27 || ch == 10 || ch == 13

/-- one character through `ansi::Parser::print_char` (`bs_is_ctrl_char = false`) -/
def ansiStep (p : AnsiP) (c : Core) (ch : Nat) : AnsiP × Core :=
  if c.stuck then (p, c) else
  match p.st with
  | .ground =>
    if ch = 27 then ({ p with st := .esc }, c)
    else if ch = 10 then (p, { c with scr := c.scr.lf })
    else if ch = 12 then (p, c.ff)
    else if ch = 13 then (p, { c with scr := c.scr.cr })
    else if ch = 7 then (p, c)
    else if ch = 127 then (p, { c with scr := c.scr.del })
    else ({ p with lastCh := ch }, c.printAnsi ch)
  | .esc =>
    if ch = 91 then ({ p with st := .csi [] true }, c)
    else if escPrintable ch then ({ p with st := .ground, lastCh := ch }, c.printAnsi ch)
    else if ch = 93 ∨ ch = 55 ∨ ch = 56 ∨ ch = 99 ∨ ch = 68 ∨ ch = 77 ∨ ch = 69 ∨ ch = 80 ∨ ch = 72 ∨ ch = 95 then
      (p, c.stick)            -- OSC, DECSC/DECRC, RIS, IND, RI, NEL, DCS, HTS, APS: outside the sub-language
    else ({ p with st := .ground }, c)   -- silently dropped or `Err` (ignored by the loaders)
  | .csi nums start =>
    if ch = 109 then ({ p with st := .ground }, sgr c nums)                                     -- m
    else if ch = 72 ∨ ch = 102 then ({ p with st := .ground }, { c with scr := cup c.scr nums })  -- H f
    else if ch = 67 then ({ p with st := .ground }, { c with scr := c.scr.right (nums.headD 1) }) -- C
    else if ch = 115 then ({ p with st := .ground, saved := (c.scr.cx, c.scr.cy) }, c)          -- s
    else if ch = 117 then                                                                       -- u
      ({ p with st := .ground }, { c with scr := { c.scr with cx := p.saved.1, cy := p.saved.2 }.limit })
    else if ch = 74 then                                                                        -- J
      (match nums.head? with
       | some 2 => ({ p with st := .ground }, { c with scr := c.scr.clear })
       | some 3 => ({ p with st := .ground }, { c with scr := c.scr.clear })
       | _ => (p, c.stick))
    else if ch = 116 then                                                                       -- t
      (if nums.length = 4 then ({ p with st := .ground }, color24 c nums)
       else if nums.length = 3 then (p, c.stick)
       else ({ p with st := .ground }, c))
    else if ch = 98 then ({ p with st := .ground }, rep c p.lastCh nums)                        -- b
    else if ch = 63 then (if start then ({ p with st := .csiQ nums }, c) else (p, c.stick))       -- ?
    else if ch = 32 then ({ p with st := .csiSp nums }, c)
    else if isDigit ch then ({ p with st := .csi (numsDigit nums ch) false }, c)
    else if ch = 59 then ({ p with st := .csi (nums ++ [0]) false }, c)
    else (p, c.stick)
  | .csiQ nums =>
    if isDigit ch then ({ p with st := .csiQ (numsDigit nums ch) }, c)
    else if ch = 59 then ({ p with st := .csiQ (nums ++ [0]) }, c)
    else if ch = 104 then                                                                       -- h
      (if nums = [33] then ({ p with st := .ground }, { c with bufIce := .ice, caretIce := true }) else (p, c.stick))
    else if ch = 108 then                                                                       -- l
      (if nums = [33] then ({ p with st := .ground }, { c with caretIce := false }) else (p, c.stick))
    else (p, c.stick)
  | .csiSp nums =>
    if ch = 68 then                                                                             -- SP D: font selection
      (if nums.length = 2 ∧ nums.getD 1 0 < ansiFonts then ({ p with st := .ground }, c) else (p, c.stick))
    else (p, c.stick)

/-! ## the other parsers -/

/-- PCBoard: `conv_ch` -/
def pcbConvCh (ch : Nat) : Nat :=
  if 48 ≤ ch ∧ ch ≤ 57 then ch - 48
  else if 97 ≤ ch ∧ ch ≤ 102 then 10 + ch - 97
  else if 65 ≤ ch ∧ ch ≤ 70 then 10 + ch - 65
  else 0

structure PcbP where
  code : Bool := false
  color : Bool := false
  value : Nat := 0
  pos : Nat := 0
deriving DecidableEq, Repr, Inhabited

/-- `pcboard::Parser::print_char` (code points above 255 are outside the sub-language: `ch as u8`) -/
def pcbStep (q : PcbP) (p : AnsiP) (c : Core) (ch : Nat) : PcbP × AnsiP × Core :=
  if c.stuck then (q, p, c) else
  if q.color then
    let pos := q.pos + 1
    if pos = 1 then ({ q with pos := pos, value := pcbConvCh ch }, p, c)
    else if pos = 2 then
      let v := (q.value * 16 % 256) + pcbConvCh ch
      ({ q with pos := pos, value := v, color := false, code := false }, p, { c with attr := attrFromU8 v c.bufIce })
    else ({ q with pos := pos, color := false, code := false }, p, c)
  else if q.code then
    if ch = 64 then ({ q with code := false }, p, c)
    else if ch = 88 then ({ q with color := true, pos := 0 }, p, c)
    else (q, p, c)
  else if ch = 64 then ({ q with code := true }, p, c)
  else let (p', c') := ansiStep p c ch; (q, p', c')

inductive RenP | normal | first | second (n : Nat)
deriving DecidableEq, Repr, Inhabited

/-- `renegade::Parser::print_char` -/
def renStep (q : RenP) (p : AnsiP) (c : Core) (ch : Nat) : RenP × AnsiP × Core :=
  if c.stuck then (q, p, c) else
  match q with
  | .normal => if ch = 124 then (.first, p, c) else let (p', c') := ansiStep p c ch; (.normal, p', c')
  | .first =>
    let code := ch % 256
    if 48 ≤ code ∧ code ≤ 51 then (.second ((code - 48) * 10), p, c) else (.normal, p, c)
  | .second n =>
    let code := ch % 256
    if 48 ≤ code ∧ code ≤ 57 then
      let color := n + (code - 48)
      if color < 16 then (.normal, p, { c with attr := { c.attr with fg := color } })
      else (.normal, p, { c with attr := { c.attr with bg := color - 16 } })
    else (.normal, p, c)

structure CtrlAP where
  ctrlA : Bool := false
  bold : Bool := false
  highBg : Bool := false
deriving DecidableEq, Repr, Inhabited

/-- `ctrla::Parser::print_char` (cursor / erase commands other than clear and home are outside the sub-language) -/
def ctrlaStep (q : CtrlAP) (p : AnsiP) (c : Core) (ch : Nat) : CtrlAP × AnsiP × Core :=
  if c.stuck then (q, p, c) else
  if q.ctrlA then
    let q := { q with ctrlA := false }
    if ch = 76 then (q, p, { c with scr := c.scr.clear })                            -- L
    else if ch = 39 then (q, p, { c with scr := { c.scr with cx := 0, cy := 0 } })   -- '
    else if ch = 74 ∨ ch = 62 ∨ ch = 60 ∨ ch = 93 then (q, p, c.stick)               -- J > < ]
    else if ch = 124 then (q, p, { c with scr := c.scr.cr })                         -- |
    else if ch = 65 then let (p', c') := ansiStep p c 1; (q, p', c')                  -- A
    else if ch = 72 then                                                             -- H
      ({ q with bold := true }, p, { c with attr := { c.attr with fg := if c.attr.fg < 8 then c.attr.fg + 8 else c.attr.fg } })
    else if ch = 73 then (q, p, { c with attr := { c.attr with fl := { c.attr.fl with blink := true } } })  -- I
    else if ch = 69 then                                                             -- E
      ({ q with highBg := true }, p, { c with attr := { c.attr with bg := if c.attr.bg < 8 then c.attr.bg + 8 else c.attr.bg } })
    else if ch = 78 then                                                             -- N
      let c := c.resetAttr
      let c := if 7 < c.attr.fg then { c with attr := { c.attr with fg := c.attr.fg - 8 } } else c
      let c := if 7 < c.attr.bg then { c with attr := { c.attr with bg := c.attr.bg - 8 } } else c
      ({ q with bold := false, highBg := false }, p, c)
    else if ch = 90 then (q, p, c)                                                   -- Z
    else match ctrlaFg.findIdx? (· == ch % 256) with
      | some fg => (q, p, { c with attr := { c.attr with fg := fg + (if q.bold then 8 else 0) } })
      | none => match ctrlaBg.findIdx? (· == ch % 256) with
        | some bg => (q, p, { c with attr := { c.attr with bg := bg + (if q.highBg then 8 else 0) } })
        | none => if 128 ≤ ch ∧ ch ≤ 255 then (q, p, { c with scr := c.scr.right (ch - 127) }) else (q, p, c)
  else if ch = 1 then ({ q with ctrlA := true }, p, c)
  else let (p', c') := ansiStep p c ch; (q, p', c')

inductive AvtSt | chars | rep | command | move | color
deriving DecidableEq, Repr, Inhabited

structure AvtP where
  st : AvtSt := .chars
  sub : Nat := 0
  repCh : Nat := 32
deriving DecidableEq, Repr, Inhabited

/-- feed the same character `n` times to the ANSI parser (Avatar ^Y) -/
def ansiRepeat : Nat → AnsiP → Core → Nat → AnsiP × Core
  | 0, p, c, _ => (p, c)
  | n + 1, p, c, ch => let (p', c') := ansiStep p c ch; ansiRepeat n p' c' ch

/-- `avatar::Parser::print_char` (cursor-step commands ^V^C..^V^G are outside the sub-language) -/
def avtStep (q : AvtP) (p : AnsiP) (c : Core) (ch : Nat) : AvtP × AnsiP × Core :=
  if c.stuck then (q, p, c) else
  match q.st with
  | .chars =>
    if ch = avtClr then (q, p, c.ff)
    else if ch = avtRep then ({ q with st := .rep, sub := 1 }, p, c)
    else if ch = avtCmd then ({ q with st := .command }, p, c)
    else let (p', c') := ansiStep p c ch; (q, p', c')
  | .command =>
    let n := ch % 65536
    if n = 1 then ({ q with st := .color }, p, c)
    else if n = 2 then ({ q with st := .chars }, p, { c with attr := { c.attr with fl := { c.attr.fl with blink := true } } })
    else if n = 8 then ({ q with st := .move, sub := 1 }, p, c)
    else if 3 ≤ n ∧ n ≤ 7 then (q, p, c.stick)
    else ({ q with st := .chars }, p, c)
  | .rep =>
    if q.sub = 1 then ({ q with repCh := ch, sub := 2 }, p, c)
    else if q.sub = 2 then
      let (p', c') := ansiRepeat ch p c q.repCh
      ({ q with sub := 3, st := .chars }, p', c')
    else ({ q with st := .chars }, p, c)
  | .color => ({ q with st := .chars }, p, { c with attr := attrFromU8 (ch % 256) c.bufIce })
  | .move =>
    if q.sub = 1 then ({ q with repCh := ch, sub := 2 }, p, c)
    else if q.sub = 2 then
      -- ^V^H <row> <col>, both 1-based
      ({ q with st := .chars }, p, { c with scr := { c.scr with cy := q.repCh - 1, cx := ch - 1 }.limit })
    else (q, p, c)

/-- `ascii::Parser::print_char` (BS and DEL are outside the sub-language) -/
def ascStep (c : Core) (ch : Nat) : Core :=
  if c.stuck then c else
  if ch = 0 ∨ ch = 255 then c.resetAttr
  else if ch = 7 then c
  else if ch = 10 then { c with scr := c.scr.lf }
  else if ch = 12 then c.ff
  else if ch = 13 then { c with scr := c.scr.cr }
  else if ch = 8 ∨ ch = 127 then c.stick
  else c.printValue ch

/-- `atascii::Parser::print_char` (cursor and edit codes other than EOL and clear are outside the sub-language) -/
def ataStep (esc : Bool) (c : Core) (ch : Nat) : Bool × Core :=
  if c.stuck then (esc, c) else
  if esc then (false, c.printValue ch)
  else if ch = 27 then (true, c)
  else if ch = 125 then (false, { c with scr := c.scr.clear })
  else if ch = 155 then (false, { c with scr := c.scr.lf })
  else if ch = 127 ∨ ch = 158 ∨ ch = 159 ∨ ch = 253 then (false, c)
  else if ch = 28 ∨ ch = 29 ∨ ch = 30 ∨ ch = 31 ∨ ch = 126 ∨ ch = 156 ∨ ch = 157 ∨ ch = 254 ∨ ch = 255 then (false, c.stick)
  else
    let v := ch % 65536
    if 127 < v then (false, ({ c with attr := { c.attr with fg := 0, bg := 7 } }).printValue (v - 128))
    else (false, ({ c with attr := { c.attr with fg := 7, bg := 0 } }).printValue v)

/-! ## running a whole text -/

inductive Fmt | ansi | ascii | pcboard | renegade | ctrla | avatar | atascii
deriving DecidableEq, Repr, Inhabited

structure RS where
  core : Core
  ansi : AnsiP := {}
  pcb : PcbP := {}
  ren : RenP := .normal
  ctrla : CtrlAP := {}
  avt : AvtP := {}
  ataEsc : Bool := false
deriving Repr, Inhabited

def step (f : Fmt) (r : RS) (ch : Nat) : RS :=
  match f with
  | .ansi => let (p, c) := ansiStep r.ansi r.core ch; { r with ansi := p, core := c }
  | .ascii => { r with core := ascStep r.core ch }
  | .pcboard => let (q, p, c) := pcbStep r.pcb r.ansi r.core ch; { r with pcb := q, ansi := p, core := c }
  | .renegade => let (q, p, c) := renStep r.ren r.ansi r.core ch; { r with ren := q, ansi := p, core := c }
  | .ctrla => let (q, p, c) := ctrlaStep r.ctrla r.ansi r.core ch; { r with ctrla := q, ansi := p, core := c }
  | .avatar => let (q, p, c) := avtStep r.avt r.ansi r.core ch; { r with avt := q, ansi := p, core := c }
  | .atascii => let (e, c) := ataStep r.ataEsc r.core ch; { r with ataEsc := e, core := c }

def run (f : Fmt) (r : RS) (text : List Nat) : RS := text.foldl (step f) r

/-! ## loader glue -/

/-- strict UTF-8 decoding as `String::from_utf8` does it (`none` = invalid) -/
def utf8Decode : Nat → List Nat → Option (List Nat)
  | 0, _ => some []
  | _, [] => some []
  | fuel + 1, b0 :: rest =>
    let cont (b : Nat) : Bool := 128 ≤ b && b ≤ 191
    if b0 < 128 then (utf8Decode fuel rest).map (b0 :: ·)
    else if 194 ≤ b0 ∧ b0 ≤ 223 then
      match rest with
      | b1 :: rest => if cont b1 then (utf8Decode fuel rest).map (((b0 - 192) * 64 + (b1 - 128)) :: ·) else none
      | _ => none
    else if 224 ≤ b0 ∧ b0 ≤ 239 then
      match rest with
      | b1 :: b2 :: rest =>
        let ok1 := if b0 = 224 then 160 ≤ b1 && b1 ≤ 191 else if b0 = 237 then 128 ≤ b1 && b1 ≤ 159 else cont b1
        if ok1 ∧ cont b2 then (utf8Decode fuel rest).map (((b0 - 224) * 4096 + (b1 - 128) * 64 + (b2 - 128)) :: ·) else none
      | _ => none
    else if 240 ≤ b0 ∧ b0 ≤ 244 then
      match rest with
      | b1 :: b2 :: b3 :: rest =>
        let ok1 := if b0 = 240 then 144 ≤ b1 && b1 ≤ 191 else if b0 = 244 then 128 ≤ b1 && b1 ≤ 143 else cont b1
        if ok1 ∧ cont b2 ∧ cont b3 then
          (utf8Decode fuel rest).map (((b0 - 240) * 262144 + (b1 - 128) * 4096 + (b2 - 128) * 64 + (b3 - 128)) :: ·)
        else none
      | _ => none
    else none

def bomPrefixed (bytes : List Nat) : Bool := bytes.take 3 == [239, 187, 191]

/-- `convert_ansi_to_utf8`: a file that starts with a UTF-8 BOM and is valid UTF-8 is decoded (the BOM stays in the
    text), every other file is read as one code point per byte -/
def convertText (bytes : List Nat) : List Nat :=
  if bomPrefixed bytes then
    match utf8Decode bytes.length bytes with
    | some t => t
    | none => bytes
  else bytes

/-- what the SAUCE record contributes to a load: buffer size and the iCE flag -/
structure Sauce where
  w : Nat
  h : Nat
  ice : Bool
deriving DecidableEq, Repr, Inhabited

def loadSize : Fmt → Nat × Nat
  | .ansi => (loadWAnsi, loadHAnsi)
  | .ascii => (loadWAscii, loadHAscii)
  | .pcboard => (loadWPcb, loadHPcb)
  | .renegade => (loadWRenegade, loadHRenegade)
  | .ctrla => (loadWCtrla, loadHCtrla)
  | .avatar => (loadWAvatar, loadHAvatar)
  | .atascii => (loadWAtascii, loadHAtascii)

/-- the buffer a loader starts from: `Buffer::new(size)`, `set_sauce(.., true)`, and for the `parse_with_parser`
    loaders `layers[0].lines.clear()`.  ATASCII keeps the rows `Layer::new` created and ignores the SAUCE iCE flag
    for the caret. -/
def initial (f : Fmt) (sauce : Option Sauce) : RS :=
  let (w0, h0) := loadSize f
  let (w, h) := match sauce with
    | some s => (if s.w = 0 ∨ 1000 < s.w then 80 else s.w, s.h)
    | none => (w0, h0)
  let ice := match sauce with
    | some s => s.ice
    | none => false
  -- ATASCII: the rows `Layer::new((40, 24))` created stay (created before the SAUCE size is applied)
  let lines := if f = .atascii then List.replicate h0 (List.replicate w0 invisibleCell) else []
  { core := { scr := { w := w, layerH := h, lines := lines, cx := 0, cy := 0 },
              attr := defaultAttr,
              caretIce := if f = .atascii then false else ice,
              bufIce := if ice then .ice else .unlimited,
              -- (the ATASCII loader installs the Atari palette; no property observes it, the model keeps the DOS one)
              pal := dosPalette, termH := h, stuck := false } }

/-- what a load produces, as far as the properties observe it -/
structure Loaded where
  w : Nat
  h : Nat
  lines : List (List Cell)
  pal : List Rgb
  ice : IceMode
  stuck : Bool
deriving Repr, Inhabited

/-- `crop_loaded_file`: trailing rows without any cell are dropped (one row always stays) -/
def cropLines : Nat → List (List Cell) → List (List Cell)
  | 0, ls => ls
  | fuel + 1, ls =>
    if 1 < ls.length ∧ ls.getLast? = some [] then cropLines fuel ls.dropLast else ls

/-- `Buffer::get_char` of a single opaque layer: a cell that was never written (or is invisible) shows as the default
    cell; outside the layer nothing is shown (`AttributedChar::invisible()`) -/
def shown (c : Cell) : Cell := if c.isVisible then c else defaultCell

def viewLines (w h : Nat) (lines : List (List Cell)) (x y : Nat) : Cell :=
  if w ≤ x ∨ h ≤ y then invisibleCell
  else match lines[y]? with
    | some l => match l[x]? with
      | some c => shown c
      | none => defaultCell
    | none => defaultCell

/-- the bold folding at the end of `parse_with_parser`: bold + colour < 8 becomes the bright colour -/
def foldBold (c : Cell) : Cell :=
  if c.attr.fl.bold then
    { c with attr := { c.attr with fg := if c.attr.fg < 8 then c.attr.fg + 8 else c.attr.fg, fl := { c.attr.fl with bold := false } } }
  else c

/-- the folding loop over the cropped buffer: only cells that `get_char` shows as bold are rewritten (an invisible cell
    shows as the default cell), so rows keep their length; no row holds cells at or beyond the layer width -/
def foldLines (lines : List (List Cell)) : List (List Cell) :=
  lines.map fun l => l.map fun c => if c.isVisible then foldBold c else c

def finish (f : Fmt) (r : RS) : Loaded :=
  let s := r.core.scr
  if f = .atascii then
    { w := s.w, h := s.layerH, lines := s.lines, pal := r.core.pal, ice := r.core.bufIce, stuck := r.core.stuck }
  else
    let lines := cropLines s.lines.length s.lines
    { w := s.w, h := lines.length, lines := foldLines lines, pal := r.core.pal, ice := r.core.bufIce, stuck := r.core.stuck }

/-- `Buffer::from_bytes` for the seven text formats (SAUCE already split off by the caller) -/
def load (f : Fmt) (sauce : Option Sauce) (bytes : List Nat) : Loaded :=
  let text := if f = .atascii then bytes else convertText bytes
  finish f (run f (initial f sauce) text)

/-- the cell `Buffer::get_char((x, y))` returns on the loaded buffer -/
def Loaded.cellAt (l : Loaded) (x y : Nat) : Cell := viewLines l.w l.h l.lines x y

end IcyVerif.ArtIO
