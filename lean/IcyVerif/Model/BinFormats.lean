import IcyVerif.Model.XbCompress
import IcyVerif.Model.Sauce
import IcyVerif.Gen.BinFmt
import IcyVerif.Gen.BinFonts
/-!
# Binary art formats (C05): writers and loaders of XBin, BIN, ArtWorx ADF, iCE Draw IDF and Tundra

Model of `Buffer::to_bytes(ext, lossless options)` and `Buffer::from_bytes` for the five binary formats
(`src/formats/{xbinary,bin,artworx,ice_draw,tundra}.rs`), on top of the SAUCE model of C11 (`Model/Sauce.lean`:
`Buffer::write_sauce_info` incl. title / author / group / comments / flags of the buffer's own SAUCE data,
`SauceData::extract`, the split `from_bytes` makes), of `Buffer::set_sauce` (resize, ice flag, `BitFont::from_sauce_name`,
the stored SAUCE data), of `guess_font_name` (checksum table of the built-in fonts) and of the layer operations that decide
the final size (`Layer::set_char`, `set_height`, `crop_loaded_file`).

* `Pic` — the buffer as the writers see it: size, the cells `Buffer::get_char` answers, ice mode, palette, font table.
* `LBuf` — a loaded buffer: buffer size, size of layer 0, the allocated rows of layer 0, ice mode, palette, fonts.
* `save fmt opts date pic : Out (List Nat)`, `fromBytes fmt bytes : Out LBuf` — `err` is an `Err(..)` return, `panic` a
  Rust panic (index out of range, `unwrap` on `None`).
* cells, attribute byte, XBin image data (raw and compressed), `decode_char`: REUSED from `Model/XbCompress.lean` (C06).

The model follows the tree AFTER the C05 `fix:` commits (rows of the start buffer cleared; iCE Draw escape written once;
Tundra writer: characters 1..=6, first cell, bold on bright colours; `fonts.first()` in the writers; Tundra loader takes SAUCE
widths above 1000; XBin loader rejects 512-character mode without a font block; BIN writer refuses odd widths) and after the
C02 bounds fixes of the loaders (every read beyond the end of the file is an `Err`, iCE Draw rows end at 65535).
Integers: sizes and cursor positions are `Nat` except where the Rust `i32` can really go negative (Tundra's position
command and therefore the layer/buffer HEIGHT, `Int`).  No `i32` overflow is reachable on these paths (all values are
bounded by 16-bit fields or by the file length).
-/
namespace IcyVerif.BinFormats
open IcyVerif.XbCompress IcyVerif.Gen

/-! ## outcomes, palettes, fonts, pictures -/

inductive Out (α : Type) where
  | ok (a : α)
  | err
  | panic
deriving Repr

abbrev Rgb := Nat × Nat × Nat

structure Font where
  name : List Nat      -- `BitFont::name` as CP437 bytes (what `SauceString::from` makes of it)
  height : Nat
  data : List Nat      -- `convert_to_u8_data()`: 256 glyphs of `height` bytes
deriving DecidableEq, Repr

/-- `BitFont::default()` = `from_ansi_font_page(0)` -/
def defaultFont : Font := ⟨BinFmt.defaultFontName, BinFmt.defaultFontHeight, BinFmt.defaultFontData⟩

/-- `BitFont::is_default` (after `fix: BitFont::is_default compares the glyphs …`): the NAME and the size and the glyph
    bytes of the built-in font (width 8 and length 256 are checked by the XBin writer before it asks) -/
def Font.isDefault (f : Font) : Bool :=
  f.name == BinFmt.defaultFontName && f.height == BinFmt.defaultFontHeight && f.data == BinFmt.defaultFontData

/-- first row of `CRC32_TABLE` as an array (built once) -/
def crcRow0Arr : Array Nat := BinFmt.crcRow0.toArray

/-- `update_crc32(crc, b)` on naturals -/
def crcStep (crc b : Nat) : Nat := (crc / 256) ^^^ crcRow0Arr.getD ((b ^^^ crc) % 256) 0

/-- `BitFont::calculate_checksum` of a font made by `create_8` / `from_basic`: all glyph bytes in order, start value 0 -/
def fontChecksum (data : List Nat) : Nat := data.foldl crcStep 0

def decimal (n : Nat) : List Nat := (Nat.toDigits 10 n).map Char.toNat

/-- `fl!(.., "unknown-font-name", width = 8, height = h)` as SAUCE bytes (the isolating marks fluent puts around the
    numbers are not CP437: `?`) -/
def unknownFontName (h : Nat) : List Nat :=
  BinFmt.unknownFontPre ++ decimal 8 ++ BinFmt.unknownFontMid ++ decimal h ++ BinFmt.unknownFontPost

/-- `guess_font_name`: the name of the first built-in font (ANSI slots, then SAUCE fonts) with the same CHECKSUM —
    the height is not compared, and two fonts with equal CRC-32 are not told apart -/
def guessedName (h : Nat) (data : List Nat) : List Nat :=
  match BinFmt.fontCrcNames.find? (fun e => e.1 == fontChecksum data) with
  | some e => e.2
  | none => unknownFontName h

/-- `BitFont::from_sauce_name` (names are ASCII: comparing the SAUCE bytes is comparing the strings) -/
def sauceFontByName (name : List Nat) : Option Font :=
  (BinFonts.sauceFonts.find? (fun e => e.1 == name)).map fun e => ⟨e.1, e.2.1, e.2.2⟩

def triples : List Nat → List Rgb
  | r :: g :: b :: rest => (r, g, b) :: triples rest
  | _ => []

/-- `Palette::dos_default()` -/
def dosPalette : List Rgb := triples BinFmt.dosPalette

/-- `Palette::get_rgb` / `get_color(..).get_rgb()`: bit 31 = colour given directly, out of range = black -/
def getRgb (pal : List Rgb) (c : Nat) : Rgb :=
  if c ≥ 2147483648 then ((c / 65536) % 256, (c / 256) % 256, c % 256) else pal.getD c (0, 0, 0)

/-- `v << 2 | v >> 4` on `u8` -/
def expand6 (v : Nat) : Nat := ((v * 4) % 256) ||| (v / 16)

/-- `Palette::from_63` on a slice whose length is a multiple of 3 -/
def from63 (bs : List Nat) : List Rgb := (triples bs).map fun c => (expand6 c.1, expand6 c.2.1, expand6 c.2.2)

/-- `Palette::as_vec_63` -/
def asVec63 (pal : List Rgb) : List Nat := pal.flatMap fun c => [c.1 / 4, c.2.1 / 4, c.2.2 / 4]

/-- `Palette::fill_to_16` -/
def fillTo16 (pal : List Rgb) : List Rgb := pal ++ dosPalette.drop pal.length

/-- `Palette::is_default` -/
def palIsDefault (pal : List Rgb) : Bool := pal == dosPalette

structure Pic where
  w : Nat
  h : Nat
  rows : List (List Cell)          -- `Buffer::get_char((x, y))`, `h` rows of `w` cells
  ice : IceMode
  pal : List Rgb
  fonts : List (Nat × Font)        -- the font table (first entry of a slot counts)
  sauce : Option Sauce.Meta := none -- `Buffer::get_sauce()`: what `write_sauce_info` reads of it

def Pic.cell (p : Pic) (x y : Nat) : Cell := (p.rows.getD y []).getD x Cell.invisible

def lookupFont (fonts : List (Nat × Font)) (slot : Nat) : Option Font := fonts.lookup slot

def isVisible (c : Cell) : Bool := c.attr.flags &&& Xb.attrInvisible != Xb.attrInvisible
def isBold (a : Attr) : Bool := a.flags &&& Xb.attrBold == Xb.attrBold
def isBlink (a : Attr) : Bool := a.flags &&& Xb.attrBlink == Xb.attrBlink

/-- `TextAttribute::as_u8` in all three modes (`Unlimited` after `fix: … as_u8 in IceMode::Unlimited keeps the blink bit`) -/
def asU8' (im : IceMode) (a : Attr) : Nat :=
  match im with
  | .unlimited =>
    let fg0 := a.fg &&& 0b1111
    let fg := if isBold a then fg0 ||| 0b1000 else fg0
    let bg := (a.bg &&& 0b1111) ||| (if isBlink a then 0b1000 else 0)
    (fg ||| (bg <<< 4)) % 256
  | m => asU8 m a

/-! ## a loaded buffer and the layer operations -/

structure LBuf where
  bw : Nat
  bh : Int
  lw : Nat
  lh : Int
  lines : List (List Cell)
  ice : IceMode
  pal : List Rgb
  fonts : List (Nat × Font)
  sauce : Option Sauce.Meta := none

/-- `Buffer::new((w, h))` (+ `layers[0].lines.clear()` when the loader does that) -/
def LBuf.start (w h : Nat) (clear : Bool) : LBuf :=
  { bw := w, bh := h, lw := w, lh := h,
    lines := if clear then [] else List.replicate h (List.replicate w Cell.invisible),
    ice := .unlimited, pal := dosPalette, fonts := [(0, defaultFont)] }

/-- `Line::set_char` -/
def lineSet (row : List Cell) (x : Nat) (c : Cell) : List Cell :=
  (if x ≥ row.length then row ++ List.replicate (x + 1 - row.length) Cell.invisible else row).set x c

/-- `Layer::set_char` (layer visible, not locked, no alpha lock) -/
def LBuf.setChar (b : LBuf) (x y : Nat) (c : Cell) : LBuf :=
  if x ≥ b.lw ∨ (y : Int) ≥ b.lh then b else
  let ls := if y ≥ b.lines.length then
      b.lines ++ List.replicate (y + 1 - b.lines.length) (List.replicate b.lw Cell.invisible) else b.lines
  { b with lines := ls.set y (lineSet (ls.getD y []) x c) }

/-- `Layer::set_char` with an `i32` position -/
def LBuf.setCharI (b : LBuf) (x y : Int) (c : Cell) : LBuf :=
  if x < 0 ∨ y < 0 then b else b.setChar x.toNat y.toNat c

/-- `Buffer::get_char` of a loaded buffer (one visible opaque layer at offset 0, not a terminal buffer): a visible cell of
    the layer; `AttributedChar::default()` for an invisible one; `invisible()` outside the layer -/
def LBuf.getCell (b : LBuf) (x y : Nat) : Cell :=
  if x < b.lw ∧ (y : Int) < b.lh then
    let c := (b.lines.getD y []).getD x Cell.invisible
    if isVisible c then c else Cell.dflt
  else Cell.invisible

/-- `crop_loaded_file`: pops empty rows from the end while more than one row is left -/
def popEmpty (ls : List (List Cell)) : List (List Cell) :=
  match ls.reverse with
  | [] => []
  | last :: before => (dropEmptyRev (last :: before)).reverse
where
  dropEmptyRev : List (List Cell) → List (List Cell)
    | [] => []
    | [l] => [l]
    | l :: l2 :: r => if l.isEmpty then dropEmptyRev (l2 :: r) else l :: l2 :: r

def LBuf.crop (b : LBuf) : LBuf :=
  let ls := popEmpty b.lines
  { b with lines := ls, lh := ls.length, bh := ls.length }

/-! ## SAUCE: what the writers append, what `from_bytes` extracts (the model of C11, `Model/Sauce.lean`) -/

def u16le (n : Nat) : List Nat := [n % 256, (n / 256) % 256]

inductive SauceKind | xbin | bin | ansi | tundra
deriving DecidableEq, Repr

/-- index of the `SauceFileType` variant in `Gen.Sauce.kindNames` (declaration order) -/
def SauceKind.idx : SauceKind → Nat
  | .ansi => 2
  | .tundra => 6
  | .bin => 7
  | .xbin => 8

/-- what `write_sauce_info` reads of the buffer -/
def bufInfo (p : Pic) (fontName : List Nat) : Sauce.BufInfo :=
  { sauce := p.sauce, width := p.w, height := p.h, ice := p.ice == .ice, fontName := fontName }

/-- `Buffer::write_sauce_info(kind, body)`: EOF char, comment block, 128-byte record (title, author, group, comments and
    the two display flags come from the buffer's own SAUCE data, if it has any) -/
def writeSauce (k : SauceKind) (p : Pic) (date : List Nat) (body : List Nat) : Out (List Nat) :=
  if (p.sauce.getD {}).comments.length > Gen.Sauce.commentLimit then .err      -- checked before the font is looked up
  else
    match lookupFont p.fonts 0 with
    | none => .panic                                   -- `self.get_font(0).unwrap()`
    | some f0 =>
      match Sauce.writeSauceInfo k.idx (bufInfo p f0.name) date body with
      | .ok bytes => .ok bytes
      | .err _ => .err
      | .panic _ => .panic

def isDigit (b : Nat) : Bool := 48 ≤ b && b ≤ 57

/-- stand-in for chrono's `NaiveDateTime::parse_from_str(date + "000000", "%Y%m%d%H%M%S")`: eight ASCII digits, a real
    month and a day that month has.  ASSUMPTION (trusted, exercised by the correspondence run on the dates the engine
    writes): chrono accepts every such string. -/
def dateOk (d : List Nat) : Bool :=
  match d with
  | [y1, y2, y3, y4, m1, m2, d1, d2] =>
    if [y1, y2, y3, y4, m1, m2, d1, d2].all isDigit then
      let y := (y1 - 48) * 1000 + (y2 - 48) * 100 + (y3 - 48) * 10 + (y4 - 48)
      let m := (m1 - 48) * 10 + (m2 - 48)
      let dd := (d1 - 48) * 10 + (d2 - 48)
      let leap := (y % 4 == 0 && y % 100 != 0) || y % 400 == 0
      let dim := if m == 2 then (if leap then 29 else 28) else if m == 4 || m == 6 || m == 9 || m == 11 then 30 else 31
      decide (1 ≤ m ∧ m ≤ 12 ∧ 1 ≤ dd ∧ dd ≤ dim)
    else false
  | _ => false

/-- `SauceData::extract(bytes)` finds a record (`Ok(Some(..))`): the tail of the file is taken for SAUCE data and cut off
    before the format loader runs — also when it is picture content of a file written WITHOUT a SAUCE record -/
def tailReadsAsSauce (bytes : List Nat) : Bool :=
  match Sauce.extract dateOk bytes with
  | .ok (some _) => true
  | _ => false

/-- the part of a SAUCE record the buffer keeps for the next save -/
def metaOf (s : Sauce.Sauce) : Sauce.Meta :=
  { title := s.title, author := s.author, group := s.group, comments := s.comments, ar := s.ar, ls := s.ls }

/-- `Buffer::set_font(slot, font)` on the font table (a map: the first entry of a slot counts) -/
def setFont (fonts : List (Nat × Font)) (slot : Nat) (f : Font) : List (Nat × Font) :=
  (slot, f) :: fonts.filter (fun e => e.1 != slot)

/-- `Buffer::set_sauce(sauce, resize_to_sauce)` on a start buffer: size (widths of 0 or above 1000 are distrusted), the
    font the record names if it is one of `SAUCE_FONT_NAMES`, the ice flag; the record itself is kept -/
def LBuf.setSauce (b : LBuf) (resize : Bool) : Option Sauce.Sauce → LBuf
  | none => b
  | some s =>
    let b1 : LBuf :=
      if resize then
        let w := if s.width = 0 ∨ s.width > BinFmt.sauceMaxWidth then BinFmt.sauceFallbackWidth else s.width
        { b with bw := w, bh := s.height, lw := w, lh := s.height,
                 fonts := (match s.font.bind sauceFontByName with
                           | some f => setFont b.fonts 0 f
                           | none => b.fonts),
                 ice := if s.ice then .ice else b.ice }
      else b
    { b1 with sauce := some (metaOf s) }

/-! ## sequential placement of cells (`set_char(pos, c); advance_pos`) -/

/-- one step: optionally `layers[0].set_height(pos.y + 1)` (and `result.set_height`), `set_char`, then
    `pos.x += 1; if pos.x > xlast { pos.x = x0; pos.y += 1 }` -/
def placeCell (growL growB : Bool) (x0 xlast : Nat) (s : LBuf × Nat × Nat) (c : Cell) : LBuf × Nat × Nat :=
  let b := s.1
  let x := s.2.1
  let y := s.2.2
  let b1 : LBuf := if growL then { b with lh := (y : Int) + 1 } else b
  let b2 : LBuf := if growB then { b1 with bh := (y : Int) + 1 } else b1
  let b3 := b2.setChar x y c
  if x + 1 > xlast then (b3, x0, y + 1) else (b3, x + 1, y)

def placeAll (growL growB : Bool) (x0 xlast : Nat) (b : LBuf) (x y : Nat) (cells : List Cell) : LBuf × Nat × Nat :=
  cells.foldl (placeCell growL growB x0 xlast) (b, x, y)

/-! ## XBin -/

def boolBit (b : Bool) (bit : Nat) : Nat := if b then bit else 0

/-- the flags byte of the XBin header -/
def xbFlags (font pal compress ice ext : Bool) : Nat :=
  boolBit font Xb.flagFont ||| boolBit pal Xb.flagPalette ||| boolBit compress Xb.flagCompress |||
    boolBit ice Xb.flagNonBlink ||| boolBit ext Xb.flag512

/-- `XBin::to_bytes` -/
def xbSave (compress sauce : Bool) (date : List Nat) (p : Pic) : Out (List Nat) :=
  let fonts := analyzeFontUsage p.rows.flatten
  match lookupFont p.fonts (fonts.headD 0) with
  | none => .err
  | some font =>
    if fonts.length > 2 then .err
    else if font.height < 1 ∨ font.height > 32 then .err
    else
      let flags := xbFlags (!font.isDefault || fonts.length > 1) (!palIsDefault p.pal) compress (p.ice == .ice) (fonts.length == 2)
      let header := [88, 66, 73, 78, 0x1A, p.w % 256, (p.w / 256) % 256, p.h % 256, (p.h / 256) % 256, font.height % 256, flags]
      let palBytes := asVec63 (fillTo16 p.pal)
      if flags &&& Xb.flagPalette = Xb.flagPalette ∧ palBytes.length ≠ Xb.paletteLength then .err
      else if flags &&& Xb.flagFont = Xb.flagFont ∧ font.data.length ≠ 256 * font.height then .err
      else
        let font2 : Option (Option Font) :=
          if fonts.length == 2 then some (lookupFont p.fonts (fonts.getD 1 0)) else none
        match font2 with
        | some none => .err
        | some (some f2) =>
          if f2.data.length ≠ font.data.length then .err
          else
            match imageData p.ice compress p.rows with
            | none => .err
            | some img =>
              let body := header ++ (if flags &&& Xb.flagPalette = Xb.flagPalette then palBytes else []) ++ font.data ++ f2.data ++ img
              if sauce then writeSauce .xbin p date body else .ok body
        | none =>
          match imageData p.ice compress p.rows with
          | none => .err
          | some img =>
            let body := header ++ (if flags &&& Xb.flagPalette = Xb.flagPalette then palBytes else []) ++
              (if flags &&& Xb.flagFont = Xb.flagFont then font.data else []) ++ img
            if sauce then writeSauce .xbin p date body else .ok body

/-- a font block of `XBin::load_buffer`: `BitFont::create_8("", 8, font_size, &data[o..o + len])` + `guess_font_name` -/
def mkFont (h : Nat) (data : List Nat) : Font := ⟨guessedName h data, h, data⟩

/-- palette block and font block(s) of `XBin::load_buffer`: the buffer after them and the image data that follows -/
def xbBlocks (b1 : LBuf) (hasPal hasFont ext : Bool) (fs : Nat) (rest : List Nat) : Out (LBuf × List Nat) :=
  -- "This bit also requires the Font bit to be set" (x_bin.htm)
  if ext ∧ ¬ hasFont then .err
  -- palette
  else if hasPal ∧ rest.length < Xb.paletteLength then .err
  else
    let b2 : LBuf := if hasPal then { b1 with pal := from63 (rest.take Xb.paletteLength) } else b1
    let rest2 := if hasPal then rest.drop Xb.paletteLength else rest
    let flen := fs * 256
    if hasFont ∧ rest2.length < flen then .err
    else if hasFont ∧ ext ∧ rest2.length < 2 * flen then .err
    else
      let b3 : LBuf :=
        if hasFont then
          if ext then { b2 with fonts := [(0, mkFont fs (rest2.take flen)), (1, mkFont fs ((rest2.drop flen).take flen))] }
          else { b2 with fonts := [(0, mkFont fs (rest2.take flen))] }
        else b2
      let rest3 := if hasFont then (if ext then rest2.drop (2 * flen) else rest2.drop flen) else rest2
      .ok (b3, rest3)

/-- the image data of `XBin::load_buffer` (`read_data_compressed` / `read_data_uncompressed`, `decode_char`, `set_char`,
    `crop_loaded_file`) -/
def xbImage (b3 : LBuf) (w : Nat) (comp ice ext : Bool) (rest3 : List Nat) : Out LBuf :=
  let pairs : Option (List (Nat × Nat)) := if comp then readCompressed rest3 else some (readUncompressed rest3)
  match pairs with
  | none => .panic
  | some ps =>
    let cells := ps.map (decodeChar ice ext)
    .ok (placeAll false false 0 (w - 1) b3 0 0 cells).1.crop

/-- `XBin::load_buffer` on the bytes before the SAUCE record -/
def xbLoad (data : List Nat) (sauce : Option Sauce.Sauce) : Out LBuf :=
  let b0 := (LBuf.start BinFmt.xbStartW BinFmt.xbStartH (BinFmt.xbClearsRows == 1)).setSauce true sauce
  match data with
  | i0 :: i1 :: i2 :: i3 :: _eof :: wl :: wh :: hl :: hh :: fs0 :: flags :: rest =>
    if [i0, i1, i2, i3] != [88, 66, 73, 78] then .err
    else
      let w := wl + wh * 256
      if w < 1 ∨ w > 4096 then .err
      else
        let h := hl + hh * 256
        let fs := if fs0 = 0 then 16 else fs0
        if fs > 32 then .err
        else
          let hasPal := flags &&& Xb.flagPalette == Xb.flagPalette
          let hasFont := flags &&& Xb.flagFont == Xb.flagFont
          let comp := flags &&& Xb.flagCompress == Xb.flagCompress
          let ice := flags &&& Xb.flagNonBlink == Xb.flagNonBlink
          let ext := flags &&& Xb.flag512 == Xb.flag512
          let b1 : LBuf := { b0 with bw := w, bh := h, lw := w, lh := h, ice := if ice then .ice else .blink }
          match xbBlocks b1 hasPal hasFont ext fs rest with
          | .ok (b3, rest3) => xbImage b3 w comp ice ext rest3
          | .err => .err
          | .panic => .panic
  | _ => .err

/-! ## BIN -/

/-- `Bin::to_bytes` (`ch.ch as u8` truncates silently) -/
def binSave (sauce : Bool) (date : List Nat) (p : Pic) : Out (List Nat) :=
  if p.w % 2 ≠ 0 then .err                             -- the SAUCE record stores width / 2
  else
    let body := p.rows.flatMap fun row => row.flatMap fun c => [c.ch % 256, asU8' p.ice c.attr]
    if sauce then writeSauce .bin p date body else .ok body

/-- complete (character, attribute) pairs; a dangling last byte is ignored -/
def pairsOf : List Nat → List (Nat × Nat)
  | c :: a :: rest => (c, a) :: pairsOf rest
  | _ => []

/-- `TextAttribute::from_u8` in all three modes (`Unlimited` reads like `Blink`) -/
def fromU8' (im : IceMode) (attr : Nat) : Attr := fromU8 (im == .ice) attr

/-- `Bin::load_buffer` (the `is_bold` branch is dead: `from_u8` never sets BOLD) -/
def binLoad (data : List Nat) (sauce : Option Sauce.Sauce) : Out LBuf :=
  let b0 := (LBuf.start BinFmt.binStartW BinFmt.binStartH (BinFmt.binClearsRows == 1)).setSauce true sauce
  let cells := (pairsOf data).map fun p => (⟨p.1, fromU8' b0.ice p.2⟩ : Cell)
  let b1 := (placeAll true false 0 (b0.bw - 1) b0 0 0 cells).1
  .ok { b1 with bh := b1.lh }

/-! ## ArtWorx ADF -/

def setAt (l : List Rgb) (i : Nat) (v : Rgb) : List Rgb := l.set i v

/-- `to_ega_data` -/
def toEgaData (pal : List Rgb) : List Nat :=
  -- `for i in 0..16 { if i >= palette.len() { break; } ega_colors[EGA_COLOR_OFFSETS[i]] = palette.get_color(i); }`
  let ega := (BinFmt.egaColorOffsets.zip pal).foldl (fun acc jv => setAt acc jv.1 jv.2) (triples BinFmt.egaPalette)
  ega.flatMap fun c => [c.1 / 4, c.2.1 / 4, c.2.2 / 4]

/-- `from_ega_data` on 192 bytes -/
def fromEgaData (bs : List Nat) : List Rgb :=
  BinFmt.egaColorOffsets.map fun i => (expand6 (bs.getD (3 * i) 0), expand6 (bs.getD (3 * i + 1) 0), expand6 (bs.getD (3 * i + 2) 0))

def rowsFit8 (rows : List (List Cell)) : Bool := fits8 rows

/-- `Artworx::to_bytes` -/
def adfSave (sauce : Bool) (date : List Nat) (p : Pic) : Out (List Nat) :=
  if p.ice != .ice then .err
  else if p.w ≠ BinFmt.adfWidth then .err
  else if p.pal.length ≠ 16 then .err
  else
    let fonts := analyzeFontUsage p.rows.flatten
    if fonts.length > 1 then .err
    else
      match lookupFont p.fonts (fonts.headD 0) with
      | none => .err
      | some font =>
        if font.height ≠ 16 then .err                      -- the height of the font that is embedded (C17 repair)
        else if !rowsFit8 p.rows then .err
        else
          let body := [BinFmt.adfVersion] ++ toEgaData p.pal ++ font.data ++
            p.rows.flatMap (fun row => row.flatMap fun c => [c.ch, asU8 .ice c.attr])
          if sauce then writeSauce .ansi p date body else .ok body

/-- `Artworx::load_buffer` -/
def adfLoad (data : List Nat) (sauce : Option Sauce.Sauce) : Out LBuf :=
  let b0 := (LBuf.start BinFmt.adfStartW BinFmt.adfStartH (BinFmt.adfClearsRows == 1)).setSauce true sauce
  let b1 : LBuf := { b0 with bw := BinFmt.adfWidth, ice := .ice }
  if data.length < BinFmt.adfHeaderLength then .err
  else
    match data with
    | [] => .err
    | ver :: rest =>
      if ver ≠ BinFmt.adfVersion then .err
      else
        let pal := fromEgaData (rest.take BinFmt.adfPaletteSize)
        let rest2 := rest.drop BinFmt.adfPaletteSize
        let fdata := rest2.take BinFmt.adfFontSize
        let rest3 := rest2.drop BinFmt.adfFontSize
        let b2 : LBuf := { b1 with pal := pal, fonts := [(0, mkFont 16 fdata)] }
        let cells := (pairsOf rest3).map fun p => (⟨p.1, fromU8 true p.2⟩ : Cell)
        .ok (placeAll true false 0 (b2.bw - 1) b2 0 0 cells).1.crop

/-! ## iCE Draw IDF -/

/-- length of the run of cells equal (Rust `PartialEq`) to `c` at the head of `rest`, +1 -/
def runLen (c : Cell) : List Cell → Nat
  | [] => 1
  | d :: rest => if c.eqv d then runLen c rest + 1 else 1

/-- one row of `IceDraw::to_bytes`; `none` = `Err` (a character above 255) -/
def idfRow (compress : Bool) : Nat → List Cell → Option (List Nat)
  | 0, _ => some []
  | _, [] => some []
  | fuel + 1, c :: rest =>
    let run := min (runLen c rest) 65535            -- `rle_count < u16::MAX`
    let esc := compress && (run > BinFmt.idfRleMin || c.ch == BinFmt.idfEscChar)
    let rle := if esc then run else 1
    let attr := asU8 .ice c.attr
    if c.ch > 255 then none
    else
      let pre := (if esc then [1, 0, rle % 256, (rle / 256) % 256] else []) ++
        (if c.ch == BinFmt.idfEscChar && attr == BinFmt.idfEscAttr && rle == 1 && !compress then BinFmt.idfFakeRepeat else [])
      match idfRow compress fuel (rest.drop (rle - 1)) with
      | none => none
      | some out => some (pre ++ [c.ch, attr] ++ out)

def idfRows (compress : Bool) : List (List Cell) → Option (List Nat)
  | [] => some []
  | row :: rows =>
    match idfRow compress row.length row, idfRows compress rows with
    | some a, some b => some (a ++ b)
    | _, _ => none

/-- `IceDraw::to_bytes` -/
def idfSave (compress sauce : Bool) (date : List Nat) (p : Pic) : Out (List Nat) :=
  if p.ice != .ice then .err
  else if p.h > BinFmt.idfMaxHeight then .err
  else
    let fonts := analyzeFontUsage p.rows.flatten
    if fonts.length > 1 then .err
    else if p.pal.length ≠ 16 then .err
    else
      match idfRows compress p.rows with
      | none => .err
      | some img =>
        match lookupFont p.fonts (fonts.headD 0) with
        | none => .err
        | some font =>
          if font.height ≠ 16 then .err                    -- the size of the font that is embedded (C17 repair)
          else
            let body := BinFmt.idfHeader14 ++ [0, 0, 0, 0] ++ u16le (p.w - 1) ++ u16le (p.h - 1) ++ img ++ font.data ++ asVec63 p.pal
            if sauce then writeSauce .bin p date body else .ok body

/-- the loop `while o + 1 < data_size` of the loader over the screen data (the bytes from offset 12 up to `data_size`):
    the (repeat count, character, attribute) items it places, and the number of bytes it consumes (the font is read from
    where it stops) -/
def idfScan : Nat → List Nat → List (Nat × Nat × Nat) × Nat
  | 0, _ => ([], 0)
  | fuel + 1, bs =>
    match bs with
    | c :: a :: rest =>
      if c == BinFmt.idfEscChar && a == BinFmt.idfEscAttr then
        -- `rle_count = data[o] + data[o + 1] << 8; if o + 3 >= data_size { break }`
        match rest with
        | nl :: nh :: c2 :: a2 :: rest2 =>
          let r := idfScan fuel rest2
          ((nl + nh * 256, c2, a2) :: r.1, 6 + r.2)
        | _ => ([], 2)
      else
        let r := idfScan fuel rest
        ((1, c, a) :: r.1, 2 + r.2)
    | _ => ([], 0)

/-- `IceDraw::load_buffer` (the SAUCE record is cut off by `from_bytes` and kept for the next save, `set_sauce(.., false)`:
    it neither resizes the buffer nor names a font) -/
def idfLoad (data : List Nat) (sauce : Option Sauce.Sauce) : Out LBuf :=
  let b0 := LBuf.start BinFmt.idfStartW BinFmt.idfStartH (BinFmt.idfClearsRows == 1)
  let b1 : LBuf := ({ b0 with ice := .ice } : LBuf).setSauce false sauce
  if data.length < BinFmt.idfHeaderSize + BinFmt.idfFontSize + BinFmt.idfPaletteSize then .err
  else if data.take 4 != BinFmt.idfHeader13 ∧ data.take 4 != BinFmt.idfHeader14 then .err
  else
    let x1 := data.getD 4 0 + data.getD 5 0 * 256
    let y1 := data.getD 6 0 + data.getD 7 0 * 256
    let x2 := data.getD 8 0 + data.getD 9 0 * 256
    if x2 < x1 then .err
    else
      let b2 : LBuf := { b1 with bw := x2 - x1 + 1 }
      let dataSize := data.length - BinFmt.idfFontSize - BinFmt.idfPaletteSize
      let screen := (data.take dataSize).drop BinFmt.idfHeaderSize
      let scan := idfScan (screen.length + 1) screen
      let total := (scan.1.map fun it => it.1).sum
      -- `if pos.y > u16::MAX { return Err(OutOfBounds) }` before every cell: cell number i goes to row y1 + i / width
      if total > 0 ∧ y1 + (total - 1) / (x2 - x1 + 1) > BinFmt.idfMaxY then .err
      else
      let cells := scan.1.flatMap fun it => List.replicate it.1 (⟨it.2.1, fromU8 true it.2.2⟩ : Cell)
      let b3 := (placeAll true true x1 x2 b2 x1 y1 cells).1
      let o := BinFmt.idfHeaderSize + scan.2
      let fdata := (data.drop o).take BinFmt.idfFontSize
      let pdata := (data.drop (o + BinFmt.idfFontSize)).take BinFmt.idfPaletteSize
      .ok { b3 with fonts := (0, mkFont 16 fdata) :: b3.fonts.filter (fun e => e.1 != 0), pal := from63 pdata }

/-! ## Tundra -/

/-- running state of `TundraDraw::to_bytes` -/
structure TW where
  out : List Nat
  attr : Attr
  first : Bool
  skip : Option Nat         -- index of the first cell that was not visible

def rgbBytes (c : Rgb) : List Nat := [0, c.1, c.2.1, c.2.2]

/-- the closure `shown` of the writer: the palette index a foreground is stored (and displayed) with -/
def tndShown (a : Attr) : Nat := if isBold a ∧ a.fg < BinFmt.tndBoldLimit then a.fg + BinFmt.tndBoldOffset else a.fg

/-- one cell of the writer loop; `none` = `Err` (a character above 255) -/
def tndCell (pal : List Rgb) (s : TW) (idx : Nat) (c : Cell) : Option TW :=
  if !isVisible c then some { s with skip := if s.skip.isNone then some idx else s.skip }
  else if c.ch > 255 then none
  else
    let cur := c.attr
    let wf := getRgb pal (tndShown s.attr) != getRgb pal (tndShown cur) || isBold s.attr != isBold cur ||
      (BinFmt.tndCtlLo ≤ c.ch && c.ch ≤ BinFmt.tndCtlHi) || s.first
    let wb := getRgb pal s.attr.bg != getRgb pal cur.bg || s.first
    let cmd := boolBit wf BinFmt.tndColorFg ||| boolBit wb BinFmt.tndColorBg
    if cmd ≠ 0 then
      some { s with out := s.out ++ [cmd, c.ch] ++ (if wf then rgbBytes (getRgb pal (tndShown cur)) else []) ++
                      (if wb then rgbBytes (getRgb pal cur.bg) else []),
                    attr := cur, first := false }
    else some { s with out := s.out ++ [c.ch], first := false }

def tndCells (pal : List Rgb) : TW → Nat → List Cell → Option TW
  | s, _, [] => some s
  | s, idx, c :: cs =>
    match tndCell pal s idx c with
    | none => none
    | some s' => tndCells pal s' (idx + 1) cs

/-- `TundraDraw::to_bytes` -/
def tndSave (sauce : Bool) (date : List Nat) (p : Pic) : Out (List Nat) :=
  let fonts := analyzeFontUsage p.rows.flatten
  if fonts.length > 1 then .err
  else
    let cells := p.rows.flatten
    match tndCells p.pal ⟨[BinFmt.tndVersion] ++ BinFmt.tndHeader, fromU8' p.ice 0, true, none⟩ 0 cells with
    | none => .err
    | some s =>
      let pad := match s.skip with
        | none => []
        | some i => List.replicate (p.w * p.h - i) 0
      let body := s.out ++ pad
      if sauce then writeSauce .tundra p date body else .ok body

/-- `Palette::insert_color_rgb` -/
def insertColor (pal : List Rgb) (c : Rgb) : List Rgb × Nat :=
  match pal.findIdx? (· == c) with
  | some i => (pal, i)
  | none => (pal ++ [c], pal.length)

/-- big-endian `i32` of `to_u32` -/
def be32 (b0 b1 b2 b3 : Nat) : Int :=
  let v := b0 * 16777216 + b1 * 65536 + b2 * 256 + b3
  if v ≥ 2147483648 then (v : Int) - 4294967296 else v

/-- loader state -/
structure TL where
  buf : LBuf
  fg : Nat
  bg : Nat
  x : Int
  y : Int

/-- `set_height(pos.y + 1); set_char(pos, ch); advance_pos` -/
def tndPut (s : TL) (ch : Nat) : TL :=
  let b1 : LBuf := { s.buf with lh := s.y + 1 }
  let b2 := b1.setCharI s.x s.y ⟨ch, ⟨s.fg, s.bg, 0, Xb.defaultPage⟩⟩
  if s.x + 1 ≥ (b2.bw : Int) then { s with buf := b2, x := 0, y := s.y + 1 } else { s with buf := b2, x := s.x + 1 }

/-- the command loop of `TundraDraw::load_buffer`; a command cut off by the end of the file is `Err(FileTooShort)` -/
def tndLoop : Nat → List Nat → TL → Out TL
  | 0, _, s => .ok s
  | _, [], s => .ok s
  | fuel + 1, cmd :: rest, s =>
    if cmd = BinFmt.tndPosition then
      match rest with
      | y0 :: y1 :: y2 :: y3 :: rest' =>
        let y := be32 y0 y1 y2 y3
        if y ≥ BinFmt.tndMaxY then .err
        else
          match rest' with
          | x0 :: x1 :: x2 :: x3 :: rest'' =>
            let x := be32 x0 x1 x2 x3
            if x ≥ (s.buf.bw : Int) then .err
            else tndLoop fuel rest'' { s with x := x, y := y }
          | _ => .err
      | _ => .err
    else if cmd > BinFmt.tndCmdAbove ∧ cmd ≤ BinFmt.tndCmdUpTo then
      match rest with
      | [] => .err
      | ch :: rest1 =>
        let fgR : Out (List Nat × TL) :=
          if cmd &&& BinFmt.tndColorFg ≠ 0 then
            match rest1 with
            | _ :: r :: g :: b :: rest2 =>
              let ins := insertColor s.buf.pal (r, g, b)
              .ok (rest2, { s with buf := { s.buf with pal := ins.1 }, fg := ins.2 })
            | _ => .err
          else .ok (rest1, s)
        match fgR with
        | .panic => .panic
        | .err => .err
        | .ok (rest2, s2) =>
          let bgR : Out (List Nat × TL) :=
            if cmd &&& BinFmt.tndColorBg ≠ 0 then
              match rest2 with
              | _ :: r :: g :: b :: rest3 =>
                let ins := insertColor s2.buf.pal (r, g, b)
                .ok (rest3, { s2 with buf := { s2.buf with pal := ins.1 }, bg := ins.2 })
              | _ => .err
            else .ok (rest2, s2)
          match bgR with
          | .panic => .panic
          | .err => .err
          | .ok (rest3, s3) => tndLoop fuel rest3 (tndPut s3 ch)
    else tndLoop fuel rest (tndPut s cmd)

/-- the start buffer of `TundraDraw::load_buffer`: `set_sauce`, then — the width is stored nowhere else — SAUCE widths above
    the sanity limit of `set_sauce` are taken as they are -/
def tndStart (sauce : Option Sauce.Sauce) : LBuf :=
  let b00 := (LBuf.start BinFmt.tndStartW BinFmt.tndStartH (BinFmt.tndClearsRows == 1)).setSauce true sauce
  let sw := match sauce with | some s => s.width | none => 0
  if sw > BinFmt.tndWideAbove then { b00 with bw := sw, lw := sw } else b00

/-- `TundraDraw::load_buffer` -/
def tndLoad (data : List Nat) (sauce : Option Sauce.Sauce) : Out LBuf :=
  let b0 := tndStart sauce
  if data.length < 1 + BinFmt.tndHeader.length then .err
  else if (data.drop 1).take BinFmt.tndHeader.length != BinFmt.tndHeader then .err
  else
    let rest := data.drop (1 + BinFmt.tndHeader.length)
    let b1 : LBuf := { b0 with pal := [(0, 0, 0)], ice := .ice }
    match tndLoop (rest.length + 1) rest ⟨b1, Xb.defaultFg, Xb.defaultBg, 0, 0⟩ with
    | .ok s => .ok { s.buf with bw := s.buf.lw, bh := s.buf.lh }
    | .err => .err
    | .panic => .panic

/-! ## the two entry points -/

inductive Fmt | xb | bin | adf | idf | tnd
deriving DecidableEq, Repr

structure Opts where
  sauce : Bool
  compress : Bool
deriving DecidableEq, Repr

/-- `Buffer::to_bytes(ext, &SaveOptions { lossles_output: true, save_sauce, compress, .. })` -/
def save (f : Fmt) (o : Opts) (date : List Nat) (p : Pic) : Out (List Nat) :=
  match f with
  | .xb => xbSave o.compress o.sauce date p
  | .bin => binSave o.sauce date p
  | .adf => adfSave o.sauce date p
  | .idf => idfSave o.compress o.sauce date p
  | .tnd => tndSave o.sauce date p

def loadBody (f : Fmt) (data : List Nat) (s : Option Sauce.Sauce) : Out LBuf :=
  match f with
  | .xb => xbLoad data s
  | .bin => binLoad data s
  | .adf => adfLoad data s
  | .idf => idfLoad data s
  | .tnd => tndLoad data s

/-- `Buffer::from_bytes(Path::new("a.<ext>"), _, bytes)`: `SauceData::extract`, an `Err` of it is logged and treated like
    "no SAUCE", the record (with comment block and EOF character) is cut off, then the loader of the extension -/
def fromBytes (f : Fmt) (bytes : List Nat) : Out LBuf :=
  match Sauce.fromBytesSplit dateOk bytes with
  | .ok (content, s) => loadBody f content s
  | .err _ => .err
  | .panic _ => .panic

/-! ## the picture a loaded buffer shows, and "the same picture" -/

/-- row `y` of `Buffer::get_char` over the buffer width: cell `x` is `getCell x y` (computed row-wise) -/
def LBuf.rowCells (b : LBuf) (y : Nat) : List Cell :=
  if (y : Int) < b.lh then
    let row := b.lines.getD y []
    let inl := min b.bw b.lw
    ((row.take inl ++ List.replicate (inl - row.length) Cell.invisible).map fun c => if isVisible c then c else Cell.dflt) ++
      List.replicate (b.bw - inl) Cell.invisible
  else List.replicate b.bw Cell.invisible

/-- the loaded buffer as the writers (and a viewer) see it -/
def LBuf.toPic (b : LBuf) : Pic :=
  { w := b.bw, h := b.bh.toNat,
    rows := (List.range b.bh.toNat).map fun y => b.rowCells y,
    ice := b.ice, pal := b.pal, fonts := b.fonts, sauce := b.sauce }

/-- colour of the foreground pixels (`Buffer::render_to_rgba`: bold folds colours 0..7 to 8..15) -/
def dispFg (pal : List Rgb) (c : Cell) : Rgb :=
  getRgb pal (if isBold c.attr ∧ c.attr.fg < 8 then c.attr.fg + 8 else c.attr.fg)

def dispBg (pal : List Rgb) (c : Cell) : Rgb := getRgb pal c.attr.bg

/-- what the property compares per cell: character, displayed colours, blink (the font is compared separately) -/
def cellSame (pa pb : List Rgb) (a b : Cell) : Bool :=
  a.ch == b.ch && dispFg pa a == dispFg pb b && dispBg pa a == dispBg pb b && isBlink a.attr == isBlink b.attr

def Fmt.embeds : Fmt → Bool
  | .xb | .adf | .idf => true
  | _ => false

def isIce (m : IceMode) : Bool := m == .ice

/-- font glyphs of every page in use are the same (height and bytes) -/
def fontsSame (p : Pic) (g : LBuf) : Bool :=
  (analyzeFontUsage p.rows.flatten).all fun pg =>
    match lookupFont p.fonts pg, lookupFont g.fonts pg with
    | some a, some b => a.height == b.height && a.data == b.data
    | some _, none => false
    | none, _ => true

def palSame (p : Pic) (g : LBuf) : Bool :=
  p.pal.length == g.pal.length && (List.range 16).all fun i => getRgb p.pal i == getRgb g.pal i

/-- the two cells are drawn from the same glyphs (when the first picture has a font for the cell's page at all) -/
def glyphsSame (p : Pic) (g : LBuf) (a b : Cell) : Bool :=
  match lookupFont p.fonts a.attr.page with
  | none => true
  | some fa =>
    match lookupFont g.fonts b.attr.page with
    | none => false
    | some fb => fa.height == fb.height && fa.data == fb.data

/-- "the same picture" as a decidable check (used by the driver; `SamePicture` in Props/C05.lean is the statement).
    `strict` (save -> load): font page NUMBERS are kept and the fonts of the pages in use are identical.  Not strict
    (re-save of a loaded file): every cell is drawn from the same glyphs, whatever the slot is called. -/
def picSame (strict : Bool) (f : Fmt) (p : Pic) (g : LBuf) : Bool :=
  g.bw == p.w && g.bh == (p.h : Int) && decide ((g.lines.length : Int) ≤ g.bh) && isIce g.ice == isIce p.ice &&
  ((List.range p.h).all fun y => (List.range p.w).all fun x =>
    let a := p.cell x y
    let b := g.getCell x y
    cellSame p.pal g.pal a b &&
      (if strict || !f.embeds then a.attr.page == b.attr.page else glyphsSame p g a b)) &&
  (!f.embeds || ((!strict || fontsSame p g) && palSame p g))

/-! ## Representable: the property's quantifier -/

def sixBit (v : Nat) : Bool := expand6 (v / 4) == v && v < 256

def pal16 (pal : List Rgb) : Bool := pal.length == 16 && pal.all fun c => sixBit c.1 && sixBit c.2.1 && sixBit c.2.2

def wellFormed (p : Pic) : Bool := p.rows.length == p.h && p.rows.all (fun r => r.length == p.w) && p.h ≥ 1

def allCells (p : Pic) (f : Cell → Bool) : Bool := p.rows.all fun r => r.all f

/-- an 8-bit character, 16 foreground colours, bit 7 of the attribute byte free for what the mode says.  (Cells that
    `Buffer::get_char` reports as invisible — outside every layer — are written like any other cell by the attribute-byte
    formats and come back as blanks in the same colours: no visibility condition.) -/
def attrCell (ice : Bool) (c : Cell) : Bool :=
  c.ch ≤ 255 && c.attr.fg < 16 && (if ice then c.attr.bg < 16 && !isBlink c.attr else c.attr.bg < 8)

/-- an 8x16 font block (ADF and IDF always embed font 0, whatever it is called) -/
def font16 (f : Font) : Bool := f.height == 16 && f.data.length == 4096

def fontOk (f : Font) : Bool := 1 ≤ f.height && f.height ≤ 32 && f.data.length == 256 * f.height

/-- the buffer's own SAUCE data is what `SauceString::from` / `read` produce (strings within their field lengths) and has
    at most 255 comment lines (`write_sauce_info` refuses more) -/
def metaOk (m : Option Sauce.Meta) : Bool :=
  match m with
  | none => true
  | some m => m.title.length ≤ Gen.Sauce.titleLen && m.author.length ≤ Gen.Sauce.authorLen && m.group.length ≤ Gen.Sauce.groupLen &&
      m.comments.all (fun c => c.length ≤ Gen.Sauce.commentLen) && m.comments.length ≤ Gen.Sauce.commentLimit

def Representable (f : Fmt) (o : Opts) (p : Pic) : Bool :=
  metaOk p.sauce && wellFormed p &&
  match f with
  | .xb =>
    let pages := analyzeFontUsage p.rows.flatten
    1 ≤ p.w && p.w ≤ 4096 && p.h ≤ 65535 && (p.ice == .blink || p.ice == .ice) && allCells p (attrCell (p.ice == .ice)) &&
    pal16 p.pal && (pages == [0] || pages == [0, 1]) &&
    (match lookupFont p.fonts 0 with
     | none => false
     | some f0 => fontOk f0 &&
        (pages != [0, 1] ||
          (match lookupFont p.fonts 1 with
           | none => false
           | some f1 => fontOk f1 && f1.height == f0.height && allCells p fun c => c.attr.fg < 8 && !isBold c.attr)))
  | .bin =>
    p.w % 2 == 0 && 2 ≤ p.w && p.w ≤ 510 && o.sauce && allCells p (attrCell (p.ice == .ice)) && p.pal == dosPalette &&
    analyzeFontUsage p.rows.flatten == [0] && (lookupFont p.fonts 0).isSome
  | .adf =>
    p.w == 80 && p.h ≤ 65535 && p.ice == .ice && allCells p (attrCell true) && pal16 p.pal && analyzeFontUsage p.rows.flatten == [0] &&
    (match lookupFont p.fonts 0 with
     | none => false
     | some f0 => font16 f0)
  | .idf =>
    1 ≤ p.w && p.w ≤ 80 && p.h ≤ 200 && p.ice == .ice && allCells p (attrCell true) && pal16 p.pal &&
    analyzeFontUsage p.rows.flatten == [0] &&
    (match lookupFont p.fonts 0 with
     | none => false
     | some f0 => font16 f0)
  | .tnd =>
    (p.w == 80 || (o.sauce && 1 ≤ p.w && p.w ≤ 65535)) && p.w * p.h < 1073741824 && p.ice == .ice &&
    analyzeFontUsage p.rows.flatten == [0] &&
    (!o.sauce || (lookupFont p.fonts 0).isSome) &&
    allCells p fun c => c.ch ≤ 255 && isVisible c && !isBlink c.attr && c.attr.fg < 2147483648 && c.attr.bg < 2147483648

/-- the last 128 bytes of a file begin with the SAUCE signature: necessary for `tailReadsAsSauce` (which also needs
    version `00` and a date chrono accepts), kept as the cheap sufficient condition for "the loader sees the whole file" -/
def looksLikeSauce (bytes : List Nat) : Bool :=
  bytes.length ≥ BinFmt.sauceLen && (bytes.drop (bytes.length - BinFmt.sauceLen)).take 5 == BinFmt.sauceId

end IcyVerif.BinFormats
