import IcyVerif.Model.Font
/-! Executable base64 (RFC 4648 standard alphabet, canonical padding required, trailing bits must be zero —
    the behaviour of `base64::engine::general_purpose::STANDARD`) and decimal formatting/parsing (`{}` of a `usize`,
    `str::parse::<usize>`).  `stdCodec` instantiates the `Codec` of `Model/Font.lean` with them; the correspondence run
    compares them with the real crates (`font b64 …`, every `dcs` / `dcsload` case), and `Lemmas/Base64.lean` PROVES the
    codec laws for them (`decode_encode` for every byte string, `parse_fmt` for every `usize`), so that the DCS round
    trip `dcs_rt_exact` needs no assumption about base64 or number formatting beyond that tie. -/
namespace IcyVerif.B64

def alphabet : List Nat := "ABCDEFGHIJKLMNOPQRSTUVWXYZabcdefghijklmnopqrstuvwxyz0123456789+/".toList.map Char.toNat

def encChar (n : Nat) : Nat := alphabet.getD (n % 64) 65

def encode : List Nat → List Nat
  | a :: b :: c :: rest =>
    let n := a * 65536 + b * 256 + c
    encChar (n / 262144) :: encChar (n / 4096) :: encChar (n / 64) :: encChar n :: encode rest
  | [a, b] =>
    let n := a * 65536 + b * 256
    [encChar (n / 262144), encChar (n / 4096), encChar (n / 64), 61]
  | [a] =>
    let n := a * 65536
    [encChar (n / 262144), encChar (n / 4096), 61, 61]
  | [] => []

def decChar (c : Nat) : Option Nat :=
  if 65 ≤ c ∧ c ≤ 90 then some (c - 65)
  else if 97 ≤ c ∧ c ≤ 122 then some (c - 97 + 26)
  else if 48 ≤ c ∧ c ≤ 57 then some (c - 48 + 52)
  else if c = 43 then some 62
  else if c = 47 then some 63
  else none

def decode : List Nat → Option (List Nat)
  | [] => some []
  | [a, b, 61, 61] =>
    match decChar a, decChar b with
    | some x, some y => if y % 16 = 0 then some [x * 4 + y / 16] else none
    | _, _ => none
  | [a, b, c, 61] =>
    match decChar a, decChar b, decChar c with
    | some x, some y, some z => if z % 4 = 0 then some [x * 4 + y / 16, y % 16 * 16 + z / 4] else none
    | _, _, _ => none
  | a :: b :: c :: d :: rest =>
    match decChar a, decChar b, decChar c, decChar d with
    | some x, some y, some z, some w =>
      (decode rest).map fun r => (x * 4 + y / 16) :: (y % 16 * 16 + z / 4) :: (z % 4 * 64 + w) :: r
    | _, _, _, _ => none
  | _ => none

/-- decimal digits, least significant first (`fuel` > number of digits) -/
def digitsRev : Nat → Nat → List Nat
  | 0, _ => []
  | fuel + 1, n => (48 + n % 10) :: (if n / 10 = 0 then [] else digitsRev fuel (n / 10))

/-- `format!("{n}")` -/
def fmtNat (n : Nat) : List Nat := (digitsRev (n + 1) n).reverse

/-- `str::parse::<usize>()`: optional `+`, at least one ASCII digit, value below 2^64 -/
def parseUsize (s : List Nat) : Option Nat :=
  let ds := match s with | 43 :: r => r | r => r
  if ds.isEmpty then none
  else if ds.all (fun c => 48 ≤ c && c ≤ 57) then
    let v := ds.foldl (fun acc c => acc * 10 + (c - 48)) 0
    if v < 18446744073709551616 then some v else none
  else none

/-- the codec of the real DCS path: crate `base64` STANDARD engine, `{}` / `parse::<usize>` -/
def stdCodec : IcyVerif.Font.Codec := { b64e := encode, b64d := decode, fmt := fmtNat, parse := parseUsize }

end IcyVerif.B64
