/-! # TermGeo — geometry of a terminal buffer driven by the ANSI parser
Model of `src/parsers/mod.rs` (caret primitives, `Buffer::print_char`), `src/terminal_state.rs`,
the geometry getters of `src/buffers.rs` and the control flow of `src/parsers/ansi/{mod,ansi_commands,dcs}.rs`
for a *terminal buffer* (`is_terminal_buffer = true`, layer 0, unlocked and visible).

Cell contents are abstracted away: they influence neither panics nor the cursor geometry, except through
`Line::get_line_length` (HPA/HPR), which is an oracle argument (`Orc.lineLen`). What sub-languages do to
things outside the geometry (palette, fonts, hyperlinks, sixel queue, music list) is not modelled; whether such
an external action reports `Ok` or `Err` is an oracle argument too (`Orc.extOk`).

Integers are unbounded `Int`; every `i32` operation of the Rust code that is not saturating and whose operands
are not constant-bounded is guarded by `rangeOk` (see `guard`) and yields `panic` when it would overflow in a
debug build. -/
namespace IcyVerif.Term

def I32MAX : Int := 2147483647
def I32MIN : Int := -2147483648
/-- clamp into the `i32` range (what `saturating_*` does) -/
def sat (v : Int) : Int := max (-2147483648) (min 2147483647 v)
def satAdd (a b : Int) : Int := sat (a + b)
def satSub (a b : Int) : Int := sat (a - b)
def satMul (a b : Int) : Int := sat (a * b)

/-- terminal state + buffer size -/
structure Scr where
  tw : Int
  th : Int
  bw : Int
  bh : Int
  mtb : Option (Int × Int)
  mlr : Option (Int × Int)
  declrmm : Bool
  autowrap : Bool
  tabs : List Int
deriving Repr, DecidableEq, Inhabited

structure Car where
  x : Int
  y : Int
  ins : Bool
deriving Repr, DecidableEq, Inhabited

inductive Panic where
  | overflow (site : String)
  | clampMinMax
  | negIndex (site : String)
deriving Repr, DecidableEq

abbrev Res (α : Type) := Except Panic α

/-! ## getters (`src/buffers.rs`) -/
def Scr.fv (s : Scr) : Int := max 0 (satSub s.bh s.th)
def Scr.lastVisible (s : Scr) : Int := s.fv + s.bh
def Scr.firstEditable (s : Scr) : Int :=
  match s.mtb with
  | some (t, _) => s.fv + t
  | none => s.fv
def Scr.lastEditable (s : Scr) : Int :=
  match s.mtb with
  | some (_, e) => s.fv + e
  | none => satSub (s.fv + s.bh) 1
def Scr.needsScrolling (s : Scr) : Bool := s.mtb.isSome
def Scr.upperLeft (s : Scr) : Int × Int := (0, s.fv)   -- origin mode is never WithinMargins

/-- the value fits an `i32` -/
def InI32 (v : Int) : Prop := -2147483648 ≤ v ∧ v ≤ 2147483647
instance (v : Int) : Decidable (InI32 v) := by unfold InI32; infer_instance

/-- the plain `+`/`-` sites of the getters and of the one-step cursor moves: all must stay inside `i32`
    (margins lie inside the screen, so `fv + margin` is covered by `fv + th`) -/
def RangeOk (s : Scr) (c : Car) : Prop :=
  InI32 (s.fv + s.bh) ∧ InI32 (s.fv + s.th) ∧ InI32 (c.y + 1) ∧ InI32 (c.x + 1) ∧ InI32 (c.y - 1)
instance (s : Scr) (c : Car) : Decidable (RangeOk s c) := by unfold RangeOk; infer_instance

/-! ## tab stops (`src/terminal_state.rs`) -/
def resetTabsAux (w : Int) : Nat → Int → List Int
  | 0, _ => []
  | fuel+1, i => if i < w then i :: resetTabsAux w fuel (i + 8) else []
def resetTabs (w : Int) : List Int := resetTabsAux w (w.toNat) 0

def nextTabStop (tabs : List Int) (w x : Int) : Int :=
  match tabs.dropWhile (fun t => t ≤ x) with
  | t :: _ => t
  | [] => w
/-- scan from the right for the first stop `< x` -/
def prevTabStop (tabs : List Int) (x : Int) : Int :=
  match tabs.reverse.dropWhile (fun t => t ≥ x) with
  | t :: _ => t
  | [] => 0
def insertSorted (x : Int) : List Int → List Int
  | [] => [x]
  | t :: ts => if x ≤ t then x :: t :: ts else t :: insertSorted x ts
def setTabAt (tabs : List Int) (x : Int) : List Int :=
  if tabs.contains x then tabs else insertSorted x tabs   -- push + sort_unstable of an already sorted list

def resetTerminal (s : Scr) : Scr :=
  { s with mtb := none, mlr := none, declrmm := false, autowrap := true, tabs := resetTabs s.tw }

def setMarginsTB (s : Scr) (top bottom : Int) : Scr :=
  let top := max top 0
  let bottom := min bottom (s.th - 1)
  { s with mtb := if top > bottom then none else some (top, bottom) }
def setMarginsLR (s : Scr) (left right : Int) : Scr :=
  let left := max left 0
  let right := min right (s.tw - 1)
  { s with mlr := if left > right then none else some (left, right) }

/-! ## `TerminalState::limit_caret_pos` (origin mode UpperLeftCorner, terminal buffer) -/
/-- Rust `v.clamp(lo, hi)` for `lo ≤ hi` (the case `lo > hi` panics and is guarded at every call site) -/
def clampI (v lo hi : Int) : Int := max lo (min hi v)
def limit (s : Scr) (c : Car) : Res Car :=
  let first := s.fv
  if first > first + s.th - 1 then .error .clampMinMax   -- Rust `clamp` asserts min <= max
  else .ok { c with y := clampI c.y first (first + s.th - 1), x := clampI c.x 0 (max (s.tw - 1) 0) }

/-! ## caret primitives (`src/parsers/mod.rs`); content effects are dropped -/
def checkScrollDown (s : Scr) (c : Car) (force : Bool) : Car :=
  if (s.needsScrolling = true ∨ force = true) ∧ c.y > s.lastEditable then { c with y := c.y - 1 } else c

def checkScrollUp (s : Scr) (c : Car) (force : Bool) : Car :=
  if (s.needsScrolling = true ∨ force = true) ∧ c.y < s.firstEditable then { c with y := s.firstEditable } else c

def lf (s : Scr) (c : Car) : Res (Scr × Car) :=
  let c1 : Car := { c with x := 0, y := c.y + 1 }
  let s1 : Scr := { s with bh := max s.bh (c1.y + 1) }   -- `if y + 1 > height { set_height(y + 1) }`
  if c.y > s.lastEditable then          -- was_ooe, evaluated before the move
    match limit s1 c1 with
    | .ok c2 => .ok (s1, c2)
    | .error e => .error e
  else .ok (s1, checkScrollDown s1 c1 false)

/-- `Caret::ff`, after the repair that drops the scrollback like `clear_screen` -/
def ff (s : Scr) (c : Car) : Scr × Car :=
  let s := resetTerminal s
  let s := { s with bw := s.tw, bh := s.th }
  (s, { c with x := 0, y := 0 })

def clearScreen (s : Scr) (c : Car) : Scr × Car :=
  ({ s with bw := s.tw, bh := s.th }, { c with x := 0, y := 0 })

def left (s : Scr) (c : Car) (n : Int) : Res Car := limit s { c with x := satSub c.x n }
def right (s : Scr) (c : Car) (n : Int) : Res Car := limit s { c with x := satAdd c.x n }
def up (s : Scr) (c : Car) (n : Int) : Res Car :=
  limit s (checkScrollUp s { c with y := satSub c.y n } false)
def down (s : Scr) (c : Car) (n : Int) : Res Car :=
  limit s (checkScrollDown s { c with y := satAdd c.y n } false)
def index (s : Scr) (c : Car) : Res Car := limit s (checkScrollDown s { c with y := c.y + 1 } true)
def reverseIndex (s : Scr) (c : Car) : Res Car := limit s (checkScrollUp s { c with y := c.y - 1 } true)
def nextLine (s : Scr) (c : Car) : Res Car := limit s (checkScrollDown s { c with y := c.y + 1, x := 0 } true)

/-- `Buffer::print_char` on a terminal buffer -/
def printChar (s : Scr) (c : Car) : Res (Scr × Car) :=
  if c.ins = true ∧ c.y < 0 then .error (.negIndex "print_char insert: lines.resize(y as usize + 1)")
  else if c.ins = true ∧ c.x < 0 then .error (.negIndex "print_char insert: Line::insert_char(x): chars.insert(x as usize)")
  else
    let s1 : Scr := { s with bh := max s.bh (c.y + 1) }   -- `if y + 1 > height { set_height(y + 1) }`
    let c1 : Car := { c with x := c.x + 1 }
    if c1.x ≥ s1.tw then
      if s1.autowrap = true then lf s1 c1 else .ok (s1, { c1 with x := c1.x - 1 })
    else .ok (s1, c1)

/-! ## content operations that index a row or the row table with the cursor
Their effect on cells is not modelled, but the places where they turn a cursor coordinate or a margin into an
index are: a negative value there is a Rust panic (`as usize` index out of range, `assert!(index >= 0)`).  The
conditions are *conservative*: they do not know whether the addressed row exists (`lines.get_mut(y)` skips the
operation when it does not), so they may report a panic where the code would return early — only in states with a
negative cursor coordinate or margin, which the theorems show unreachable. -/
/-- bottom margin as `Buffer::{insert,remove}_terminal_line` read it (`(_, end)` of the top/bottom margins) -/
def mtbBottom (s : Scr) : Int := match s.mtb with | some (_, e) => e | none => 0
/-- `Buffer::insert_terminal_line(y)`: `lines.remove(end as usize)` when `end < line_count` (true for a negative
    `end`), then `Layer::insert_line(y)` asserts `y >= 0`; `Buffer::remove_terminal_line(y)`: `Layer::remove_line(y)`
    asserts `y >= 0` (after `y >= line_count` returned early), then `insert_line(end)` asserts `end >= 0` -/
def LineOpPanics (s : Scr) (y : Int) : Prop := y < 0 ∨ mtbBottom s < 0
instance (s : Scr) (y : Int) : Decidable (LineOpPanics s y) := by unfold LineOpPanics; infer_instance
/-- `Caret::erase_charcter(n)`: `n' = min(width - x, n)`; for `n' > 0` and an existing row `Line::set_char(x)`
    indexes `chars[x as usize]` -/
def EchPanics (s : Scr) (c : Car) (n : Int) : Prop := c.x < 0 ∧ min (s.tw - c.x) n > 0
instance (s : Scr) (c : Car) (n : Int) : Decidable (EchPanics s c n) := by unfold EchPanics; infer_instance

/-- `print_char` n times (REP, Avatar repeat) -/
def printN : Nat → Scr → Car → Res (Scr × Car)
  | 0, s, c => .ok (s, c)
  | n+1, s, c =>
    if ¬ RangeOk s c then .error (.overflow "print_char") else
    match printChar s c with
    | .ok (s, c) => printN n s c
    | .error e => .error e

/-! ## parser state -/
/-- `sound::MusicState` with its payloads -/
inductive MusicSt where
  | dflt | style | tempo (x : Nat) | pause (x : Int) | octave | note (n : Nat) (len : Int) | length (x : Int)
deriving Repr, DecidableEq, Inhabited

/-- `sound::MusicAction`; a note is the index into `FREQ` (84 entries), a style 0..4 = F B N L S -/
inductive MAct where
  | note (idx : Nat) (len : Int) (dotted : Bool) | pause (v : Int) | style (s : Nat)
deriving Repr, DecidableEq, Inhabited

/-- the music fields of `ansi::Parser` + what `PlayMusic` handed out last -/
structure Mus where
  oct : Nat := 3             -- cur_octave
  mlen : Int := 4            -- cur_length
  tempo : Int := 120         -- cur_tempo
  dotted : Bool := false     -- dotted_note
  acts : List MAct := []     -- cur_music.music_actions
  last : List MAct := []     -- payload of the last `CallbackAction::PlayMusic`
  tunes : Nat := 0           -- number of `PlayMusic` actions so far
deriving Repr, Inhabited

inductive PSt where
  | dflt | esc | csi (start : Bool) | csiCmd | csiReq | rip | devAttr | endCsi (c : Char)
  | dcs | dcsEsc | dcsMacro (i : Nat) | music (m : MusicSt) | aps | apsEsc | osc | oscEsc
deriving Repr, DecidableEq, Inhabited

structure Par where
  st : PSt := .dflt
  nums : List Int := []
  savedPos : Int × Int := (0, 0)
  savedCar : Option Car := none
  str : List Char := []          -- parse_string
  mdcs : List Char := []         -- macro_dcs
  macros : List (Nat × List Char) := []
  budget : Nat := 0
  tick : Nat := 0                -- index of the next oracle read
  resized : Bool := false        -- a text-area resize (CSI 8;h;w t) was executed, possibly inside a macro
  mus : Mus := {}
deriving Repr, Inhabited

/-- configuration that never changes during a run -/
structure Cfg where
  musicOpt : Nat      -- 0 off, 1 conflicting, 2 banana, 3 both
  bsCtrl : Bool
deriving Repr, Inhabited

structure St where
  s : Scr
  c : Car
  p : Par
deriving Repr, Inhabited

/-- oracle: what the model does not compute itself -/
structure Orc where
  lineLen : Int     -- `Line::get_line_length` of the caret row of layer 0, or -1 when the row does not exist
  extOk : Bool      -- does the external action (OSC execution, custom font load) report Ok?
deriving Repr, Inhabited

inductive Out where
  | ok | err | resize
deriving Repr, DecidableEq, Inhabited

def parseNextNumber (x : Int) (ch : Char) : Int := satSub (satAdd (satMul x 10) ch.toNat) 48

def pushDigit (nums : List Int) (ch : Char) : List Int :=
  match nums.reverse with
  | d :: rest => (parseNextNumber d ch :: rest).reverse
  | [] => [parseNextNumber 0 ch]

def isDigit (ch : Char) : Bool := '0' ≤ ch && ch ≤ '9'

def macroGet (ms : List (Nat × List Char)) (id : Nat) : Option (List Char) :=
  match ms with
  | [] => none
  | (k, v) :: rest => if k = id then some v else macroGet rest id
def macroSet (ms : List (Nat × List Char)) (id : Nat) (v : List Char) : List (Nat × List Char) :=
  (id, v) :: ms.filter (fun e => e.1 ≠ id)

def MAX_MACRO_DEPTH : Nat := 8
def MAX_MACRO_EXPANSION : Nat := 65536
def MAX_MACRO_LEN : Nat := 32767

/-! ## SGR (`select_graphic_rendition`): only Ok/Err matters here -/
def sgrExt (nums : List Int) (i : Nat) : Option Nat :=   -- returns the new index, none = Err
  if i + 1 ≥ nums.length then none else
  match (nums[i+1]? : Option Int) with
  | some 5 =>
    if i + 3 > nums.length then none else
    let color := nums.getD (i+2) 0
    if 0 ≤ color ∧ color ≤ 255 then some (i + 3) else none
  | some 2 =>
    if i + 5 > nums.length then none else
    let r := nums.getD (i+2) 0; let g := nums.getD (i+3) 0; let b := nums.getD (i+4) 0
    if 0 ≤ r ∧ r ≤ 255 ∧ 0 ≤ g ∧ g ≤ 255 ∧ 0 ≤ b ∧ b ≤ 255 then some (i + 5) else none
  | _ => none

def sgrLoop (nums : List Int) : Nat → Nat → Bool   -- fuel, index → ok?
  | 0, _ => true
  | fuel+1, i =>
    if i ≥ nums.length then true else
    let n := nums.getD i 0
    if n = 38 ∨ n = 48 then
      match sgrExt nums i with
      | some j => sgrLoop nums fuel j
      | none => false
    else if (0 ≤ n ∧ n ≤ 25) ∨ n = 28 ∨ n = 29 ∨ (30 ≤ n ∧ n ≤ 37) ∨ n = 39 ∨ (40 ≤ n ∧ n ≤ 47) ∨ n = 49 ∨
        n = 53 ∨ n = 55 ∨ (90 ≤ n ∧ n ≤ 97) ∨ (100 ≤ n ∧ n ≤ 107) then sgrLoop nums fuel (i + 1)
    else false
def sgrOk (nums : List Int) : Bool := sgrLoop nums (nums.length + 1) 0

/-! ## hex macro (`parse_hex_macro_sequence`) -/
def hexVal (c : Char) : Option Nat :=
  let u := if 'a' ≤ c ∧ c ≤ 'z' then Char.ofNat (c.toNat - 32) else c
  if '0' ≤ u ∧ u ≤ '9' then some (u.toNat - 48)
  else if 'A' ≤ u ∧ u ≤ 'F' then some (u.toNat - 55) else none
/-- first nibble is NOT upper-cased by the Rust code (`HEX_TABLE` holds upper-case digits only) -/
def hexValExact (c : Char) : Option Nat :=
  if '0' ≤ c ∧ c ≤ '9' then some (c.toNat - 48)
  else if 'A' ≤ c ∧ c ≤ 'F' then some (c.toNat - 55) else none

/-- `String::len`: the number of UTF-8 bytes -/
def strLen (l : List Char) : Nat := (l.map Char.utf8Size).sum

def pushRepeated (dst rec : List Char) (n : Int) : List Char :=
  if rec.isEmpty then dst else
  let room := (MAX_MACRO_LEN - strLen dst) / strLen rec
  let k := min n.toNat room
  dst ++ (List.replicate k rec).flatten

inductive HexSt where
  | first | second (c : Char) | rep (n : Int)

/-- returns none on Err -/
def hexMacro : List Char → HexSt → Bool → List Char → Int → List Char → Option (List Char)
  | [], _, readRepeat, repRec, repN, mac => some (if readRepeat then pushRepeated mac repRec repN else mac)
  | ch :: rest, .first, readRepeat, repRec, repN, mac =>
    if ch = ';' ∧ readRepeat then hexMacro rest .first false repRec repN (pushRepeated mac repRec repN)
    else if ch = '!' then hexMacro rest (.rep 0) readRepeat repRec repN mac
    else hexMacro rest (.second ch) readRepeat repRec repN mac
  | ch :: rest, .second f, readRepeat, repRec, repN, mac =>
    match hexValExact f, hexVal ch with
    | some a, some b =>
      let cc := Char.ofNat (a * 16 + b)
      if readRepeat then hexMacro rest .first readRepeat (repRec ++ [cc]) repN mac
      else hexMacro rest .first readRepeat repRec repN (mac ++ [cc])
    | _, _ => none
  | ch :: rest, .rep n, readRepeat, repRec, repN, mac =>
    if isDigit ch then hexMacro rest (.rep (parseNextNumber n ch)) readRepeat repRec repN mac
    else if ch = ';' then hexMacro rest .first true [] n mac
    else none

/-! ## DCS execution (`execute_dcs`) -/
def takeNums : List Char → List Int → List Int × List Char
  | [], nums => (nums, [])
  | ch :: rest, nums =>
    if isDigit ch then takeNums rest (pushDigit nums ch)
    else if ch = ';' then takeNums rest (nums ++ [0])
    else (nums, ch :: rest)

def startsWith (l pre : List Char) : Bool := pre.isPrefixOf l

def executeDcs (p : Par) (o : Orc) : Par × Out :=
  if startsWith p.str "CTerm:Font:".toList then (p, if o.extOk then .ok else .err)
  else
    let (nums, rest) := takeNums p.str []
    let p := { p with nums := nums }
    match rest with
    | '!' :: 'z' :: body =>
      match nums.head? with
      | none => (p, .err)
      | some pid =>
        let p := if nums[1]? = some (1 : Int) then { p with macros := [] } else p
        match (nums[2]? : Option Int) with
        | some 0 => ({ p with macros := macroSet p.macros pid.toNat body }, .ok)
        | some 1 =>
          match hexMacro body .first false [] 0 [] with
          | some m => ({ p with macros := macroSet p.macros pid.toNat m }, .ok)
          | none => (p, .err)
        | _ => (p, .err)
    | 'q' :: _ => ({ p with str := [] }, .ok)   -- sixel decode thread spawned; `mem::take(parse_string)`
    | _ => (p, .err)

/-! ## ANSI music state machine (`sound.rs`): states with their payloads, octave / length / tempo, the action list
of the tune being read, and what the terminator `0x0E` hands out (`PlayMusic`).  `SetLength` and `Pause` do not
reset the parser state before they pass a character on to `parse_default_ansi_music` (so a pause is emitted again
for every further ignored character) — copied. -/
def FREQ_LEN : Nat := 84

/-- `parse_default_ansi_music`; `cur` is the state `self.state` holds when it is called -/
def musicDefault (cur : MusicSt) (mus : Mus) (ch : Char) : PSt × Mus :=
  if ch = '\x0e' then (.dflt, { mus with oct := 3, last := mus.acts, acts := [], tunes := mus.tunes + 1 })
  else if ch = 'T' then (.music (.tempo 0), mus)
  else if ch = 'L' then (.music (.length 0), mus)
  else if ch = 'O' then (.music .octave, mus)
  else if ch = 'C' then (.music (.note 0 0), mus)
  else if ch = 'D' then (.music (.note 2 0), mus)
  else if ch = 'E' then (.music (.note 4 0), mus)
  else if ch = 'F' then (.music (.note 5 0), mus)
  else if ch = 'G' then (.music (.note 7 0), mus)
  else if ch = 'A' then (.music (.note 9 0), mus)
  else if ch = 'B' then (.music (.note 11 0), mus)
  else if ch = 'M' then (.music .style, mus)
  else if ch = '<' then (.music cur, { mus with oct := mus.oct - 1 })
  else if ch = '>' then (.music cur, { mus with oct := if mus.oct < 6 then mus.oct + 1 else mus.oct })
  else if ch = 'P' then (.music (.pause 0), mus)
  else (.music cur, mus)

/-- index of the note that is played: `FREQ[(n + cur_octave * 12).min(FREQ.len() - 1)]` -/
def freqIdx (n oct : Nat) : Nat := min (n + oct * 12) (FREQ_LEN - 1)

/-- `parse_ansi_music`: new parser state, new music fields, Ok/Err -/
def musicStep (m : MusicSt) (mus : Mus) (ch : Char) : PSt × Mus × Out :=
  match m with
  | .style =>
    if ch = 'F' then (.music .dflt, { mus with acts := mus.acts ++ [.style 0] }, .ok)
    else if ch = 'B' then (.music .dflt, { mus with acts := mus.acts ++ [.style 1] }, .ok)
    else if ch = 'N' then (.music .dflt, { mus with acts := mus.acts ++ [.style 2] }, .ok)
    else if ch = 'L' then (.music .dflt, { mus with acts := mus.acts ++ [.style 3] }, .ok)
    else if ch = 'S' then (.music .dflt, { mus with acts := mus.acts ++ [.style 4] }, .ok)
    else ((musicDefault .dflt mus ch).1, (musicDefault .dflt mus ch).2, .ok)
  | .tempo x =>
    -- `parse_next_number(x as i32, ch) as u16`
    if isDigit ch then (.music (.tempo ((parseNextNumber x ch).toNat % 65536)), mus, .ok)
    else
      let mus := { mus with tempo := clampI x 32 255 }
      ((musicDefault .dflt mus ch).1, (musicDefault .dflt mus ch).2, .ok)
  | .octave =>
    if '0' ≤ ch ∧ ch ≤ '6' then (.music .dflt, { mus with oct := ch.toNat - 48 }, .ok) else (.music .octave, mus, .err)
  | .note n len =>
    if ch = '+' ∨ ch = '#' then ((if n + 1 < FREQ_LEN then .music (.note (n + 1) len) else .music .dflt), mus, .ok)
    else if ch = '-' then ((if n > 0 then .music (.note (n - 1) len) else .music .dflt), mus, .ok)
    else if isDigit ch then (.music (.note n (parseNextNumber len ch)), mus, .ok)
    else if ch = '.' then (.music (.note n (satMul len 3 / 2)), { mus with dotted := true }, .ok)
    else
      let l := if len = 0 then mus.mlen else len
      let mus := { mus with acts := mus.acts ++ [.note (freqIdx n mus.oct) (satMul mus.tempo l) mus.dotted], dotted := false }
      ((musicDefault .dflt mus ch).1, (musicDefault .dflt mus ch).2, .ok)
  | .length x =>
    if isDigit ch then (.music (.length (parseNextNumber x ch)), mus, .ok)
    else if ch = '.' then (.music (.length (satMul x 3 / 2)), mus, .ok)
    else
      let mus := { mus with mlen := clampI x 1 64 }
      ((musicDefault (.length x) mus ch).1, (musicDefault (.length x) mus ch).2, .ok)
  | .pause x =>
    if isDigit ch then (.music (.pause (parseNextNumber x ch)), mus, .ok)
    else if ch = '.' then (.music (.pause (satMul x 3 / 2)), mus, .ok)
    else
      let mus := { mus with acts := mus.acts ++ [.pause (mus.tempo * clampI x 1 64)] }
      ((musicDefault (.pause x) mus ch).1, (musicDefault (.pause x) mus ch).2, .ok)
  | .dflt => ((musicDefault .dflt mus ch).1, (musicDefault .dflt mus ch).2, .ok)

/-- the one plain `i32` multiplication of `sound.rs`: `self.cur_tempo * pause` when a pause is emitted -/
def MusicSafe (ps : PSt) (mus : Mus) (ch : Char) : Prop :=
  match ps with
  | .music (.pause x) => isDigit ch = true ∨ ch = '.' ∨ InI32 (mus.tempo * clampI x 1 64)
  | _ => True
instance (ps : PSt) (mus : Mus) (ch : Char) : Decidable (MusicSafe ps mus ch) := by
  unfold MusicSafe; split <;> infer_instance

/-- entering music mode (`CSI M` / `CSI N` / `CSI |`): a fresh action list, `dotted_note = false` -/
def musicEnter (mus : Mus) : Mus := { mus with acts := [], dotted := false }

end IcyVerif.Term
