import IcyVerif.Model.Igs
import IcyVerif.Model.IgsPaint
/-! The IGS lexer model and the `DrawExecutor` model put together: what `Parser::print_char` and
`Parser::get_next_action` do to the canvas, including the parameter arithmetic of the `&` loop command
(`Loop::next_step`: `x`, `y`, `+n`, `-n`, `!n` parameters). -/
namespace IcyVerif.IgsCanvas
open IcyVerif.Igs IcyVerif.IgsPaint

/-- the parameters `Loop::next_step` hands to `execute_command` for the current iteration -/
def loopValue (l : Loop) (pstr : List Nat) : Res (Option Int) := do
  let (mode, body) : Nat × List Nat := match pstr with
    | 43 :: r => (1, r)
    | 45 :: r => (2, r)
    | 33 :: r => (3, r)
    | r => (0, r)
  let x ← chk (l.i.natAbs : Int)
  let t1 ← chk (l.to - 1)
  let t2 ← chk (t1 - l.i)
  let y ← chk (t2.natAbs : Int)
  let base : Option Int := if body = [120] then some x else if body = [121] then some y else parseDec body
  match base with
  | none => pure none
  | some v =>
    let v1 ← if mode = 1 then chk (v + x) else pure v
    let v2 ← if mode = 2 then chk (x - v1) else pure v1
    let v3 ← if mode = 3 then chk (v2 - x) else pure v2
    pure (some v3)

def loopParams (l : Loop) : Res (List Int) := do
  if l.params.length = 0 then .panic else
  let d ← chk (l.i - l.from_)
  let cur := usize d % l.params.length
  let group := l.params.getD cur []
  group.foldlM (fun (acc : List Int) pstr => do
    let v ← loopValue l pstr
    match v with
    | some x => pure (acc ++ [x])
    | none => pure acc) []

structure St where
  lex : Igs
  paint : Paint

def St.init : St := ⟨Igs.init, Paint.new⟩

inductive COut where
  | lexer (o : Igs.Out)
  /-- `execute_command` answered `Ok` with this letter / `Err` -/
  | ran (letter : Char)
  | ranErr
  deriving Repr

inductive CRes where
  | ok (s : St) (o : COut)
  | panic
  | stall
  | unmodelled

def runExec (lex' : Igs) (paint : Paint) (c : Nat) (ps : Res (List Int)) : CRes :=
  match ps with
  | .panic => .panic
  | .stall => .stall
  | .ok params =>
    match IgsPaint.exec paint (Gen.Igs.commandNames.getD c "?") params with
    | .ok p letter => .ok ⟨lex', p⟩ (.ran letter)
    | .err p => .ok ⟨lex', p⟩ .ranErr
    | .panic => .panic
    | .stall => .stall
    | .unmodelled => .unmodelled

/-- is the lexer inside the `&` loop sub-machine (an `exec` it yields is the first loop iteration)? -/
def inLoopMachine (s : Igs) : Bool :=
  match s.st with
  | .readCommand c => c == Gen.Igs.idxLoopCommand && decide (s.nums.length ≥ 4)
  | _ => false

/-- one character through `print_char` -/
def step (s : St) (ch : Nat) : CRes :=
  match Igs.step s.lex ch with
  | .panic _ => .panic
  | .ok lex' (.exec c ps _) =>
    if inLoopMachine s.lex then runExec lex' s.paint c (loopParams (mkLoop s.lex c))
    else runExec lex' s.paint c (.ok ps)
  | .ok lex' o => .ok ⟨lex', s.paint⟩ (.lexer o)

/-- `get_next_action` -/
def nextAction (s : St) : CRes :=
  match Igs.nextAction s.lex with
  | .panic _ => .panic
  | .ok lex' (.exec c _ _) =>
    match s.lex.cur with
    | some l => runExec lex' s.paint c (loopParams l)
    | none => .panic
  | .ok lex' o => .ok ⟨lex', s.paint⟩ (.lexer o)

/-- `n` calls of `get_next_action`, stopping when no loop is active -/
def drain : Nat → St → CRes
  | 0, s => .ok s (.lexer .noUpdate)
  | n + 1, s =>
    match s.lex.cur with
    | none => .ok s (.lexer .noUpdate)
    | some _ =>
      match nextAction s with
      | .ok s' _ => drain n s'
      | r => r

end IcyVerif.IgsCanvas
