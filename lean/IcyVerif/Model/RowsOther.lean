import IcyVerif.Model.RowsAnsi
import IcyVerif.Model.TermOther
/-! # Rows x TermGeo for ASCII, ATASCII, PETSCII, Viewdata and Mode 7
(`src/parsers/{ascii,atascii,petscii,viewdata,mode7}/mod.rs`).  Geometry and the escape flag come from `Term.ostep`;
the parser flags that only the content operations read (`shift_mode` of PETSCII, `got_esc` / `is_in_graphic_mode` of
Viewdata, `is_in_graphic_mode` of Mode 7) are kept here. -/
namespace IcyVerif.Rows
open IcyVerif.Term

/-- parser flags read by content operations only -/
structure OX where
  shift : Bool := false      -- PETSCII `shift_mode`
  vdEsc : Bool := false      -- Viewdata `got_esc`
  graphic : Bool := false    -- Viewdata / Mode 7 `is_in_graphic_mode`
deriving Repr, DecidableEq, Inhabited

/-- `Buffer::print_value(v)`: nothing for a surrogate -/
def printValueT (s : Scr) (c : Car) (v : Nat) (t : Tab) : RRes Tab :=
  if 55296 ≤ v ∧ v ≤ 57343 then .ok t else printCharT s c t

def asciiRows (st : OSt) (ch : Char) (t : Tab) : RRes Tab :=
  let s := st.s; let c := st.c
  if ch = '\x00' ∨ ch = '\xff' then .ok t
  else if ch = '\x07' then .ok t
  else if ch = '\n' then lfT s c t
  else if ch = '\x0c' then .ok (ffT t)
  else if ch = '\r' then .ok t
  else if ch = '\x08' then bsT c t
  else if ch = '\x7f' then delT c t
  else printValueT s c (ch.toNat % 65536) t

def atasciiRows (st : OSt) (ch : Char) (t : Tab) : RRes Tab :=
  let s := st.s; let c := st.c
  if st.esc then printValueT s c (ch.toNat % 65536) t
  else if ch = '\x1b' then .ok t
  else if ch = '\x1c' then checkScrollUpT s { c with y := satSub c.y 1 } false t
  else if ch = '\x1d' then checkScrollDownT s { c with y := satAdd c.y 1 } false t
  else if ch = '\x1e' ∨ ch = '\x1f' then .ok t
  else if ch = '\x7d' then .ok (clearScreenT t)
  else if ch = '\x7e' then bsT c t
  else if ch = '\x7f' ∨ ch = '\x9e' ∨ ch = '\x9f' then .ok t
  else if ch = '\x9b' then lfT s c t
  else if ch = '\x9c' then removeTerminalLine s c.y t
  else if ch = '\x9d' then insertTerminalLine s c.y t
  else if ch = '\xfd' then .ok t
  else if ch = '\xfe' then delT c t
  else if ch = '\xff' then insT c t
  else
    let v := ch.toNat % 65536
    printValueT s c (if v > 127 then v - 128 else v) t

/-- PETSCII; returns the new `shift_mode` too -/
def petsciiRows (st : OSt) (x : OX) (ch : Char) (t : Tab) : RRes (OX × Tab) :=
  let s := st.s; let c := st.c
  let b := ch.toNat % 256
  let keep (r : RRes Tab) : RRes (OX × Tab) := andThen r fun t => .ok (x, t)
  if st.esc then
    if b = 81 then keep (clearLineEnd s c t)            -- 'Q'
    else if b = 80 then keep (clearLineStart s c t)     -- 'P'
    else if b = 64 then keep (clearBufferDown s c t)    -- '@'
    else if b = 68 then keep (removeTerminalLine s c.y t)   -- 'D'
    else if b = 73 then keep (insertTerminalLine s c.y t)   -- 'I'
    else .ok (x, t)
  else if b = 0x0D ∨ b = 0x8D then keep (lfT s c t)
  else if b = 0x0E then
    if x.shift = false then .ok (x, t) else andThen (repaintAll s t) fun t => .ok ({ x with shift := false }, t)
  else if b = 0x8E then
    if x.shift = true then .ok (x, t) else andThen (repaintAll s t) fun t => .ok ({ x with shift := true }, t)
  else if b = 0x11 then keep (checkScrollDownT s { c with y := satAdd c.y 1 } false t)
  else if b = 0x14 then keep (bsT c t)
  else if b = 0x91 then keep (checkScrollUpT s { c with y := satSub c.y 1 } false t)
  else if b = 0x93 then .ok (x, clearScreenT t)
  else if b = 0x0A ∨ b = 0x13 ∨ b = 0x1B ∨ b = 0x1D ∨ b = 0x9D then .ok (x, t)
  else if b = 0xFF then keep (printCharT s c t)
  else if petsciiControls.contains b then .ok (x, t)
  else match petsciiTch b with
    | some _ => keep (printCharT s c t)
    | none => .ok (x, t)

/-- Viewdata: `interpret_char` prints one cell with `Layer::set_char` and moves right; attribute codes repaint the
    rest of the row (`fill_to_eol`, `cnt` cells) before and/or after.  A move to another row resets the flags. -/
def viewdataRows (st : OSt) (x : OX) (ch : Char) (cnt : Nat) (t : Tab) : RRes (OX × Tab) :=
  let s := st.s; let c := st.c
  let b := ch.toNat % 256
  let reset : OX := { x with vdEsc := false, graphic := false }
  if b = 8 ∨ b = 11 ∨ b = 13 ∨ b = 30 then .ok ({ x with vdEsc := false }, t)
  else if b = 9 then .ok (if c.x + 1 ≥ s.tw then reset else { x with vdEsc := false }, t)
  else if b = 10 then .ok (reset, t)
  else if b = 12 then .ok (reset, layerClear t)
  else if b = 14 ∨ b = 15 ∨ b = 28 ∨ b = 29 then .ok (x, t)
  else if b = 27 then .ok ({ x with vdEsc := true }, t)
  else if b < 32 then .ok ({ x with vdEsc := false }, t)
  else
    -- interpret_char
    let pre : RRes (OX × Tab) :=
      if x.vdEsc then
        if b = 92 ∨ b = 93 ∨ b = 73 ∨ b = 76 then andThen (fillToEol s c cnt t) fun t => .ok (x, t)   -- \ ] I L
        else if b = 88 then (if x.graphic then .ok (x, t) else andThen (fillToEol s c cnt t) fun t => .ok (x, t))   -- X
        else if b = 89 ∨ b = 94 then .ok ({ x with graphic := true }, t)    -- Y ^
        else .ok (x, t)
      else .ok (x, t)
    andThen pre fun (x1, t) =>
    andThen (layerSetChar t c.x c.y) fun t =>
    let wraps : Bool := decide (c.x + 1 ≥ s.tw)
    let c1 := vdRight s c
    let x2 : OX := if wraps then { x1 with vdEsc := false, graphic := false } else x1
    if x2.vdEsc then
      if 65 ≤ b ∧ b ≤ 71 then andThen (fillToEol s c1 cnt t) fun t => .ok ({ x2 with graphic := false, vdEsc := false }, t)
      else if 81 ≤ b ∧ b ≤ 87 then andThen (fillToEol s c1 cnt t) fun t => .ok ({ x2 with graphic := true, vdEsc := false }, t)
      else if b = 72 ∨ b = 77 then andThen (fillToEol s c1 cnt t) fun t => .ok ({ x2 with vdEsc := false }, t)
      else .ok ({ x2 with vdEsc := false }, t)
    else .ok (x2, t)

/-- Mode 7 `print_char`: `Layer::set_char` at the cursor, then `caret_right` (at the right edge: `Caret::index`,
    which may scroll the page content) -/
def m7PrintT (s : Scr) (c : Car) (t : Tab) : RRes Tab :=
  andThen (layerSetChar t c.x c.y) fun t =>
  if c.x + 1 ≥ s.tw then checkScrollDownT s { c with x := 0, y := c.y + 1 } true t else .ok t

def mode7Rows (st : OSt) (x : OX) (ch : Char) (cnt : Nat) (t : Tab) : RRes (OX × Tab) :=
  let s := st.s; let c := st.c
  let b := ch.toNat % 256
  let keep (x : OX) (r : RRes Tab) : RRes (OX × Tab) := andThen r fun t => .ok (x, t)
  let fillPrint (x : OX) : RRes (OX × Tab) := keep x (andThen (fillToEol s c cnt t) fun t => m7PrintT s c t)
  if b = 9 then keep x (if c.x + 1 ≥ s.tw then checkScrollDownT s { c with x := 0, y := c.y + 1 } true t else .ok t)
  else if b = 10 then keep x (checkScrollDownT s { c with y := c.y + 1 } true t)
  else if b = 12 then .ok (x, layerClear t)
  else if b < 32 then .ok (x, t)
  else if b = 127 then keep x (bsT c t)
  else if 129 ≤ b ∧ b ≤ 135 then fillPrint { x with graphic := false }
  else if b = 136 ∨ b = 137 ∨ b = 140 ∨ b = 141 ∨ b = 156 ∨ b = 157 then fillPrint x
  else if 145 ≤ b ∧ b ≤ 151 then fillPrint { x with graphic := true }
  else if b = 152 then (if x.graphic then keep x (m7PrintT s c t) else fillPrint x)
  else if b = 153 ∨ b = 154 then keep { x with graphic := true } (m7PrintT s c t)
  else if b = 158 then .ok ({ x with graphic := true }, t)
  else if b = 159 then .ok ({ x with graphic := false }, t)
  else keep x (m7PrintT s c t)

def orows (e : Emu2) (st : OSt) (x : OX) (ch : Char) (cnt : Nat) (t : Tab) : RRes (OX × Tab) :=
  match e with
  | .ascii => andThen (asciiRows st ch t) fun t => .ok (x, t)
  | .atascii => andThen (atasciiRows st ch t) fun t => .ok (x, t)
  | .petscii => petsciiRows st x ch t
  | .viewdata => viewdataRows st x ch cnt t
  | .mode7 => mode7Rows st x ch cnt t

abbrev OJ := OSt × OX × Tab

/-- one character: geometry by `Term.ostep`, content by `orows` on the state before the character;
    `cnt` = number of cells a `fill_to_eol` of this character visits (content-dependent, see `fillToEol`) -/
def ostepJ (e : Emu2) (x : OJ) (ch : Char) (cnt : Nat) : JRes (OJ × Out) :=
  match ostep e x.1 ch with
  | .error p => .error (.geo p)
  | .ok (st', out) =>
    match orows e x.1 x.2.1 ch cnt x.2.2 with
    | .ok (ox', t') => .ok ((st', ox', t'), out)
    | .error site => .error (.rows site)

/-- a stream with its per-character `fill_to_eol` counts -/
def orunJ (e : Emu2) : OJ → List (Char × Nat) → JRes OJ
  | x, [] => .ok x
  | x, (ch, cnt) :: rest =>
    match ostepJ e x ch cnt with
    | .ok (x', _) => orunJ e x' rest
    | .error e => .error e

end IcyVerif.Rows
