/-! # Byte cursors with explicit failure (DESIGN §3.4)

A loader model returns a `Res`: a value, the loader's own error (`Err(..)`/`None` in Rust), or a Rust
**panic** tagged with the enclosing function.  Every Rust `data[o]`, `data[a..b]`, `try_into().unwrap()`,
`len - k` on `usize`, and every `i32` `+`/`-` that can leave `[-2^31, 2^31)` in the debug profile is one of
the operations below, so "the loader cannot panic" is literally "the model function never returns `.panic`".

`usize` values are unbounded `Nat` (offsets are bounded by `len + 2^33`, far below `2^64`; stated as an
assumption in the evidence), `i32` values are `Int` with explicit range checks. -/
namespace IcyVerif.Bytes

abbrev Bytes := Array Nat

inductive Res (α : Type) where
  | ok : α → Res α
  | err : Res α
  | panic : String → Res α
  deriving Repr, DecidableEq

namespace Res
@[inline] def bind {α β : Type} (x : Res α) (f : α → Res β) : Res β :=
  match x with
  | .ok a => f a
  | .err => .err
  | .panic s => .panic s

instance : Monad Res where
  pure := .ok
  bind := Res.bind

/-- the property: not a panic -/
def NoPanic {α : Type} (r : Res α) : Prop := ∀ s, r ≠ .panic s

def isPanic {α : Type} : Res α → Bool
  | .panic _ => true
  | _ => false
end Res

/-- the byte at `o` (model bytes are naturals; they are taken mod 256, so every value read is a `u8`) -/
@[inline] def byteAt (d : Bytes) (o : Nat) : Nat := d.getD o 0 % 256

/-- `data[o]` -/
@[inline] def rd (site : String) (d : Bytes) (o : Nat) : Res Nat :=
  if o < d.size then .ok (byteAt d o) else .panic site

/-- `&data[a..b]` (only the bounds matter: `a <= b <= len`) -/
@[inline] def slice (site : String) (d : Bytes) (a b : Nat) : Res Unit :=
  if a ≤ b ∧ b ≤ d.size then .ok () else .panic site

/-- `a - b` on `usize` -/
@[inline] def usub (site : String) (a b : Nat) : Res Nat :=
  if b ≤ a then .ok (a - b) else .panic site

def i32Min : Int := -2147483648
def i32Max : Int := 2147483647

/-- result of an `i32` `+`/`-` in the debug profile -/
@[inline] def chk32 (site : String) (v : Int) : Res Int :=
  if i32Min ≤ v ∧ v ≤ i32Max then .ok v else .panic site

/-- `x as i32` for a 32-bit pattern `x < 2^32` (wrapping) -/
def asI32 (x : Nat) : Int :=
  let m := x % 4294967296
  if m < 2147483648 then (m : Int) else (m : Int) - 4294967296

/-- little-endian u16 at `o`, both bytes read with `data[o]`, `data[o + 1]` -/
def rdU16 (site : String) (d : Bytes) (o : Nat) : Res Nat :=
  match rd site d o with
  | .ok a => (match rd site d (o + 1) with
    | .ok b => .ok (a + b * 256)
    | .err => .err
    | .panic s => .panic s)
  | .err => .err
  | .panic s => .panic s

/-- `u32::from_le_bytes(bytes[o..(o + 4)].try_into().unwrap())` -/
def rdU32 (site : String) (d : Bytes) (o : Nat) : Res Nat :=
  match slice site d o (o + 4) with
  | .ok _ => .ok (byteAt d o + byteAt d (o + 1) * 256 + byteAt d (o + 2) * 65536 + byteAt d (o + 3) * 16777216)
  | .err => .err
  | .panic s => .panic s

/-- `u16::from_le_bytes(bytes[o..(o + 2)].try_into().unwrap())` -/
def rdU16s (site : String) (d : Bytes) (o : Nat) : Res Nat :=
  match slice site d o (o + 2) with
  | .ok _ => .ok (byteAt d o + byteAt d (o + 1) * 256)
  | .err => .err
  | .panic s => .panic s

/-- `u64::from_le_bytes(bytes[o..(o + 8)].try_into().unwrap())` -/
def rdU64 (site : String) (d : Bytes) (o : Nat) : Res Nat :=
  match slice site d o (o + 8) with
  | .ok _ => .ok ((List.range 8).foldr (fun i acc => byteAt d (o + i) + acc * 256) 0)
  | .err => .err
  | .panic s => .panic s

/-- does `d[o .. o + pat.length]` equal `pat`? (callers have checked the bounds) -/
def matchAt (d : Bytes) (o : Nat) (pat : List Nat) : Bool :=
  (List.range pat.length).all fun i => byteAt d (o + i) == pat.getD i 0

end IcyVerif.Bytes
