import IcyVerif.Model.TermAnsi
/-! # Avatar, PCBoard, Ctrl-A and Renegade: thin state machines in front of the ANSI parser
(`src/parsers/{avatar,pcboard,ctrla,renegade}/mod.rs`).  Only what can move the cursor or change the buffer size is
modelled; colour prefixes are consumed without geometric effect.  The wrapped ANSI parser is `step` with
`bsCtrl = false` (the wrappers use `ansi::Parser::default()`). -/
namespace IcyVerif.Term

inductive Emu where
  | avatar | pcboard | ctrla | renegade
deriving Repr, DecidableEq, Inhabited

inductive AvtSt where
  | chars | readCommand | repeatChars (k : Nat) | readColor | moveCursor (k : Nat)
deriving Repr, DecidableEq, Inhabited

structure WSt where
  inner : St
  avt : AvtSt := .chars
  avtChar : Char := ' '
  pcbCode : Bool := false
  pcbColor : Bool := false
  pcbPos : Nat := 0
  ctrlA : Bool := false
  rng : Nat := 0          -- renegade: 0 normal, 1 first colour digit, 2 second colour digit
deriving Repr, Inhabited

abbrev WR := Res (WSt × Out)

def wcfg : Cfg := { musicOpt := 0, bsCtrl := false }

def inner (w : WSt) (o : Nat → Orc) (ch : Char) : WR :=
  match step wcfg o w.inner ch with
  | .ok (st, out) => .ok ({ w with inner := st }, out)
  | .error e => .error e

def wlimit (w : WSt) (c : Car) (out : Out) : WR :=
  match limit w.inner.s c with
  | .ok c' => .ok ({ w with inner := { w.inner with c := c' } }, out)
  | .error e => .error e

/-- `for _ in 0..count { ansi.print_char(ch)? }`: stops at the first Err -/
def avtRepeat (o : Nat → Orc) (ch : Char) : Nat → WSt → WR
  | 0, w => .ok (w, .ok)
  | n+1, w =>
    match step wcfg o w.inner ch with
    | .ok (st, .err) => .ok ({ w with inner := st }, .err)
    | .ok (st, _) => avtRepeat o ch n { w with inner := st }
    | .error e => .error e

def avatarStep (w : WSt) (o : Nat → Orc) (ch : Char) : WR :=
  let s := w.inner.s
  let c := w.inner.c
  match w.avt with
  | .chars =>
    if ch = '\x0c' then
      let (s', c') := ff s c
      .ok ({ w with inner := { w.inner with s := s', c := c' } }, .ok)
    else if ch = '\x19' then .ok ({ w with avt := .repeatChars 1 }, .ok)
    else if ch = '\x16' then .ok ({ w with avt := .readCommand }, .ok)
    else inner w o ch
  | .readCommand =>
    let n := ch.toNat % 65536      -- `ch as u16`
    if n = 1 then .ok ({ w with avt := .readColor }, .ok)
    else if n = 2 then .ok ({ w with avt := .chars }, .ok)
    else if n = 3 then wlimit { w with avt := .chars } { c with y := max 0 (c.y - 1) } .ok
    else if n = 4 then wlimit { w with avt := .chars } { c with y := c.y + 1 } .ok
    else if n = 5 then .ok ({ w with avt := .chars, inner := { w.inner with c := { c with x := max 0 (c.x - 1) } } }, .ok)
    else if n = 6 then .ok ({ w with avt := .chars, inner := { w.inner with c := { c with x := min (s.tw - 1) (c.x + 1) } } }, .ok)
    else if n = 7 then .ok (w, .err)                         -- `return Err` before the state is reset
    else if n = 8 then .ok ({ w with avt := .moveCursor 1 }, .ok)
    else .ok ({ w with avt := .chars }, .err)
  | .repeatChars k =>
    if k = 1 then .ok ({ w with avt := .repeatChars 2, avtChar := ch }, .ok)
    else if k = 2 then
      match avtRepeat o w.avtChar (min ch.toNat 255) { w with avt := .repeatChars 3 } with
      | .ok (w', .err) => .ok (w', .err)                     -- `?` leaves avt_state = RepeatChars, avatar_state = 3
      | .ok (w', _) => .ok ({ w' with avt := .chars }, .ok)
      | .error e => .error e
    else .ok ({ w with avt := .chars }, .err)
  | .readColor => .ok ({ w with avt := .chars }, .ok)
  | .moveCursor k =>
    if k = 1 then .ok ({ w with avt := .moveCursor 2, avtChar := ch }, .ok)
    else if k = 2 then wlimit { w with avt := .chars } { c with x := max 0 ((ch.toNat : Int) - 1), y := max 0 ((w.avtChar.toNat : Int) - 1) } .ok
    else .ok (w, .err)

def pcboardStep (w : WSt) (o : Nat → Orc) (ch : Char) : WR :=
  if w.pcbColor then
    let pos := w.pcbPos + 1
    if pos = 1 then .ok ({ w with pcbPos := pos }, .ok)
    else .ok ({ w with pcbPos := pos, pcbColor := false, pcbCode := false }, .ok)
  else if w.pcbCode then
    if ch = '@' then .ok ({ w with pcbCode := false }, .ok)
    else if ch = 'X' then .ok ({ w with pcbColor := true, pcbPos := 0 }, .ok)
    else .ok (w, .ok)
  else if ch = '@' then .ok ({ w with pcbCode := true }, .ok)
  else inner w o ch

def ctrlaStep (w : WSt) (o : Nat → Orc) (ch : Char) : WR :=
  let s := w.inner.s
  let c := w.inner.c
  if w.ctrlA then
    let w := { w with ctrlA := false }
    if ch = 'L' then
      let (s', c') := clearScreen s c
      .ok ({ w with inner := { w.inner with s := s', c := c' } }, .ok)
    else if ch = '\'' then .ok ({ w with inner := { w.inner with c := { c with x := s.upperLeft.1, y := s.upperLeft.2 } } }, .ok)
    else if ch = '<' then wlimit w { c with x := satSub c.x 1 } .ok
    else if ch = '|' then .ok ({ w with inner := { w.inner with c := { c with x := 0 } } }, .ok)
    else if ch = ']' then wlimit w (checkScrollDown s { c with y := satAdd c.y 1 } false) .ok
    else if ch = 'A' then
      match step wcfg o w.inner '\x01' with      -- `let _ = ascii_parser.print_char(CTRL_A)`
      | .ok (st, _) => .ok ({ w with inner := st }, .ok)
      | .error e => .error e
    else if ch = 'J' ∨ ch = '>' ∨ ch = 'H' ∨ ch = 'I' ∨ ch = 'E' ∨ ch = 'N' ∨ ch = 'Z' then .ok (w, .ok)
    else if "KBGCRMYW".toList.contains ch ∨ "04261537".toList.contains ch then .ok (w, .ok)
    else if 128 ≤ ch.toNat ∧ ch.toNat ≤ 255 then wlimit w { c with x := satAdd c.x ((ch.toNat : Int) - 127) } .ok
    else .ok (w, .ok)
  else if ch = '\x01' then .ok ({ w with ctrlA := true }, .ok)
  else inner w o ch

def renegadeStep (w : WSt) (o : Nat → Orc) (ch : Char) : WR :=
  if w.rng = 0 then
    if ch = '|' then .ok ({ w with rng := 1 }, .ok) else inner w o ch
  else if w.rng = 1 then
    let code := ch.toNat % 256      -- `ch as u8`
    if 48 ≤ code ∧ code ≤ 51 then .ok ({ w with rng := 2 }, .ok) else .ok ({ w with rng := 0 }, .err)
  else
    let code := ch.toNat % 256
    if 48 ≤ code ∧ code ≤ 57 then .ok ({ w with rng := 0 }, .ok) else .ok ({ w with rng := 0 }, .err)

def wstep (e : Emu) (o : Nat → Orc) (w : WSt) (ch : Char) : WR :=
  if ¬ RangeOk w.inner.s w.inner.c then .error (.overflow "i32 arithmetic on the cursor / buffer height") else
  match e with
  | .avatar => avatarStep w o ch
  | .pcboard => pcboardStep w o ch
  | .ctrla => ctrlaStep w o ch
  | .renegade => renegadeStep w o ch

def wrun (e : Emu) (o : Nat → Orc) : WSt → List Char → Res WSt
  | w, [] => .ok w
  | w, ch :: rest =>
    match wstep e o w ch with
    | .ok (w', _) => wrun e o w' rest
    | .error e => .error e

def initW (w h : Int) : WSt := { inner := initSt w h }

end IcyVerif.Term
