import IcyVerif.Model.Font
import IcyVerif.Model.IcyDraw
/-! # The `FONT_n` chunk of the native IcyDraw format with its real payload codec (C07)

`Model/IcyDraw.lean` keeps the payload codecs of `PALETTE`, `FONT_n` and `SAUCE` as parameters (`Codecs`).  This file
instantiates the FONT part with the code that is there:

* writer (`icy_draw.rs`, `for (k, v) in buf.font_iter()`): `write_utf8_encoded_string(name)` — part of `fontPayload` — followed by
  `v.to_psf2_bytes().unwrap()` (`Model/Font.lean: BitFont.toPsf2`, the 32-byte header with `length`, `charsize = height`,
  `height`, `width` and the glyph rows of the codes `0..length`; a font with a missing glyph makes the writer panic — such
  fonts are outside `WfSlotFont`, the model writes nothing for them);
* reader (`"FONT_"` branch of `load_buffer`): `read_utf8_encoded_string` (lossy) + `BitFont::from_bytes` (`Font.fromBytes`:
  PSF1 / PSF2 / raw sniffing; `load_psf2` takes `size` from the header's `(width, height)` and cuts the glyph data by `height`).

A font slot is observed as (name, width, height, length, glyph table): `SlotFont`.  The font model itself is C17's
`Model/Font.lean` (one model of src/fonts.rs); `FontBox.icyCodecs` of C17 is the same instantiation. -/
namespace IcyVerif.IcyDraw
open IcyVerif.Font IcyVerif.Uni

/-- what a font slot of a document holds: `BitFont::name` (UTF-8 bytes) and size / length / glyphs -/
structure SlotFont where
  name : Bytes
  font : BitFont
deriving DecidableEq, Repr

def psf2FontDec (name data : Bytes) : IcyDraw.Res SlotFont :=
  match fromBytes data with
  | .ok f => .ok ⟨lossyBytes name, f⟩
  | .err => .fail .errCodec
  | .panic => .fail .panic

/-- C07's codec record with the real `FONT_n` payload; palette and SAUCE codecs stay parameters (C16 / C11) -/
def psf2Codecs {S : Type} (palEnc : List RGB → Bytes) (palDec : Bytes → IcyDraw.Res (List RGB))
    (sauceDec : Bytes → IcyDraw.Res (Option S)) (dflt : SlotFont) : Codecs SlotFont S :=
  { palEnc := palEnc, palDec := palDec,
    fontName := fun f => f.name,
    fontData := fun f => match f.font.toPsf2 with | .ok d => d | _ => [],
    fontDec := psf2FontDec,
    sauceDec := sauceDec, defaultFont := dflt }

/-- the whole `FONT_n` payload as the writer emits it; `none` = `to_psf2_bytes().unwrap()` panics (missing glyph) -/
def encodeFontChunk (f : SlotFont) : Option Bytes :=
  match f.font.toPsf2 with
  | .ok d => some (leBytes 4 f.name.length ++ f.name ++ d)
  | _ => none

/-- the `FONT_n` branch of the reader on a whole payload -/
def decodeFontChunk (b : Bytes) : IcyDraw.Res SlotFont :=
  match rdString b with
  | .fail e => .fail e
  | .ok (name, data) => psf2FontDec name data

end IcyVerif.IcyDraw
