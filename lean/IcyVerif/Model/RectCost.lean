import IcyVerif.Model.Crc
/-! # Rectangle-area control functions of the ANSI parser (C03): how many cells they visit

`src/parsers/ansi/ansi_commands.rs`:
* DECRQCRA `CSI Pid;Pp;Pt;Pl;Pb;Pr * y` (`request_checksum_of_rectangular_area`): exactly 6 parameters; the rectangle is
  NOT clamped but REJECTED unless `0 <= pt <= pb <= height` and `0 <= pl <= pr <= width`; then `for y in pt..pb`,
  `for x in pl..pr` (0-based, end-exclusive, absolute buffer rows) feeds every VISIBLE cell to a CRC-16;
* DECFRA `CSI Pch;Pt;Pl;Pb;Pr $ x` (5 parameters, `Pch` must be a `char`), DECERA `CSI Pt;Pl;Pb;Pr $ z`,
  DECSERA `CSI Pt;Pl;Pb;Pr $ {` (4 parameters): `get_rect_area` CLAMPS each coordinate
  (`p.max(1).min(limit) - 1`, limit = `max(line_count, height)` for rows, `width` for columns), then
  `for y in top..=bottom`, `for x in left..=right`.
The loop counts are named functions of the parameters and the screen; `Props/C03.lean` bounds them by the screen
independently of the parameters.  Parameters are what `parse_next_number` produces from the digit strings
(saturating, at most 2147483599). -/
namespace IcyVerif.RectCost

def i32Max : Int := 2147483647
def i32Min : Int := -2147483648
def sat (x : Int) : Int := if x > i32Max then i32Max else if x < i32Min then i32Min else x
/-- `parse_next_number(x, ch)`: `x.saturating_mul(10).saturating_add(ch as i32).saturating_sub('0' as i32)` -/
def parseNextNumber (x : Int) (ch : Nat) : Int := sat (sat (sat (x * 10) + (ch : Int)) - 48)
/-- a parameter from its digit string -/
def paramOf (digits : List Nat) : Int := digits.foldl parseNextNumber 0

/-- `nums[i]` where the caller has checked the length -/
def num (nums : List Int) (i : Nat) : Int := nums.getD i 0

/-- DECRQCRA: the guard of the checksum loop -/
def rqcraOk (nums : List Int) (tw th : Int) : Bool :=
  let pt := num nums 2; let pl := num nums 3; let pb := num nums 4; let pr := num nums 5
  nums.length == 6 && !(decide (pt > pb) || decide (pl > pr) || decide (pr > tw) || decide (pb > th) || decide (pl < 0) || decide (pt < 0))

/-- DECRQCRA: cells visited by `for y in pt..pb { for x in pl..pr {…} }` (0 when rejected) -/
def rqcraCount (nums : List Int) (tw th : Int) : Nat :=
  if rqcraOk nums tw th then (num nums 4 - num nums 2).toNat * (num nums 5 - num nums 3).toNat else 0

/-- `get_rect_area(buf, offset)`: (top, left, bottom, right), 0-based inclusive -/
def rectArea (nums : List Int) (off : Nat) (lines tw th : Int) : Int × Int × Int × Int :=
  let rows := max lines th
  (min (max (num nums off) 1) rows - 1, min (max (num nums (off + 1)) 1) tw - 1,
   min (max (num nums (off + 2)) 1) rows - 1, min (max (num nums (off + 3)) 1) tw - 1)

/-- cells visited by `for y in top..=bottom { for x in left..=right {…} }` -/
def areaCount (a : Int × Int × Int × Int) : Nat :=
  (a.2.2.1 - a.1 + 1).toNat * (a.2.2.2 - a.2.1 + 1).toNat

/-- DECERA / DECSERA (`off = 0`, 4 parameters) and DECFRA (`off = 1`, 5 parameters): cells written -/
def rectCount (nums : List Int) (off : Nat) (lines tw th : Int) : Nat :=
  if nums.length == off + 4 then areaCount (rectArea nums off lines tw th) else 0

/-- DECFRA additionally needs `char::from_u32(Pch as u32)` -/
def isScalar (v : Nat) : Bool := v ≤ 0xD7FF || (0xE000 ≤ v && v ≤ 0x10FFFF)
def fraCharOk (nums : List Int) : Bool := isScalar ((num nums 0) % 4294967296).toNat

/-- CRC-16 register after `n` identical visible cells, each contributing the bytes `cell`
    (character, attribute flags, foreground, background as in the source) -/
def crcOfCells (cell : List Nat) : Nat → BitVec 16 → BitVec 16
  | 0, crc => crc
  | n + 1, crc => crcOfCells cell n (cell.foldl (fun c b => IcyVerif.Crc.updateCrc16 c (BitVec.ofNat 8 b)) crc)

end IcyVerif.RectCost
