import IcyVerif.Model.TermFileWrap
import IcyVerif.Model.TermFileOther
import IcyVerif.Model.Loaders
import IcyVerif.Model.SixelLoad
import IcyVerif.Model.SixelShadow
import IcyVerif.Model.Unicode
/-! # TextLoad — `Buffer::from_bytes` for the text formats
`Buffer::from_bytes` (src/buffers.rs: extension match, SAUCE cut-off — `Model/Loaders.lean: dispatchLen`) →
`load_buffer` of `ansi / pcboard / avatar / ascii / ctrla / renegade` (src/formats/*.rs: `Buffer::new((80, 25))`,
`is_terminal_buffer = false`, `set_sauce(_, true)`, `convert_ansi_to_utf8`, `parse_with_parser(.., skip_errors = true)`)
and of `seq / atascii` (own byte loop over a pre-allocated 40x25 / 40x24 screen, no crop) → `parse_with_parser`
(src/formats/mod.rs: row table cleared, the character loop with every `Err` skipped, the sixel join loop, one image
layer per delivered sixel, `crop_loaded_file`; the bold-to-bright pass rewrites existing cells only).

The per-loader facts (initial size, parser, which of the two shapes) are the regenerated table
`Gen.TextLoad.textLoaders`; the BOM prefix is `Gen.TextLoad.bomPrefix`. -/
namespace IcyVerif.TextLoad
open IcyVerif.Term IcyVerif.TermFile IcyVerif.Gen.TextLoad

/-- `convert_ansi_to_utf8`: data that starts with the BOM bytes and is well-formed UTF-8 is decoded (the BOM itself
    stays in the text as U+FEFF), anything else is read byte by byte (`*ch as char`) -/
def decodeText (d : List Nat) : List Char × Bool :=
  let d := d.map (· % 256)
  if bomPrefix.isPrefixOf d ∧ IcyVerif.Uni.validUtf8 d then ((IcyVerif.Uni.lossy d).map Char.ofNat, true)
  else (d.map Char.ofNat, false)

/-- which state machine a loader runs -/
inductive Kind where
  | ansi | wrap (e : Emu) | other (e : FEmu2)
deriving Repr, DecidableEq

def kindOf (parser : String) : Option Kind :=
  if parser = "ansi" then some .ansi
  else if parser = "pcboard" then some (.wrap .pcboard)
  else if parser = "avatar" then some (.wrap .avatar)
  else if parser = "ctrla" then some (.wrap .ctrla)
  else if parser = "renegade" then some (.wrap .renegade)
  else if parser = "ascii" then some (.other .ascii)
  else if parser = "atascii" then some (.other .atascii)
  else if parser = "petscii" then some (.other .petscii)
  else none

/-- what is left of the parser run: geometry, row table, queued sixel sequences -/
structure Parsed where
  s : Scr
  c : Car
  r : Rows
  sixq : List (Int × Int × List Char)
deriving Repr

def runKind (k : Kind) (o : Nat → Orc) (w h tabW : Int) (rows : Array Nat) (text : List Char) : Res Parsed :=
  match k with
  | .ansi =>
    match runF fileCfg o (initF w h tabW rows) text with
    | .ok st => .ok ⟨st.s, st.c, st.r, st.sixq⟩
    | .error e => .error e
  | .wrap e =>
    match fwrun e o (initFW w h tabW rows) text with
    | .ok ws => .ok ⟨ws.inner.s, ws.inner.c, ws.inner.r, ws.inner.sixq⟩
    | .error e => .error e
  | .other e =>
    match forun e (initFO w h tabW rows) text with
    | .ok st => .ok ⟨st.s, st.c, st.r, []⟩
    | .error e => .error e

/-- `set_sauce(sauce, true)`: buffer, terminal state and layer 0 take the SAUCE size (width 0 or > 1000 becomes 80) -/
def sizeOf (w0 h0 : Nat) (sauce : Option (Nat × Nat)) : Int × Int :=
  match sauce with
  | none => (w0, h0)
  | some (sw, sh) =>
    let sw := if sw = 0 ∨ sw > IcyVerif.Gen.Loaders.sauceMaxWidth then IcyVerif.Gen.Loaders.sauceDefaultWidth else sw
    (sw, sh)

/-- `crop_loaded_file`: `while lines.len() > 1 && lines.last().unwrap().chars.is_empty() { lines.pop() }` -/
def cropAux : Nat → Array Nat → Array Nat
  | 0, a => a
  | fuel+1, a => if a.size > cropKeepRows ∧ a.back? = some 0 then cropAux fuel a.pop else a
def cropRows (a : Array Nat) : Array Nat := cropAux a.size a

/-- what the harness observes of a loaded text file -/
structure Loaded where
  bw : Int
  bh : Int
  lw : Int
  lh : Int
  rows : Array Nat                                -- `chars.len()` of every row of layer 0
  images : List IcyVerif.SixelLoad.ImgLayer       -- the image layers behind layer 0
  cx : Int                                        -- final caret (not part of the buffer; kept for the digest)
  cy : Int
deriving Repr

inductive Out where
  | ok (l : Loaded)
  | err                     -- `Err(_)`: a sixel decode reported an error
  | panic (what : String)
deriving Repr

/-- the sixel part of `parse_with_parser`: every queued decode finishes, is joined, becomes an image layer.
    `res i` = what the decode thread of the `i`-th queued sequence returns.  The poll is the one of
    `Model/SixelShadow.lean`: the shadow-removal loop of `update_sixel_threads` with its index arithmetic, `.error` =
    a `vec[i]` / `vec.remove(i)` / `sixel_count -= 1` that panics. -/
def joinSixels (fw fh : Int) (res : Nat → IcyVerif.SixelQueue.Res) (n : Nat) : Except String IcyVerif.SixelLoad.LoadOut :=
  IcyVerif.SixelShadow.loadSixelsX { fw := fw, fh := fh, res := res } (List.range n) [List.range n]

/-- `Layer::new(size)` allocates `size.height as usize` rows: the line count of an image layer -/
def imgLines (l : IcyVerif.SixelLoad.ImgLayer) : Nat := l.ch.toNat

/-- what a decode thread returns for the `id`-th queued sequence (caret `px, py`, recorded DCS string) -/
abbrev Decoder := Nat → Int → Int → List Char → IcyVerif.SixelQueue.Res

def resOf (dec : Decoder) (q : List (Int × Int × List Char)) (id : Nat) : IcyVerif.SixelQueue.Res :=
  match q[id]? with
  | some (px, py, dcs) => dec id px py dcs
  | none => .err

/-- end of `parse_with_parser`: join, image layers, crop (`height = max line count over all layers`) -/
def finish (p : Parsed) (fw fh : Int) (dec : Decoder) : Out :=
  match joinSixels fw fh (resOf dec p.sixq) p.sixq.length with
  | .error e => .panic e                                              -- index slip in the shadow-removal loop
  | .ok .err => .err
  | .ok .divZero => .panic "formats/mod.rs::parse_with_parser"     -- division by a font dimension of 0
  | .ok .blocked => .panic "model: join blocked"
  | .ok .waiting => .panic "model: join waiting"
  | .ok (.ok imgs) =>
    let rows := cropRows p.r.lens
    let h : Int := ((imgs.map imgLines).foldl max rows.size : Nat)
    .ok ⟨p.s.bw, h, p.r.lw, h, rows, imgs, p.c.x, p.c.y⟩

/-- the state after the character loop of a loader -/
inductive Stage where
  | parsed (p : Parsed) (pwp : Bool)     -- `pwp`: the loader runs `parse_with_parser` (join + crop follow)
  | panic (what : String)
deriving Repr

/-- one loader up to the end of its character loop: `(parser, w0, h0, uses parse_with_parser)` of `textLoaders` -/
def parseWith (parser : String) (w0 h0 : Nat) (pwp : Bool) (data : List Nat) (sauce : Option (Nat × Nat)) (o : Nat → Orc) : Stage :=
  match kindOf parser with
  | none => .panic "model: unknown parser"
  | some k =>
    let (w, h) := sizeOf w0 h0 sauce
    if pwp then
      match runKind k o w h w0 #[] (decodeText data).1 with
      | .error e => .panic (reprStr e)
      | .ok p => .parsed p true
    else
      -- seq / atascii: the rows `Layer::new` made stay (`h0` rows of `w0` cells), bytes are fed as they are, no crop
      match runKind k o w h w0 (Array.replicate h0 w0) (data.map (fun b => Char.ofNat (b % 256))) with
      | .error e => .panic (reprStr e)
      | .ok p => .parsed p false

def finishStage (st : Stage) (fw fh : Int) (dec : Decoder) : Out :=
  match st with
  | .panic w => .panic w
  | .parsed p true => finish p fw fh dec
  | .parsed p false => .ok ⟨p.s.bw, p.s.bh, p.r.lw, p.r.lh, p.r.lens, [], p.c.x, p.c.y⟩

def loaderEntry (m : String) : Option (String × String × Nat × Nat × Bool × Bool) := textLoaders.find? (fun e => e.1 == m)

/-- a text loader module by name (`none`: a binary loader or the `.icy` container) up to the end of the character loop -/
def parseText (m : String) (data : List Nat) (sauce : Option (Nat × Nat)) (o : Nat → Orc) : Option Stage :=
  match loaderEntry m with
  | none => none
  | some (_, parser, w0, h0, pwp, _) => some (parseWith parser w0 h0 pwp data sauce o)

/-- `Buffer::from_bytes` for an extension that selects a text loader (incl. the ANSI fallback for unknown ones), up
    to the end of the character loop -/
def fromBytesParse (d : IcyVerif.Bytes.Bytes) (ext : String) (dateOk : Bool) (o : Nat → Orc) : Option Stage :=
  match IcyVerif.Loaders.dispatchLen d dateOk with
  | .panic s => some (.panic s)
  | .err => some (.panic "model: dispatchLen err")     -- (never produced by `dispatchLen`)
  | .ok (len, sauce) => parseText (IcyVerif.Loaders.loaderFor ext) ((d.extract 0 len).toList) sauce o

/-- `Buffer::from_bytes` of a text format, whole -/
def fromBytesText (d : IcyVerif.Bytes.Bytes) (ext : String) (dateOk : Bool)
    (o : Nat → Orc) (fw fh : Int) (dec : Decoder) : Option Out :=
  (fromBytesParse d ext dateOk o).map (fun st => finishStage st fw fh dec)

end IcyVerif.TextLoad
