import IcyVerif.Model.SixelLoad
/-! # The shadow-removal loop of `Buffer::update_sixel_threads` with its INDEX ARITHMETIC (C02)

`Model/SixelQueue.lean` (C14) writes the loop

```
let mut sixel_count = vec.len();
let mut i = 0;
while i < sixel_count {
    let old_rect = vec[i].get_screen_rect(font_dims);
    if screen_rect.contains_rect(&old_rect) { vec.remove(i); sixel_count -= 1; } else { i += 1; }
}
vec.push(sixel);
```

as the list function `removeShadowed` — what the loop computes when it is right.  Whether it IS right (no `vec[i]` /
`vec.remove(i)` beyond the end, no `usize` underflow of `sixel_count`, termination) is a C02 question: the loop runs at
the end of every text-format load (`parse_with_parser` → `update_sixel_threads`), so an index slip is a panic inside
`Buffer::from_bytes`.  Here the loop is an explicit state machine over `(vec, i, sixel_count)`:

* `vec[i]` with `i ≥ vec.len()`            → `.error "buffers.rs::update_sixel_threads"` (index out of bounds)
* `vec.remove(i)` with `i ≥ vec.len()`     → the same (`removal index (is i) should be < len`)
* `sixel_count -= 1` at 0                  → the same (debug profile: subtraction overflow)
* running out of fuel                      → `…::diverge` (the real loop would not terminate)

and the poll / join / load chain of the C14 models is repeated on top of it with that outcome threaded through
(`pollLoopX`, `joinLoopX`, `loadSixelsX`).  `Lemmas/SixelShadow.lean` proves, for EVERY list of images, that the
state machine ends in `.ok (removeShadowed …)` and hence that the chain equals the C14 one. -/
namespace IcyVerif.SixelShadow
open IcyVerif.SixelQueue IcyVerif.SixelLoad

def sUpdate : String := "buffers.rs::update_sixel_threads"
def sDiverge : String := "buffers.rs::update_sixel_threads::diverge"

/-- `Vec::remove(i)`: panics unless `i < len` -/
def vecRemove (v : List Img) (i : Nat) : Except String (List Img) :=
  if i < v.length then .ok (v.eraseIdx i) else .error sUpdate

/-- `new` (its screen rectangle) covers `old` -/
def covers (cfg : Cfg) (new old : Img) : Bool :=
  containsRect (screenRect cfg.fw cfg.fh new) (screenRect cfg.fw cfg.fh old)

/-- the `while i < sixel_count` loop on the state `(vec, i, sixel_count)` -/
def shadowLoop (cfg : Cfg) (new : Img) : Nat → List Img → Nat → Nat → Except String (List Img)
  | 0, _, _, _ => .error sDiverge
  | fuel + 1, vec, i, cnt =>
    if i < cnt then
      match vec[i]? with
      | none => .error sUpdate                                   -- `vec[i]`
      | some old =>
        if covers cfg new old then
          match vecRemove vec i with                             -- `vec.remove(i)`
          | .error e => .error e
          | .ok v =>
            if cnt = 0 then .error sUpdate                        -- `sixel_count -= 1`
            else shadowLoop cfg new fuel v i (cnt - 1)
        else shadowLoop cfg new fuel vec (i + 1) cnt             -- `i += 1`
    else .ok vec

/-- `sixel_count = vec.len(); i = 0; while …; vec.push(sixel)`; every iteration shrinks `sixel_count - i`, so
    `len + 1` units of fuel are enough — IF the arithmetic is right (`shadow_loop_total`) -/
def placeX (cfg : Cfg) (layer : List Img) (img : Img) : Except String (List Img) :=
  match shadowLoop cfg img (layer.length + 1) layer 0 layer.length with
  | .ok v => .ok (v ++ [img])
  | .error e => .error e

/-- `SixelQueue.pollLoop` with the indexed placement -/
def pollLoopX (cfg : Cfg) : List (Nat × Option Res) → List Img → List Nat → Bool → Except String (St × Ret)
  | [], layer, log, upd => .ok (⟨[], layer, log⟩, .ok upd)
  | (id, h) :: q, layer, log, upd =>
    if !isFinished h then .ok (⟨(id, h) :: q, layer, log⟩, .ok false)
    else
      match join h with
      | .blocks => .ok (⟨q, layer, log⟩, .blocked)
      | .done .panicked => pollLoopX cfg q layer log upd
      | .done .err => .ok (⟨q, layer, log⟩, .err)
      | .done (.ok img) =>
        match placeX cfg layer img with
        | .error e => .error e
        | .ok layer' => pollLoopX cfg q layer' (log ++ [id]) true

/-- `Buffer::update_sixel_threads` -/
def pollX (cfg : Cfg) (s : St) : Except String (St × Ret) := pollLoopX cfg s.queue s.layer s.log false

/-- `SixelLoad.joinLoop` over `pollX` -/
def joinLoopX (cfg : Cfg) : List (List Nat) → St → Except String (St × JoinRet)
  | [], s => if s.queue.isEmpty then .ok (s, .done) else .ok (s, .waiting)
  | fin :: rest, s =>
    if s.queue.isEmpty then .ok (s, .done)
    else
      match pollX cfg (finishAll cfg s fin) with
      | .error e => .error e
      | .ok r =>
        match r.2 with
        | .err => .ok (r.1, .err)
        | .blocked => .ok (r.1, .blocked)
        | .ok _ => joinLoopX cfg rest r.1

/-- `SixelLoad.loadFrom` over `joinLoopX` -/
def loadFromX (cfg : Cfg) (s0 : St) (sched : List (List Nat)) : Except String LoadOut :=
  match joinLoopX cfg sched s0 with
  | .error e => .error e
  | .ok r =>
    match r.2 with
    | .err => .ok .err
    | .blocked => .ok .blocked
    | .waiting => .ok .waiting
    | .done =>
      if (cfg.fw = 0 ∨ cfg.fh = 0) ∧ r.1.layer ≠ [] then .ok .divZero
      else .ok (.ok (toLayers cfg.fw cfg.fh r.1.layer))

def loadSixelsX (cfg : Cfg) (ids : List Nat) (sched : List (List Nat)) : Except String LoadOut :=
  loadFromX cfg (arrived cfg ids) sched

end IcyVerif.SixelShadow
