import IcyVerif.Gen.RipText
/-! Executable model of the INTEGER part of the RIP text path: `Bgi::set_text_style` as `|Y` calls it
(`FontType::from(font as u8)`, `Direction::from(direction as u8)`, the clamp of the size), and every table lookup
`out_text_xy` / `get_text_size` / `Font::draw_character` / `Character::draw` / `Character::get_width` perform with the
font, the size and the character codes: `FONTS[..]`, `SCALE_UP[size]`, `SCALE_DOWN[size]` (also a divisor),
`characters[code]` behind its guard.  An index out of range / a zero divisor is the explicit outcome `none` (panic).
What the strokes draw (lines through `Bgi::line`) and the f32 widths are not part of this model. -/
namespace IcyVerif.RipText

structure Style where
  /-- FontType variant index -/
  font : Nat
  /-- 0 Horizontal, 1 Vertical -/
  dir : Nat
  size : Int
  deriving Repr, DecidableEq

/-- `FontType::from(v as u8)` -/
def fontFrom (v : Nat) : Nat :=
  match Gen.RipText.fontFrom.find? (fun p => p.1 = v % 256) with
  | some (_, i) => i
  | none => Gen.RipText.fontFromDefault

/-- `Direction::from(v as u8)` -/
def dirFrom (v : Nat) : Nat := if v % 256 = 1 then 1 else 0

/-- `i32::clamp(lo, hi)` -/
def clamp (v lo hi : Int) : Int := if v < lo then lo else if v > hi then hi else v

/-- `FontStyle::run` = `Bgi::set_text_style(FontType::from(font as u8), Direction::from(direction as u8), size)` -/
def setTextStyle (font dir : Nat) (size : Int) : Style :=
  ⟨fontFrom font, dirFrom dir, clamp size Gen.RipText.sizeLo Gen.RipText.sizeHi⟩

/-- `SCALE_UP[size as usize]`, `SCALE_DOWN[size as usize]` with the second one used as a divisor -/
def scaleAt (size : Int) : Option (Int × Int) :=
  if size < 0 then none else
  match Gen.RipText.scaleUp[size.toNat]?, Gen.RipText.scaleDown[size.toNat]? with
  | some u, some d => if d = 0 then none else some (u, d)
  | _, _ => none

/-- `characters.len()` of `font.get_font()` (`FONTS[idx]`) -/
def fontChars (font : Nat) : Option Nat :=
  match Gen.RipText.fontIndex[font]? with
  | none => none
  | some i => Gen.RipText.fontChars[i]?

/-- one character of `out_text_xy` with a stroke font: `draw_character` (guard, `characters[code]`, then
`Character::draw` and `get_width` index the scale tables) -/
def charLookups (chars : Nat) (size : Int) (code : Nat) : Option Unit :=
  if code % 256 ≥ chars then some () else  -- `character as usize >= self.characters.len()`: nothing drawn
  match scaleAt size with
  | some _ => some ()
  | none => none

/-- all lookups of `out_text_xy(text)` / `get_text_size(text)` in this style (`none` = index panic / division by zero) -/
def textLookups (st : Style) (text : List Nat) : Option Unit :=
  if text.isEmpty then some () else
  if st.font = Gen.RipText.fontDefaultVariant then some () else  -- the 8x8 bitmap font: no table is indexed by the size
  match fontChars st.font with
  | none => none
  | some chars =>
    match scaleAt st.size with  -- `get_text_size`
    | none => none
    | some _ => text.foldl (fun acc c => acc.bind fun _ => charLookups chars st.size c) (some ())

end IcyVerif.RipText
