import IcyVerif.Gen.Fonts
import IcyVerif.Model.Comp
/-! # Colour-optimised saving — model of `ColorOptimizer::optimize` (src/formats/color_optimization.rs),
`Buffer::flat_clone(false)` and `Buffer::render_to_rgba` (src/buffers.rs)

* `shape` = `get_shape` (count set bits of every data byte; 0 → Whitespace, width·height → Block).
* `optCell` / `optimizeRow` / `optimizeRows` = the double loop of `optimize` with the carried attribute
  (`cur_attr`; it is NOT reset at a row end).  `none` = one of the two `unwrap()`s panics (font page or glyph
  missing from the shape map).
* `flatCells` / `flatLayer` = `flat_clone(false)` (after the two C12 repairs): one Normal layer WITH alpha channel of
  the buffer size holding `Buffer::get_char` of every position (C13's `getChar`), an invisible composited cell stored
  as a default blank on its font page (`flatStore`).
* `renderCell` = the pixel block one cell contributes to `render_to_rgba` (bold→bright fold, `128 >> cx`
  bit test, `min` of the cell font's size and font 0's size); a pixel is `panic` (glyph data shorter than
  the row index, or the `u8` shift `128 >> cx` with `cx ≥ 8`, a debug-profile panic), `keep` (never written:
  stays 0,0,0,0) or an RGB triple.  `imageBytes` lays the blocks out as the RGBA byte vector.
Fonts and the palette are parameters (`Nat → Option Font`, `Nat → Rgb`). -/
namespace IcyVerif.ColorOpt
open IcyVerif.Comp IcyVerif.Gen.Fonts

/-- `BitFont`: `size` and `get_glyph(ch).data` -/
structure Font where
  w : Nat
  h : Nat
  glyph : Nat → Option (List Nat)

inductive Shape | whitespace | block | mixed
deriving DecidableEq, Repr

/-- `u8::count_ones` -/
def popcount8 (b : Nat) : Nat := ((List.range 8).filter fun i => b.testBit i).length

/-- `for row in &glyph.data { ones += row.count_ones() }` -/
def ones (rows : List Nat) : Nat := (rows.map popcount8).sum

/-- `get_shape` -/
def shape (f : Font) (rows : List Nat) : Shape :=
  if ones rows = 0 then .whitespace
  else if ones rows = f.w * f.h then .block
  else .mixed

/-- one iteration of the inner loop of `ColorOptimizer::optimize`; `none` = `unwrap()` on a missing shape -/
def optCell (fonts : Nat → Option Font) (norm : Bool) (carry : Attr) (c : Cell) : Option Cell :=
  match fonts c.attr.page with
  | none => none
  | some f =>
    match f.glyph c.ch with
    | none => none
    | some rows =>
      match shape f rows with
      | .whitespace =>
        some { ch := if norm && (f.glyph spaceCh).isSome then spaceCh else c.ch,
               attr := { c.attr with fg := carry.fg } }
      | .block => some { c with attr := { c.attr with bg := carry.bg } }
      | .mixed => some c

/-- the inner loop over one row, returning the rewritten row and the carried attribute -/
def optimizeRow (fonts : Nat → Option Font) (norm : Bool) : Attr → List Cell → Option (List Cell × Attr)
  | carry, [] => some ([], carry)
  | carry, c :: cs =>
    match optCell fonts norm carry c with
    | none => none
    | some c' =>
      match optimizeRow fonts norm c'.attr cs with
      | none => none
      | some (cs', carry') => some (c' :: cs', carry')

/-- the outer loop: the carry runs on from row to row -/
def optimizeRows (fonts : Nat → Option Font) (norm : Bool) : Attr → List (List Cell) → Option (List (List Cell) × Attr)
  | carry, [] => some ([], carry)
  | carry, r :: rs =>
    match optimizeRow fonts norm carry r with
    | none => none
    | some (r', carry') =>
      match optimizeRows fonts norm carry' rs with
      | none => none
      | some (rs', carry'') => some (r' :: rs', carry'')

/-- what `flat_clone(false)` stores for the composited cell `c`: the cell itself when it is visible, a default blank
    on the cell's font page when it is not (`AttributedChar::default().with_font_page(ch.get_font_page())`) -/
def flatStore (c : Cell) : Cell := if c.isVisible then c else defaultCell.withPage c.attr.page

/-- `flat_clone(false)`: `get_char((x, y))` for `y in 0..height`, `x in 0..width`, stored through `flatStore` -/
def flatCells (hb : Cell → Nat × Nat) (isTerm : Bool) (S : List Layer) (W H : Nat) : List (List Cell) :=
  (List.range H).map fun (y : Nat) => (List.range W).map fun (x : Nat) => flatStore (getChar hb isTerm S (x : Int) (y : Int))

/-- the single layer of `Buffer::new(size)` (Normal mode, offset 0, default font page 0) with
    `has_alpha_channel = true` after the cells were stored with `set_char` -/
def flatLayer (W H : Nat) (cells : List (List Cell)) : Layer :=
  ⟨true, true, .normal, 0, 0, W, H, 0, cells⟩

/-- `ColorOptimizer::optimize(buf).layers[0]` -/
def optimizeDoc (fonts : Nat → Option Font) (norm : Bool) (hb : Cell → Nat × Nat) (isTerm : Bool)
    (S : List Layer) (W H : Nat) : Option (List (List Cell)) :=
  (optimizeRows fonts norm defaultCell.attr (flatCells hb isTerm S W H)).map (·.1)

/-! ## rendering -/

abbrev Rgb := Nat × Nat × Nat

inductive Px
  | panic
  | keep
  | rgb (c : Rgb)
deriving DecidableEq, Repr

/-- `glyph.data[cy] & (128 >> cx) != 0` (for `cx < 8`) -/
def bitSet (b cx : Nat) : Bool := b &&& (msbMask >>> cx) != 0

def renderGlyph (w0 h0 : Nat) (f : Font) (rows : List Nat) (fgc bgc : Rgb) : List (List Px) :=
  (List.range h0).map fun cy => (List.range w0).map fun cx =>
    if cy < min f.h h0 ∧ cx < min f.w w0 then
      match rows[cy]? with
      | none => .panic
      | some b => if 8 ≤ cx then .panic else if bitSet b cx then .rgb fgc else .rgb bgc
    else .keep

def isBold (c : Cell) : Bool := (c.attr.flags &&& boldBit) == boldBit

/-- the foreground colour number looked up in the palette -/
def renderFg (c : Cell) : Nat :=
  if isBold c && decide (c.attr.fg < brightLimit) then c.attr.fg + brightOffset else c.attr.fg

/-- the `w0 × h0` pixel block (font 0's size) that `render_to_rgba` writes for one cell -/
def renderCell (fonts : Nat → Option Font) (pal : Nat → Rgb) (w0 h0 : Nat) (c : Cell) : List (List Px) :=
  match fonts c.attr.page with
  | none => List.replicate h0 (List.replicate w0 .panic)
  | some f =>
    match f.glyph c.ch with
    | none => List.replicate h0 (List.replicate w0 .keep)
    | some rows => renderGlyph w0 h0 f rows (pal (renderFg c)) (pal c.attr.bg)

/-- the blocks of the whole rectangle `(0,0)..(W,H)`, row by row; `cellAt` is `Buffer::get_char` -/
def renderDoc (fonts : Nat → Option Font) (pal : Nat → Rgb) (w0 h0 : Nat) (cellAt : Int → Int → Cell)
    (W H : Nat) : List (List (List (List Px))) :=
  (List.range H).map fun (y : Nat) => (List.range W).map fun (x : Nat) => renderCell fonts pal w0 h0 (cellAt (x : Int) (y : Int))

def pxBytes : Px → List Nat
  | .panic => []
  | .keep => [0, 0, 0, 0]
  | .rgb (r, g, b) => [r, g, b, alphaOpaque]

/-- the RGBA byte vector: pixel rows of cell rows, each pixel row running through the cells of the row -/
def imageBytes (blocks : List (List (List (List Px)))) (h0 : Nat) : List Nat :=
  blocks.flatMap fun cellRow =>
    (List.range h0).flatMap fun cy =>
      cellRow.flatMap fun block => ((block[cy]?).getD []).flatMap pxBytes

def hasPanic (blocks : List (List (List (List Px)))) : Bool :=
  blocks.any fun cellRow => cellRow.any fun block => block.any fun row => row.any fun p => p == .panic

/-! ## what `Buffer::get_char` of the flat clone returns for a stored cell -/

/-- `getChar [flatLayer …]` at a stored cell `c`: a visible cell comes back as it is (also with a transparent colour:
    the layer has an alpha channel, nothing lies beneath, `finish` returns the pending cell unresolved); an invisible
    cell (never stored by `flat_clone`, see `flatStore`) falls through to the end of `get_char` -/
def flatView (isTerm : Bool) (c : Cell) : Cell :=
  if c.isVisible then c else (if isTerm then defaultCell else invisibleCell).withPage 0

end IcyVerif.ColorOpt
