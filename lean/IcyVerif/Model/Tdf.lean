import IcyVerif.Model.Font
/-! Model of `src/tdf_font/mod.rs`: `as_tdf_bytes`, `create_font_bundle` (writer, `add_font_data`) and
    `from_tdf_bytes` (reader) over byte lists with explicit failure outcomes.

    The reader's absolute offsets `o`, `char_offset` into `bytes` are expressed on the REMAINING input
    (`bytes.drop o`): `bytes[o + k]` is `rem[k]`, `o < bytes.len()` is `rem ≠ []`. -/
namespace IcyVerif.Tdf
open IcyVerif.Uni IcyVerif.Font

structure TGlyph where
  w : Int            -- `FontGlyph.size.width` (i32)
  h : Int
  data : List Nat
deriving Repr, DecidableEq

structure TdfFont where
  name : List Nat                    -- UTF-8 bytes of `name: String`
  ftype : Nat                        -- 0 Outline, 1 Block, 2 Color
  spaces : Int
  table : List (Option TGlyph)       -- `char_table` (94 entries for fonts made by `new`/the reader)
deriving Repr, DecidableEq

def idBytes : List Nat := "TheDraw FONTS file".toList.map Char.toNat
def fileHeader : List Nat := [19] ++ idBytes ++ [0x1A]
def indicator : List Nat := [0x55, 0xAA, 0x00, 0xFF]
def u16le (n : Nat) : List Nat := [n % 256, n / 256 % 256]
/-- `x as u8` for an i32 -/
def asU8 (x : Int) : Nat := (x % 256).toNat

def glyphBytes (g : TGlyph) : List Nat := [asU8 g.w, asU8 g.h] ++ g.data ++ [0]

/-- the `for glyph in &self.char_table` loop with its two accumulators -/
def encLoop : List Nat → List Nat → List (Option TGlyph) → List Nat × List Nat
  | lk, fd, [] => (lk, fd)
  | lk, fd, some g :: rest => encLoop (lk ++ u16le (fd.length % 65536)) (fd ++ glyphBytes g) rest
  | lk, fd, none :: rest => encLoop (lk ++ u16le 0xFFFF) fd rest

/-- `add_font_data` (bytes appended to the result) -/
def addFontData (f : TdfFont) : Res (List Nat) :=
  if f.name.length > 12 then .err
  else if f.spaces > 40 then .err
  else
    let (lk, fd) := encLoop [] [] f.table
    if fd.length > 0xFFFF then .err
    else .ok (indicator ++ [12] ++ f.name ++ List.replicate (12 - f.name.length) 0 ++ [0, 0, 0, 0] ++
              [f.ftype] ++ [asU8 f.spaces] ++ u16le fd.length ++ lk ++ fd)

/-- `as_tdf_bytes` -/
def asTdf (f : TdfFont) : Res (List Nat) :=
  match addFontData f with
  | .ok d => .ok (fileHeader ++ d)
  | .err => .err
  | .panic => .panic

def bundleData : List TdfFont → Res (List Nat)
  | [] => .ok []
  | f :: fs =>
    match addFontData f with
    | .ok d => (match bundleData fs with | .ok r => .ok (d ++ r) | e => e)
    | .err => .err
    | .panic => .panic

/-- `create_font_bundle` -/
def bundle (fs : List TdfFont) : Res (List Nat) :=
  match bundleData fs with
  | .ok d => .ok (fileHeader ++ d ++ [0])
  | .err => .err
  | .panic => .panic

/-! ### reader -/

def consOk (c : Nat) : Res (List Nat) → Res (List Nat)
  | .ok d => .ok (c :: d)
  | e => e

/-- the `loop { … }` reading one glyph's data from `bytes[char_offset..]`: up to the first 0 byte; in colour fonts
    every character except CR is followed by an attribute byte that is taken unexamined -/
def readGlyphData (color : Bool) : List Nat → Res (List Nat)
  | [] => .err                                   -- DataOverflow
  | [c] =>
    if c = 0 then .ok []
    else if color && c != 13 then .err           -- attribute byte beyond the end: DataOverflow
    else consOk c .err
  | c :: a :: rest =>
    if c = 0 then .ok []
    else if color && c != 13 then consOk c (consOk a (readGlyphData color rest))
    else consOk c (readGlyphData color (a :: rest))

/-- one entry of the lookup table against the font data block `blk` (= `bytes[o..]` after the table) -/
def readGlyph (color : Bool) (blockSize : Nat) (blk : List Nat) (off : Nat) : Res (Option TGlyph) :=
  if off = 0xFFFF then .ok none
  else if off ≥ blockSize then .err              -- GlyphOutsideFontDataSize
  else match blk.drop off with
    | w :: h :: data =>
      (match readGlyphData color data with
       | .ok d => .ok (some { w := w, h := h, data := d })
       | .err => .err
       | .panic => .panic)
    | _ => .err                                     -- `char_offset + 2 > bytes.len()`: DataOverflow

def readGlyphs (color : Bool) (blockSize : Nat) (blk : List Nat) : List Nat → Res (List (Option TGlyph))
  | [] => .ok []
  | off :: offs =>
    match readGlyph color blockSize blk off with
    | .ok g => (match readGlyphs color blockSize blk offs with | .ok gs => .ok (g :: gs) | e => e)
    | .err => .err
    | .panic => .panic

/-- `n` little-endian u16 values; `none` = index out of range -/
def readU16s : Nat → List Nat → Option (List Nat × List Nat)
  | 0, l => some ([], l)
  | n+1, a :: b :: l => (readU16s n l).map fun p => ((a + 256 * b) :: p.1, p.2)
  | _+1, _ => none

/-- name bytes up to the first NUL among the first `n`; `none` = index out of range -/
def nameBytes : Nat → List Nat → Option (List Nat)
  | 0, _ => some []
  | _+1, [] => none
  | n+1, c :: l => if c = 0 then some [] else (nameBytes n l).map (c :: ·)

/-- one font record starting at the indicator; returns the font and the input after its data block -/
def readFont (rem : List Nat) : Res (TdfFont × List Nat) :=
  if rem.length < 213 then .err else                 -- every record starts with a 213-byte header: FileTooShort
  match rem with
  | i0 :: i1 :: i2 :: i3 :: rest =>
    if [i0, i1, i2, i3] ≠ indicator then .err      -- FontIndicatorMismatch
    else match rest with
      | [] => .panic
      | nameLen :: rest =>
        if nameLen > 12 then .err                    -- NameTooLong
        else match nameBytes nameLen rest with
          | none => .panic
          | some nm =>
            -- `String::from_utf8_lossy(&bytes[o..o+len])`: the slice itself needs `len` bytes (guaranteed by nameBytes)
            match rest.drop 16 with
            | [] => .panic
            | ty :: r1 =>
              if ty > 2 then .err                    -- UnsupportedTtfType
              else match r1 with
                | [] => .panic
                | sp :: r2 =>
                  if sp > 40 then .err               -- LetterSpaceTooMuch
                  else match r2 with
                    | b0 :: b1 :: rest2 =>
                      match readU16s 94 rest2 with
                      | none => .panic
                      | some (offs, blk) =>
                        (match readGlyphs (ty == 2) (b0 + 256 * b1) blk offs with
                         | .ok gs => .ok ({ name := lossyBytes nm, ftype := ty, spaces := sp, table := gs },
                                          blk.drop (b0 + 256 * b1))
                         | .err => .err
                         | .panic => .panic)
                    | _ => .panic
  | _ => .panic                                      -- `bytes[o..o+4]` out of range

/-- the `while o < bytes.len()` loop (fuel ≥ rem.length) -/
def readFonts : Nat → List Nat → Res (List TdfFont)
  | 0, _ => .ok []
  | fuel+1, rem =>
    match rem with
    | [] => .ok []
    | c :: _ =>
      if c = 0 then .ok []
      else match readFont rem with
        | .ok (f, rem') => (match readFonts fuel rem' with | .ok fs => .ok (f :: fs) | e => e)
        | .err => .err
        | .panic => .panic

/-- `from_tdf_bytes` -/
def fromTdf (bytes : List Nat) : Res (List TdfFont) :=
  if bytes.length < 233 then .err                    -- FileTooShort
  else match bytes with
    | l :: rest =>
      if l ≠ 19 then .err                             -- IdLengthMismatch
      else if rest.take 18 ≠ idBytes then .err        -- IdMismatch
      else match rest.drop 18 with
        | m :: rem => if m ≠ 0x1A then .err else readFonts rem.length rem
        | [] => .panic
    | [] => .err

/-! ### the glyph presence table -/
/-- `has_char(char_code: u8)`: `char_offset = char_code - b' ' - 1`; negative or `> char_table.len()` → false.  The guard is
    off by one: offset = `len` (code 127 for the 94-entry table) passes it and indexes out of range — a panic, copied. -/
def hasChar (f : TdfFont) (code : Nat) : Res Bool :=
  let off : Int := (code : Int) - 32 - 1
  if off < 0 ∨ off > (f.table.length : Int) then .ok false
  else match f.table[off.toNat]? with
    | some g => .ok g.isSome
    | none => .panic

/-- `get_font_height`: the height of the first defined glyph, 0 without glyphs -/
def fontHeight (f : TdfFont) : Int :=
  match f.table.filterMap id with
  | g :: _ => g.h
  | [] => 0

/-! ### decidable well-formedness: the domain of the round-trip theorems (`Props/C17.lean: WfTdf`) -/
/-- colour glyph data: a sequence of CR bytes and (character ≠ 0, attribute) pairs -/
def colorWfB : List Nat → Bool
  | [] => true
  | c :: rest =>
    if c = 0 then false
    else if c = 13 then colorWfB rest
    else match rest with
      | [] => false
      | _ :: rest' => colorWfB rest'
def glyphWfB (color : Bool) (g : TGlyph) : Bool :=
  decide (0 ≤ g.w) && decide (g.w ≤ 255) && decide (0 ≤ g.h) && decide (g.h ≤ 255) &&
  (if color then colorWfB g.data else g.data.all (· ≠ 0))
def wfTdfB (f : TdfFont) : Bool :=
  decide (f.name.length ≤ 12) && validUtf8 f.name && f.name.all (· ≠ 0) && decide (f.ftype ≤ 2) &&
  decide (0 ≤ f.spaces) && decide (f.spaces ≤ 40) && decide (f.table.length = 94) &&
  f.table.all (fun g => match g with | some g => glyphWfB (f.ftype == 2) g | none => true) &&
  decide ((encLoop [] [] f.table).2.length ≤ 0xFFFF)


end IcyVerif.Tdf
