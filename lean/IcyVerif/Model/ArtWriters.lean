import IcyVerif.Model.ArtIO
/-! # ArtWriters — the text-format writers of icy_engine (C15, C04)

Transcriptions of `to_bytes` in `src/formats/{ascii,pcboard,renegade,ctrla,atascii,avatar}.rs` (this file, part 1) and of
the ANSI `StringGenerator` in `src/formats/ansi.rs` (part 2 of this file).

A picture (`Pic`) is what the writers read through `TextPane for Buffer` on a single-layer, opaque, non-terminal
buffer: `get_width`, `get_line_count` (= number of rows), `get_char` (a cell that was never set shows as the default
cell), `get_line_length`; plus `buf.ice_mode` and `buf.palette`.

All six writers share the row loop
```
while pos.y < height { let line_length = buf.get_line_length(pos.y);
  while pos.x < line_length { … emit cell … pos.x += 1 }
  if pos.x < buf.get_width() && pos.y + 1 < height { eol }   // "do not end with eol"
  pos.x = 0; pos.y += 1 }
```
which is `writeRows` below, parametrised by the per-cell emitter and its state (Avatar has its own inner loop).
A Rust panic / `Err` is an explicit outcome (`WOut.panic` / `WOut.err`). -/
namespace IcyVerif.ArtIO
open IcyVerif.Gen.Art

structure Pic where
  /-- `buf.get_width()` -/
  w : Nat
  /-- `rows[y][x]`; `rows.length = buf.get_line_count() = buf.get_height()`; a row may be shorter than `w`
      (missing cells show as the default cell) but never longer -/
  rows : List (List Cell)
  ice : IceMode
  pal : List Rgb
deriving Repr, Inhabited

/-- `buf.get_char((x, y))` -/
def Pic.get (p : Pic) (x y : Nat) : Cell := ((p.rows.getD y []).getD x defaultCell)

/-- the cells `0 .. get_line_length(y)` of a row: trailing transparent cells (blank on colour 0) dropped -/
def trimRow (row : List Cell) : List Cell := (row.reverse.dropWhile Cell.isTransparent).reverse

inductive WOut
  | ok (bytes : List Nat)
  | err
  | panic
deriving DecidableEq, Repr, Inhabited

/-- `if ch.ch == '\0' { b' ' } else { ch.ch as u8 }` -/
def chByte (ch : Nat) : Nat := if ch = 0 then 32 else ch % 256

/-- Rust `PartialEq for TextAttribute` (the font page is not compared; it is not modelled) -/
def Attr.same (a b : Attr) : Bool := a.fg == b.fg && a.bg == b.bg && a.fl == b.fl

/-- the cell loop of one row; `none` = the emitter panicked -/
def writeCells {σ : Type} (emit : σ → Cell → Option (List Nat × σ)) : σ → List Cell → Option (List Nat × σ)
  | s, [] => some ([], s)
  | s, c :: cs =>
    match emit s c with
    | none => none
    | some (b, s1) =>
      match writeCells emit s1 cs with
      | none => none
      | some (bs, s2) => some (b ++ bs, s2)

/-- the row loop shared by the writers -/
def writeRows {σ : Type} (emit : σ → Cell → Option (List Nat × σ)) (eol : List Nat) (w : Nat) :
    σ → List (List Cell) → Option (List Nat)
  | _, [] => some []
  | s, r :: rest =>
    match writeCells emit s (trimRow r) with
    | none => none
    | some (b, s1) =>
      match writeRows emit eol w s1 rest with
      | none => none
      | some bs => some (b ++ (if (trimRow r).length < w ∧ !rest.isEmpty then eol else []) ++ bs)

def WOut.ofOption : Option (List Nat) → WOut
  | some b => .ok b
  | none => .panic

inductive Prep | none | clear | home
deriving DecidableEq, Repr, Inhabited

def crlf : List Nat := [13, 10]

/-! ### ASCII (`src/formats/ascii.rs`) -/

def ascEmit (_ : Unit) (c : Cell) : Option (List Nat × Unit) := some ([chByte c.ch], ())

def writeAscii (p : Pic) : WOut := .ofOption (writeRows ascEmit crlf p.w () p.rows)

/-! ### PCBoard (`src/formats/pcboard.rs`) -/

/-- state: `(last_attr, first_char)`; `HEX_TABLE[colour]` panics for a colour index ≥ 16 -/
def pcbEmit (s : Attr × Bool) (c : Cell) : Option (List Nat × (Attr × Bool)) :=
  if s.2 || !(c.attr.same s.1) then
    match hexTable[c.attr.bg]?, hexTable[c.attr.fg]? with
    | some hb, some hf => some ([64, 88, hb, hf, chByte c.ch], (c.attr, false))
    | _, _ => none
  else some ([chByte c.ch], (s.1, false))

def pcbPrep : Prep → List Nat
  | .clear => [64, 67, 76, 83, 64]      -- "@CLS@"
  | _ => []                             -- home not supported

def writePcb (prep : Prep) (p : Pic) : WOut :=
  if p.pal.length ≠ 16 then .err else
  match writeRows pcbEmit crlf p.w (defaultAttr, true) p.rows with
  | some b => .ok (pcbPrep prep ++ b)
  | none => .panic

/-! ### Renegade (`src/formats/renegade.rs`) -/

/-- `format!("|{:02}", n)` -/
def pipe2 (n : Nat) : List Nat :=
  if n < 100 then [124, 48 + n / 10, 48 + n % 10] else 124 :: (toString n).toList.map Char.toNat

/-- state: `last_attr` -/
def renEmit (last : Attr) (c : Cell) : Option (List Nat × Attr) :=
  if !(c.attr.same last) then
    some ((if c.attr.fg ≠ last.fg then pipe2 c.attr.fg else []) ++
          (if c.attr.bg ≠ last.bg then pipe2 (16 + c.attr.bg) else []) ++ [chByte c.ch], c.attr)
  else some ([chByte c.ch], last)

def writeRenegade (p : Pic) : WOut :=
  if p.pal.length ≠ 16 then .err else .ofOption (writeRows renEmit crlf p.w defaultAttr p.rows)

/-! ### Ctrl-A (`src/formats/ctrla.rs`) -/

structure CtrlAW where
  last : Attr := defaultAttr
  wasBold : Bool := false
  wasBlink : Bool := false
  wasHighBg : Bool := false
deriving Repr, Inhabited

def ctrlaEmit (s : CtrlAW) (c : Cell) : Option (List Nat × CtrlAW) :=
  if !(c.attr.same s.last) then
    let isBold := 7 < c.attr.fg
    let highBg := 7 < c.attr.bg
    let isBlink := c.attr.fl.blink
    let reset := (!isBold && s.wasBold) || (!highBg && s.wasHighBg) || (!isBlink && s.wasBlink)
    let wasBold := if reset then false else s.wasBold
    let wasHighBg := if reset then false else s.wasHighBg
    let wasBlink := if reset then false else s.wasBlink
    let lastFore := if reset then 7 else s.last.fg
    let lastBack := if reset then 0 else s.last.bg
    some ((if reset then [1, 78] else []) ++                                    -- ^A N
          (if isBold && !wasBold then [1, 72] else []) ++                       -- ^A H
          (if highBg && !wasHighBg then [1, 69] else []) ++                     -- ^A E
          (if isBlink && !wasBlink then [1, 73] else []) ++                     -- ^A I
          (if c.attr.fg ≠ lastFore then [1, ctrlaFg.getD (c.attr.fg % 8) 0] else []) ++
          (if c.attr.bg ≠ lastBack then [1, ctrlaBg.getD (c.attr.bg % 8) 0] else []) ++
          [chByte c.ch],
          { last := c.attr, wasBold := isBold, wasBlink := isBlink, wasHighBg := highBg })
  else some ([chByte c.ch], s)

def ctrlaPrep : Prep → List Nat
  | .none => []
  | .home => [1, 39]       -- ^A '
  | .clear => [1, 76]      -- ^A L

def writeCtrlA (prep : Prep) (p : Pic) : WOut :=
  if p.pal.length ≠ 16 then .err else
  match writeRows ctrlaEmit crlf p.w {} p.rows with
  | some b => .ok (ctrlaPrep prep ++ b)
  | none => .panic

/-! ### ATASCII (`src/formats/atascii.rs`) -/

/-- `attr_ch.ch as u8`, `+ 0x80` for an inverse cell (debug profile: the `u8` addition panics on overflow), control
    codes escaped with ESC -/
def ataEmit (_ : Unit) (c : Cell) : Option (List Nat × Unit) :=
  let b := c.ch % 256
  if 0 < c.attr.bg ∧ 128 ≤ b then none else
  let b := if 0 < c.attr.bg then b + 128 else b
  some ((if atasciiEscaped.contains b then [27, b] else [b]), ())

/-- `isAtascii` = `buf.buffer_type == BufferType::Atascii` -/
def writeAtascii (isAtascii : Bool) (p : Pic) : WOut :=
  if !isAtascii then .err else .ofOption (writeRows ataEmit [atasciiEol] p.w () p.rows)

/-! ### Avatar (`src/formats/avatar.rs`) -/

/-- Rust `PartialEq for AttributedChar` -/
def Cell.same (a b : Cell) : Bool := a.ch == b.ch && a.attr.same b.attr

def avtIsCtl (ch : Nat) : Bool := ch == 22 || ch == 12 || ch == 25

/-- the run-length look-ahead: `while pos.x + 3 < width && ch == get(pos.x + 1) { repeat_count += 1; pos.x += 1 }`
    on the full row (`get` beyond the row's cells is the default cell); returns `(repeat_count, pos.x)` -/
def avtRun (w : Nat) (row : List Cell) : Nat → Nat → Nat → Nat × Nat
  | 0, x, n => (n, x)
  | fuel + 1, x, n =>
    if x + avtLookAhead < w ∧ (row.getD x defaultCell).same (row.getD (x + 1) defaultCell) then avtRun w row fuel (x + 1) (n + 1)
    else (n, x)

/-- the cell loop of one row: state `(last_attr, first_char)`, position `x`, `len = get_line_length` -/
def avtCells (im : IceMode) (w len : Nat) (row : List Cell) : Nat → Nat → Attr × Bool → List Nat × (Attr × Bool) × Nat
  | 0, x, s => ([], s, x)
  | fuel + 1, x, s =>
    if len ≤ x then ([], s, x) else
    let (n, x1) := avtRun w row w x 1
    let c := row.getD x1 defaultCell
    let chg := s.2 || !(c.attr.same s.1)
    let pre := if chg then [22, 1, attrAsU8 c.attr im] else []
    let last := if chg then c.attr else s.1
    let body :=
      if 1 < n then
        if n < avtRepeatMin ∧ !avtIsCtl c.ch then List.replicate n (c.ch % 256)
        else [25, c.ch % 256, n % 256]
      else if avtIsCtl c.ch then [25, c.ch % 256, 1]
      else [chByte c.ch]
    let (rest, s', xe) := avtCells im w len row fuel (x1 + 1) (last, false)
    (pre ++ body ++ rest, s', xe)

def rowLen (row : List Cell) : Nat := (trimRow row).length

def avtRows (im : IceMode) (w : Nat) : Attr × Bool → List (List Cell) → List Nat
  | _, [] => []
  | s, r :: rest =>
    let (b, s1, xe) := avtCells im w (rowLen r) r (w + 1) 0 s
    b ++ (if xe < w ∧ !rest.isEmpty then crlf else []) ++ avtRows im w s1 rest

def avtPrep : Prep → List Nat
  | .none => []
  | .clear => [avtClrW]
  | .home => [avtCmdW, 8, 1, 1]

def writeAvatar (prep : Prep) (p : Pic) : WOut :=
  if p.pal.length ≠ 16 then .err else .ok (avtPrep prep ++ avtRows p.ice p.w (defaultAttr, true) p.rows)

/-! ## part 2 — the ANSI writer (`StringGenerator` in `src/formats/ansi.rs`)

`output_line_length = None` (so `push_result` only appends), `modern_terminal_output = false`, `skip_lines = None`,
one font (page 0): these are outside C04's option lattice.  Everything else is transcribed: `get_color` with
`AnsiState`, `generate_cells` incl. the end-of-line trimming, `generate` incl. the RLE / CUF / REP substitution, the
longer-terminal `CSI y H`, control-character handling, `screen_prep` / `screen_end`. -/

inductive CtrlHandling | ignore | icyTerm | filterOut
deriving DecidableEq, Repr, Inhabited

structure AnsiOpts where
  prep : Prep := .none
  compress : Bool := true
  useCursorForward : Bool := true
  useRepeatSequences : Bool := false
  preserveLineLength : Bool := false
  longerTerminalOutput : Bool := false
  useExtendedColors : Bool := true
  ctrl : CtrlHandling := .ignore
deriving DecidableEq, Repr, Inhabited

/-- the writer's idea of the terminal's current rendition -/
structure AnsiState where
  isBold : Bool := false
  isBlink : Bool := false
  isFaint : Bool := false
  isItalic : Bool := false
  isUnderlined : Bool := false
  isDoubleUnderlined : Bool := false
  isCrossedOut : Bool := false
  isConcealed : Bool := false
  fgIdx : Nat := 7
  fg : Rgb := (170, 170, 170)
  bgIdx : Nat := 0
  bg : Rgb := (0, 0, 0)
deriving DecidableEq, Repr, Inhabited

/-- the initial state of `generate_cells`: `DOS_DEFAULT_PALETTE[7]` on `[0]` -/
def ansiState0 : AnsiState := { fg := dosPalette.getD 7 (0, 0, 0), bg := dosPalette.getD 0 (0, 0, 0) }

/-- `DOS_DEFAULT_PALETTE.iter().position(|c| c.get_rgb() == rgb)` -/
def dosIndex (c : Rgb) : Option Nat := dosPalette.findIdx? (· == c)

/-- `extended_color_hash.get(rgb)`: the map is filled in palette order, a later entry with the same RGB overwrites an
    earlier one; empty without `use_extended_colors` -/
def xtermIndex (useExt : Bool) (c : Rgb) : Option Nat :=
  if useExt then
    match xtermPalette.reverse.findIdx? (· == c) with
    | some i => some (xtermPalette.length - 1 - i)
    | none => none
  else none

/-! `StringGenerator::get_color`, statement group by statement group.  `GcTarget` is what the function derives from
the cell's attribute before it looks at the state; the `gc*` functions are the successive `if … { sgr.push(..); state… }`
blocks, each acting on (state, SGR parameters so far). -/

structure GcTarget where
  /-- `cur_fore_rgb`, `cur_back_rgb` -/
  curFore : Rgb
  curBack : Rgb
  /-- the colour index whose RGB `cur_fore_rgb` is (bold low colour = bright colour), and `attr.get_background()` -/
  fgc : Nat
  bgc : Nat
  /-- `fore_idx` / `back_idx` after the bold / ice adjustments -/
  foreIdx : Option Nat
  backIdx : Option Nat
  bold : Bool
  blink : Bool
  faint : Bool
  italic : Bool
  underline : Bool
  dunderline : Bool
  crossed : Bool
  conceal : Bool
deriving Repr, Inhabited

def gcTarget (pal : List Rgb) (im : IceMode) (attr : Attr) : GcTarget :=
  -- a bold low colour is displayed as its bright counterpart
  let fgc := if attr.fl.bold && attr.fg < 8 then attr.fg + 8 else attr.fg
  let curFore := getRgb pal fgc
  let curBack := getRgb pal attr.bg
  let foreIdx0 := dosIndex curFore
  let backIdx0 := dosIndex curBack
  { curFore := curFore, curBack := curBack, fgc := fgc, bgc := attr.bg,
    foreIdx := (match foreIdx0 with
      | some idx => if idx < 8 then some idx else some (idx - 8)
      | none => none),
    backIdx := (match im, backIdx0 with
      | .ice, some idx => if idx < 8 then some idx else some (idx - 8)
      | _, some idx => if 7 < idx then none else some idx
      | _, none => none),
    bold := (match foreIdx0 with
      | some idx => if idx < 8 then false else true
      | none => attr.fl.bold),
    blink := (match im, backIdx0 with
      | .ice, some idx => if idx < 8 then attr.fl.blink else true
      | _, _ => attr.fl.blink),
    faint := attr.fl.faint, italic := attr.fl.italic, underline := attr.fl.underline,
    dunderline := attr.fl.dunderline, crossed := attr.fl.crossed, conceal := attr.fl.conceal }

/-- the big `if` that decides on `sgr.push(0)` -/
def gcNeedReset (t : GcTarget) (st : AnsiState) : Bool :=
  (!t.bold && st.isBold) || (!t.blink && st.isBlink) || (!t.italic && st.isItalic)
    || (!t.faint && st.isFaint) || (!t.underline && st.isUnderlined)
    || (!t.dunderline && st.isDoubleUnderlined) || (!t.crossed && st.isCrossedOut)
    || (!t.conceal && st.isConcealed)
    || (t.bold && !st.isBold && (dosIndex st.fg).isNone)

/-- the state after `sgr.push(0)` -/
def stReset (st : AnsiState) : AnsiState :=
  { st with isBold := false, isBlink := false, isItalic := false, isFaint := false, isUnderlined := false,
            isDoubleUnderlined := false, isCrossedOut := false, isConcealed := false,
            fgIdx := 7, fg := dosPalette.getD 7 (0, 0, 0), bgIdx := 0, bg := dosPalette.getD 0 (0, 0, 0) }

/-- (state, SGR parameters pushed so far) -/
abbrev GcAcc := AnsiState × List Nat

def gcReset (t : GcTarget) (st : AnsiState) : GcAcc := if gcNeedReset t st then (stReset st, [0]) else (st, [])

def gcBold (t : GcTarget) (x : GcAcc) : GcAcc :=
  if t.bold && !x.1.isBold then
    ({ x.1 with fgIdx := x.1.fgIdx + 8,
                fg := if x.1.fgIdx + 8 < 16 then dosPalette.getD (x.1.fgIdx + 8) (0, 0, 0) else x.1.fg,
                isBold := true }, x.2 ++ [1])
  else x

def gcFaint (t : GcTarget) (x : GcAcc) : GcAcc :=
  if t.faint && !x.1.isFaint then ({ x.1 with isFaint := true }, x.2 ++ [2]) else x
def gcItalic (t : GcTarget) (x : GcAcc) : GcAcc :=
  if t.italic && !x.1.isItalic then ({ x.1 with isItalic := true }, x.2 ++ [3]) else x
def gcUnderline (t : GcTarget) (x : GcAcc) : GcAcc :=
  if t.underline && !x.1.isUnderlined then ({ x.1 with isUnderlined := true }, x.2 ++ [4]) else x
def gcBlink (t : GcTarget) (x : GcAcc) : GcAcc :=
  if t.blink && !x.1.isBlink then ({ x.1 with isBlink := true }, x.2 ++ [5]) else x
def gcConceal (t : GcTarget) (x : GcAcc) : GcAcc :=
  if t.conceal && !x.1.isConcealed then ({ x.1 with isConcealed := true }, x.2 ++ [8]) else x
def gcCrossed (t : GcTarget) (x : GcAcc) : GcAcc :=
  if t.crossed && !x.1.isCrossedOut then ({ x.1 with isCrossedOut := true }, x.2 ++ [9]) else x
def gcDUnderline (t : GcTarget) (x : GcAcc) : GcAcc :=
  if t.dunderline && !x.1.isDoubleUnderlined then ({ x.1 with isDoubleUnderlined := true }, x.2 ++ [21]) else x

/-- the foreground block: (state, sgr, sgr_tc) -/
def gcFg (o : AnsiOpts) (t : GcTarget) (x : GcAcc) : AnsiState × List Nat × List Nat :=
  if t.curFore != x.1.fg then
    match t.foreIdx with
    -- the terminal is on DOS colour `i` now (SGR 1 brightens THAT colour), whatever palette slot the cell used
    | some i => ({ x.1 with fgIdx := i + (if t.bold then 8 else 0), fg := t.curFore }, x.2 ++ [colorOffsets.getD i 0 + 30], [])
    | none => match xtermIndex o.useExtendedColors t.curFore with
      | some e => ({ x.1 with fgIdx := t.fgc, fg := t.curFore }, x.2 ++ [38, 5, e], [])
      | none => ({ x.1 with fgIdx := t.fgc, fg := t.curFore }, x.2, [1, t.curFore.1, t.curFore.2.1, t.curFore.2.2])
  else (x.1, x.2, [])

/-- the background block -/
def gcBg (o : AnsiOpts) (t : GcTarget) (y : AnsiState × List Nat × List Nat) : AnsiState × List Nat × List Nat :=
  if t.curBack != y.1.bg then
    match t.backIdx with
    | some i => ({ y.1 with bgIdx := i, bg := t.curBack }, y.2.1 ++ [colorOffsets.getD i 0 + 40], y.2.2)
    | none => match xtermIndex o.useExtendedColors t.curBack with
      | some e => ({ y.1 with bgIdx := t.bgc, bg := t.curBack }, y.2.1 ++ [48, 5, e], y.2.2)
      | none => ({ y.1 with bgIdx := t.bgc, bg := t.curBack }, y.2.1, y.2.2 ++ [0, t.curBack.1, t.curBack.2.1, t.curBack.2.2])
  else y

/-- `StringGenerator::get_color`: the SGR parameters (`sgr`) and 24-bit colour commands (`sgr_tc`) that bring the
    terminal from `state` to the rendition of `attr`, and the new state -/
def getColor (o : AnsiOpts) (pal : List Rgb) (im : IceMode) (attr : Attr) (st : AnsiState) : AnsiState × List Nat × List Nat :=
  let t := gcTarget pal im attr
  gcBg o t (gcFg o t (gcDUnderline t (gcCrossed t (gcConceal t (gcBlink t (gcUnderline t (gcItalic t (gcFaint t (gcBold t
    (gcReset t st))))))))))

structure CharCell where
  ch : Nat
  sgr : List Nat
  sgrTc : List Nat
  cur : AnsiState
deriving Repr, Inhabited

/-- the end-of-line trimming of `generate_cells`: walk left from the last column over blank cells that carry the last
    cell's attribute (only when that attribute's background is colour 0); `fuel` = width -/
def trimScan (row : List Cell) (lastAttr : Attr) : Nat → Nat → Nat
  | 0, last => last
  | fuel + 1, last =>
    if 0 < last then
      let c := row.getD last defaultCell
      if c.ch ≠ 32 ∧ c.ch ≠ 255 ∧ c.ch ≠ 0 then last
      else if !(c.attr.same lastAttr) then last
      else trimScan row lastAttr fuel (last - 1)
    else last

/-- number of cells of the row that `generate_cells` emits -/
def ansiRowLen (o : AnsiOpts) (pal : List Rgb) (w : Nat) (row : List Cell) : Nat :=
  if o.compress && !o.preserveLineLength then
    let lastAttr := (row.getD (w - 1) defaultCell).attr
    -- trimmed cells come back as default blanks: blinking blanks must stay, and colour 0 must be black (the reader's
    -- default background), not a custom palette entry
    let last := if lastAttr.bg = 0 ∧ getRgb pal 0 = (0, 0, 0) ∧ !lastAttr.fl.blink then trimScan row lastAttr w (w - 1) else w - 1
    -- "don't compress if we have only one char, since eol are 2 chars"
    if w ≤ last + 1 + 1 then w else last + 1
  else w

/-- the cells of one row with their SGR deltas; the state runs through the whole picture -/
def genCellsRow (o : AnsiOpts) (pal : List Rgb) (im : IceMode) (row : List Cell) : Nat → Nat → AnsiState → List CharCell × AnsiState
  | 0, _, st => ([], st)
  | n + 1, x, st =>
    let c := row.getD x defaultCell
    if c.isVisible then
      let (st1, sgr, tc) := getColor o pal im c.attr st
      let (rest, st2) := genCellsRow o pal im row n (x + 1) st1
      (⟨c.ch, sgr, tc, st1⟩ :: rest, st2)
    else
      let (rest, st2) := genCellsRow o pal im row n (x + 1) st
      (⟨32, [], [], st⟩ :: rest, st2)

def genCells (o : AnsiOpts) (pal : List Rgb) (im : IceMode) (w : Nat) : List (List Cell) → AnsiState → List (List CharCell)
  | [], _ => []
  | row :: rest, st =>
    let (line, st1) := genCellsRow o pal im row (ansiRowLen o pal w row) 0 st
    line :: genCells o pal im w rest st1

/-- decimal digits of `n` (`to_string`), most significant first -/
def digitsAux : Nat → Nat → List Nat → List Nat
  | 0, _, acc => acc
  | fuel + 1, n, acc => if n < 10 then (48 + n) :: acc else digitsAux fuel (n / 10) ((48 + n % 10) :: acc)

/-- `n.to_string()`; the explicit cases below 1000 (every number the writer emits on a picture of at most 999 rows)
    keep the arithmetic visible to the proofs -/
def digits (n : Nat) : List Nat :=
  if n < 10 then [48 + n]
  else if n < 100 then [48 + n / 10, 48 + n % 10]
  else if n < 1000 then [48 + n / 100, 48 + n / 10 % 10, 48 + n % 10]
  else digitsAux (n + 1) n []

/-- `p1 ; p2 ; …` -/
def params : List Nat → List Nat
  | [] => []
  | [p] => digits p
  | p :: ps => digits p ++ [59] ++ params ps

/-- `ESC [ p1 ; p2 ; … <final>` -/
def csi (ps : List Nat) (final : Nat) : List Nat := [27, 91] ++ params ps ++ [final]

/-- the `sgr_tc` list is consumed in groups of four: `ESC [ k ; r ; g ; b t` -/
def tcSeqs : Nat → List Nat → List Nat
  | 0, _ => []
  | _, [] => []
  | fuel + 1, a :: b :: c :: d :: rest => csi [a, b, c, d] 116 ++ tcSeqs fuel rest
  | _, _ => []

/-- `cell_char` -/
def cellChar (o : AnsiOpts) (ch : Nat) : List Nat :=
  if ansiControlChars.contains ch then
    match o.ctrl with
    | .ignore => [ch % 256]
    | .icyTerm => [27, ch % 256]
    | .filterOut => [46]
  else [ch % 256]

/-- how many cells after `line[x]` repeat it without any rendition change (`rle` after the two decrements) -/
def rleCount (first : CharCell) : List CharCell → Nat
  | [] => 0
  | c :: rest => if c.ch ≠ first.ch ∨ !c.sgr.isEmpty ∨ !c.sgrTc.isEmpty then 0 else rleCount first rest + 1

/-- the cell loop of `generate` for one line (fuel = number of cells; `x` = column of the first cell of the list) -/
def genLine (o : AnsiOpts) (w : Nat) : Nat → Nat → List CharCell → List Nat
  | 0, _, _ => []
  | _, _, [] => []
  | fuel + 1, x, cell :: rest =>
    let pre := (if cell.sgr.isEmpty then [] else csi cell.sgr 109) ++ tcSeqs cell.sgrTc.length cell.sgrTc
    let cc := cellChar o cell.ch
    let rle := rleCount cell rest
    if o.compress then
      let cuf := csi [rle + 1] 67
      -- a run that reaches the right margin must be printed: CSI n C stops at the last column and does not wrap
      if o.useCursorForward ∧ cell.ch = 32 ∧ cell.cur.bgIdx = 0 ∧ cell.cur.bg = (0, 0, 0) ∧ !cell.cur.isBlink ∧ x + rle + 1 < w ∧ cuf.length ≤ rle then
        pre ++ cuf ++ genLine o w fuel (x + rle + 1) (rest.drop rle)
      else
        let rp := csi [rle] 98
        if o.useRepeatSequences ∧ rp.length ≤ rle then pre ++ cc ++ rp ++ genLine o w fuel (x + rle + 1) (rest.drop rle)
        else pre ++ cc ++ genLine o w fuel (x + 1) rest
    else pre ++ cc ++ genLine o w fuel (x + 1) rest

/-- the row loop of `generate`; `y` = row index, `h` = `layer.get_height()`, `first` = `is_first_output_line` -/
def genLines (o : AnsiOpts) (w h : Nat) : List (List CharCell) → Nat → Bool → List Nat
  | [], _, _ => []
  | line :: rest, y, first =>
    let head := if o.longerTerminalOutput then (if first then csi [0] 109 else []) ++ csi [y + 1] 72 else []
    let body := genLine o w line.length 0 line
    -- `x` after the cell loop is the number of cells of the line
    let x := line.length
    let eol := if !o.longerTerminalOutput ∧ x < w ∧ y + 1 < h then
        (if o.compress ∧ w ≤ x + 1 then [32] else [13, 10])
      else []
    head ++ body ++ eol ++ genLines o w h rest (y + 1) false

def ansiPrep (o : AnsiOpts) (im : IceMode) : List Nat :=
  (if im = .ice then [27, 91, 63, 51, 51, 104] else []) ++
  (match o.prep with
   | .none => []
   | .clear => [27, 91, 50, 74]
   | .home => [27, 91, 49, 59, 49, 72])

def ansiEnd (im : IceMode) : List Nat := if im = .ice then [27, 91, 63, 51, 51, 108] else []

/-- `Ansi::to_bytes` without SAUCE -/
def writeAnsi (o : AnsiOpts) (p : Pic) : List Nat :=
  let rows := p.rows.map fun r => r ++ List.replicate (p.w - r.length) defaultCell
  ansiPrep o p.ice ++ genLines o p.w p.rows.length (genCells o p.pal p.ice p.w rows ansiState0) 0 true ++ ansiEnd p.ice

end IcyVerif.ArtIO
