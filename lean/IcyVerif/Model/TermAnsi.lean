import IcyVerif.Model.TermGeo
/-! # The ANSI parser's control flow over `TermGeo` (`src/parsers/ansi/mod.rs`, `ansi_commands.rs`, `dcs.rs`)
One `step` per input character.  `inv` is the macro invoker (a parameter so that the nesting depth is the
structural recursion of `stepD`). -/
namespace IcyVerif.Term

abbrev R := Res (St × Out)
@[inline] def ret (st : St) (o : Out) : R := .ok (st, o)
@[inline] def setSt (st : St) (ps : PSt) : St := { st with p := { st.p with st := ps } }
@[inline] def withC (st : St) (c : Car) : St := { st with c := c }
@[inline] def withS (st : St) (s : Scr) : St := { st with s := s }
@[inline] def dflt (st : St) : St := setSt st .dflt

def liftC (st : St) (r : Res Car) (o : Out) : R :=
  match r with
  | .ok c => ret (withC st c) o
  | .error e => .error e
def liftSC (st : St) (r : Res (Scr × Car)) (o : Out) : R :=
  match r with
  | .ok (s, c) => ret { st with s := s, c := c } o
  | .error e => .error e

def firstOr (nums : List Int) (d : Int) : Int := match nums with | n :: _ => n | [] => d

def iterTab (f : Int → Int) : Nat → Int → Int
  | 0, x => x
  | n+1, x => iterTab f n (f x)

/-- number of `print_char` calls of `CSI Pn b` (REP): the parameter, clamped to one screenful -/
def repCount (nums : List Int) (s : Scr) : Nat := (min (firstOr nums 1) (satMul s.tw s.th)).toNat
/-- number of tab-stop searches of `CSI Pn Y` / `CSI Pn Z`: the parameter, clamped to the number of stops + 1 -/
def tabCount (nums : List Int) (s : Scr) : Nat := (min (firstOr nums 1) ((s.tabs.length : Int) + 1)).toNat
/-- iterations of the other parameter-driven loops of the repaired code (content only, no geometry effect);
    `rowChars` / `rowsBelow` are the length of the caret row and the number of rows from the caret row on -/
def ichCount (nums : List Int) (s : Scr) : Nat := (min (firstOr nums 1) s.tw).toNat
def dchCount (nums : List Int) (rowChars : Int) : Nat := (min (firstOr nums 1) rowChars).toNat
def ilCount (nums : List Int) (s : Scr) : Nat := (min (firstOr nums 1) s.th).toNat
def dlCount (nums : List Int) (rowsBelow : Int) : Nat := (min (firstOr nums 1) rowsBelow).toNat
def scrollCount (nums : List Int) (s : Scr) : Nat := (min (firstOr nums 1) s.th).toNat
def scrollLRCount (nums : List Int) (s : Scr) : Nat := (min (firstOr nums 1) s.tw).toNat
def upScrollCount (y : Int) (s : Scr) : Nat := (min (satSub s.firstEditable y) s.th).toNat

/-- `CSI … <final>` in state ReadCSISequence(is_start); `current_escape_sequence` is not modelled -/
def csiFinal (cfg : Cfg) (o : Orc) (st : St) (isStart : Bool) (ch : Char) : R :=
  let nums := st.p.nums
  let s := st.s
  let c := st.c
  let d := dflt st
  if ch = 'm' then ret d (if sgrOk nums then .ok else .err)
  else if ch = 'H' ∨ ch = 'f' then
    match nums with
    | [] => liftC d (limit s { c with x := s.upperLeft.1, y := s.upperLeft.2 }) .ok
    | n0 :: rest =>
      let c := if n0 ≥ 0 then { c with y := satAdd s.fv (max 0 (n0 - 1)) } else c
      let c := match rest with
        | n1 :: _ => if n1 ≥ 0 then { c with x := max 0 (n1 - 1) } else c
        | [] => { c with x := 0 }
      liftC d (limit s c) .ok
  else if ch = 'C' then liftC d (right s c (firstOr nums 1)) .ok
  else if ch = 'j' ∨ ch = 'D' then liftC d (left s c (firstOr nums 1)) .ok
  else if ch = 'k' ∨ ch = 'A' then liftC d (up s c (firstOr nums 1)) .ok
  else if ch = 'B' then liftC d (down s c (firstOr nums 1)) .ok
  else if ch = 's' then
    if s.declrmm then
      match nums with
      | [a, b] => ret (withS d (setMarginsLR s (a - 1) (b - 1))) .ok
      | [a] => ret (withS d (setMarginsLR s 0 (a - 1))) .ok
      | [] => ret (withS d (setMarginsLR s 0 s.th)) .ok
      | _ => ret d .err
    else ret { d with p := { d.p with savedPos := (c.x, c.y) } } .ok
  else if ch = 'u' then liftC d (limit s { c with x := st.p.savedPos.1, y := st.p.savedPos.2 }) .ok
  else if ch = 'd' then
    let num := match nums with | n :: _ => n - 1 | [] => 0
    liftC d (limit s { c with y := satAdd s.fv num }) .ok
  else if ch = 'e' then liftC d (limit s { c with y := satAdd (satAdd s.fv c.y) (firstOr nums 1) }) .ok
  else if ch = '\'' then
    let num := match nums with | n :: _ => n - 1 | [] => 0
    if o.lineLen ≥ 0 then liftC d (limit s { c with x := clampI num 0 o.lineLen }) .ok else ret d .ok
  else if ch = 'a' then
    if o.lineLen ≥ 0 then liftC d (limit s { c with x := min o.lineLen (satAdd c.x (firstOr nums 1)) }) .ok
    else ret d .ok
  else if ch = 'G' then
    let num := match nums with | n :: _ => n - 1 | [] => 0
    liftC d (limit s { c with x := num }) .ok
  else if ch = 'E' then liftC d (limit s { c with y := satAdd (satAdd s.fv c.y) (firstOr nums 1), x := 0 }) .ok
  else if ch = 'F' then liftC d (limit s { c with y := satSub (satAdd s.fv c.y) (firstOr nums 1), x := 0 }) .ok
  else if ch = 'n' then
    match nums with
    | [n] => ret d (if n = 5 ∨ n = 6 ∨ n = 255 then .ok else .err)
    | _ => ret d .err
  else if ch = 'X' then
    -- ECH: `erase_charcter` runs first (with 1 when there is no parameter), the parameter count is checked afterwards
    if EchPanics s c (firstOr nums 1) then .error (.negIndex "erase_charcter: Line::set_char(x)")
    else ret d (if nums.isEmpty then .err else .ok)
  else if ch = '@' then ret d (if nums.isEmpty then .err else .ok)
  else if ch = 'M' then
    if cfg.musicOpt = 1 ∨ cfg.musicOpt = 3 then ret { st with p := { st.p with st := .music .style, mus := musicEnter st.p.mus } } .ok
    else if nums.isEmpty then
      -- DL: `if y < lines.len() { remove_terminal_line(y) }`
      if LineOpPanics s c.y then .error (.negIndex "remove_terminal_line: Layer::remove_line(y) / insert_line(end)") else ret d .ok
    else if nums.length ≠ 1 then ret d .err
    else if firstOr nums 1 > 0 ∧ LineOpPanics s c.y then
      .error (.negIndex "remove_terminal_line: Layer::remove_line(y) / insert_line(end)")
    else ret d .ok
  else if ch = 'N' then
    if cfg.musicOpt = 2 ∨ cfg.musicOpt = 3 then ret { st with p := { st.p with st := .music .style, mus := musicEnter st.p.mus } } .ok else ret st .ok
  else if ch = '|' then
    if cfg.musicOpt ≠ 0 then ret { st with p := { st.p with st := .music .style, mus := musicEnter st.p.mus } } .ok else ret st .ok
  else if ch = 'P' then
    if nums.isEmpty then ret d .ok else ret d (if nums.length ≠ 1 then .err else .ok)
  else if ch = 'L' then
    -- IL: `insert_terminal_line(y)` once, or `min(Pn, height)` times
    if nums.isEmpty then
      if LineOpPanics s c.y then .error (.negIndex "insert_terminal_line: lines.remove(end) / Layer::insert_line(y)") else ret d .ok
    else if nums.length ≠ 1 then ret d .err
    else if firstOr nums 1 > 0 ∧ LineOpPanics s c.y then
      .error (.negIndex "insert_terminal_line: lines.remove(end) / Layer::insert_line(y)")
    else ret d .ok
  else if ch = 'J' then
    match nums with
    | [] => ret d .ok
    | n :: _ =>
      if n = 0 ∨ n = 1 then ret d .ok
      else if n = 2 ∨ n = 3 then
        let (s', c') := clearScreen s c
        ret { d with s := s', c := c' } .ok
      else ret d .err
  else if ch = '?' then if !isStart then ret st .err else ret (setSt st .csiCmd) .ok
  else if ch = '=' then if !isStart then ret st .err else ret (setSt st .csiReq) .ok
  else if ch = '!' then if !isStart then ret st .err else ret (setSt st .rip) .ok
  else if ch = '<' then if !isStart then ret st .err else ret (setSt st .devAttr) .ok
  else if ch = '*' ∨ ch = '$' ∨ ch = ' ' then ret (setSt st (.endCsi ch)) .ok
  else if ch = 'K' then
    match nums with
    | [] => ret d .ok
    | n :: _ => ret d (if n = 0 ∨ n = 1 ∨ n = 2 then .ok else .err)
  else if ch = 'c' then ret d .ok
  else if ch = 'r' then
    if nums.length > 2 then
      match nums with
      | [a, b, l] =>
        let c := { c with x := s.upperLeft.1, y := s.upperLeft.2 }
        ret { d with s := setMarginsLR (setMarginsTB s (a - 1) (b - 1)) (l - 1) s.tw, c := c } .ok
      | [a, b, l, r] =>
        let c := { c with x := s.upperLeft.1, y := s.upperLeft.2 }
        ret { d with s := setMarginsLR (setMarginsTB s (a - 1) (b - 1)) (l - 1) (r - 1), c := c } .ok
      | _ => ret d .err
    else
      let s' := match nums with
        | [a, b] => setMarginsTB s (a - 1) (b - 1)
        | [a] => setMarginsTB s 0 (a - 1)
        | _ => setMarginsTB s 0 s.th
      ret { d with s := s', c := { c with x := s'.upperLeft.1, y := s'.upperLeft.2 } } .ok
  else if ch = 'h' ∨ ch = 'l' then
    match nums with
    | [n] => if n = 4 then ret (withC d { c with ins := (ch = 'h') }) .ok else ret d .err
    | _ => ret d .err
  else if ch = '~' then
    match nums with
    | [n] =>
      if n = 1 then ret (withC d { c with x := 0 }) .ok
      else if n = 2 ∨ n = 3 ∨ n = 5 ∨ n = 6 then ret d .ok
      else if n = 4 then ret (withC d { c with x := s.tw - 1 }) .ok
      else ret d .err
    | _ => ret d .err
  else if ch = 't' then
    match nums with
    | [a, h, w] =>
      if a = 8 then
        let w := max (min w 132) 1
        let h := max (min h 60) 1
        let d := { d with p := { d.p with resized := true } }
        ret (withS d { s with tw := w, th := h, tabs := resetTabs w, mtb := none, mlr := none }) .resize
      else ret d .err
    | [a, _, _, _] => ret d (if a = 0 ∨ a = 1 then .ok else .err)
    | _ => ret d .err
  else if ch = 'S' ∨ ch = 'T' then ret d .ok
  else if ch = 'b' then
    liftSC d (printN (repCount nums s) s c) .ok
  else if ch = 'g' then
    if nums.length > 1 then ret d .err
    else
      let num := firstOr nums 0
      if num = 0 then ret (withS d { s with tabs := s.tabs.filter (fun t => t ≠ c.x) }) .ok
      else if num = 3 ∨ num = 5 then ret (withS d { s with tabs := [] }) .ok
      else ret d .err
  else if ch = 'Y' then
    if nums.length > 1 then ret d .err
    else
      liftC d (limit s { c with x := iterTab (nextTabStop s.tabs s.tw) (tabCount nums s) c.x }) .ok
  else if ch = 'Z' then
    if nums.length > 1 then ret d .err
    else
      liftC d (limit s { c with x := iterTab (prevTabStop s.tabs) (tabCount nums s) c.x }) .ok
  else
    let st1 := setSt st (.csi false)
    if '@' ≤ ch ∧ ch ≤ '~' then ret d .err
    else if isDigit ch then ret { st1 with p := { st1.p with nums := pushDigit nums ch } } .ok
    else if ch = ';' then ret { st1 with p := { st1.p with nums := nums ++ [0] } } .ok
    else ret d .err

/-- numbers and `;` shared by the `CSI ?`, `CSI =`, `CSI <` states -/
def numChar (st : St) (ch : Char) : Option St :=
  if isDigit ch then some { st with p := { st.p with nums := pushDigit st.p.nums ch } }
  else if ch = ';' then some { st with p := { st.p with nums := st.p.nums ++ [0] } }
  else none

def mouseModes : List Int := [9, 1000, 1001, 1002, 1003, 1004, 1005, 1006, 1007, 1015, 1016]

def csiCmd (st : St) (ch : Char) : R :=
  let nums := st.p.nums
  let d := dflt st
  if ch = 'l' then
    match nums with
    | [n] =>
      if n = 4 ∨ n = 6 ∨ n = 25 ∨ n = 33 ∨ n = 35 then ret d .ok
      else if n = 7 then ret (withS d { st.s with autowrap := false }) .ok
      else if n = 69 then ret (withS d { st.s with declrmm := false, mlr := none }) .ok
      else if mouseModes.contains n then ret d .ok
      else ret d .err
    | _ => ret d .err
  else if ch = 'h' then
    match nums with
    | [n] =>
      if n = 4 ∨ n = 6 ∨ n = 25 ∨ n = 33 ∨ n = 35 then ret d .ok
      else if n = 7 then ret (withS d { st.s with autowrap := true }) .ok
      else if n = 69 then ret (withS d { st.s with declrmm := true }) .ok
      else if mouseModes.contains n then ret d .ok
      else ret d .err
    | _ => ret d .err
  else if ch = 'n' then
    match nums with
    | n :: rest =>
      if n = 62 then ret d .ok
      else if n = 63 then ret d (if rest.length ≠ 1 then .err else .ok)
      else ret d .err
    | [] => ret d .err
  else match numChar st ch with
    | some st' => ret st' .ok
    | none => ret d .err

def setSpecificMargin (st : St) : R :=
  let d := dflt st
  let s := st.s
  match st.p.nums with
  | [k, v] =>
    let n := v - 1
    if k = 0 then ret (withS d (setMarginsTB s (match s.mtb with | some (t, _) => t | none => 0) n)) .ok
    else if k = 1 then ret (withS d (setMarginsTB s n (match s.mtb with | some (_, b) => b | none => s.th - 1))) .ok
    else if k = 2 then ret (withS d (setMarginsLR s (match s.mlr with | some (l, _) => l | none => 0) n)) .ok
    else if k = 3 then ret (withS d (setMarginsLR s n (match s.mlr with | some (_, r) => r | none => s.tw - 1))) .ok
    else ret d .err
  | _ => ret st .err      -- `return Err` before the state is reset

def csiReq (st : St) (ch : Char) : R :=
  let nums := st.p.nums
  let d := dflt st
  if ch = 'n' then
    match nums with
    | [n] => ret d (if n = 1 ∨ n = 2 ∨ n = 3 then .ok else .err)
    | _ => ret d .err
  else if ch = 'r' then ret (withS d { st.s with mtb := none, mlr := none }) .ok
  else if ch = 'm' then setSpecificMargin st
  else match numChar st ch with
    | some st' => ret st' .ok
    | none => ret d .err

def softReset (st : St) : St :=
  let s := resetTerminal st.s
  { dflt st with s := s, c := { x := s.upperLeft.1, y := s.upperLeft.2, ins := false } }

def devAttr (st : St) (ch : Char) : R :=
  match numChar st ch with
  | some st' => ret st' .ok
  | none => if ch = 'c' then ret (dflt st) (if st.p.nums.length > 1 then .err else .ok) else ret (dflt st) .err

def endCsi (o : Orc) (inv : Int → St → Res St) (st : St) (f ch : Char) : R :=
  let nums := st.p.nums
  let d := dflt st
  if f = '*' then
    if ch = 'z' then
      match nums with
      | id :: _ => match inv id d with
        | .ok st' => ret st' .ok
        | .error e => .error e
      | [] => ret d .ok
    else if ch = 'r' then ret d .ok
    else if ch = 'y' then
      match nums with
      | [_, _, pt, pl, pb, pr] =>
        ret d (if pt > pb ∨ pl > pr ∨ pr > st.s.tw ∨ pb > st.s.th ∨ pl < 0 ∨ pt < 0 then .err else .ok)
      | _ => ret d .err
    else ret st .ok
  else if f = '$' then
    if ch = 'w' then ret d .ok
    else if ch = 'x' then
      -- fill character must be a Unicode scalar value (`char::from_u32`)
      let v := firstOr nums 0
      ret d (if nums.length ≠ 5 then .err else if v < 55296 ∨ (57344 ≤ v ∧ v ≤ 1114111) then .ok else .err)
    else if ch = 'z' ∨ ch = '{' then ret d (if nums.length ≠ 4 then .err else .ok)
    else ret st .ok
  else if f = ' ' then
    if ch = 'D' then ret d (if nums.length ≠ 2 then .err else if o.extOk then .ok else .err)
    else if ch = 'A' ∨ ch = '@' then ret d .ok
    else if ch = 'd' then
      match nums with
      | [n] => ret (withS d { st.s with tabs := st.s.tabs.filter (fun t => t ≠ n - 1) }) .ok
      | _ => ret d .err
    else ret d .err
  else ret d .err

def escChar (st : St) (ch : Char) : R :=
  let d := dflt st
  let s := st.s
  let c := st.c
  if ch = '[' then ret { st with p := { st.p with st := .csi true, nums := [] } } .ok
  else if ch = ']' then ret { st with p := { st.p with st := .osc, nums := [], str := [] } } .ok
  else if ch = '7' then ret { d with p := { d.p with savedCar := some c } } .ok
  else if ch = '8' then
    match st.p.savedCar with
    | some sc => liftC d (limit s sc) .ok
    | none => ret d .ok
  else if ch = 'c' then
    let (s1, _) := ff s c
    let s2 := resetTerminal s1
    ret { d with s := s2, c := { x := 0, y := 0, ins := false }, p := { d.p with macros := [] } } .ok
  else if ch = 'D' then liftC d (index s c) .ok
  else if ch = 'M' then liftC d (reverseIndex s c) .ok
  else if ch = 'E' then liftC d (nextLine s c) .ok
  else if ch = 'P' then ret { st with p := { st.p with st := .dcs, nums := [], str := [] } } .ok
  else if ch = 'H' then ret (withS d { s with tabs := setTabAt s.tabs c.x }) .ok
  else if ch = '_' then ret { st with p := { st.p with st := .aps, str := [] } } .ok
  else if '0' ≤ ch ∧ ch ≤ '~' then ret d .ok
  else if ch = '\x0c' ∨ ch = '\x07' ∨ ch = '\x08' ∨ ch = '\x09' ∨ ch = '\x7f' ∨ ch = '\x1b' ∨ ch = '\n' ∨ ch = '\r' then
    liftSC d (printChar s c) .ok
  else ret d .err

def dfltChar (cfg : Cfg) (st : St) (ch : Char) : R :=
  let s := st.s
  let c := st.c
  if ch = '\x1b' then ret (setSt st .esc) .ok
  else if ch = '\n' then liftSC st (lf s c) .ok
  else if ch = '\x0c' then
    let (s', c') := ff s c
    ret { st with s := s', c := c' } .ok
  else if ch = '\r' then ret (withC st { c with x := 0 }) .ok
  else if ch = '\x07' then ret st .ok
  else if ch = '\x7f' then ret st .ok
  else if ch = '\x08' ∧ cfg.bsCtrl then ret (withC st { c with x := max 0 (c.x - 1) }) .ok
  else if (ch = '\x00' ∨ ch = '\xff') ∧ cfg.bsCtrl then ret st .ok
  else liftSC st (printChar s c) .ok

def addStr (st : St) (cs : List Char) : St := { st with p := { st.p with str := st.p.str ++ cs } }

/-- one character; `inv` invokes a macro by id -/
def stepCore (cfg : Cfg) (o : Orc) (inv : Int → St → Res St) (st : St) (ch : Char) : R :=
  if ¬ (RangeOk st.s st.c ∧ MusicSafe st.p.st st.p.mus ch) then
    .error (.overflow (if RangeOk st.s st.c then "sound.rs: cur_tempo * pause" else "i32 arithmetic on the cursor / buffer height"))
  else
  match st.p.st with
  | .music m =>
    ret { st with p := { st.p with st := (musicStep m st.p.mus ch).1, mus := (musicStep m st.p.mus ch).2.1 } } (musicStep m st.p.mus ch).2.2
  | .esc => escChar st ch
  | .aps => if ch = '\x1b' then ret (setSt st .apsEsc) .ok else ret (addStr st [ch]) .ok
  | .apsEsc =>
    if ch = '\\' then ret (dflt st) .ok else ret (addStr (setSt st .aps) ['\x1b', ch]) .ok
  | .dcsMacro i =>
    let st := { st with p := { st.p with mdcs := st.p.mdcs ++ [ch] } }
    if isDigit ch then
      if i ≠ 1 then ret (dflt st) .err
      else ret { st with p := { st.p with nums := pushDigit st.p.nums ch } } .ok
    else if ch = '[' then (if i ≠ 0 then ret (dflt st) .err else ret (setSt st (.dcsMacro 1)) .ok)
    else if ch = '*' then (if i ≠ 1 then ret (dflt st) .err else ret (setSt st (.dcsMacro 2)) .ok)
    else if ch = 'z' then
      if i ≠ 2 then ret (dflt st) .err
      else match st.p.nums with
        | [id] => match inv id (setSt st .dcs) with
          | .ok st' => ret st' .ok
          | .error e => .error e
        | _ => ret (dflt st) .err
    else ret (addStr (setSt st .dcs) (['\x1b', '['] ++ st.p.mdcs)) .ok
  | .dcs => if ch = '\x1b' then ret (setSt st .dcsEsc) .ok else ret (addStr st [ch]) .ok
  | .dcsEsc =>
    if ch = '\\' then
      let (p, out) := executeDcs { st.p with st := .dflt } o
      ret { st with p := p } out
    else if ch = '[' then ret { st with p := { st.p with st := .dcsMacro 1, mdcs := [] } } .ok
    else ret (addStr (setSt st .dcs) ['\x1b', ch]) .ok
  | .osc => if ch = '\x1b' then ret (setSt st .oscEsc) .ok else ret (addStr st [ch]) .ok
  | .oscEsc =>
    if ch = '\\' then
      ret { st with p := { st.p with st := .dflt, nums := (takeNums st.p.str st.p.nums).1 } } (if o.extOk then .ok else .err)
    else ret (addStr (setSt st .osc) ['\x1b', ch]) .ok
  | .csiCmd => csiCmd st ch
  | .csiReq => csiReq st ch
  | .rip =>
    if ch = 'p' then ret (softReset st) .ok
    else
      -- "potential rip support request": continue parsing this character in the default state
      dfltChar cfg (dflt st) ch
  | .devAttr => devAttr st ch
  | .endCsi f => endCsi o inv st f ch
  | .csi isStart => csiFinal cfg o st isStart ch
  | .dflt => dfltChar cfg st ch

/-- replay a macro body; errors of single characters are logged and ignored, panics propagate -/
def replay (stepf : St → Char → R) : List Char → St → Res St
  | [], st => .ok st
  | ch :: rest, st =>
    if st.p.budget = 0 then .ok st else
    let st := { st with p := { st.p with budget := st.p.budget - 1 } }
    match stepf st ch with
    | .ok (st', _) => replay stepf rest st'
    | .error e => .error e

/-- `invoke_macro_by_id`: unknown id → nothing; at top level (`macro_depth == 0`) the expansion budget is reset -/
def invoker (stepf : St → Char → R) (top : Bool) (id : Int) (st : St) : Res St :=
  match macroGet st.p.macros id.toNat with
  | none => .ok st
  | some body =>
    replay stepf body (if top then { st with p := { st.p with budget := MAX_MACRO_EXPANSION } } else st)

def tickSt (st : St) : St := { st with p := { st.p with tick := st.p.tick + 1 } }

def stepD : Nat → Cfg → (Nat → Orc) → St → Char → R
  | 0, cfg, o, st, ch => stepCore cfg (o st.p.tick) (fun _ st => .ok st) (tickSt st) ch
  | d+1, cfg, o, st, ch =>
    stepCore cfg (o st.p.tick) (invoker (stepD d cfg o) (decide (d + 1 = MAX_MACRO_DEPTH))) (tickSt st) ch

def step (cfg : Cfg) (o : Nat → Orc) (st : St) (ch : Char) : R := stepD MAX_MACRO_DEPTH cfg o st ch

/-- the payload of the `CallbackAction::PlayMusic` a *top-level* character hands to the caller: the terminator `0x0E`
    met in music mode (every music state except `SetOctave`, which reports an error instead).  Tunes that end inside a
    macro replay are dropped — `invoke_macro_by_id` ignores the actions of the replayed characters. -/
def playMusicOf (pre : St) (ch : Char) (post : St) : Option (List MAct) :=
  match pre.p.st with
  | .music .octave => none
  | .music _ => if ch = '\x0e' then some post.p.mus.last else none
  | _ => none

/-- feed a whole stream; an `Err` result of a character does not stop the run (the emulation keeps accepting input) -/
def run (cfg : Cfg) (o : Nat → Orc) : St → List Char → Res St
  | st, [] => .ok st
  | st, ch :: rest =>
    match step cfg o st ch with
    | .ok (st', _) => run cfg o st' rest
    | .error e => .error e

def initScr (w h : Int) : Scr :=
  { tw := w, th := h, bw := w, bh := h, mtb := none, mlr := none, declrmm := false, autowrap := true, tabs := resetTabs w }
def initSt (w h : Int) : St := { s := initScr w h, c := { x := 0, y := 0, ins := false }, p := {} }

end IcyVerif.Term
