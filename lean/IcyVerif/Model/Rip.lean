import IcyVerif.Gen.Rip
/-! Executable model of the RIPscrip lexer of `src/parsers/rip/mod.rs` (`Parser::print_char`,
`parse_parameter`, `start_command`, `push_command`, `parse_base_36`) and of the generic shape of
`Command::parse` / `to_rip_string` in `commands.rs`, interpreted over the regenerated command table
`Gen/Rip.lean`.  What a command *does* when it is run, and what the ANSI fallback parser does with the characters
handed over, is not part of this model: both appear as opaque outcomes (`Out.run`, `Out.fallback`).

Characters are code points (`Nat`).  Rust `i32` values are `Int`; every `i32` operation of the lexer that can leave
the `i32` range is explicit (`StepRes.panic`). -/
namespace IcyVerif.Rip
open IcyVerif.RipSpec

def i32Max : Int := 2147483647
def i32Min : Int := -2147483648

/-- `char::to_digit(36)` -/
def digit36? (c : Nat) : Option Nat :=
  if 48 ≤ c ∧ c ≤ 57 then some (c - 48)
  else if 97 ≤ c ∧ c ≤ 122 then some (c - 97 + 10)
  else if 65 ≤ c ∧ c ≤ 90 then some (c - 65 + 10)
  else none

/-- result of a fallible parser operation -/
inductive PRes (α : Type) where
  | ok (a : α)
  | err
  | panic (site : String)
  deriving Repr

/-- `parse_base_36(&mut n, ch)`: with the checked arithmetic of the repaired code an overflow is an error; the
pinned code (`*number * 36 + digit`) panics in the debug profile. -/
def parseBase36 (checked : Bool) (n : Int) (c : Nat) : PRes Int :=
  match digit36? c with
  | none => .err
  | some d =>
    if i32Min ≤ n * 36 ∧ n * 36 ≤ i32Max ∧ n * 36 + (d : Int) ≤ i32Max then .ok (n * 36 + (d : Int))
    else (bif checked then .err else .panic "parse_base_36")

/-- the command under construction: index into `Gen.Rip.cmds`, integer / bool fields, string fields, the vector -/
structure CmdSt where
  idx : Nat
  ints : List Int
  strs : List (List Nat)
  vec : List Int
  deriving Repr, DecidableEq

def CmdSt.fresh (idx : Nat) (spec : CmdSpec) : CmdSt :=
  ⟨idx, List.replicate spec.nInts 0, (List.range spec.nStrs).map (fun i => if spec.charSlots.contains i then [0] else []), []⟩

def getInt (c : CmdSt) (i : Nat) : Int := c.ints.getD i 0
def setInt (c : CmdSt) (i : Nat) (v : Int) : CmdSt := { c with ints := c.ints.set i v }
def getStr (c : CmdSt) (i : Nat) : List Nat := c.strs.getD i []
def setStr (c : CmdSt) (i : Nat) (v : List Nat) : CmdSt := { c with strs := c.strs.set i v }

/-- outcome of `Command::parse`: `ok c more`, `err c` (the command keeps what was done before the `?`), `panic` -/
inductive ParseRes where
  | ok (c : CmdSt) (more : Bool)
  | err (c : CmdSt)
  | panic (site : String)
  deriving Repr

def findArm (arms : List Arm) (p : Nat) : Option Arm := arms.find? (fun a => a.lo ≤ p ∧ p ≤ a.hi)

def evalRet (r : Ret) (c : CmdSt) (p : Int) : PRes Bool :=
  match r with
  | .t => .ok true
  | .f => .ok false
  | .lt n => .ok (decide (p < (n : Int)))
  | .ltPoly i =>
    let v := getInt c i
    -- `(self.npoints + 1) * 4` in i32
    if v + 1 ≤ i32Max ∧ (v + 1) * 4 ≤ i32Max ∧ i32Min ≤ (v + 1) * 4 then .ok (decide (p < (v + 1) * 4))
    else .panic "Command::parse: (npoints + 1) * 4"

/-- the `Ok(..)` at the end of an arm, evaluated on the updated command -/
def finish (r : Ret) (c' : CmdSt) (p : Int) : ParseRes :=
  match evalRet r c' p with
  | .ok b => .ok c' b
  | .err => .err c'
  | .panic s => .panic s

/-- one `parse` arm applied to character `ch` in parameter state `p` -/
def applyAct (checked : Bool) (a : Act) (r : Ret) (c : CmdSt) (p : Int) (ch : Nat) : ParseRes :=
  let fin (c' : CmdSt) : ParseRes := finish r c' p
  match a with
  | .digit i =>
    match parseBase36 checked (getInt c i) ch with
    | .ok v => fin (setInt c i v)
    | .err => .err c
    | .panic s => .panic s
  | .digitUnwrap i =>
    match digit36? ch with
    | some d => fin (setInt c i d)
    | none => .panic "Command::parse: to_digit(36).unwrap()"
  | .flag i => fin (setInt c i (if ch = 49 then 1 else 0))
  | .push s => fin (setStr c s (getStr c s ++ [ch]))
  | .setc s => fin (setStr c s [ch])
  | .dollar s => if ch = 36 then .ok c false else fin (setStr c s (getStr c s ++ [ch]))
  | .vdigit =>
    let v1 := if p % 2 = 0 then c.vec ++ [0] else c.vec
    match v1.getLast? with
    | none => .panic "Command::parse: pop().unwrap()"
    | some last =>
      let v2 := v1.dropLast
      match parseBase36 checked last ch with
      | .ok v => fin { c with vec := v2 ++ [v] }
      | .err => .err { c with vec := v2 }
      | .panic s => .panic s

/-- `command.parse(&mut parameter_state, ch)` for the command with specification `spec` -/
def cmdParse (checked : Bool) (spec : CmdSpec) (c : CmdSt) (p : Int) (ch : Nat) : ParseRes :=
  match (if 0 ≤ p then findArm spec.arms p.toNat else none) with
  | some a => applyAct checked a.act a.ret c p ch
  | none =>
    match spec.dflt with
    | some (a, r) => applyAct checked a r c p ch
    | none => .err c

-- ------------------------------------------------------------------------------------------------ to_rip_string
def b36Char (d : Nat) : Nat := if d < 10 then 48 + d else 65 + d - 10

/-- `to_base_36(len, number)` for a non-negative number: the `len` low base-36 digits, most significant first -/
def toBase36 (len : Nat) (n : Nat) : List Nat :=
  match len with
  | 0 => []
  | k + 1 => toBase36 k (n / 36) ++ [b36Char (n % 36)]

def pieceStr (c : CmdSt) : Piece → List Nat
  | .lit s => s.toList.map Char.toNat
  | .b36 w i => toBase36 w (getInt c i).toNat
  | .boolf i => [if getInt c i = 0 then 48 else 49]
  | .str s => getStr c s
  | .vecHalfLen => toBase36 2 (c.vec.length / 2)
  | .vec => c.vec.flatMap fun v => toBase36 2 v.toNat

def toRipString (spec : CmdSpec) (c : CmdSt) : List Nat := spec.fmt.flatMap (pieceStr c)

-- ------------------------------------------------------------------------------------------------ the lexer
inductive LState where
  | dflt
  | gotRipStart
  | readCommand (level : Nat)
  | readParams
  | skipEol
  | endRip
  deriving Repr, DecidableEq

structure Lex where
  st : LState
  pstate : Int
  cmd : Option CmdSt
  /-- `rip_counter`: number of commands run (wrapping i32) -/
  counter : Int
  enable : Bool
  /-- `bgi.suspend_text` (toggled by the all-zero text window, reset by `|*`) -/
  suspend : Bool
  deriving Repr, DecidableEq

def Lex.init : Lex := ⟨.dflt, 0, none, 0, true, false⟩

/-- class of the ANSI fallback parser's state as seen by `State::Default` (an input of the step function, supplied by
the harness and universally quantified in the theorems) -/
inductive Fb where
  | dflt
  | csi (first : Option Int)
  | other
  deriving Repr, DecidableEq

/-- what `print_char` answers -/
inductive Out where
  | noUpdate
  | update
  | send
  | err
  /-- the result of running this command (not modelled) -/
  | run (c : CmdSt)
  /-- the result of the ANSI fallback parser on these characters (not modelled) -/
  | fallback (chars : List Nat)
  deriving Repr

inductive StepRes where
  | ok (s : Lex) (o : Out)
  | panic (site : String)
  deriving Repr

def wrapInc (c : Int) : Int := if c = i32Max then i32Min else c + 1

structure Table where
  checked : Bool
  cmds : List CmdSpec
  dispatch : List Dispatch
  levelSwitch : List (Nat × Nat)
  endRipChar : Nat
  idxTextWindow : Nat
  idxResetWindows : Nat

def genTable : Table :=
  ⟨Gen.Rip.base36Checked, Gen.Rip.cmds, Gen.Rip.dispatch, Gen.Rip.levelSwitch, Gen.Rip.endRipChar,
   Gen.Rip.idxTextWindow, Gen.Rip.idxResetWindows⟩

/-- `record_rip_command`: the counter, and the two effects of `run` on the lexer itself
(`TextWindow::run` toggles `suspend_text` for the all-zero window unless it fails first; `ResetWindows::run` calls
`graph_defaults`). -/
def afterRun (T : Table) (s : Lex) (c : CmdSt) : Lex :=
  let s := { s with counter := wrapInc s.counter }
  if c.idx = T.idxTextWindow then
    let x0 := getInt c 0; let y0 := getInt c 1; let x1 := getInt c 2; let y1 := getInt c 3
    if x0 > x1 ∨ y0 > y1 then s
    else if x0 = 0 ∧ y0 = 0 ∧ x1 = 0 ∧ y1 = 0 ∧ getInt c 5 = 0 ∧ getInt c 4 = 0 then { s with suspend := !s.suspend }
    else s
  else if c.idx = T.idxResetWindows then { s with suspend := false }
  else s

/-- result of `parse_parameter`: `done r` = `Some(r)`, `more s` = `None` (the caller finishes) -/
inductive PP where
  | done (r : StepRes)
  | more (s : Lex)

def parseParameter (T : Table) (s : Lex) (ch : Nat) : PP :=
  if ch = 92 then .done (.ok { s with st := .skipEol } .noUpdate)
  else if ch = 13 then .done (.ok s .noUpdate)
  else if ch = 10 then
    match s.cmd with
    | some c => .done (.ok (afterRun T { s with st := .dflt, cmd := none } c) (.run c))
    | none => .done (.ok { s with st := .dflt } .noUpdate)
  else if ch = 124 then
    match s.cmd with
    | some c => .done (.ok (afterRun T { s with st := .readCommand 0, cmd := none } c) (.run c))
    | none => .done (.ok { s with st := .readCommand 0 } .noUpdate)
  else
    match s.cmd with
    | none => .done (.panic "parse_parameter: command.unwrap()")
    | some c =>
      match T.cmds[c.idx]? with
      | none => .done (.panic "model: command index")
      | some spec =>
        match cmdParse T.checked spec c s.pstate ch with
        | .ok c' true =>
          if s.pstate + 1 ≤ i32Max then .more { s with cmd := some c', pstate := s.pstate + 1 }
          else .done (.panic "parse_parameter: parameter_state += 1")
        | .ok c' false => .done (.ok (afterRun T { s with st := .gotRipStart, cmd := none } c') (.run c'))
        | .err c' => .done (.ok { s with st := .dflt, cmd := some c' } .noUpdate)
        | .panic site => .done (.panic site)

def startCommand (T : Table) (s : Lex) (idx : Nat) : Lex :=
  match T.cmds[idx]? with
  | some spec => { s with cmd := some (CmdSt.fresh idx spec), pstate := 0, st := .readParams }
  | none => s

def lookup (T : Table) (level ch : Nat) : Option Dispatch :=
  T.dispatch.find? (fun d => d.level = level ∧ d.ch = ch)

/-- hand-over of `chars` to the ANSI fallback (`suspend_text` swallows them) -/
def handOver (s : Lex) (chars : List Nat) : StepRes :=
  if s.suspend then .ok s .noUpdate else .ok s (.fallback chars)

def dispatchCmd (T : Table) (s : Lex) (d : Dispatch) : StepRes :=
  match T.cmds[d.cmd]? with
  | none => .panic "model: command index"
  | some spec =>
    if d.immediate then
      let c := CmdSt.fresh d.cmd spec
      .ok (afterRun T { s with st := .gotRipStart } c) (.run c)
    else .ok (startCommand T s d.cmd) .noUpdate

/-- `Parser::print_char` (the `cleared_screen` flag is never set by the engine and is taken to be false) -/
def step (T : Table) (s : Lex) (ch : Nat) (fb : Fb) : StepRes :=
  match s.st with
  | .readParams =>
    match parseParameter T s ch with
    | .done r => r
    | .more s' => .ok s' .noUpdate
  | .skipEol =>
    if ch = 13 then .ok s .noUpdate
    else if ch = 10 then .ok { s with st := .readParams } .noUpdate
    else match parseParameter T s ch with
      | .done r => r
      | .more s' => .ok { s' with st := .readParams } .noUpdate
  | .endRip =>
    if ch = 13 then .ok s .noUpdate
    else if ch = 10 then .ok { s with st := .dflt } .noUpdate
    else if ch = 124 then .ok { s with st := .readCommand 0 } .noUpdate
    else .ok { s with st := .dflt } .noUpdate
  | .readCommand level =>
    if ch = 33 then .ok { s with st := .gotRipStart } .noUpdate
    else if level = 1 ∨ level = 9 then
      match lookup T level ch with
      | some d => dispatchCmd T s d
      | none => .ok { s with st := .dflt } .noUpdate
    else
      match lookup T 0 ch with
      | some d => dispatchCmd T s d
      | none =>
        match T.levelSwitch.find? (fun p => p.1 = ch) with
        | some (_, l) => .ok { s with st := .readCommand l } .noUpdate
        | none =>
          if ch = T.endRipChar then .ok { s with st := .endRip } .noUpdate
          else handOver { s with st := .dflt } [33, 124, ch]
  | .gotRipStart =>
    if ch = 33 then .ok s .noUpdate
    else if ch = 10 ∨ ch = 13 then .ok s .update
    else if ch ≠ 124 then handOver { s with st := .dflt } [33, ch]
    else .ok { s with st := .readCommand 0 } .noUpdate
  | .dflt =>
    match fb with
    | .csi first =>
      if ch = 33 then
        match first with
        | none => .ok s .send
        | some 0 => .ok s .send
        | some 1 => .ok { s with enable := false } .noUpdate
        | some 2 => .ok { s with enable := true } .noUpdate
        | some _ => .ok s .err
      else handOver s [ch]
    | .dflt =>
      if !s.enable then .ok s (.fallback [ch])
      else if ch = 33 then .ok { s with st := .gotRipStart } .noUpdate
      else handOver s [ch]
    | .other => handOver s [ch]

/-- feed a whole stream (with the fallback class seen at each character) -/
def run (T : Table) : Lex → List (Nat × Fb) → StepRes
  | s, [] => .ok s .noUpdate
  | s, (ch, fb) :: rest =>
    match step T s ch fb with
    | .ok s' _ => run T s' rest
    | .panic site => .panic site

end IcyVerif.Rip
