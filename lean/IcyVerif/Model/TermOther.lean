import IcyVerif.Model.TermAnsi
/-! # ASCII, ATASCII, PETSCII (scrolling terminals) and Viewdata, Mode 7 (fixed 40x24 pages)
Geometry-only models of `src/parsers/{ascii,atascii,petscii,viewdata,mode7}/mod.rs`.  These parsers never return
an error (PETSCII: except for unassigned control codes).  Bytes are `ch as u8` where the Rust code casts. -/
namespace IcyVerif.Term

inductive Emu2 where
  | ascii | atascii | petscii | viewdata | mode7
deriving Repr, DecidableEq, Inhabited

structure OSt where
  s : Scr
  c : Car
  esc : Bool := false        -- ATASCII got_escape / PETSCII got_esc (Viewdata's got_esc has no geometric effect)
deriving Repr, Inhabited

abbrev OR := Res (OSt × Out)

def oret (st : OSt) (o : Out) : OR := .ok (st, o)
def oliftC (st : OSt) (r : Res Car) : OR :=
  match r with
  | .ok c => .ok ({ st with c := c }, .ok)
  | .error e => .error e
def oliftSC (st : OSt) (r : Res (Scr × Car)) : OR :=
  match r with
  | .ok (s, c) => .ok ({ st with s := s, c := c }, .ok)
  | .error e => .error e

/-- `Buffer::print_value(ch as u16)`: prints unless the 16-bit value is a surrogate -/
def printValue (st : OSt) (v : Nat) : OR :=
  if 55296 ≤ v ∧ v ≤ 57343 then oret st .ok else oliftSC st (printChar st.s st.c)

def asciiStep (st : OSt) (ch : Char) : OR :=
  let s := st.s; let c := st.c
  if ch = '\x00' ∨ ch = '\xff' then oret st .ok
  else if ch = '\x07' then oret st .ok
  else if ch = '\n' then oliftSC st (lf s c)
  else if ch = '\x0c' then
    let (s', c') := ff s c
    oret { st with s := s', c := c' } .ok
  else if ch = '\r' then oret { st with c := { c with x := 0 } } .ok
  else if ch = '\x08' then oret { st with c := { c with x := max 0 (c.x - 1) } } .ok
  else if ch = '\x7f' then oret st .ok
  else printValue st (ch.toNat % 65536)

def atasciiStep (st : OSt) (ch : Char) : OR :=
  let s := st.s; let c := st.c
  if st.esc then printValue { st with esc := false } (ch.toNat % 65536)
  else if ch = '\x1b' then oret { st with esc := true } .ok
  else if ch = '\x1c' then oliftC st (up s c 1)
  else if ch = '\x1d' then oliftC st (down s c 1)
  else if ch = '\x1e' then oliftC st (left s c 1)
  else if ch = '\x1f' then oliftC st (right s c 1)
  else if ch = '\x7d' then
    let (s', c') := clearScreen s c
    oret { st with s := s', c := c' } .ok
  else if ch = '\x7e' then oret { st with c := { c with x := max 0 (c.x - 1) } } .ok
  else if ch = '\x7f' ∨ ch = '\x9e' ∨ ch = '\x9f' then oret st .ok
  else if ch = '\x9b' then oliftSC st (lf s c)
  else if ch = '\x9c' ∨ ch = '\x9d' then
    -- delete / insert line at the cursor row
    if LineOpPanics s c.y then .error (.negIndex "atascii: remove/insert_terminal_line(y)") else oret st .ok
  else if ch = '\xfd' ∨ ch = '\xfe' ∨ ch = '\xff' then oret st .ok
  else
    let v := ch.toNat % 65536
    printValue st (if v > 127 then v - 128 else v)

/-- the byte a printable PETSCII code is stored as before reverse mode is applied; `none` = unassigned code -/
def petsciiTch (b : Nat) : Option Nat :=
  if 32 ≤ b ∧ b ≤ 63 then some b
  else if (64 ≤ b ∧ b ≤ 95) ∨ (160 ≤ b ∧ b ≤ 191) then some (b - 64)
  else if 96 ≤ b ∧ b ≤ 127 then some (b - 32)
  else if 192 ≤ b ∧ b ≤ 254 then some (b - 128)
  else none

def petsciiControls : List Nat :=
  [0x02, 0x05, 0x07, 0x08, 0x09, 0x0E, 0x12, 0x1C, 0x1E, 0x1F, 0x81, 0x8E, 0x90, 0x92, 0x95, 0x96, 0x97, 0x98, 0x99, 0x9A,
   0x9B, 0x9C, 0x9E, 0x9F]

def petsciiStep (st : OSt) (ch : Char) : OR :=
  let s := st.s; let c := st.c
  let b := ch.toNat % 256
  if st.esc then
    let st := { st with esc := false }
    if b = 74 then oret { st with c := { c with x := 0 } } .ok                -- 'J'
    else if b = 75 then oret { st with c := { c with x := s.tw - 1 } } .ok    -- 'K'
    else if b = 68 ∨ b = 73 then                                               -- 'D' delete line, 'I' insert line
      if LineOpPanics s c.y then .error (.negIndex "petscii: remove/insert_terminal_line(y)") else oret st .ok
    else oret st .ok
  else if b = 0x0A then oret { st with c := { c with x := 0 } } .ok
  else if b = 0x0D ∨ b = 0x8D then oliftSC st (lf s c)
  else if b = 0x11 then oliftC st (down s c 1)
  else if b = 0x13 then oret { st with c := { c with x := s.upperLeft.1, y := s.upperLeft.2 } } .ok
  else if b = 0x14 then oret { st with c := { c with x := max 0 (c.x - 1) } } .ok
  else if b = 0x1B then oret { st with esc := true } .ok
  else if b = 0x1D then oliftC st (right s c 1)
  else if b = 0x91 then oliftC st (up s c 1)
  else if b = 0x93 then
    let (s', c') := clearScreen s c
    oret { st with s := s', c := c' } .ok
  else if b = 0x9D then oliftC st (left s c 1)
  else if b = 0xFF then oliftSC st (printChar s c)
  else if petsciiControls.contains b then oret st .ok
  else match petsciiTch b with
    | some _ => oliftSC st (printChar s c)
    | none => oret st .err

/-! ## Viewdata / Mode 7: the cursor wraps around the page -/
def vdDown (s : Scr) (c : Car) : Car := if c.y + 1 ≥ s.th then { c with y := 0 } else { c with y := c.y + 1 }
def vdUp (s : Scr) (c : Car) : Car := if c.y > 0 then { c with y := satSub c.y 1 } else { c with y := s.th - 1 }
def vdRight (s : Scr) (c : Car) : Car :=
  if c.x + 1 ≥ s.tw then vdDown s { c with x := 0 } else { c with x := c.x + 1 }
def vdLeft (s : Scr) (c : Car) : Car :=
  if c.x > 0 then { c with x := satSub c.x 1 } else vdUp s { c with x := s.tw - 1 }

def viewdataStep (st : OSt) (ch : Char) : OR :=
  let s := st.s; let c := st.c
  let b := ch.toNat % 256
  if b = 8 then oret { st with c := vdLeft s c } .ok
  else if b = 9 then oret { st with c := vdRight s c } .ok
  else if b = 10 then oret { st with c := vdDown s c } .ok
  else if b = 11 then oret { st with c := vdUp s c } .ok
  else if b = 12 then oret { st with s := resetTerminal s, c := { c with x := 0, y := 0 } } .ok
  else if b = 13 then oret { st with c := { c with x := 0 } } .ok
  else if b = 30 then oret { st with c := { c with x := s.upperLeft.1, y := s.upperLeft.2 } } .ok
  else if b < 32 then oret st .ok
  else oret { st with c := vdRight s c } .ok       -- interpret_char prints exactly one cell

/-- Mode 7: caret_down is `Caret::index` (scrolls the page content, never the size) -/
def m7Right (s : Scr) (c : Car) : Res Car :=
  if c.x + 1 ≥ s.tw then index s { c with x := 0 } else .ok { c with x := c.x + 1 }
def m7Left (s : Scr) (c : Car) : Car :=
  if c.x > 0 then { c with x := satSub c.x 1 } else vdUp s { c with x := s.tw - 1 }

def mode7Step (st : OSt) (ch : Char) : OR :=
  let s := st.s; let c := st.c
  let b := ch.toNat % 256
  if b = 8 then oret { st with c := m7Left s c } .ok
  else if b = 9 then oliftC st (m7Right s c)
  else if b = 10 then oliftC st (index s c)
  else if b = 11 then oret { st with c := vdUp s c } .ok
  else if b = 12 then oret { st with s := resetTerminal s, c := { c with x := 0, y := 0 } } .ok
  else if b = 13 then oret { st with c := { c with x := 0 } } .ok
  else if b = 30 then oret { st with c := { c with x := s.upperLeft.1, y := s.upperLeft.2 } } .ok
  else if b < 32 then oret st .ok
  else if b = 127 then oret { st with c := { c with x := max 0 (c.x - 1) } } .ok
  else if b = 158 ∨ b = 159 then oret st .ok
  else oliftC st (m7Right s c)      -- every other code prints exactly one cell (attribute codes a blank, `interpret_char` a glyph)

def ostep (e : Emu2) (st : OSt) (ch : Char) : OR :=
  if ¬ RangeOk st.s st.c then .error (.overflow "i32 arithmetic on the cursor / buffer height") else
  match e with
  | .ascii => asciiStep st ch
  | .atascii => atasciiStep st ch
  | .petscii => petsciiStep st ch
  | .viewdata => viewdataStep st ch
  | .mode7 => mode7Step st ch

def orun (e : Emu2) : OSt → List Char → Res OSt
  | st, [] => .ok st
  | st, ch :: rest =>
    match ostep e st ch with
    | .ok (st', _) => orun e st' rest
    | .error e => .error e

def initO (w h : Int) : OSt := { s := initScr w h, c := { x := 0, y := 0, ins := false } }

end IcyVerif.Term
