import IcyVerif.Gen.Bgi
import IcyVerif.Gen.BgiX
/-! Executable model of the BGI core of `src/parsers/rip/bgi/mod.rs` that every drawing primitive bottoms out in:
`put_pixel`, `get_pixel`, `bar` / `bar_rect` (clipping against the viewport, solid and patterned fill),
`set_viewport`, `clear_viewport`, `set_palette`, `set_palette_color`, `set_color` & co, the fill-pattern lookup,
`graph_defaults`, and `Rectangle::{contains, intersect}` of `src/lib.rs`.

Rust `i32` arithmetic is checked (debug profile): every `+ - *` of the Rust source is `chk`, which yields `none`
(= panic) outside the `i32` range.  `none` is also the outcome of an out-of-range index.  The screen is an
`Array Nat` (one palette index per pixel). -/
namespace IcyVerif.Bgi

def i32Max : Int := 2147483647
def i32Min : Int := -2147483648

/-- a checked i32 result -/
def chk (v : Int) : Option Int := if i32Min ≤ v ∧ v ≤ i32Max then some v else none

structure Rect where
  x : Int
  y : Int
  w : Int
  h : Int
  deriving Repr, DecidableEq

structure Bgi where
  color : Nat
  bk : Nat
  fillColor : Nat
  /-- 0 Copy, 1 Xor, 2 Or, 3 And, 4 Not -/
  writeMode : Nat
  lineStyle : Nat
  /-- discriminant of `FillStyle` (0..12) -/
  fillStyle : Nat
  userPat : List Nat
  vp : Rect
  /-- the palette, one packed colour `r*65536 + g*256 + b` per entry -/
  pal : List Nat
  thickness : Int
  /-- the 16 bits of `line_pattern`, bit i = entry i -/
  linePat : Nat
  cur : Int × Int
  winW : Int
  winH : Int
  screen : Array Nat

/-- `palette.len()` -/
def Bgi.palLen (s : Bgi) : Nat := s.pal.length

def lookupFrom (tab : List (Nat × Nat)) (dflt : Nat) (v : Nat) : Nat :=
  match tab.find? (fun p => p.1 = v) with
  | some (_, r) => r
  | none => dflt

def Bgi.new : Bgi :=
  { color := 7, bk := 0, fillColor := 0, writeMode := 0, lineStyle := 0, fillStyle := Gen.Bgi.fillStyleSolid,
    userPat := Gen.Bgi.defaultUserPattern,
    vp := ⟨0, 0, Gen.Bgi.screenW, Gen.Bgi.screenH⟩, pal := Gen.BgiX.dosPalette, thickness := 1,
    linePat := Gen.Bgi.linePatterns.getD 0 0, cur := (0, 0), winW := Gen.Bgi.screenW, winH := Gen.Bgi.screenH,
    screen := Array.replicate (Gen.Bgi.screenW * Gen.Bgi.screenH) 0 }

-- ------------------------------------------------------------------------------------------------ Rectangle
/-- `Rectangle::contains` with Rust's short-circuit `&&` -/
def Rect.contains (r : Rect) (x y : Int) : Option Bool :=
  if r.x ≤ x then
    match chk (r.x + r.w) with
    | none => none
    | some right =>
      if x ≤ right then
        if r.y ≤ y then
          match chk (r.y + r.h) with
          | none => none
          | some bottom => some (decide (y ≤ bottom))
        else some false
      else some false
  else some false

/-- `bottom_right()`: both sums are computed -/
def Rect.bottomRight (r : Rect) : Option (Int × Int) :=
  match chk (r.x + r.w), chk (r.y + r.h) with
  | some a, some b => some (a, b)
  | _, _ => none

/-- `Rectangle::intersect` -/
def Rect.intersect (a b : Rect) : Option Rect :=
  let mnx := max a.x b.x
  let mny := max a.y b.y
  match a.bottomRight, b.bottomRight with
  | some (ax, ay), some (bx, by') =>
    let mxx := min ax bx
    let mxy := min ay by'
    match chk (mxx - mnx), chk (mxy - mny) with
    | some w, some h => some ⟨mnx, mny, w, h⟩
    | _, _ => none
  | _, _ => none

-- ------------------------------------------------------------------------------------------------ pixels
/-- `(v as usize) < len` for an i32 `v`: negative values become huge -/
def inLen (v : Int) (len : Nat) : Bool := decide (0 ≤ v ∧ v < (len : Int))

def notMod16 (c : Nat) : Nat := (255 - c % 256) % 16

def applyMode (mode : Nat) (old c : Nat) : Nat :=
  match mode with
  | 0 => c
  | 1 => Nat.xor old c
  | 2 => Nat.lor old c
  | 3 => Nat.land old c
  | _ => notMod16 c

/-- `Bgi::put_pixel` -/
def putPixel (s : Bgi) (x y : Int) (c : Nat) : Option Bgi :=
  match s.vp.contains x y with
  | none => none
  | some false => some s
  | some true =>
    match chk (y * s.winW) with
    | none => none
    | some yw =>
      match chk (yw + x) with
      | none => none
      | some pos =>
        if inLen pos s.screen.size then
          let i := pos.toNat
          some { s with screen := s.screen.setIfInBounds i (applyMode s.writeMode (s.screen.getD i 0) (c % 256)) }
        else some s

/-- `Bgi::get_pixel` -/
def getPixel (s : Bgi) (x y : Int) : Option Nat :=
  match chk (y * s.winW) with
  | none => none
  | some yw =>
    match chk (yw + x) with
    | none => none
    | some o => if inLen o s.screen.size then some (s.screen.getD o.toNat 0) else some 0

-- ------------------------------------------------------------------------------------------------ bar_rect
/-- `FillStyle::get_fill_pattern`: the user pattern for `User`, else row `style` of `DEFAULT_FILL_PATTERNS` -/
def fillPattern (s : Bgi) : List Nat :=
  if s.fillStyle = Gen.Bgi.fillStyleUser then s.userPat
  else (Gen.Bgi.fillPatternsFlat.drop (s.fillStyle * 8)).take 8

/-- one row of the solid fill: `count` cells from index `start`, stopping at the end of the screen.
Returns the screen and the number of loop iterations executed. -/
def solidRow (scr : Array Nat) (start : Int) (count : Nat) (c : Nat) : Array Nat × Nat :=
  match count with
  | 0 => (scr, 0)
  | k + 1 =>
    if inLen start scr.size then
      let (scr', n) := solidRow (scr.setIfInBounds start.toNat c) (start + 1) k c
      (scr', n + 1)
    else (scr, 1)

/-- one row of the patterned fill (`mask` is the running `xpatmask`) -/
def patRow (scr : Array Nat) (start : Int) (count : Nat) (pat mask : Nat) (fc bk : Nat) : Array Nat × Nat :=
  match count with
  | 0 => (scr, 0)
  | k + 1 =>
    if inLen start scr.size then
      let v := if Nat.land pat mask ≠ 0 then fc else bk
      let m := mask / 2
      let (scr', n) := patRow (scr.setIfInBounds start.toNat v) (start + 1) k pat (if m = 0 then 128 else m) fc bk
      (scr', n + 1)
    else (scr, 1)

/-- Rust `%` on i32 (sign of the dividend) -/
def remI (a : Int) (b : Int) : Int := Int.tmod a b

/-- rows of the solid branch: `ystart += width` is checked after every row -/
def solidRows (scr : Array Nat) (ystart : Int) (rows cols : Nat) (winW : Int) (c : Nat) (cost : Nat) : Option (Array Nat × Nat) :=
  match rows with
  | 0 => some (scr, cost)
  | k + 1 =>
    let r := solidRow scr ystart cols c
    match chk (ystart + winW) with
    | none => none
    | some ys => solidRows r.1 ys k cols winW c (cost + r.2 + 1)

/-- rows of the pattern branch -/
def patRows (scr : Array Nat) (ystart : Int) (rows cols : Nat) (winW : Int) (left : Int) (ypat : Int) (pattern : List Nat)
    (fc bk : Nat) (cost : Nat) : Option (Array Nat × Nat) :=
  match rows with
  | 0 => some (scr, cost)
  | k + 1 =>
    -- `(128 >> (rect.left() % 8)) as u8`: a negative shift count panics
    let sh := remI left 8
    if sh < 0 then none else
    let mask := 128 / (2 ^ sh.toNat)
    -- `pattern[ypat as usize]`
    if ypat < 0 then none else
    match pattern[ypat.toNat]? with
    | none => none
    | some pat =>
      -- `ystart as usize`: a negative start is beyond the screen, the row loop breaks at once
      let r := patRow scr ystart cols pat mask fc bk
      match chk (ystart + winW) with
      | none => none
      | some ys => patRows r.1 ys k cols winW left (remI (ypat + 1) 8) pattern fc bk (cost + r.2 + 1)

/-- `Bgi::bar_rect` together with the number of loop iterations it executes (rows + cells) -/
def barRectCost (s : Bgi) (r : Rect) : Option (Bgi × Nat) :=
  match r.intersect s.vp with
  | none => none
  | some rc =>
    if rc.w = 0 ∨ rc.h = 0 then some (s, 0) else
    match rc.bottomRight with
    | none => none
    | some (right, bottom) =>
      match chk (rc.y * s.winW) with
      | none => none
      | some tw =>
        match chk (tw + rc.x) with
        | none => none
        | some ystart =>
          let rows := (bottom - rc.y).toNat
          let cols := (right - rc.x).toNat
          if s.fillStyle = Gen.Bgi.fillStyleSolid then
            match solidRows s.screen ystart rows cols s.winW s.fillColor 0 with
            | none => none
            | some (scr, cost) => some ({ s with screen := scr }, cost)
          else
            match patRows s.screen ystart rows cols s.winW rc.x (remI rc.y 8) (fillPattern s) s.fillColor s.bk 0 with
            | none => none
            | some (scr, cost) => some ({ s with screen := scr }, cost)

def barRect (s : Bgi) (r : Rect) : Option Bgi := (barRectCost s r).map (·.1)

/-- `Bgi::bar(left, top, right, bottom)` -/
def bar (s : Bgi) (l t r b : Int) : Option Bgi :=
  match chk (r - l), chk (b - t) with
  | some w0, some h0 =>
    match chk (w0 + 1), chk (h0 + 1) with
    | some w, some h => barRect s ⟨l, t, w, h⟩
    | _, _ => none
  | _, _ => none

-- ------------------------------------------------------------------------------------------------ state setters
def setViewport (s : Bgi) (x0 y0 x1 y1 : Int) : Option Bgi :=
  match chk (x1 - x0), chk (y1 - y0) with
  | some w, some h => some { s with vp := ⟨x0, y0, w, h⟩ }
  | _, _ => none

def clearViewport (s : Bgi) : Option Bgi := barRect s s.vp

def setColor (s : Bgi) (c : Nat) : Bgi := { s with color := (c % 256) % 16 }
def setBkColor (s : Bgi) (c : Nat) : Bgi := { s with bk := (c % 256) % 16 }
def setFillColor (s : Bgi) (c : Nat) : Bgi := { s with fillColor := (c % 256) % 16 }
def setFillStyle (s : Bgi) (v : Nat) : Bgi :=
  { s with fillStyle := lookupFrom Gen.Bgi.fillStyleFrom Gen.Bgi.fillStyleFromDefault (v % 256) }
def setWriteMode (s : Bgi) (v : Nat) : Bgi :=
  { s with writeMode := lookupFrom Gen.Bgi.writeModeFrom Gen.Bgi.writeModeFromDefault (v % 256) }
def setLineStyle (s : Bgi) (v : Nat) : Bgi :=
  let st := lookupFrom Gen.Bgi.lineStyleFrom Gen.Bgi.lineStyleFromDefault (v % 256)
  { s with lineStyle := st, linePat := (Gen.Bgi.linePatterns.getD st 0) % 65536 }
def setLineThickness (s : Bgi) (t : Int) : Bgi := { s with thickness := t }
/-- `set_line_pattern(pattern: i32)`: bits 0..15 of the two's complement value -/
def setLinePattern (s : Bgi) (p : Int) : Bgi := { s with linePat := (p % 65536).toNat }
def setUserFillPattern (s : Bgi) (p : List Nat) : Bgi := { s with userPat := p.map (· % 256) }

/-- `set_palette`: `EGA_PALETTE[*c as usize]` for every entry -/
def setPalette (s : Bgi) (colors : List Int) : Option Bgi :=
  if colors.all (fun c => decide (0 ≤ c ∧ c < (Gen.Bgi.egaPaletteLen : Int))) then
    some { s with pal := colors.map fun c => Gen.BgiX.egaPalette.getD c.toNat 0 }
  else none

/-- `set_palette_color(index, color)`; the palette grows to `index + 1` entries (a negative index is not modelled:
`index as u32` would ask for 2^32 entries) -/
def setPaletteColor (s : Bgi) (index : Nat) (color : Nat) : Option Bgi :=
  if color % 256 < Gen.Bgi.egaPaletteLen then
    -- `Palette::set_color`: `resize(index + 1, Color::default())` (black) when too short, then the entry is replaced
    some { s with pal := (s.pal ++ List.replicate (index + 1 - s.pal.length) 0).set index (Gen.BgiX.egaPalette.getD (color % 256) 0) }
  else none

/-- the state changes of `graph_defaults` before `clear_device` (font, character size, mouse fields and
`suspend_text` are outside this model) -/
def graphDefaultsPre (s : Bgi) : Bgi :=
  let s := { s with pal := Gen.BgiX.dosPalette, vp := ⟨0, 0, s.winW, s.winH⟩ }
  let s := setBkColor (setColor s 7) 0
  let s := setLineStyle s 0
  let s := setUserFillPattern s Gen.Bgi.defaultUserPattern
  setFillColor (setFillStyle s Gen.Bgi.fillStyleSolid) 0

/-- `graph_defaults`; `clear_device` is `bar(0, 0, width, height); move_to(0, 0)` -/
def graphDefaults (s : Bgi) : Option Bgi :=
  match bar (graphDefaultsPre s) 0 0 s.winW s.winH with
  | none => none
  | some s' => some { s' with cur := (0, 0) }

end IcyVerif.Bgi
