import IcyVerif.Model.Font
import IcyVerif.Model.Base64
import IcyVerif.Model.TermGeo
/-! # The DCS framing of `CTerm:Font:` in the ANSI parser (C17)

`src/parsers/ansi/mod.rs` (`print_char`: the states `Default`, `ReadEscapeSequence`, `RecordDCS`, `RecordDCSEscape`,
`ReadPossibleMacroInDCS(i)` and `invoke_macro_by_id`) and `src/parsers/ansi/dcs.rs` (`execute_dcs`, `parse_macro`,
`load_custom_font`) as ONE step function per input character over the part of the parser and buffer a font sequence can
read or write:

* `st` — `Parser::state` restricted to the five states above; every other state (CSI and its sub-states, OSC, APS, ANSI
  music) is `out`: absorbing, nothing is claimed about it (the only entries are `ESC [`, `ESC ]`, `ESC _` in state `esc`);
* `strRev`, `mdcsRev` — `parse_string`, `macro_dcs` (REVERSED: `push` is `cons`);
* `nums` — `parsed_numbers` (NOT cleared when a macro invocation inside a DCS starts: the digits of a second `ESC [ n * z`
  in the same DCS are appended to the number of the first — copied);
* `macros` — `Parser::macros`, `budget` — `macro_budget`; the nesting depth `macro_depth` is the structural recursion of
  `stepD` (as in C01's `Model/TermAnsi.lean`, whose `takeNums`, `hexMacro`, `macroSet`, `macroGet`, `pushDigit` are reused);
* `fonts` — `Buffer::font_table` as an association list (`set_font` = `setFont`).

Characters are code points (`Nat`).  Everything else `print_char` touches in these states (caret, layers, saved cursor,
tab stops, terminal state, sixel threads) is irrelevant for fonts and not modelled. -/
namespace IcyVerif.FontDcs
open IcyVerif.Font

def ESC : Nat := 27

inductive FSt where
  | dflt | esc | dcs | dcsEsc | dcsMacro (i : Nat) | out
deriving Repr, DecidableEq, Inhabited

inductive Out where
  | ok | err | panic
deriving Repr, DecidableEq, Inhabited

structure P where
  st : FSt := .dflt
  strRev : List Nat := []
  mdcsRev : List Nat := []
  nums : List Int := []
  macros : List (Nat × List Char) := []
  fonts : List (Nat × BitFont) := []
  budget : Nat := 0
  installs : Nat := 0       -- observation only: number of `set_font` calls so far (`is_font_table_updated`)
deriving Repr, Inhabited

/-- `parse_string` -/
def P.str (p : P) : List Nat := p.strRev.reverse

/-- `Buffer::set_font(slot, font)`: `HashMap::insert` -/
def setFont (fs : List (Nat × BitFont)) (slot : Nat) (f : BitFont) : List (Nat × BitFont) :=
  (slot, f) :: fs.filter (fun e => e.1 ≠ slot)
/-- `Buffer::get_font(slot)` -/
def fontAt (fs : List (Nat × BitFont)) (slot : Nat) : Option BitFont :=
  match fs with
  | [] => none
  | (k, f) :: rest => if k = slot then some f else fontAt rest slot

def chars (s : List Nat) : List Char := s.map Char.ofNat

/-- `execute_dcs` (state already `Default`) -/
def executeDcs (p : P) : P × Out :=
  let s := p.str
  if prefixCTerm.isPrefixOf s then
    match loadCustomFont IcyVerif.B64.stdCodec s with
    | .ok (slot, f) => ({ p with fonts := setFont p.fonts slot f, installs := p.installs + 1 }, .ok)
    | .err => (p, .err)
    | .panic => (p, .panic)
  else
    let (nums, rest) := IcyVerif.Term.takeNums (chars s) []
    let p := { p with nums := nums }
    match rest with
    | '!' :: 'z' :: body =>
      match nums.head? with
      | none => (p, .err)
      | some pid =>
        let p := if nums[1]? = some (1 : Int) then { p with macros := [] } else p
        match (nums[2]? : Option Int) with
        | some 0 => ({ p with macros := IcyVerif.Term.macroSet p.macros pid.toNat body }, .ok)
        | some 1 =>
          match IcyVerif.Term.hexMacro body .first false [] 0 [] with
          | some m => ({ p with macros := IcyVerif.Term.macroSet p.macros pid.toNat m }, .ok)
          | none => (p, .err)
        | _ => (p, .err)
    | 'q' :: _ => ({ p with strRev := [] }, .ok)   -- sixel decode thread spawned; `mem::take(parse_string)`
    | _ => (p, .err)

/-- state `ReadEscapeSequence` (the state is set to `Default` first) -/
def escChar (p : P) (ch : Nat) : P × Out :=
  let d := { p with st := .dflt }
  if ch = 91 ∨ ch = 93 ∨ ch = 95 then ({ p with st := .out }, .ok)                 -- `[` CSI, `]` OSC, `_` APS
  else if ch = 80 then ({ p with st := .dcs, strRev := [], nums := [] }, .ok)      -- `P`
  else if ch = 99 then ({ d with macros := [] }, .ok)                              -- `c` RIS: `macros.clear()`
  else if 48 ≤ ch ∧ ch ≤ 126 then (d, .ok)                                         -- 7 8 D M E H and the dropped ones
  else if ch = 12 ∨ ch = 7 ∨ ch = 8 ∨ ch = 9 ∨ ch = 127 ∨ ch = 27 ∨ ch = 10 ∨ ch = 13 then (d, .ok)   -- printed
  else (d, .err)

/-- one character; `inv` is `invoke_macro_by_id` -/
def stepCore (inv : Int → P → P) (p : P) (ch : Nat) : P × Out :=
  match p.st with
  | .out => (p, .ok)
  | .dflt => if ch = ESC then ({ p with st := .esc }, .ok) else (p, .ok)
  | .esc => escChar p ch
  | .dcs => if ch = ESC then ({ p with st := .dcsEsc }, .ok) else ({ p with strRev := ch :: p.strRev }, .ok)
  | .dcsEsc =>
    if ch = 92 then executeDcs { p with st := .dflt }
    else if ch = 91 then ({ p with st := .dcsMacro 1, mdcsRev := [] }, .ok)
    else ({ p with st := .dcs, strRev := ch :: ESC :: p.strRev }, .ok)
  | .dcsMacro i =>
    let p := { p with mdcsRev := ch :: p.mdcsRev }
    if 48 ≤ ch ∧ ch ≤ 57 then
      if i ≠ 1 then ({ p with st := .dflt }, .err)
      else ({ p with nums := IcyVerif.Term.pushDigit p.nums (Char.ofNat ch) }, .ok)
    else if ch = 91 then (if i ≠ 0 then ({ p with st := .dflt }, .err) else ({ p with st := .dcsMacro 1 }, .ok))
    else if ch = 42 then (if i ≠ 1 then ({ p with st := .dflt }, .err) else ({ p with st := .dcsMacro 2 }, .ok))
    else if ch = 122 then
      if i ≠ 2 then ({ p with st := .dflt }, .err)
      else match p.nums with
        | [id] => (inv id { p with st := .dcs }, .ok)
        | _ => ({ p with st := .dflt }, .err)
    else ({ p with st := .dcs, strRev := p.mdcsRev ++ 91 :: ESC :: p.strRev }, .ok)

/-- the `for ch in m.chars()` loop of `invoke_macro_by_id`: errors of single characters are logged and ignored -/
def replay (stepf : P → Nat → P × Out) : List Nat → P → P
  | [], p => p
  | ch :: rest, p =>
    if p.budget = 0 then p
    else replay stepf rest (stepf { p with budget := p.budget - 1 } ch).1

/-- `invoke_macro_by_id`: unknown id → nothing; at top level (`macro_depth == 0`) the expansion budget is reset -/
def invoker (stepf : P → Nat → P × Out) (top : Bool) (id : Int) (p : P) : P :=
  match IcyVerif.Term.macroGet p.macros id.toNat with
  | none => p
  | some body => replay stepf (body.map Char.toNat) (if top then { p with budget := IcyVerif.Term.MAX_MACRO_EXPANSION } else p)

/-- `print_char` at `macro_depth = MAX_MACRO_DEPTH - d` (at depth `MAX_MACRO_DEPTH` an invocation is refused) -/
def stepD : Nat → P → Nat → P × Out
  | 0, p, ch => stepCore (fun _ p => p) p ch
  | d+1, p, ch => stepCore (invoker (stepD d) (decide (d + 1 = IcyVerif.Term.MAX_MACRO_DEPTH))) p ch

/-- `Parser::print_char` -/
def step (p : P) (ch : Nat) : P × Out := stepD IcyVerif.Term.MAX_MACRO_DEPTH p ch

/-- a whole stream (the callers feed character by character and ignore `Err`s) -/
def run (p : P) (s : List Nat) : P := s.foldl (fun p ch => (step p ch).1) p

/-- `BitFont::encode_as_ansi(slot)`: `ESC P` + payload + `ESC \` -/
def encodeStream (f : BitFont) (slot : Nat) : Res (List Nat) :=
  match encodeAnsi IcyVerif.B64.stdCodec f slot with
  | .ok s => .ok (ESC :: 80 :: (s ++ [ESC, 92]))
  | .err => .err
  | .panic => .panic

end IcyVerif.FontDcs
