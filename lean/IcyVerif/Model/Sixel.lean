import IcyVerif.Gen.Sixel
/-! Model of `src/sixel_mod.rs` (`SixelParser`): a char-driven machine that tracks the byte LENGTH of
    every `picture_data` row instead of its pixels.  The palette is abstracted to its length (the only
    thing control flow reads: `% palette.len()` and the `resize` in `set_color_rgb/hsl`).

    Every Rust operation that can panic is an explicit outcome (`Out.panic site`):
    slice/Vec indexing and the `%`.  The `i32` arithmetic on the sixel cursor is checked in the source
    (`checked_add` / `checked_mul` … `.ok_or(InvalidPictureSize)?`, three `fix:` commits): overflow is the
    parse error `invalidPictureSize`.  Every allocation whose size is taken from a NUMBER in the
    payload (repeat count, colour register, raster size) rather than from the payload's length is
    checked against `hugeLimit`; beyond it the model stops with `Out.huge` ("outside the modelled
    range": the real engine then allocates gigabytes, is OOM-killed or aborts).  Below the limit all
    `as i32`/`as usize` casts of the source are the identity, so `Nat` is faithful.

    The model follows the REPAIRED tree (fix commits "sixel rows are padded to the widest row",
    "colour definition components no longer overflow" and the three cursor commits); `finishPinned` keeps the pinned concatenation
    so the defect stays exhibitable. -/
namespace IcyVerif.Sixel

inductive PState | read | readColor | readSize | repeat_
  deriving DecidableEq, Repr

/-- panic sites of `sixel_mod.rs` -/
inductive Site
  | rowIndex     -- `self.picture_data[translated_line as usize]`
  | pixelIndex   -- `cur_line[offset + k]`
  | paletteMod   -- `% self.current_sixel_palette.len() as u32`
  | numIndex     -- `self.parsed_numbers[k]`
  deriving DecidableEq, Repr

inductive Err
  | invalidSixelChar | invalidColor | unsupportedColorFormat | invalidPictureSize | numberMissing
  deriving DecidableEq, Repr

inductive Out (α : Type)
  | ok (a : α)
  | err (e : Err)
  | panic (s : Site)
  | huge
  deriving Repr, DecidableEq

/-- the `?` operator: continue on `ok`, propagate everything else -/
def Out.andThen (o : Out α) (f : α → Out β) : Out β :=
  match o with
  | .ok a => f a
  | .err e => .err e
  | .panic p => .panic p
  | .huge => .huge

structure St where
  state : PState := .read
  /-- `parsed_numbers` (never negative: `parse_next_number` of a digit on a non-negative value) -/
  nums : List Nat := []
  x : Nat := 0
  y : Nat := 0
  /-- byte length of each row of `picture_data` -/
  rows : List Nat := []
  heightSet : Bool := false
  color : Nat := 0
  /-- `current_sixel_palette.len()`; `Palette::default()` is the 16-colour DOS palette -/
  palLen : Nat := 16
  /-- `vertical_scale` / `horizontal_scale`: given by the caller (`Sixel::parse_from`), overwritten by the first two
      numbers of every raster attribute; copied into the returned `Sixel`, never read by the decoder -/
  vscale : Nat := 1
  hscale : Nat := 1
  deriving Repr, DecidableEq

def i32Max : Nat := 2147483647
/-- `MAX_SIXEL_SIZE` / `MAX_SIXEL_COLORS` (regenerated): raster attributes, repeat counts, cursor positions and colour
    registers beyond them are parse errors (two `fix:` commits) -/
def maxSize : Nat := Gen.Sixel.maxSixelSize
def maxColors : Nat := Gen.Sixel.maxSixelColors
/-- single allocation requests above this many elements/bytes are outside the modelled range -/
def hugeLimit : Nat := 67108864

/-- `parse_next_number(x, ch) = x.saturating_mul(10).saturating_add(ch).saturating_sub('0')` for `x ≥ 0`,
    `ch` an ASCII digit -/
def parseNextNumber (d : Nat) (ch : Char) : Nat := min (min (d * 10) i32Max + ch.toNat) i32Max - 48

/-- `let d = nums.pop().unwrap_or(0); nums.push(parse_next_number(d, ch))` -/
def pushDigit (nums : List Nat) (ch : Char) : List Nat :=
  match nums.getLast? with
  | some d => nums.dropLast ++ [parseNextNumber d ch]
  | none => [parseNextNumber 0 ch]

/-- `Vec::resize(n, fill)` on the row-length list -/
def resizeRows (rows : List Nat) (n fill : Nat) : List Nat :=
  if n ≤ rows.length then rows.take n else rows ++ List.replicate (n - rows.length) fill

/-- `SixelParser::width()`: first row's byte length / 4 -/
def width (rows : List Nat) : Nat :=
  match rows with
  | [] => 0
  | r :: _ => r / 4

/-- the `for i in 0..6` loop of `translate_sixel_to_pixel` (`is` = remaining values of `i`) -/
def pixelLoop (mask yPos lastLine x : Nat) : List Nat → List Nat → Out (List Nat)
  | [], rows => .ok rows
  | i :: is, rows =>
    if mask.testBit i then
      let tl := yPos + i
      if tl ≥ lastLine then .ok rows            -- break
      else match rows[tl]? with
        | none => .panic .rowIndex
        | some len =>
          let off := x * 4
          if len ≤ off ∧ (x + 1) * 4 > hugeLimit then .huge
          else
            let len' := if len ≤ off then (x + 1) * 4 else len
            if off + 3 < len' then pixelLoop mask yPos lastLine x is (rows.set tl len')
            else .panic .pixelIndex
    else pixelLoop mask yPos lastLine x is rows

/-- `last_line`: `y_pos + 6`, clamped to the height once a raster attribute fixed it -/
def lastLineOf (s : St) : Nat :=
  if s.heightSet && decide (s.y * 6 + 6 > s.rows.length) then s.rows.length else s.y * 6 + 6

/-- `if picture_data.len() < last_line { picture_data.resize(last_line, vec![0; width() * 4]) }` -/
def growRows (rows : List Nat) (lastLine : Nat) : Out (List Nat) :=
  if rows.length < lastLine then
    if lastLine > hugeLimit ∨ (lastLine - rows.length) * (width rows * 4) > hugeLimit then .huge
    else .ok (resizeRows rows lastLine (width rows * 4))
  else .ok rows

/-- `translate_sixel_to_pixel` -/
def translate (s : St) (ch : Char) : Out St :=
  if ch.toNat < 63 then .err .invalidSixelChar
  else if s.palLen % 4294967296 = 0 then .panic .paletteMod
  else if s.y * 6 + 6 > i32Max then .err .invalidPictureSize        -- `checked_mul(6)`, `checked_add(6)`
  else if s.x ≥ maxSize ∨ lastLineOf s > maxSize then .err .invalidPictureSize   -- `x_pos >= MAX_SIXEL_SIZE || last_line > MAX_SIXEL_SIZE`
  else
    (growRows s.rows (lastLineOf s)).andThen fun rows =>
    (pixelLoop (ch.toNat - 63) (s.y * 6) (lastLineOf s) s.x [0, 1, 2, 3, 4, 5] rows).andThen fun rows' =>
    if s.x + 1 > i32Max then .err .invalidPictureSize               -- `x.checked_add(1)`
    else .ok { s with rows := rows', x := s.x + 1 }

/-- `parse_sixel_data` -/
def sixelData (s : St) (ch : Char) : Out St :=
  if ch = '#' then .ok { s with nums := [], state := .readColor }
  else if ch = '!' then .ok { s with nums := [], state := .repeat_ }
  else if ch = '-' then
    if s.y + 1 > i32Max then .err .invalidPictureSize else .ok { s with x := 0, y := s.y + 1 }
  else if ch = '$' then .ok { s with x := 0 }
  else if ch = '"' then .ok { s with nums := [], state := .readSize }
  else if ch.toNat > 127 then .ok s
  else translate s ch

/-- `for _ in 0..n { f()? }` -/
def repeatN (f : St → Out St) : Nat → St → Out St
  | 0, s => .ok s
  | n + 1, s =>
    match f s with                     -- written out so that the compiled loop is a tail call
    | .ok s' => repeatN f n s'
    | .err e => .err e
    | .panic p => .panic p
    | .huge => .huge

theorem repeatN_succ (f : St → Out St) (n : Nat) (s : St) :
    repeatN f (n + 1) s = (f s).andThen (repeatN f n) := by
  simp only [repeatN, Out.andThen]; cases f s <;> rfl

/-- `Palette::set_color_rgb/_hsl`: grow the palette to `color + 1` entries -/
def growPalette (s : St) : Out St :=
  if s.palLen ≤ s.color then
    if s.color + 1 > hugeLimit then .huge else .ok { s with palLen := s.color + 1 }
  else .ok s

/-- `if let Some(color) = parsed_numbers.first() { current_sixel_color = *color as u32 }` -/
def setColor (s : St) : St :=
  match s.nums.head? with
  | some c => { s with color := c }
  | none => s

/-- `if parsed_numbers.len() > 1 { … set_color_rgb / set_color_hsl … }` -/
def defineColor (s : St) : Out St :=
  if s.nums.length > 1 then
    if s.nums.length ≠ 5 ∨ s.color ≥ maxColors then .err .invalidColor
    else match s.nums[1]? with
      | some 2 =>
        match s.nums[2]?, s.nums[3]?, s.nums[4]? with
        | some _, some _, some _ => growPalette s
        | _, _, _ => .panic .numIndex
      | some 1 =>
        match s.nums[2]?, s.nums[3]?, s.nums[4]? with
        | some _, some _, some _ => growPalette s
        | _, _, _ => .panic .numIndex
      | some _ => .err .unsupportedColorFormat
      | none => .err .invalidColor
  else .ok s

/-- the non-digit, non-';' arm of `SixelState::ReadColor` up to the final `parse_sixel_data(ch)` -/
def colorArm (s : St) : Out St := defineColor (setColor s)

/-- the non-digit, non-';' arm of `SixelState::ReadSize` up to the final `parse_sixel_data(ch)` -/
def sizeArm (s : St) : Out St :=
  if s.nums.length < 2 ∨ s.nums.length > 4 ∨ (s.nums.drop 2).any (fun n => decide (n > maxSize)) then .err .invalidPictureSize
  else match s.nums[0]?, s.nums[1]? with
    | some vs, some hs =>
      if s.nums.length = 3 then
        match s.nums[2]? with
        | some height =>
          if height > hugeLimit then .huge
          else .ok { s with rows := resizeRows s.rows height 0, heightSet := true, state := .read, vscale := vs, hscale := hs }
        | none => .panic .numIndex
      else if s.nums.length = 4 then
        match s.nums[2]?, s.nums[3]? with
        | some w, some height =>
          if 4 * w > hugeLimit ∨ height > hugeLimit ∨ (height - s.rows.length) * (4 * w) > hugeLimit then .huge
          else .ok { s with rows := resizeRows s.rows height (4 * w), heightSet := true, state := .read, vscale := vs, hscale := hs }
        | _, _ => .panic .numIndex
      else .ok { s with state := .read, vscale := vs, hscale := hs }
    | _, _ => .panic .numIndex

/-- `SixelParser::parse_char` -/
def parseChar (s : St) (ch : Char) : Out St :=
  match s.state with
  | .read => sixelData s ch
  | .readColor =>
    if ch.isDigit then .ok { s with nums := pushDigit s.nums ch }
    else if ch = ';' then .ok { s with nums := s.nums ++ [0] }
    else (colorArm s).andThen fun s' => sixelData s' ch
  | .readSize =>
    if ch.isDigit then .ok { s with nums := pushDigit s.nums ch }
    else if ch = ';' then .ok { s with nums := s.nums ++ [0] }
    else (sizeArm s).andThen fun s' => sixelData s' ch
  | .repeat_ =>
    if ch.isDigit then .ok { s with nums := pushDigit s.nums ch }
    else match s.nums.head? with
      | some n =>
        if n > maxSize then .err .invalidPictureSize
        else (repeatN (fun t => sixelData t ch) n s).andThen fun s' => .ok { s' with state := .read }
      | none => .err .numberMissing

/-- `for ch in data.chars() { self.parse_char(ch)?; }` -/
def run : St → List Char → Out St
  | s, [] => .ok s
  | s, c :: cs =>
    match parseChar s c with
    | .ok s' => run s' cs
    | .err e => .err e
    | .panic p => .panic p
    | .huge => .huge

theorem run_cons (s : St) (c : Char) (cs : List Char) :
    run s (c :: cs) = (parseChar s c).andThen fun s' => run s' cs := by
  simp only [run, Out.andThen]; cases parseChar s c <;> rfl

structure Img where
  w : Nat
  h : Nat
  /-- `picture_data.len()` -/
  dataLen : Nat
  deriving DecidableEq, Repr

/-- widest row (`iter().map(Vec::len).max().unwrap_or(0)`) -/
def rowLen (rows : List Nat) : Nat := rows.foldl max 0

/-- tail of the repaired `parse_from`: every row is `resize`d to the widest row, then appended -/
def finish (s : St) : Img :=
  let rl := rowLen s.rows
  { w := rl / 4, h := s.rows.length, dataLen := (s.rows.map fun _ => rl).sum }

/-- tail of `parse_from` on the PINNED tree: rows appended as they are, width from the first row -/
def finishPinned (s : St) : Img :=
  { w := width s.rows, h := s.rows.length, dataLen := s.rows.sum }

def mapOut (f : α → β) (o : Out α) : Out β := o.andThen fun a => .ok (f a)

/-- `SixelParser::parse_from`: all chars, then a final `'#'` to flush the pending state -/
def parse (payload : List Char) : Out Img := mapOut finish (run {} (payload ++ ['#']))
def parsePinned (payload : List Char) : Out Img := mapOut finishPinned (run {} (payload ++ ['#']))

/-- final machine state (used by theorems about the raster declaration) -/
def parseSt (payload : List Char) : Out St := run {} (payload ++ ['#'])

/-- what `Sixel::parse_from(pos, horizontal_scale, vertical_scale, bg, data)` returns besides the position:
    the picture and the two scale fields (`bg` is not read by the decoder: `_default_bg_color`) -/
structure Decoded where
  img : Img
  hscale : Nat
  vscale : Nat
  deriving DecidableEq, Repr

/-- `Sixel::parse_from` with the caller's scales (the terminal passes `1` and the value selected by the first
    DCS parameter, see `SixelLoad.vscaleOf`) -/
def decode (hs vs : Nat) (payload : List Char) : Out Decoded :=
  mapOut (fun s => ⟨finish s, s.hscale, s.vscale⟩) (run { hscale := hs, vscale := vs } (payload ++ ['#']))

/-- the literals used above are the ones in the source: `Gen/Sixel.lean` is regenerated from the working tree
    on every run, so a changed band height, pixel size, first data character, ignore threshold, control
    character or default palette makes this (and with it every C14 theorem) fail to build -/
theorem gen_constants_tie :
    Gen.Sixel.defaultPalLen = ({} : St).palLen ∧ Gen.Sixel.firstData = 63 ∧ Gen.Sixel.bandRows = 6 ∧
    Gen.Sixel.pixelBytes = 4 ∧ Gen.Sixel.ignoreAbove = 127 ∧
    Gen.Sixel.controlChars = ['#', '!', '-', '$', '"'].map Char.toNat ∧
    Gen.Sixel.src_parse_next_number = "x.saturating_mul(10).saturating_add(ch as i32).saturating_sub(b'0' as i32)" := by
  decide

end IcyVerif.Sixel
