import IcyVerif.Model.BinFormats
import IcyVerif.Model.Comp
/-!
# Binary art formats on buffers with several layers (C05)

The five writers read the buffer through `Buffer::get_char` only (`Gen.BinFmt.writersReadGetCharOnly`: the translator fails
when a writer, `analyze_font_usage` or `write_sauce_info` touches `layers`).  So what they save of a buffer with a stack of
layers is the picture the compositor shows — `Model/Comp.lean` (C13): visibility, offsets, alpha channel, `Chars` /
`Attributes` layers — cut to the buffer size.
-/
namespace IcyVerif.BinFormats
open IcyVerif.XbCompress IcyVerif.Gen

/-- a buffer as the writers see it when it has a layer stack (bottom layer first, as in Rust) -/
structure Layered where
  w : Nat
  h : Nat
  isTerm : Bool
  layers : List Comp.Layer
  ice : IceMode
  pal : List Rgb
  fonts : List (Nat × Font)
  sauce : Option Sauce.Meta := none

def cellOf (c : Comp.Cell) : Cell := ⟨c.ch, ⟨c.attr.fg, c.attr.bg, c.attr.flags, c.attr.page⟩⟩

/-- the picture of the whole stack: `Buffer::get_char((x, y))` for every cell of the buffer (`hb` = the half-block classifier
    `HalfBlock::from`, only consulted for cells with a transparent colour) -/
def Layered.flatten (hb : Comp.Cell → Nat × Nat) (B : Layered) : Pic :=
  { w := B.w, h := B.h,
    rows := (List.range B.h).map fun (y : Nat) => (List.range B.w).map fun (x : Nat) => cellOf (Comp.getChar hb B.isTerm B.layers (x : Int) (y : Int)),
    ice := B.ice, pal := B.pal, fonts := B.fonts, sauce := B.sauce }

/-- `Buffer::to_bytes(ext, ..)` of a buffer with a layer stack -/
def saveLayered (hb : Comp.Cell → Nat × Nat) (f : Fmt) (o : Opts) (date : List Nat) (B : Layered) : Out (List Nat) :=
  save f o date (B.flatten hb)

end IcyVerif.BinFormats
