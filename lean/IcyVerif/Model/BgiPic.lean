import IcyVerif.Model.Bgi
/-! `Parser::get_picture_data` of `src/parsers/rip/mod.rs`: the RGBA picture the RIP emulation exposes — four bytes
per screen cell, colour 0 transparent, every other value looked up with `Palette::get_rgb` (black when the palette has
no such entry). -/
namespace IcyVerif.Bgi

/-- `Palette::get_rgb(color)` for `color < 256` (bit 31 clear) -/
def palRgb (pal : List Nat) (i : Nat) : Nat × Nat × Nat :=
  match pal[i]? with
  | some c => (c / 65536 % 256, c / 256 % 256, c % 256)
  | none => (0, 0, 0)

/-- the four bytes pushed for one screen cell -/
def pixelBytes (pal : List Nat) (px : Nat) : List Nat :=
  if px = 0 then [0, 0, 0, 0]
  else
    let c := palRgb pal px
    [c.1, c.2.1, c.2.2, 255]

/-- the byte vector of `get_picture_data` -/
def pictureData (s : Bgi) : List Nat := s.screen.toList.flatMap (pixelBytes s.pal)

end IcyVerif.Bgi

namespace IcyVerif.Bgi

/-- a left fold over the bytes of the picture that does not build the byte list (what the driver hashes with);
`picFold_eq` in `Lemmas/RipCanvas.lean` shows it is the fold over `pictureData` -/
def picFold {β : Type} (f : β → Nat → β) (init : β) (s : Bgi) : β :=
  s.screen.foldl (fun acc px => (pixelBytes s.pal px).foldl f acc) init

end IcyVerif.Bgi
