import IcyVerif.Gen.Xb
/-!
# XBin compression (C06): the writer of `src/formats/xbinary.rs` and an independent decoder

* `Attr`, `Cell`, `Attr.eqv`, `Cell.eqv` — `TextAttribute` / `AttributedChar` with Rust's `PartialEq`
  (which IGNORES the font page) kept apart from structural equality.
* `asU8`, `encodeAttr`, `analyzeFontUsage` — the attribute byte the writer stores (`encode_attr`).
* `countLength`, `realEndRun`, `step`, `compressRowWith`, `compressRow` — `compress_backtrack` transcribed
  literally; the only liberty is that the computation of the local `end_run` is a function (`realEndRun`)
  and the row loop takes that decision function as a parameter, so that the soundness lemma can be proved for
  EVERY decision function (`Lemmas/XbCompress.lean`).
* `Run`, `parseRun`, `parseRow`, `parseImage`, `expand` — decoder written from `doc/FileFormats/x_bin.htm`
  only (no knowledge of the writer): repeat counter byte `ttcccccc`, 1..=64 cells per run, a run may not
  cross the end of a row, a row is exactly `width` cells.
* `imageData` — the image-data part of `XBin::to_bytes` (compressed or raw), `none` = the save is refused.

Everything is `Nat`/`List`, total, structurally recursive (or `foldl` over `List.range`), import-free.
The writer has no panic site on the modelled path (run counters stay <= 64 < 256, `run_count - 1` is only
evaluated with `run_count > 0`); the only failure is the `Err` return for characters above 255 / more than two
fonts, modelled by `imageData = none`.
-/
namespace IcyVerif.XbCompress
open IcyVerif.Gen

/-! ## cells -/

structure Attr where
  fg : Nat
  bg : Nat
  flags : Nat
  page : Nat
deriving DecidableEq, Repr, Inhabited

structure Cell where
  ch : Nat
  attr : Attr
deriving DecidableEq, Repr, Inhabited

/-- `impl PartialEq for TextAttribute`: foreground, background, attr — NOT `font_page` -/
def Attr.eqv (a b : Attr) : Bool := a.fg == b.fg && a.bg == b.bg && a.flags == b.flags

/-- `impl PartialEq for AttributedChar`: `self.ch == other.ch && self.attribute == other.attribute` -/
def Cell.eqv (a b : Cell) : Bool := a.ch == b.ch && a.attr.eqv b.attr

/-- `AttributedChar::default()` -/
def Cell.dflt : Cell := ⟨Xb.defaultCh, ⟨Xb.defaultFg, Xb.defaultBg, 0, Xb.defaultPage⟩⟩

/-- `AttributedChar::invisible()` — what `Buffer::get_char` answers outside a non-terminal buffer -/
def Cell.invisible : Cell := ⟨Xb.invisibleCh, ⟨Xb.defaultFg, Xb.defaultBg, Xb.attrInvisible, Xb.defaultPage⟩⟩

inductive IceMode | unlimited | blink | ice
deriving DecidableEq, Repr

/-- `TextAttribute::as_u8` -/
def asU8 (im : IceMode) (a : Attr) : Nat :=
  let fg0 := a.fg &&& 0b1111
  let fg := if a.flags &&& Xb.attrBold = Xb.attrBold then fg0 ||| 0b1000 else fg0
  let bg := match im with
    | .blink => (a.bg &&& 0b0111) ||| (if a.flags &&& Xb.attrBlink = Xb.attrBlink then 0b1000 else 0)
    | .unlimited => (a.bg &&& 0b1111) ||| (if a.flags &&& Xb.attrBlink = Xb.attrBlink then 0b1000 else 0)
    | .ice => a.bg &&& 0b1111
  (fg ||| (bg <<< 4)) % 256

/-- `encode_attr(buf, ch, fonts)` -/
def encodeAttr (im : IceMode) (fonts : List Nat) (a : Attr) : Nat :=
  if fonts.length = 2 then
    (asU8 im a &&& Xb.encKeepMask) ||| (if a.page = fonts.getD 1 0 then Xb.encPageBit else 0)
  else asU8 im a

def insertSorted (p : Nat) : List Nat → List Nat
  | [] => [p]
  | q :: qs => if p < q then p :: q :: qs else if p = q then q :: qs else q :: insertSorted p qs

/-- `analyze_font_usage`: the font pages in use, sorted, without repetition -/
def analyzeFontUsage (cells : List Cell) : List Nat :=
  cells.foldl (fun acc c => insertSorted c.attr.page acc) []

/-! ## the writer -/

inductive Mode | off | chr | att | full
deriving DecidableEq, Repr

/-- `enum Compression` discriminants -/
def Mode.code : Mode → Nat
  | .off => Xb.compOff
  | .chr => Xb.compChar
  | .att => Xb.compAttr
  | .full => Xb.compFull

/-- `buffer.get_char((x, y))` on row `y` (single visible layer, non-terminal buffer) -/
def getChar (row : List Cell) (x : Nat) : Cell := row.getD x Cell.invisible

/-- run-type selection (the same text occurs in `compress_backtrack` and in `count_length`) -/
def pickMode (row : List Cell) (x : Nat) (cur next : Cell) : Mode :=
  if x + 1 < row.length then
    if cur.eqv next then .full
    else if cur.ch == next.ch then .chr
    else if cur.attr.eqv next.attr then .att
    else .off
  else .off

/-- loop state of `count_length` -/
structure CL where
  mode : Mode
  runCh : Cell
  endRun : Option Bool
  runCount : Nat
  count : Nat

/-- one iteration of `while x < buffer.get_width()` in `count_length` -/
def clStep (row : List Cell) (s : CL) (x : Nat) : CL :=
  let w := row.length
  let cur := getChar row x
  let next := getChar row (x + 1)
  -- if run_count > 0 { if end_run.is_none() { … }  if let Some(true) = end_run { count += 1; run_count = 0 } }
  let s1 : CL :=
    if s.runCount > 0 then
      let er : Option Bool :=
        if s.endRun.isNone then
          if s.runCount ≥ Xb.lookaheadRunLimit then some true
          else if s.runCount > 0 then
            match s.mode with
            | .off =>
              if x + 2 < w && cur.eqv next then some true
              else if x + 2 < w then
                let next2 := getChar row (x + 2)
                some ((cur.ch == next.ch && cur.ch == next2.ch) || (cur.attr.eqv next.attr && cur.attr.eqv next2.attr))
              else none
            | .chr =>
              if cur.ch != s.runCh.ch then some true
              else if x + 3 < w then
                let next2 := getChar row (x + 2)
                let next3 := getChar row (x + 3)
                some (cur.eqv next && cur.eqv next2 && cur.eqv next3)
              else none
            | .att =>
              if !(cur.attr.eqv s.runCh.attr) then some true
              else if x + 3 < w then
                let next2 := getChar row (x + 2)
                let next3 := getChar row (x + 3)
                some (cur.eqv next && cur.eqv next2 && cur.eqv next3)
              else none
            | .full => some (!(cur.eqv s.runCh))
          else none
        else s.endRun
      if er = some true then { s with count := s.count + 1, runCount := 0 } else s
    else s
  -- end_run = None;  if run_count > 0 { count += payload } else { pick run type; count += 2; run_ch = cur }
  let s2 : CL :=
    if s1.runCount > 0 then
      match s1.mode with
      | .off => { s1 with count := s1.count + 2 }
      | .chr => { s1 with count := s1.count + 1 }
      | .att => { s1 with count := s1.count + 1 }
      | .full => s1
    else
      { s1 with mode := pickMode row x cur next, count := s1.count + 2, runCh := cur }
  { s2 with endRun := none, runCount := s2.runCount + 1 }

/-- `count_length(run_mode, run_ch, end_run, run_count, buffer, y, x)` -/
def countLength (mode : Mode) (runCh : Cell) (endRun : Option Bool) (runCount : Nat) (row : List Cell) (x : Nat) : Nat :=
  ((List.range' x (row.length - x)).foldl (clStep row) ⟨mode, runCh, endRun, runCount, 0⟩).count

/-- an end-of-run decision: run mode, first cell of the run, cells in the run so far, the row, the column -/
abbrev Decision := Mode → Cell → Nat → List Cell → Nat → Bool

/-- the value of the local `end_run` of `compress_backtrack` (evaluated only when `run_count > 0`) -/
def realEndRun : Decision := fun mode runCh runCount row x =>
  let w := row.length
  let cur := getChar row x
  let next := if x + 1 < w then getChar row (x + 1) else Cell.dflt
  if runCount ≥ Xb.runLimit then true
  else if runCount > 0 then
    match mode with
    | .off =>
      if x + 2 < w && (cur.ch == next.ch || cur.attr.eqv next.attr) then
        let l1 := countLength mode runCh (some true) runCount row x
        let l2 := countLength mode runCh (some false) runCount row x
        decide (l1 < l2)
      else false
    | .chr =>
      if cur.ch != runCh.ch || cur.attr.page != runCh.attr.page then true
      else if x + 4 < w then
        let next2 := getChar row (x + 2)
        if cur.attr.eqv next.attr && cur.attr.eqv next2.attr then
          let l1 := countLength mode runCh (some true) runCount row x
          let l2 := countLength mode runCh (some false) runCount row x
          decide (l1 < l2)
        else false
      else false
    | .att =>
      if !(cur.attr.eqv runCh.attr) || cur.attr.page != runCh.attr.page then true
      else if x + 3 < w then
        let next2 := getChar row (x + 2)
        if cur.ch == next.ch && cur.ch == next2.ch then
          let l1 := countLength mode runCh (some true) runCount row x
          let l2 := countLength mode runCh (some false) runCount row x
          decide (l1 < l2)
        else false
      else false
    | .full =>
      -- after `fix: XBin compressor must end a Full run when the font page changes`
      !(cur.eqv runCh) || cur.attr.page != runCh.attr.page
  else false

/-- per-row state of `compress_backtrack`; `out` is the part of `outputdata` written for this row -/
structure St where
  out : List Nat
  buf : List Nat
  mode : Mode
  count : Nat
  runCh : Cell

def St.init : St := ⟨[], [], .off, 0, Cell.dflt⟩

/-- `outputdata.push((run_mode as u8) | (run_count - 1)); outputdata.extend(&run_buf);` -/
def St.flush (s : St) : List Nat := s.out ++ ((s.mode.code ||| (s.count - 1)) :: s.buf)

/-- one iteration of `for x in 0..buffer.get_width()`; `enc` is `encode_attr(buffer, ·, fonts)` -/
def step (enc : Attr → Nat) (dec : Decision) (row : List Cell) (s : St) (x : Nat) : St :=
  let cur := getChar row x
  let next := if x + 1 < row.length then getChar row (x + 1) else Cell.dflt
  let s1 : St :=
    if s.count > 0 && dec s.mode s.runCh s.count row x then { s with out := s.flush, count := 0 } else s
  let s2 : St :=
    if s1.count > 0 then
      match s1.mode with
      | .off => { s1 with buf := s1.buf ++ [cur.ch, enc cur.attr] }
      | .chr => { s1 with buf := s1.buf ++ [enc cur.attr] }
      | .att => { s1 with buf := s1.buf ++ [cur.ch] }
      | .full => s1
    else
      let mode := pickMode row x cur next
      { s1 with mode := mode,
                buf := if mode = .att then [enc cur.attr, cur.ch] else [cur.ch, enc cur.attr],
                runCh := cur }
  { s2 with count := s2.count + 1 }

/-- the body of `for y in …` for one row, with an arbitrary end-of-run decision -/
def compressRowWith (enc : Attr → Nat) (dec : Decision) (row : List Cell) : List Nat :=
  let s := (List.range row.length).foldl (step enc dec row) St.init
  if s.count > 0 then s.flush else s.out

/-- what `compress_backtrack` appends for one row -/
def compressRow (enc : Attr → Nat) (row : List Cell) : List Nat := compressRowWith enc realEndRun row

/-- the uncompressed branch of `to_bytes` for one row -/
def rawRow (enc : Attr → Nat) (row : List Cell) : List Nat := row.flatMap fun c => [c.ch, enc c.attr]

/-- `ch as u32 > 255 → Err(Only8BitCharactersSupported)` in both branches -/
def fits8 (rows : List (List Cell)) : Bool := rows.all fun r => r.all fun c => decide (c.ch ≤ 255)

/-- image-data part of `XBin::to_bytes`; `none` = `Err` (more than two fonts, or a character above 255).
    Meaningful for buffers with at least one cell: on an empty buffer `to_bytes` panics at `fonts[0]` while writing the
    header, before this part is reached (header code is not modelled; the quantifier starts at 1x1). -/
def imageData (im : IceMode) (compress : Bool) (rows : List (List Cell)) : Option (List Nat) :=
  let fonts := analyzeFontUsage rows.flatten
  if fonts.length > 2 then none
  else if !fits8 rows then none
  else
    let enc := encodeAttr im fonts
    some (if compress then rows.flatMap (compressRow enc) else rows.flatMap (rawRow enc))

/-! ## the decoder of the specification (independent of the writer) -/

/-- a decoded run: compression type, first (character, attribute) pair, the remaining pairs -/
structure Run where
  mode : Mode
  head : Nat × Nat
  rest : List (Nat × Nat)
deriving Repr, DecidableEq

def Run.cells (r : Run) : List (Nat × Nat) := r.head :: r.rest
def Run.len (r : Run) : Nat := r.rest.length + 1

/-- exactly `n` bytes -/
def takeN : Nat → List Nat → Option (List Nat × List Nat)
  | 0, bs => some ([], bs)
  | _ + 1, [] => none
  | n + 1, b :: bs => match takeN n bs with
    | some (xs, r) => some (b :: xs, r)
    | none => none

/-- exactly `n` character/attribute pairs -/
def takePairs : Nat → List Nat → Option (List (Nat × Nat) × List Nat)
  | 0, bs => some ([], bs)
  | n + 1, c :: a :: bs => match takePairs n bs with
    | some (xs, r) => some ((c, a) :: xs, r)
    | none => none
  | _ + 1, _ => none

/-- one repeat-counter byte and its data: "the two most significant bits are the compression type, the six
    least significant bits are the actual repeat counter", stored "as one less of its actual number of repeats" -/
def parseRun : List Nat → Option (Run × List Nat)
  | [] => none
  | b :: bs =>
    let k := b % 64
    if b / 64 = 0 then            -- 00: no compression, k+1 character/attribute pairs
      match takePairs (k + 1) bs with
      | some (p :: ps, r) => some (⟨.off, p, ps⟩, r)
      | _ => none
    else if b / 64 = 1 then       -- 01: the character, then k+1 attributes
      match bs with
      | c :: bs' => match takeN (k + 1) bs' with
        | some (a :: as, r) => some (⟨.chr, (c, a), as.map fun a' => (c, a')⟩, r)
        | _ => none
      | [] => none
    else if b / 64 = 2 then       -- 10: the attribute, then k+1 characters
      match bs with
      | a :: bs' => match takeN (k + 1) bs' with
        | some (c :: cs, r) => some (⟨.att, (c, a), cs.map fun c' => (c', a)⟩, r)
        | _ => none
      | [] => none
    else if b / 64 = 3 then       -- 11: one character/attribute pair, repeated k+1 times
      match bs with
      | c :: a :: r => some (⟨.full, (c, a), List.replicate k (c, a)⟩, r)
      | _ => none
    else none                     -- not a byte

/-- runs of one row: `need` cells are still missing; a run longer than that crosses the row end → invalid -/
def parseRow : Nat → Nat → List Nat → Option (List Run × List Nat)
  | _, 0, bs => some ([], bs)
  | 0, _ + 1, _ => none
  | fuel + 1, need + 1, bs =>
    match parseRun bs with
    | none => none
    | some (r, rest) =>
      if r.len ≤ need + 1 then
        match parseRow fuel (need + 1 - r.len) rest with
        | some (rs, t) => some (r :: rs, t)
        | none => none
      else none

/-- `h` rows of width `w`; answers the runs of every row and the bytes that follow the last row -/
def parseImage (w : Nat) : Nat → List Nat → Option (List (List Run) × List Nat)
  | 0, bs => some ([], bs)
  | h + 1, bs =>
    match parseRow w w bs with
    | none => none
    | some (rs, rest) =>
      match parseImage w h rest with
      | some (rows, t) => some (rs :: rows, t)
      | none => none

/-- the cells a list of runs stands for -/
def expand (rs : List Run) : List (Nat × Nat) := rs.flatMap Run.cells

/-- raw image data: `n` character/attribute pairs -/
def parseRaw (n : Nat) (bs : List Nat) : Option (List (Nat × Nat) × List Nat) := takePairs n bs

/-- the (character, attribute byte) pair a cell is stored as -/
def encCell (enc : Attr → Nat) (c : Cell) : Nat × Nat := (c.ch, enc c.attr)

/-! ## the crate's own loader (`read_data_compressed`, `read_data_uncompressed`, `decode_char`)

The byte cursor `o` of the Rust code is the list suffix still to be read (`o + k > bytes.len()` is "fewer than `k`
bytes left").  The result is the sequence of (character, attribute) pairs handed to `decode_char`/`set_char`, in
order — `advance_pos` walks the cells row-major, so cell number `i` receives pair number `i`.  Since the C02 repair a
run header that is the last byte of the data ends decoding like every other truncated run (`break`), so the result is
always `some`; the `Option` is kept for the lemmas that were stated with it. -/

/-- `Compression::Off` arm: `for _ in 0..repeat_counter { if o + 2 > bytes.len() { break; } … }` -/
def rdOff : Nat → List Nat → List (Nat × Nat) → List (Nat × Nat) × List Nat
  | 0, bs, acc => (acc, bs)
  | n + 1, c :: a :: bs, acc => rdOff n bs (acc ++ [(c, a)])
  | _ + 1, bs, acc => (acc, bs)

/-- `Compression::Char` arm after `char_code = bytes[o]` -/
def rdChr (c : Nat) : Nat → List Nat → List (Nat × Nat) → List (Nat × Nat) × List Nat
  | 0, bs, acc => (acc, bs)
  | n + 1, a :: bs, acc => rdChr c n bs (acc ++ [(c, a)])
  | _ + 1, [], acc => (acc, [])

/-- `Compression::Attr` arm after `attribute = bytes[o]` -/
def rdAtt (a : Nat) : Nat → List Nat → List (Nat × Nat) → List (Nat × Nat) × List Nat
  | 0, bs, acc => (acc, bs)
  | n + 1, c :: bs, acc => rdAtt a n bs (acc ++ [(c, a)])
  | _ + 1, [], acc => (acc, [])

/-- `read_data_compressed`: `while o < bytes.len()`; every iteration consumes the repeat-counter byte, so
    `fuel = bytes.length + 1` is never exhausted -/
def readCompressedAux : Nat → List Nat → List (Nat × Nat) → Option (List (Nat × Nat))
  | 0, _, acc => some acc
  | _ + 1, [], acc => some acc
  | fuel + 1, b :: bs, acc =>
    let t := b &&& Xb.readTypeMask
    let n := (b &&& Xb.readCountMask) + 1
    if t = Xb.compOff then
      let r := rdOff n bs acc
      readCompressedAux fuel r.2 r.1
    else if t = Xb.compChar then
      match bs with
      | [] => some acc                               -- "Read compression block beyond EOF": `break`
      | c :: bs' => let r := rdChr c n bs' acc; readCompressedAux fuel r.2 r.1
    else if t = Xb.compAttr then
      match bs with
      | [] => some acc
      | a :: bs' => let r := rdAtt a n bs' acc; readCompressedAux fuel r.2 r.1
    else
      match bs with
      | [] => some acc
      | [_] => some acc                              -- "Read compression block beyond EOF": `break` leaves the loop
      | c :: a :: bs' => readCompressedAux fuel bs' (acc ++ List.replicate n (c, a))

def readCompressed (bs : List Nat) : Option (List (Nat × Nat)) := readCompressedAux (bs.length + 1) bs []

/-- `read_data_uncompressed` (a dangling last byte is ignored) -/
def readUncompressed : List Nat → List (Nat × Nat)
  | c :: a :: bs => (c, a) :: readUncompressed bs
  | _ => []

/-- `TextAttribute::from_u8(attr, ice_mode)` for the two modes the XBin loader uses (`ice` = NonBlink flag) -/
def fromU8 (ice : Bool) (attr : Nat) : Attr :=
  if ice then ⟨attr &&& 0b1111, attr >>> 4, 0, Xb.defaultPage⟩
  else ⟨attr &&& 0b1111, (attr >>> 4) &&& 0b0111, if attr &&& 0b10000000 != 0 then Xb.attrBlink else 0, Xb.defaultPage⟩

/-- `decode_char`; `ext` = 512-character mode (`FontMode::FixedSize`) -/
def decodeChar (ice ext : Bool) (p : Nat × Nat) : Cell :=
  let a := fromU8 ice p.2
  if a.fg > 7 && ext then ⟨p.1, { a with page := 1, fg := a.fg - 8 }⟩ else ⟨p.1, a⟩

end IcyVerif.XbCompress
