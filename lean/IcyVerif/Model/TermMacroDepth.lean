import IcyVerif.Model.TermAnsi
/-! # Macro replay with the code's own depth accounting (`invoke_macro_by_id`, src/parsers/ansi/mod.rs)
`Model/TermAnsi.lean` bounds the nesting of macro replay by the structural recursion of `stepD` (fuel = levels left).
The code does it differently: a counter field `macro_depth`, incremented around the replay loop, and ONE test
`macro_depth >= MAX_MACRO_DEPTH` - and the question C03 asks is whether every call path into the replay passes that test.
There are two call paths (regenerated: `Gen.MacroEntry.entryEdges`): the `CSI Pn * z` handler (`invoke_macro`, which resets
the parser state to Default first) and state `ReadPossibleMacroInDCS` (which sets `RecordDCS` first).

`stepK inCallee fuel k` is the parser step with the counter `k` = `macro_depth` and `fuel` = native stack frames available
(only there to make the definition terminate; with no fuel left an invocation does nothing).  `inCallee = true`: the test
sits in the callee, as the translator finds it in the source (`Gen.MacroEntry.depthGuardInCallee`).  `inCallee = false` is
the what-if placement "in the `CSI Pn * z` handler only": the in-DCS path then passes unchecked.
`Lemmas/TermMacroDepth.lean`: with the test in the callee, `stepK` is `step` for every amount of fuel >= MAX_MACRO_DEPTH. -/
namespace IcyVerif.Term

/-- the call path of an invocation, read off the state the caller hands over: the `CSI Pn * z` handler has reset the parser
    to Default, state `ReadPossibleMacroInDCS` has set `RecordDCS` -/
def viaCsiHandler (st : St) : Bool :=
  match st.p.st with
  | .dflt => true
  | _ => false

/-- `invoke_macro_by_id` with the counter `k` = `macro_depth` -/
def invokerK (inCallee : Bool) (stepf : St → Char → R) (k : Nat) (id : Int) (st : St) : Res St :=
  match macroGet st.p.macros id.toNat with
  | none => .ok st
  | some body =>
    if (inCallee || viaCsiHandler st) && decide (MAX_MACRO_DEPTH ≤ k) then .ok st
    else replay stepf body (if k = 0 then { st with p := { st.p with budget := MAX_MACRO_EXPANSION } } else st)

def stepK (inCallee : Bool) : Nat → Nat → Cfg → (Nat → Orc) → St → Char → R
  | 0, _, cfg, o, st, ch => stepCore cfg (o st.p.tick) (fun _ st => .ok st) (tickSt st) ch
  | f+1, k, cfg, o, st, ch =>
    stepCore cfg (o st.p.tick) (invokerK inCallee (stepK inCallee f (k + 1) cfg o) k) (tickSt st) ch

def runK (inCallee : Bool) (fuel : Nat) (cfg : Cfg) (o : Nat → Orc) : St → List Char → Res St
  | st, [] => .ok st
  | st, ch :: rest =>
    match stepK inCallee fuel 0 cfg o st ch with
    | .ok (st', _) => runK inCallee fuel cfg o st' rest
    | .error e => .error e

/-- a macro that closes the DCS it is replayed into, prints `X`, re-opens the DCS and invokes itself inside it
    (`ESC \ X ESC P ESC [ 5 * z`), invoked once: the column the cursor ends in = the number of levels that ran -/
def selfNestInDcs : List Char := "\x1bP5;0;1!z1B5C581B501B5B352A7A\x1b\\\x1b[5*z".toList
/-- the same through the `CSI Pn * z` handler only (`X ESC [ 5 * z`) -/
def selfNestCsi : List Char := "\x1bP5;0;1!z581B5B352A7A\x1b\\\x1b[5*z".toList

def levelsRun (inCallee : Bool) (fuel : Nat) (input : List Char) : Int :=
  match runK inCallee fuel { musicOpt := 0, bsCtrl := false } (fun _ => default) (initSt 80 25) input with
  | .ok st => st.c.x
  | .error _ => -1

end IcyVerif.Term
