import IcyVerif.Gen.Palette
/-! Model of `Palette` (src/palette_handling.rs) and of the EGA helpers of src/formats/artworx.rs:
    index operations (`get_rgb`, `insert_color`, `set_color`, `push`), the 6-bit VGA codec (`from_63`, `as_vec_63`,
    `from_ega_data`, `to_ega_data`) and the five text palette formats (`export_palette`, `load_palette`).
    Text is a list of Unicode code points.  Every literal (templates, magic lines, regex literals, shifts, the EGA
    tables) comes from the generated `Gen/Palette.lean`; the regular expressions are hand-written matchers whose
    pattern text is pinned by the translator and whose behaviour is tied by the correspondence run. -/
namespace IcyVerif.Palette
open IcyVerif.Gen.Palette

structure Rgb where
  r : Nat
  g : Nat
  b : Nat
  deriving DecidableEq, Repr

def black : Rgb := ⟨0, 0, 0⟩

/-- a colour as stored: three `u8` -/
def Rgb.Valid (c : Rgb) : Prop := c.r < 256 ∧ c.g < 256 ∧ c.b < 256

/-! ## index operations (names of colours play no role in them) -/

/-- `Palette::get_rgb(color: u32)`: bit 31 = RGB encoded directly; beyond the end = black -/
def getRgb (p : List Rgb) (i : Nat) : Rgb :=
  if i &&& 0x80000000 ≠ 0 then ⟨(i >>> 16) % 256, (i >>> 8) % 256, i % 256⟩
  else p.getD i black

/-- position of the first colour equal to `c` (the loop of `insert_color`), `p.length` if there is none -/
def firstIdx (c : Rgb) : List Rgb → Nat
  | [] => 0
  | x :: xs => if x = c then 0 else firstIdx c xs + 1

/-- `Palette::insert_color`: linear search, then push; returns (new palette, index) -/
def insertColor (p : List Rgb) (c : Rgb) : List Rgb × Nat :=
  if firstIdx c p < p.length then (p, firstIdx c p) else (p ++ [c], p.length)

/-- `Palette::set_color / set_color_rgb`: grow with `Color::default()` (black) up to the index, then assign -/
def setColor (p : List Rgb) (i : Nat) (c : Rgb) : List Rgb :=
  (if p.length ≤ i then p ++ List.replicate (i + 1 - p.length) black else p).set i c

inductive Op where
  | insert (c : Rgb)
  | set (i : Nat) (c : Rgb)
  | lookup (i : Nat)
  | push (c : Rgb)
  deriving Repr

/-- what an operation answers -/
inductive Out where
  | idx (i : Nat)
  | rgb (c : Rgb)
  deriving Repr, DecidableEq

def step (p : List Rgb) : Op → List Rgb × Option Out
  | .insert c => ((insertColor p c).1, some (.idx (insertColor p c).2))
  | .set i c => (setColor p i c, none)
  | .lookup i => (p, some (.rgb (getRgb p i)))
  | .push c => (p ++ [c], none)

def runOps (p : List Rgb) (ops : List Op) : List Rgb := ops.foldl (fun p op => (step p op).1) p

/-- all answers of a history, in order, and the final palette -/
def trace : List Rgb → List Op → List Out × List Rgb
  | p, [] => ([], p)
  | p, op :: ops =>
    let r := step p op
    let t := trace r.1 ops
    (match r.2 with
      | some o => o :: t.1
      | none => t.1, t.2)

/-! ## 6-bit VGA codec -/

/-- `v << a | v >> b` on a `u8` (the left shift drops the bits shifted out) -/
def upWith (sh : Nat × Nat) (v : Nat) : Nat := ((v <<< sh.1) % 256) ||| (v >>> sh.2)

def up6 (c : Rgb) : Rgb :=
  ⟨upWith (sixUp.getD 0 (0, 0)) c.r, upWith (sixUp.getD 1 (0, 0)) c.g, upWith (sixUp.getD 2 (0, 0)) c.b⟩
def down6 (c : Rgb) : Rgb := ⟨c.r >>> sixDown.getD 0 0, c.g >>> sixDown.getD 1 0, c.b >>> sixDown.getD 2 0⟩

/-- `Palette::from_63`: reads whole triples; a ragged tail is an index panic -/
def from63 : List Nat → Except String (List Rgb)
  | [] => .ok []
  | r :: g :: b :: rest =>
    match from63 rest with
    | .ok cs => .ok (up6 ⟨r, g, b⟩ :: cs)
    | .error e => .error e
  | _ => .error "palette_handling.rs::from_63"

def flat (c : Rgb) : List Nat := [c.r, c.g, c.b]

/-- `Palette::as_vec_63` -/
def asVec63 (p : List Rgb) : List Nat := p.flatMap fun c => flat (down6 c)

/-- `Palette::as_vec` -/
def asVec (p : List Rgb) : List Nat := p.flatMap flat

/-- whole triples of a byte list (used for the constant EGA table and by the driver) -/
def triples : List Nat → List Rgb
  | r :: g :: b :: rest => ⟨r, g, b⟩ :: triples rest
  | _ => []

def egaBase : List Rgb := triples egaPaletteFlat

def upEga (c : Rgb) : Rgb :=
  ⟨upWith (egaUp.getD 0 (0, 0)) c.r, upWith (egaUp.getD 1 (0, 0)) c.g, upWith (egaUp.getD 2 (0, 0)) c.b⟩
def downEga (c : Rgb) : Rgb := ⟨c.r >>> egaDown.getD 0 0, c.g >>> egaDown.getD 1 0, c.b >>> egaDown.getD 2 0⟩

def fromEgaGo (d : List Nat) : List Nat → Except String (List Rgb)
  | [] => .ok []
  | i :: is =>
    match d[3 * i]?, d[3 * i + 1]?, d[3 * i + 2]? with
    | some r, some g, some b =>
      match fromEgaGo d is with
      | .ok cs => .ok (upEga ⟨r, g, b⟩ :: cs)
      | .error e => .error e
    | _, _, _ => .error "formats/artworx.rs::from_ega_data"

/-- `from_ega_data`: the 16 slots `EGA_COLOR_OFFSETS` of a 64-colour 6-bit table -/
def fromEga (d : List Nat) : Except String (List Rgb) := fromEgaGo d egaOffsets

/-- the loop `for i in 0..16 { if i >= palette.len() { break; } ega_colors[EGA_COLOR_OFFSETS[i]] = palette.get_color(i) }` -/
def egaFill (p : List Rgb) : List Nat → Nat → List Rgb → List Rgb
  | [], _, acc => acc
  | o :: os, i, acc => if p.length ≤ i then acc else egaFill p os (i + 1) (acc.set o (p.getD i black))

/-- `to_ega_data` -/
def toEga (p : List Rgb) : List Nat :=
  (egaFill p (egaOffsets.take egaCount) 0 egaBase).flatMap fun c => flat (downEga c)

/-! ## text helpers -/

def hexDigit (n : Nat) : Nat := if n < 10 then 48 + n else 87 + n
/-- `{:02x}` of a `u8` -/
def hex2 (n : Nat) : List Nat := [hexDigit (n / 16 % 16), hexDigit (n % 16)]

def decRev : Nat → Nat → List Nat
  | 0, _ => []
  | f + 1, n => (48 + n % 10) :: (if n / 10 = 0 then [] else decRev f (n / 10))
/-- `{}` of an unsigned integer -/
def dec (n : Nat) : List Nat := (decRev (n + 1) n).reverse
/-- `{:3}`: right-aligned in at least 3 columns -/
def pad3 (n : Nat) : List Nat := List.replicate (3 - (dec n).length) 32 ++ dec n

/-- `s.replace(['\r', '\n'], " ")` of `export_palette` (characters and replacement from the source) -/
def oneLine (s : List Nat) : List Nat := s.flatMap fun c => if c ∈ oneLineFrom then oneLineTo else [c]

/-- a `format!` template: literal segments interleaved with the rendered arguments -/
def tpl : List (List Nat) → List (List Nat) → List Nat
  | [], _ => []
  | [s], _ => s
  | s :: ss, [] => s ++ tpl ss []
  | s :: ss, a :: as => s ++ a ++ tpl ss as

structure Color where
  name : Option (List Nat)
  rgb : Rgb
  deriving DecidableEq, Repr

structure Pal where
  title : List Nat
  author : List Nat
  description : List Nat
  colors : List Color
  deriving DecidableEq, Repr

def Pal.empty : Pal := ⟨[], [], [], []⟩

inductive Fmt where
  | hex | pal | gpl | ice | txt
  deriving DecidableEq, Repr

/-! ## export (`export_palette` = flatten metadata, then `export_lines`) -/

def Pal.flatten (p : Pal) : Pal :=
  { title := oneLine p.title, author := oneLine p.author, description := oneLine p.description,
    colors := p.colors.map fun c => { c with name := c.name.map oneLine } }

/-- ICE: an optional `#Name:` line, then the colour -/
def iceColorText (c : Color) : List Nat :=
  (match c.name with
    | some n => tpl iceColorNameSegs [n]
    | none => []) ++ tpl iceColorSegs [hex2 c.rgb.r, hex2 c.rgb.g, hex2 c.rgb.b]

def exportLines : Fmt → Pal → List Nat
  | .hex, p => p.colors.flatMap fun c => tpl hexColorSegs [hex2 c.rgb.r, hex2 c.rgb.g, hex2 c.rgb.b]
  | .pal, p =>
    tpl palMagicSegs [] ++ tpl palVersionSegs [] ++ tpl palCountSegs [dec p.colors.length] ++
      p.colors.flatMap fun c => tpl palColorSegs [dec c.rgb.r, dec c.rgb.g, dec c.rgb.b]
  | .gpl, p =>
    tpl gplMagicSegs [] ++ tpl gplNameSegs [p.title] ++ tpl gplAuthorSegs [p.author] ++
      tpl gplDescriptionSegs [p.description] ++ tpl gplCountSegs [dec p.colors.length] ++
      p.colors.flatMap fun c => tpl gplColorSegs [pad3 c.rgb.r, pad3 c.rgb.g, pad3 c.rgb.b, p.description]
  | .ice, p =>
    tpl iceMagicSegs [] ++ tpl iceNameSegs [p.title] ++ tpl iceAuthorSegs [p.author] ++
      tpl iceDescriptionSegs [p.description] ++ tpl iceCountSegs [dec p.colors.length] ++
      p.colors.flatMap iceColorText
  | .txt, p =>
    tpl txtMagicSegs [] ++ tpl txtNameSegs [p.title] ++ tpl txtAuthorSegs [p.author] ++
      tpl txtDescriptionSegs [p.description] ++ tpl txtCountSegs [dec p.colors.length] ++
      p.colors.flatMap fun c => tpl txtColorSegs [hex2 c.rgb.r, hex2 c.rgb.g, hex2 c.rgb.b]

def exportM (f : Fmt) (p : Pal) : List Nat := exportLines f p.flatten

/-! ## import (`load_palette`) -/

/-- drop one trailing CR (given the reversed line) -/
def stripCrRev : List Nat → List Nat
  | 13 :: rest => rest.reverse
  | l => l.reverse

/-- Rust `str::lines()`: split at `\n`, a `\r` directly before it belongs to the line ending; no empty last line -/
def linesGo : List Nat → List Nat → List (List Nat)
  | [], cur => if cur.isEmpty then [] else [cur.reverse]
  | c :: rest, cur => if c = 10 then stripCrRev cur :: linesGo rest [] else linesGo rest (c :: cur)
def splitLines (s : List Nat) : List (List Nat) := linesGo s []

def isDigit (c : Nat) : Bool := 48 ≤ c && c ≤ 57
def isHex (c : Nat) : Bool := (48 ≤ c && c ≤ 57) || (97 ≤ c && c ≤ 102) || (65 ≤ c && c ≤ 70)
def hexVal (c : Nat) : Nat := if c ≤ 57 then c - 48 else if c ≤ 70 then c - 55 else c - 87
/-- `\s` of the `regex` crate (Unicode mode): the White_Space property -/
def isWs (c : Nat) : Bool :=
  (9 ≤ c && c ≤ 13) || c = 32 || c = 0x85 || c = 0xA0 || c = 0x1680 || (0x2000 ≤ c && c ≤ 0x200A) ||
  c = 0x2028 || c = 0x2029 || c = 0x202F || c = 0x205F || c = 0x3000

/-- `[0-9a-fA-F]{k}` anchored here: the k digits and what follows -/
def hexRun : Nat → List Nat → Option (List Nat × List Nat)
  | 0, s => some ([], s)
  | _ + 1, [] => none
  | k + 1, c :: cs =>
    if isHex c then
      match hexRun k cs with
      | some (m, rest) => some (c :: m, rest)
      | none => none
    else none

/-- leftmost match of an anchored matcher in a line (`Regex::captures`) -/
def findFirst (m : List Nat → Option (α × List Nat)) : List Nat → Option (α × List Nat)
  | [] => none
  | c :: cs =>
    match m (c :: cs) with
    | some r => some r
    | none => findFirst m cs

/-- all non-overlapping matches from the left (`Regex::captures_iter`); `skip` = characters still inside the
    previous match -/
def scanWith (m : List Nat → Option (α × List Nat)) : List Nat → Nat → List α
  | [], _ => []
  | _ :: cs, k + 1 => scanWith m cs k
  | c :: cs, 0 =>
    match m (c :: cs) with
    | some (a, rest) => a :: scanWith m cs (cs.length - rest.length)
    | none => scanWith m cs 0

def parseHex2 (a b : Nat) : Nat := hexVal a * 16 + hexVal b

/-- the three `from_str_radix(_, 16)` of a 6-digit match -/
def rgbOfHex6 : List Nat → Rgb
  | [a, b, c, d, e, f] => ⟨parseHex2 a b, parseHex2 c d, parseHex2 e f⟩
  | _ => black
/-- a 8-digit match of the Paint.NET format: alpha is dropped -/
def rgbOfHex8 : List Nat → Rgb
  | [_, _, a, b, c, d, e, f] => ⟨parseHex2 a b, parseHex2 c d, parseHex2 e f⟩
  | _ => black

/-- `\d+` (greedy) -/
def digits1 (s : List Nat) : Option (List Nat × List Nat) :=
  if (s.takeWhile isDigit).isEmpty then none else some (s.takeWhile isDigit, s.dropWhile isDigit)
/-- `\s+` (greedy) -/
def ws1 (s : List Nat) : Option (List Nat) :=
  if (s.takeWhile isWs).isEmpty then none else some (s.dropWhile isWs)

/-- `(\d+)\s+(\d+)\s+(\d+)` anchored here.  Greedy runs without backtracking are exact for this pattern: a
    shorter digit or blank run is always followed by a character of the same class. -/
def rgbAt (s : List Nat) : Option ((List Nat × List Nat × List Nat) × List Nat) :=
  match digits1 s with
  | none => none
  | some (r, s1) =>
    match ws1 s1 with
    | none => none
    | some s2 =>
      match digits1 s2 with
      | none => none
      | some (g, s3) =>
        match ws1 s3 with
        | none => none
        | some s4 =>
          match digits1 s4 with
          | none => none
          | some (b, s5) => some ((r, g, b), s5)

def decVal (ds : List Nat) : Nat := ds.foldl (fun acc d => acc * 10 + (d - 48)) 0
/-- `str::parse::<u32>()` of a digit run, then `as u8` -/
def parseU8 (ds : List Nat) : Option Nat := if decVal ds < 4294967296 then some (decVal ds % 256) else none

def rgbOfDec (t : List Nat × List Nat × List Nat) : Option Rgb :=
  match parseU8 t.1, parseU8 t.2.1, parseU8 t.2.2 with
  | some r, some g, some b => some ⟨r, g, b⟩
  | _, _, _ => none

def mapOpt (f : α → Option β) : List α → Option (List β)
  | [] => some []
  | a :: as =>
    match f a, mapOpt f as with
    | some b, some bs => some (b :: bs)
    | _, _ => none

def startsWith (pre : List Nat) (s : List Nat) : Bool := pre.isPrefixOf s

/-- text after the first occurrence of `lit` -/
def afterLit (lit : List Nat) : List Nat → Option (List Nat)
  | [] => if lit.isEmpty then some [] else none
  | c :: cs => if startsWith lit (c :: cs) then some ((c :: cs).drop lit.length) else afterLit lit cs

/-- group 1 of `\s*<lit>\s*(.*)\s*` on a line: the text after the first `lit`, leading blanks dropped -/
def metaValue (lit : List Nat) (line : List Nat) : Option (List Nat) :=
  (afterLit lit line).map fun rest => rest.dropWhile isWs

def orKeep (new : Option (List Nat)) (old : List Nat) : List Nat := new.getD old

def colorsOfHexText (s : List Nat) : List Color :=
  (scanWith (hexRun 6) s 0).map fun m => ⟨none, rgbOfHex6 m⟩

def importHex (s : List Nat) : Option Pal := some { Pal.empty with colors := colorsOfHexText s }

def palLineColors (line : List Nat) : Option (List Color) :=
  mapOpt (fun t => (rgbOfDec t).map fun c => (⟨none, c⟩ : Color)) (scanWith rgbAt line 0)

def palLoop : List (List Nat) → Nat → List Color → Option (List Color)
  | [], _, acc => some acc
  | l :: ls, i, acc =>
    if i = 0 then (if l = palMagicLine then palLoop ls 1 acc else none)
    else if i ∈ palIgnoredLines then palLoop ls (i + 1) acc
    else
      match palLineColors l with
      | some cs => palLoop ls (i + 1) (acc ++ cs)
      | none => none

def importPal (s : List Nat) : Option Pal :=
  (palLoop (splitLines s) 0 []).map fun cs => { Pal.empty with colors := cs }

/-- one line of a GIMP palette after the magic line -/
def gplStep (p : Pal) (line : List Nat) : Option Pal :=
  if line.head? = some gplComment then
    some { p with title := orKeep (metaValue litGplName line) p.title,
                  description := orKeep (metaValue litGplDescription line) p.description }
  else
    match findFirst rgbAt line with
    | none => some p
    | some (t, rest) =>
      match rgbOfDec t with
      | none => none
      | some c =>
        let name := rest.dropWhile isWs
        some { p with colors := p.colors ++ [⟨if name.isEmpty then none else some name, c⟩] }

def foldOpt (f : σ → α → Option σ) : σ → List α → Option σ
  | s, [] => some s
  | s, a :: as =>
    match f s a with
    | some s' => foldOpt f s' as
    | none => none

def importGpl (s : List Nat) : Option Pal :=
  match splitLines s with
  | [] => some Pal.empty
  | l0 :: rest => if l0 = gplMagicLine then foldOpt gplStep Pal.empty rest else none

/-- state of the ICE loop: palette so far and `next_color_name` -/
def iceStep (st : Pal × List Nat) (line : List Nat) : Option (Pal × List Nat) :=
  let p := st.1
  if line.head? = some iceComment then
    some ({ p with title := orKeep (metaValue litIcePaletteName line) p.title,
                   description := orKeep (metaValue litIceDescription line) p.description,
                   author := orKeep (metaValue litIceAuthor line) p.author },
          orKeep (metaValue litIceColorName line) st.2)
  else
    match findFirst (hexRun 6) line with
    | none => some st
    | some (m, _) =>
      some ({ p with colors := p.colors ++ [⟨if st.2.isEmpty then none else some st.2, rgbOfHex6 m⟩] }, [])

def importIce (s : List Nat) : Option Pal :=
  match splitLines s with
  | [] => some Pal.empty
  | l0 :: rest => if l0 = iceMagicLine then (foldOpt iceStep (Pal.empty, []) rest).map (·.1) else none

def txtStep (p : Pal) (line : List Nat) : Option Pal :=
  if line.head? = some txtComment then
    some { p with title := orKeep (metaValue litTxtName line) p.title,
                  description := orKeep (metaValue litTxtDescription line) p.description }
  else
    match findFirst (hexRun 8) line with
    | none => some p
    | some (m, _) => some { p with colors := p.colors ++ [⟨none, rgbOfHex8 m⟩] }

def importTxt (s : List Nat) : Option Pal := foldOpt txtStep Pal.empty (splitLines s)

/-- `Palette::load_palette`; `none` = `Err(_)` -/
def importM : Fmt → List Nat → Option Pal
  | .hex => importHex
  | .pal => importPal
  | .gpl => importGpl
  | .ice => importIce
  | .txt => importTxt

/-! ## `import_palette`: dispatch on the file extension -/

/-- `to_ascii_lowercase` -/
def lowerAscii (c : Nat) : Nat := if 65 ≤ c ∧ c ≤ 90 then c + 32 else c

def fmtOfNum : Nat → Option Fmt
  | 0 => some .hex
  | 1 => some .pal
  | 2 => some .gpl
  | 3 => some .ice
  | 4 => some .txt
  | _ => none

/-- `Palette::import_palette(file_name, bytes)` given the extension of the file name; `none` = `Err(_)` -/
def importByExt (ext : List Nat) (s : List Nat) : Option Pal :=
  match importExts.find? (fun e => e.1 == ext.map lowerAscii) with
  | some e => (fmtOfNum e.2).bind fun f => importM f s
  | none => none

/-- `Color::to_hex` / `Color::from_hex` (first six hex digits anywhere in the text) -/
def colorToHex (c : Rgb) : List Nat := 35 :: (hex2 c.r ++ hex2 c.g ++ hex2 c.b)
def colorFromHex (s : List Nat) : Option Rgb := (findFirst (hexRun 6) s).map fun m => rgbOfHex6 m.1

def Pal.rgbs (p : Pal) : List Rgb := p.colors.map (·.rgb)

end IcyVerif.Palette
