import IcyVerif.Model.ColorOpt
/-! # The second loop of `Buffer::render_to_rgba` (src/buffers.rs): sixel images painted over the text picture

```
for layer in &self.layers {                      // EVERY layer, also hidden ones
    for sixel in &layer.sixels {
        let sx = layer.get_offset().x + sixel.position.x - rect.start.x;   let sx_px = sx * font_size.width;
        let sy = layer.get_offset().y + sixel.position.y - rect.start.y;   let sy_pix = sy * font_size.height;
        let sixel_line_bytes = (sixel.get_width() * 4) as usize;
        let mut sixel_line = 0;
        for y in sy_pix..(sy_pix + sixel.get_height()) {
            if y < 0 { continue; }                                          // `sixel_line` is NOT advanced
            let y = y as usize;
            let offset = y * line_bytes as usize + sx_px as usize * 4;     // sx_px < 0: usize multiplication overflows
            let o = sixel_line * sixel_line_bytes;
            if offset + sixel_line_bytes > pixels.len() { break; }
            pixels[offset..(offset + sixel_line_bytes)].copy_from_slice(&sixel.picture_data[o..(o + sixel_line_bytes)]);
            sixel_line += 1;
        }
    }
}
```
Quirks copied: no horizontal clipping (a row that starts left of the right edge but is longer than what is left of the
pixel line runs on into the next pixel line); rows above the picture are skipped WITHOUT skipping their source line; a
negative pixel column panics as soon as one row is at `y ≥ 0`; `picture_data` shorter than `width·height·4` panics at the
first row it cannot fill; layer visibility is ignored.  `rect.start` is `(0,0)` (the whole buffer rectangle, the
rectangle the property observes).  `none` = a Rust panic (debug profile).  Sixel width and height are `Nat` (negative
sizes are not modelled and never generated).  `Buffer::flat_clone(false)` copies no sixel: the optimised buffer has none. -/
namespace IcyVerif.ColorOpt
open IcyVerif.Comp

/-- one `Sixel` together with the offset of the layer that owns it -/
structure SixelImg where
  lx : Int
  ly : Int
  px : Int
  py : Int
  w : Nat
  h : Nat
  data : List Nat
deriving Repr

/-- `pixels[off..off + src.len()].copy_from_slice(src)` (in range) -/
def writeAt (pixels : List Nat) (off : Nat) (src : List Nat) : List Nat :=
  pixels.take off ++ src ++ pixels.drop (off + src.length)

/-- the row loop from pixel row `y ≥ 0` on: `n` rows left, `k` = `sixel_line` -/
def sixelRows (lineBytes slb : Nat) (sxPx : Int) (data : List Nat) : Nat → Nat → Nat → List Nat → Option (List Nat)
  | 0, _, _, pixels => some pixels
  | n+1, y, k, pixels =>
    if sxPx < 0 then none
    else
      let off := y * lineBytes + sxPx.toNat * 4
      if off + slb > pixels.length then some pixels
      else if (k + 1) * slb > data.length then none
      else sixelRows lineBytes slb sxPx data n (y + 1) (k + 1) (writeAt pixels off ((data.drop (k * slb)).take slb))

/-- one sixel; `fw fh` = size of font 0, `lineBytes` = `px_width * 4` -/
def overlaySixel (fw fh lineBytes : Nat) (s : SixelImg) (pixels : List Nat) : Option (List Nat) :=
  let sx := s.lx + s.px
  let sy := s.ly + s.py
  if !(inI32 sx && inI32 sy) then none else
  let sxPx := sx * fw
  let syPix := sy * fh
  if !(inI32 sxPx && inI32 syPix && inI32 (syPix + s.h) && inI32 ((s.w : Int) * 4)) then none else
  let y0 := max syPix 0
  sixelRows lineBytes (s.w * 4) sxPx s.data (syPix + s.h - y0).toNat y0.toNat 0 pixels

/-- all sixels of all layers, in layer order -/
def overlaySixels (fw fh lineBytes : Nat) : List SixelImg → List Nat → Option (List Nat)
  | [], pixels => some pixels
  | s :: rest, pixels =>
    match overlaySixel fw fh lineBytes s pixels with
    | none => none
    | some p => overlaySixels fw fh lineBytes rest p

/-- `render_to_rgba(buf.get_rectangle()).1`: the text picture, then the sixels; `none` = panic -/
def renderFull (fonts : Nat → Option Font) (pal : Nat → Rgb) (w0 h0 : Nat) (cellAt : Int → Int → Cell) (W H : Nat)
    (sixels : List SixelImg) : Option (List Nat) :=
  let blocks := renderDoc fonts pal w0 h0 cellAt W H
  if hasPanic blocks then none else overlaySixels w0 h0 (W * w0 * 4) sixels (imageBytes blocks h0)

end IcyVerif.ColorOpt
