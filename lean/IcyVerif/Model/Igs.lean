import IcyVerif.Gen.Igs
/-! Executable model of the IGS lexer of `src/parsers/igs/mod.rs` (`Parser::print_char`, `get_next_action`,
`parse_next_number`) and of the stepping arithmetic of the `&` loop command (`Loop::new`, `Loop::next_step`).
What the executor does with a command (`CommandExecutor::execute_command`, the painting in `paint.rs`) and what the
ANSI fallback does with plain text is not part of the model: both are opaque outcomes.

Characters are code points, `i32` values are `Int`; the one `i32` operation of this code that can overflow in the
debug profile (`self.i += self.step` / `-=`) is explicit. -/
namespace IcyVerif.Igs

def i32Max : Int := 2147483647
def i32Min : Int := -2147483648

/-- `parse_next_number`: `x.saturating_mul(10).saturating_add(ch).saturating_sub('0')` -/
def sat (v : Int) : Int := if v > i32Max then i32Max else if v < i32Min then i32Min else v
def parseNextNumber (x : Int) (ch : Nat) : Int := sat (sat (sat (x * 10) + (ch : Int)) - 48)

/-- `IgsCommands::from_char` (index of the variant) -/
def fromChar (ch : Nat) : Option Nat :=
  match Gen.Igs.fromChar.find? (fun p => p.1 = ch) with
  | some (_, i) => some i
  | none => none

inductive IState where
  | dflt
  | gotIgsStart
  | readCommandStart
  | skipNewLine
  | readCommand (c : Nat)
  deriving Repr, DecidableEq

inductive LoopSt where
  | start
  | readCommand
  | readCount
  | readParameter
  deriving Repr, DecidableEq

structure Loop where
  i : Int
  from_ : Int
  to : Int
  step : Int
  delay : Int
  cmd : Nat
  str : List Nat
  params : List (List (List Nat))
  deriving Repr, DecidableEq

structure Igs where
  st : IState
  nums : List Int
  str : List Nat
  loopSt : LoopSt
  loopCmd : Nat
  loopParams : List (List (List Nat))
  dc : Bool
  cur : Option Loop
  deriving Repr, DecidableEq

def Igs.init : Igs := ⟨.dflt, [], [], .start, 32, [], false, none⟩

/-- what `print_char` / `get_next_action` answers -/
inductive Out where
  | noUpdate
  | update
  | err
  /-- result of `execute_command(cmd, params, string)` (not modelled) -/
  | exec (cmd : Nat) (params : List Int) (str : List Nat)
  /-- result of the ANSI fallback on these characters (not modelled) -/
  | fallback (chars : List Nat)
  deriving Repr

inductive StepRes where
  | ok (s : Igs) (o : Out)
  | panic (site : String)
  deriving Repr

-- ------------------------------------------------------------------------------------------------ the loop
/-- `is_running && step != 0` (as repaired: a loop with step 0 does not run) -/
def Loop.running (l : Loop) : Bool :=
  (if l.from_ < l.to then decide (l.i < l.to) else decide (l.i > l.to)) && decide (l.step ≠ 0)

/-- the value a loop parameter string stands for in the current iteration (`none`: the parameter is skipped) -/
def parseDec (s : List Nat) : Option Int :=
  -- `str::parse::<i32>`: optional sign, at least one digit, value within i32
  let (neg, ds) := match s with
    | 45 :: r => (true, r)
    | 43 :: r => (false, r)
    | r => (false, r)
  if ds.isEmpty ∨ !(ds.all fun c => decide (48 ≤ c ∧ c ≤ 57)) then none else
  let v : Int := ds.foldl (fun (a : Int) (c : Nat) => a * 10 + ((c : Int) - 48)) 0
  let v := if neg then -v else v
  if i32Min ≤ v ∧ v ≤ i32Max then some v else none

/-- `Loop::next_step` when the loop is running: parameters of this iteration, then `i += step` / `i -= step`.
`none` = overflow panic of that last operation.  (The arithmetic on the parameter values — `value += x`,
`x - value`, `(to - 1 - i).abs()` — belongs to the executor side and is covered by the oracle run only.) -/
def Loop.nextI (l : Loop) : Int := if l.from_ < l.to then l.i + l.step else l.i - l.step

def Loop.advance (l : Loop) : Option Loop :=
  if i32Min ≤ l.nextI ∧ l.nextI ≤ i32Max then some { l with i := l.nextI } else none

/-- `get_next_action` -/
def nextAction (s : Igs) : StepRes :=
  match s.cur with
  | none => .ok s .noUpdate
  | some l =>
    if l.running then
      match l.advance with
      | some l' => .ok { s with cur := some l' } (.exec l.cmd [] l.str)
      | none => .panic "Loop::next_step: i += step"
    else .ok { s with cur := none } .noUpdate

def paramCount (ps : List (List (List Nat))) : Int := ps.foldl (fun (a : Int) g => a + g.length) 0

/-- the loop `Loop::new` builds from the numbers read so far -/
def mkLoop (s : Igs) (c : Nat) : Loop :=
  ⟨s.nums.getD 0 0, s.nums.getD 0 0, s.nums.getD 1 0, s.nums.getD 2 0, s.nums.getD 3 0, c, s.str, s.loopParams⟩

/-- `Loop::new(...)?` followed by the first `next_step` (both the `,` and the `:` arm of `ReadParameter`) -/
def startLoop (s : Igs) : StepRes :=
  match fromChar s.loopCmd with
  | none => .ok { s with st := .readCommandStart } .err
  | some c =>
    if (mkLoop s c).running then
      if s.loopParams.isEmpty then .panic "Loop::next_step: % parameters.len()" else
      match (mkLoop s c).advance with
      | some l' => .ok { s with st := .readCommandStart, cur := some l' } (.exec c [] s.str)
      | none => .panic "Loop::next_step: i += step"
    else .ok { s with st := .readCommandStart } .update

def pushLast (ps : List (List (List Nat))) (f : List (List Nat) → List (List Nat)) : Option (List (List (List Nat))) :=
  match ps.getLast? with
  | none => none
  | some g => some (ps.dropLast ++ [f g])

/-- the `LoopCommand` sub-machine (entered once four numbers have been read) -/
def loopChar (s : Igs) (ch : Nat) : StepRes :=
  match s.loopSt with
  | .start => .ok (if ch = 44 then { s with loopSt := .readCommand } else s) .noUpdate
  | .readCommand =>
    if ch = 64 ∨ ch = 124 ∨ ch = 44 then .ok { s with loopSt := .readCount, nums := s.nums ++ [0], str := [] } .noUpdate
    else .ok { s with loopCmd := ch } .noUpdate
  | .readCount =>
    if 48 ≤ ch ∧ ch ≤ 57 then
      let d := s.nums.getLast?.getD 0
      .ok { s with nums := s.nums.dropLast ++ [parseNextNumber d ch] } .noUpdate
    else if ch = 44 then .ok { s with loopParams := [[[]]], dc := false, loopSt := .readParameter } .noUpdate
    else .ok { s with st := .dflt } .noUpdate
  | .readParameter =>
    if ch = 95 ∨ ch = 10 ∨ ch = 13 then .ok s .noUpdate
    else if ch = 44 ∨ ch = 58 then
      match s.nums[4]? with
      | none => .panic "print_char: parsed_numbers[4]"
      | some n4 =>
        if n4 ≤ paramCount s.loopParams then startLoop s
        else if ch = 44 then
          match pushLast s.loopParams (fun g => g ++ [[]]) with
          | some ps => .ok { s with loopParams := ps } .noUpdate
          | none => .panic "print_char: loop_parameters.last_mut().unwrap()"
        else .ok { s with loopParams := s.loopParams ++ [[[]]] } .noUpdate
    else
      match s.loopParams.getLast? with
      | none => .panic "print_char: loop_parameters.last_mut().unwrap()"
      | some g =>
        match g.getLast? with
        | none => .panic "print_char: last_mut().unwrap()"
        | some p => .ok { s with loopParams := s.loopParams.dropLast ++ [g.dropLast ++ [p ++ [ch]]] } .noUpdate

/-- `Parser::print_char` -/
def step (s : Igs) (ch : Nat) : StepRes :=
  match s.st with
  | .readCommand c =>
    if c = Gen.Igs.idxWriteText ∧ s.nums.length ≥ 3 then
      if ch = 64 then .ok { s with nums := [], st := .readCommandStart, str := [] } (.exec c s.nums s.str)
      else if ch = 10 then .ok { s with str := [], st := .readCommandStart } .noUpdate
      else .ok { s with str := s.str ++ [ch] } .noUpdate
    else if c = Gen.Igs.idxLoopCommand ∧ s.nums.length ≥ 4 then loopChar s ch
    else if ch = 32 ∨ ch = 62 ∨ ch = 13 then .ok s .noUpdate
    else if ch = 95 then .ok { s with dc := false } .noUpdate
    else if ch = 10 then .ok (if s.dc then { s with dc := false, st := .skipNewLine } else s) .noUpdate
    else if 48 ≤ ch ∧ ch ≤ 57 then
      let d := s.nums.getLast?.getD 0
      .ok { s with dc := false, nums := s.nums.dropLast ++ [parseNextNumber d ch] } .noUpdate
    else if ch = 44 then .ok { s with dc := false, nums := s.nums ++ [0] } .noUpdate
    else if ch = 58 then .ok { s with dc := true, nums := [], st := .readCommandStart } (.exec c s.nums s.str)
    else .ok { s with dc := false, st := .dflt } .noUpdate
  | .readCommandStart =>
    let s := { s with nums := [] }
    if ch = 13 then .ok s .noUpdate
    else if ch = 10 then .ok { s with st := .skipNewLine } .noUpdate
    else if ch = Gen.Igs.loopChar then .ok { s with st := .readCommand Gen.Igs.idxLoopCommand, loopSt := .start } .noUpdate
    else match fromChar ch with
      | some c => .ok { s with st := .readCommand c } .noUpdate
      | none => .ok { s with st := .dflt } .err
  | .gotIgsStart =>
    if ch = 35 then .ok { s with st := .readCommandStart } .noUpdate
    else .ok { s with st := .dflt } (.fallback [71, ch])
  | .skipNewLine =>
    if ch = 13 then .ok { s with st := .dflt } .noUpdate
    else if ch = 71 then .ok { s with st := .gotIgsStart } .noUpdate
    else .ok { s with st := .dflt } (.fallback [ch])
  | .dflt =>
    if ch = 71 then .ok { s with st := .gotIgsStart } .noUpdate
    else .ok s (.fallback [ch])

/-- `n` calls of `get_next_action`, stopping when no loop is active -/
def drain : Nat → Igs → StepRes
  | 0, s => .ok s .noUpdate
  | n + 1, s =>
    match s.cur with
    | none => .ok s .noUpdate
    | some _ =>
      match nextAction s with
      | .ok s' _ => drain n s'
      | .panic site => .panic site

end IcyVerif.Igs
