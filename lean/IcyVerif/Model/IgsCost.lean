import IcyVerif.Model.IgsCanvas
/-! The COST of the two-dimensional block operations of the IGS `DrawExecutor` (`fill_rect`, `blit_screen_to_screen`,
`blit_screen_to_memory`, `blit_memory_to_screen`), explicit: each loop of the model is repeated here with a counter
pair `(rounds, ops)` — `rounds` = loop bodies entered (inner loops, plus the outer rounds of `blit_memory_to_screen`,
whose inner loop can be left at once), `ops` = calls of `get_pixel` / `set_pixel` (what the hook counter
`VERIF_PIXEL_OPS` of the real code counts).  `Lemmas/IgsCost.lean` shows that erasing the counters gives back the
functions of `Model/IgsPaint.lean` and that the counters are the closed forms `rows * columns`.

`execCost` / `stepCost`: the cost of one `execute_command` / one character, for the commands made of these block
operations only (`none`: the command has no cost function — lines, ellipses, polygons, flood fill, text). -/
namespace IcyVerif.IgsPaint

abbrev Cost := Nat × Nat

-- ------------------------------------------------------------------------------------------------ fill_rect
def fillPixelC (p : Paint) (x y : Int) (k : Cost) : Res (Paint × Cost) :=
  if p.fillPattern.length = 0 then .panic else
  let w := p.fillPattern.getD (usize y % p.fillPattern.length) 0
  if Nat.land w (2 ^ (usize x % 16)) ≠ 0 then (setPixel p x y p.fillColor).bind fun p' => .ok (p', (k.1 + 1, k.2 + 1))
  else .ok (p, (k.1 + 1, k.2))

def fillRowC (y : Int) : Nat → Paint → Int → Cost → Res (Paint × Cost)
  | 0, p, _, k => .ok (p, k)
  | n + 1, p, x, k => (fillPixelC p x y k).bind fun r => fillRowC y n r.1 (x + 1) r.2

def fillRowsC (x0 : Int) (cols : Nat) : Nat → Paint → Int → Cost → Res (Paint × Cost)
  | 0, p, _, k => .ok (p, k)
  | n + 1, p, y, k => (fillRowC y cols p x0 k).bind fun r => fillRowsC x0 cols n r.1 (y + 1) r.2

def fillRectC (p : Paint) (x0 y0 x1 y1 : Int) : Res (Paint × Cost) :=
  let ya := max (min y0 y1) 0
  let yb := min (max y0 y1) (resH p - 1)
  let xa := max (min x0 x1) 0
  let xb := min (max x0 x1) (resW p - 1)
  fillRowsC xa (xb - xa + 1).toNat (yb - ya + 1).toNat p ya (0, 0)

-- ------------------------------------------------------------------------------------------------ screen to screen
def blitSSRowC (fx fy dx dy : Int) (y : Int) : Nat → Paint → Int → Cost → Res (Paint × Cost)
  | 0, p, _, k => .ok (p, k)
  | n + 1, p, x, k =>
    (chk (fx + x)).bind fun sx => (chk (fy + y)).bind fun sy => (getPixel p sx sy).bind fun c =>
    (chk (dx + x)).bind fun tx => (chk (dy + y)).bind fun ty => (setPixel p tx ty c).bind fun p' =>
    blitSSRowC fx fy dx dy y n p' (x + 1) (k.1 + 1, k.2 + 2)

def blitSSRowsC (fx fy dx dy : Int) (cols : Nat) : Nat → Paint → Int → Cost → Res (Paint × Cost)
  | 0, p, _, k => .ok (p, k)
  | n + 1, p, y, k => (blitSSRowC fx fy dx dy y cols p 0 k).bind fun r => blitSSRowsC fx fy dx dy cols n r.1 (y + 1) r.2

def blitScreenToScreenC (p : Paint) (fx fy tx ty dx dy : Int) : Res (Paint × Cost) :=
  (chk (tx - fx)).bind fun w0 => (chk (ty - fy)).bind fun h0 =>
  blitSSRowsC fx fy dx dy (min w0 (resW p)).toNat (min h0 (resH p)).toNat p 0 (0, 0)

-- ------------------------------------------------------------------------------------------------ screen to memory
def grabRowC (y : Int) : Nat → Paint → Int → Array Nat → Cost → Res (Array Nat × Cost)
  | 0, _, _, m, k => .ok (m, k)
  | n + 1, p, x, m, k => (getPixel p x y).bind fun c => grabRowC y n p (x + 1) (m.push c) (k.1 + 1, k.2 + 1)

def grabRowsC (fx : Int) (cols : Nat) : Nat → Paint → Int → Array Nat → Cost → Res (Array Nat × Cost)
  | 0, _, _, m, k => .ok (m, k)
  | n + 1, p, y, m, k => (grabRowC y cols p fx m k).bind fun r => grabRowsC fx cols n p (y + 1) r.1 r.2

def blitScreenToMemoryC (p : Paint) (fx fy tx ty : Int) : Res (Paint × Cost) :=
  (chk (tx - fx)).bind fun w0 => (chk (ty - fy)).bind fun h0 =>
  let width := min w0 (resW p)
  let height := min h0 (resH p)
  (chk (fy + height)).bind fun _ =>
  ((if height > 0 then chk (fx + width) else pure 0 : Res Int)).bind fun _ =>
  (grabRowsC fx width.toNat height.toNat p fy #[] (0, 0)).bind fun r =>
  .ok ({ p with mem := r.1, memSize := (width, height) }, r.2)

-- ------------------------------------------------------------------------------------------------ memory to screen
def blitMSRowC (fx dx dy yp width : Int) (y : Int) : Nat → Paint → Int → Cost → Res (Paint × Cost)
  | 0, p, _, k => .ok (p, k)
  | n + 1, p, x, k =>
    (chk (x + fx)).bind fun xp => (chk (dx + x)).bind fun tx =>
    if tx ≥ resW p then .ok (p, (k.1 + 1, k.2)) else
    let off := yp * width + xp
    (if 0 ≤ off ∧ off < (p.mem.size : Int) then
        (chk (dy + y)).bind fun ty => (setPixel p tx ty (p.mem.getD off.toNat 0)).bind fun p' => .ok (p', (k.1 + 1, k.2 + 1))
      else .ok (p, (k.1 + 1, k.2)) : Res (Paint × Cost)).bind fun r =>
    blitMSRowC fx dx dy yp width y n r.1 (x + 1) r.2

def blitMSRowsC (fx fy dx dy width : Int) (cols : Nat) : Nat → Paint → Int → Cost → Res (Paint × Cost)
  | 0, p, _, k => .ok (p, k)
  | n + 1, p, y, k =>
    (chk (y + fy)).bind fun yp => (chk (dy + y)).bind fun ty =>
    if ty ≥ resH p then .ok (p, (k.1 + 1, k.2)) else
    (blitMSRowC fx dx dy yp width y cols p 0 (k.1 + 1, k.2)).bind fun r =>
    blitMSRowsC fx fy dx dy width cols n r.1 (y + 1) r.2

def blitMemoryToScreenC (p : Paint) (fx fy tx ty dx dy : Int) : Res (Paint × Cost) :=
  (chk (tx - fx)).bind fun width => (chk (ty - fy)).bind fun height =>
  blitMSRowsC fx fy dx dy width width.toNat height.toNat p 0 (0, 0)

-- ------------------------------------------------------------------------------------------------ commands
/-- pixel accesses (`get_pixel` + `set_pixel` calls) of `execute_command(name, ps)` for the commands that consist of
block operations only; `some 0` for the commands that touch no pixel through these accessors; `none` otherwise (also
when the command panics) -/
def execCost (p : Paint) (name : String) (ps : List Int) : Option Nat :=
  let g (i : Nat) : Int := ps.getD i 0
  let ofRes (r : Res (Paint × Cost)) : Option Nat := match r with | .ok r => some r.2.2 | _ => none
  match exec p name ps with
  | .err _ => some 0  -- rejected by the argument validation: nothing is drawn
  | .panic | .stall | .unmodelled => none
  | .ok _ _ =>
    match name with
    | "FilledRectangle" => ofRes (fillRectC p (g 0) (g 1) (g 2) (g 3))
    | "Box" =>
      if p.drawBorder then none else
      ofRes (fillRectC p (min (g 0) (g 2)) (min (g 1) (g 3)) (max (g 0) (g 2)) (max (g 1) (g 3)))
    | "GrabScreen" =>
      if g 0 = 0 then ofRes (blitScreenToScreenC p (g 2) (g 3) (g 4) (g 5) (g 6) (g 7))
      else if g 0 = 1 then ofRes (blitScreenToMemoryC p (g 2) (g 3) (g 4) (g 5))
      else if g 0 = 2 then ofRes (blitMemoryToScreenC p 0 0 p.memSize.1 p.memSize.2 (g 2) (g 3))
      else if g 0 = 3 then ofRes (blitMemoryToScreenC p (g 2) (g 3) (g 4) (g 5) (g 6) (g 7))
      else none
    | "Initialize" | "ScreenClear" | "AskIG" | "Cursor" | "ColorSet" | "SetPenColor" | "HollowSet" | "Pieslice" | "EllipticalArc"
    | "QuickPause" | "AttributeForFills" | "TimeAPause" | "TextEffects" | "LineMarkerTypes" | "DrawingMode" | "SetResolution"
    | "VTColor" | "VTPosition" => some 0
    | _ => none

end IcyVerif.IgsPaint

namespace IcyVerif.IgsCanvas
open IcyVerif.Igs IcyVerif.IgsPaint

/-- pixel accesses of the command `print_char` executes at this character (`some 0`: no command is executed) -/
def stepCost (s : St) (ch : Nat) : Option Nat :=
  match Igs.step s.lex ch with
  | .panic _ => none
  | .ok _ (.exec c ps _) =>
    if inLoopMachine s.lex then
      match loopParams (mkLoop s.lex c) with
      | .ok params => execCost s.paint (Gen.Igs.commandNames.getD c "?") params
      | _ => none
    else execCost s.paint (Gen.Igs.commandNames.getD c "?") ps
  | .ok _ _ => some 0

end IcyVerif.IgsCanvas
